// Driver "session": runs real synchronization sessions (synchronization.Manager
// and its controller: archive load/save, executability propagation, safety
// checks, core.Reconcile, staging/transition orchestration, result folding) over
// in-memory journaling endpoints registered for Protocol_Local. The endpoints
// simulate a disk (a tree of entries, including untracked / problematic
// content), hand the controller whatever snapshot the script prescribes, apply
// requested transitions with scripted outcomes (exact / partial / failed) the
// way a correct endpoint would (only when Old matches what is there), and record
// everything the controller asked and was told. Verdicts are computed by
// spec/core/Session_Trace.tla from these records only.
package main

import (
	"context"
	"encoding/json"
	"fmt"
	"hash/fnv"
	"io"
	"math/rand"
	"os"
	"path/filepath"
	"strings"
	"sync"
	"syscall"
	"time"

	"github.com/mutagen-io/mutagen/pkg/encoding"
	"github.com/mutagen-io/mutagen/pkg/logging"
	"github.com/mutagen-io/mutagen/pkg/selection"
	"github.com/mutagen-io/mutagen/pkg/synchronization"
	"github.com/mutagen-io/mutagen/pkg/synchronization/core"
	"github.com/mutagen-io/mutagen/pkg/synchronization/rsync"
	urlpkg "github.com/mutagen-io/mutagen/pkg/url"

	"verif/harness/internal/vlib"
	"verif/harness/internal/vtree"
)

var modes = map[string]core.SynchronizationMode{
	"tws": core.SynchronizationMode_SynchronizationModeTwoWaySafe,
	"twr": core.SynchronizationMode_SynchronizationModeTwoWayResolved,
	"ows": core.SynchronizationMode_SynchronizationModeOneWaySafe,
	"owr": core.SynchronizationMode_SynchronizationModeOneWayReplica,
}
var modeNames = []string{"tws", "twr", "ows", "owr"}

// ---- scripted case ----------------------------------------------------------

type cycleScript struct {
	Alpha   any   `json:"alpha,omitempty"` // tree to put on alpha's disk before the cycle, or nil = keep
	Beta    any   `json:"beta,omitempty"`  // same for beta
	OutSeed int64 `json:"outSeed"`         // 0 = every transition succeeds exactly; otherwise seeds partial outcomes
	MutA    int64 `json:"mutA"`            // non-zero: mutate alpha's current disk with this seed (external edit)
	MutB    int64 `json:"mutB"`
}

type caseScript struct {
	Mode   string        `json:"mode"`
	PresA  bool          `json:"presA"`
	PresB  bool          `json:"presB"`
	Cycles []cycleScript `json:"cycles"`
}

// ---- fake endpoint ------------------------------------------------------------

type sessionCase struct {
	cid     int
	mu      sync.Mutex
	recs    []map[string]any
	script  caseScript
	inexact int
}

func (s *sessionCase) emit(r map[string]any) {
	r["cid"] = s.cid
	s.mu.Lock()
	s.recs = append(s.recs, r)
	s.mu.Unlock()
}

type fakeEP struct {
	cs      *sessionCase
	side    string
	pres    bool
	mu      sync.Mutex
	tree    *core.Entry
	outSeed int64 // 0 = exact outcomes
	scans   int
	transN  int
}

func stripExec(e *core.Entry) *core.Entry {
	if e == nil {
		return nil
	}
	cp := e.Copy(core.EntryCopyBehaviorDeep)
	var walk func(x *core.Entry)
	walk = func(x *core.Entry) {
		if x == nil {
			return
		}
		x.Executable = false
		for _, ch := range x.Contents {
			walk(ch)
		}
	}
	walk(cp)
	return cp
}

func counts(e *core.Entry) (d, f, l uint64) {
	if e == nil {
		return
	}
	switch e.Kind {
	case core.EntryKind_Directory:
		d++
		for _, ch := range e.Contents {
			a, b, c := counts(ch)
			d += a
			f += b
			l += c
		}
	case core.EntryKind_File:
		f++
	case core.EntryKind_SymbolicLink:
		l++
	}
	return
}

func (e *fakeEP) Poll(ctx context.Context) error { <-ctx.Done(); return nil }

func (e *fakeEP) Scan(ctx context.Context, ancestor *core.Entry, full bool) (*core.Snapshot, error, bool) {
	e.mu.Lock()
	defer e.mu.Unlock()
	e.scans++
	content := e.tree.Copy(core.EntryCopyBehaviorDeep)
	if !e.pres {
		content = stripExec(content)
	}
	d, f, l := counts(content)
	snap := &core.Snapshot{Content: content, PreservesExecutability: e.pres, Directories: d, Files: f, SymbolicLinks: l}
	e.cs.emit(map[string]any{"ev": "Scan", "side": e.side, "anc": vtree.Enc(ancestor), "snap": vtree.Enc(content), "pres": e.pres})
	return snap, nil, false
}

func (e *fakeEP) Stage(paths []string, digests [][]byte) ([]string, []*rsync.Signature, rsync.Receiver, error) {
	e.cs.emit(map[string]any{"ev": "Stage", "side": e.side, "n": len(paths)})
	return nil, nil, nil, nil
}

func (e *fakeEP) Supply(paths []string, signatures []*rsync.Signature, receiver rsync.Receiver) error {
	return fmt.Errorf("fake endpoint asked to supply")
}

func at(e *core.Entry, path string) *core.Entry {
	if path == "" {
		return e
	}
	for _, c := range strings.Split(path, "/") {
		if e == nil {
			return nil
		}
		e = e.Contents[c]
	}
	return e
}

// randPart draws a prefix-closed part of t (what a partially completed creation
// or removal leaves behind).
func randPart(r *rand.Rand, t *core.Entry) *core.Entry {
	if t == nil || r.Intn(4) == 0 {
		return nil
	}
	if t.Kind != core.EntryKind_Directory {
		return t
	}
	c := map[string]*core.Entry{}
	for _, n := range vtree.SortedNames(t) {
		if s := randPart(r, t.Contents[n]); s != nil {
			c[n] = s
		}
	}
	return vtree.Dir(c)
}

func (e *fakeEP) Transition(ctx context.Context, transitions []*core.Change) ([]*core.Entry, []*core.Problem, bool, error) {
	e.mu.Lock()
	defer e.mu.Unlock()
	e.transN++
	before := e.tree.Copy(core.EntryCopyBehaviorDeep)
	var results []*core.Entry
	var problems []*core.Problem
	var resEnc []any
	for _, t := range transitions {
		cur := at(e.tree, t.Path)
		var out *core.Entry
		// a correct endpoint acts only when what is there is exactly what the plan expects
		parentOK := true
		if t.Path != "" {
			p := t.Path
			if i := strings.LastIndex(p, "/"); i >= 0 {
				p = p[:i]
			} else {
				p = ""
			}
			pe := at(e.tree, p)
			parentOK = pe != nil && pe.Kind == core.EntryKind_Directory
		}
		if !cur.Equal(t.Old, true) || !parentOK {
			out = cur.Copy(core.EntryCopyBehaviorDeep)
			problems = append(problems, &core.Problem{Path: t.Path, Error: "content differs from expected"})
		} else if e.outSeed == 0 {
			out = t.New
		} else {
			// randomness keyed by path so that the (unordered) transition list order does not matter
			h := fnv.New64a()
			h.Write([]byte(t.Path))
			outRand := rand.New(rand.NewSource(e.outSeed ^ int64(h.Sum64()>>1)))
			switch outRand.Intn(6) {
			case 0:
				out = t.Old // nothing happened
				problems = append(problems, &core.Problem{Path: t.Path, Error: "injected failure"})
			case 1:
				if t.New == nil {
					out = randPart(outRand, t.Old) // partial removal
				} else if t.Old == nil || t.Old.Kind != core.EntryKind_Directory {
					out = randPart(outRand, t.New) // old gone, partial creation
				} else {
					out = randPart(outRand, t.Old)
				}
				problems = append(problems, &core.Problem{Path: t.Path, Error: "injected partial outcome"})
			case 2:
				if t.Old != nil && t.New != nil && t.Old.Kind != core.EntryKind_Directory {
					out = nil // removed, creation failed
				} else {
					out = randPart(outRand, t.New)
				}
				problems = append(problems, &core.Problem{Path: t.Path, Error: "injected partial outcome"})
			default:
				out = t.New
			}
		}
		// the simulated disk follows the outcome
		var err error
		e.tree, err = core.Apply(e.tree, []*core.Change{{Path: t.Path, New: out}})
		if err != nil {
			vlib.Fatal("fake disk apply: %v", err)
		}
		results = append(results, out)
		resEnc = append(resEnc, vtree.Enc(out))
	}
	if resEnc == nil {
		resEnc = []any{}
	}
	e.cs.emit(map[string]any{"ev": "Trans", "side": e.side, "trans": vtree.EncChanges(transitions), "results": resEnc,
		"before": vtree.Enc(before), "after": vtree.Enc(e.tree)})
	return results, problems, false, nil
}

func (e *fakeEP) Shutdown() error { return nil }

// ---- protocol handler ----------------------------------------------------------

type handler struct{}

var (
	regMu sync.Mutex
	reg   = map[string]*fakeEP{}
)

func (handler) Connect(ctx context.Context, logger *logging.Logger, url *urlpkg.URL, prompter string, session string,
	version synchronization.Version, configuration *synchronization.Configuration, alpha bool) (synchronization.Endpoint, error) {
	if !strings.HasPrefix(url.Path, "/vfake/") {
		return realHandler{}.Connect(ctx, logger, url, prompter, session, version, configuration, alpha)
	}
	regMu.Lock()
	defer regMu.Unlock()
	ep, ok := reg[url.Path]
	if !ok {
		return nil, fmt.Errorf("no fake endpoint for %s", url.Path)
	}
	want := "beta"
	if alpha {
		want = "alpha"
	}
	if ep.side != want {
		ep.cs.emit(map[string]any{"ev": "Misconnect", "side": ep.side, "asked": want})
	}
	return ep, nil
}

// ---- running one case ------------------------------------------------------------

func runCase(c *vlib.Ctx, m *synchronization.Manager, dataDir string, cid int, sc caseScript) []map[string]any {
	cs := &sessionCase{cid: cid, script: sc}
	a := &fakeEP{cs: cs, side: "alpha", pres: sc.PresA}
	b := &fakeEP{cs: cs, side: "beta", pres: sc.PresB}
	pa, pb := fmt.Sprintf("/vfake/%d/alpha", cid), fmt.Sprintf("/vfake/%d/beta", cid)
	regMu.Lock()
	reg[pa], reg[pb] = a, b
	regMu.Unlock()
	defer func() { regMu.Lock(); delete(reg, pa); delete(reg, pb); regMu.Unlock() }()
	cs.emit(map[string]any{"ev": "Begin", "begin": true, "in": vlib.ToMap(sc)})
	if len(sc.Cycles) > 0 {
		if sc.Cycles[0].Alpha != nil {
			a.tree = vtree.Dec(sc.Cycles[0].Alpha)
		}
		if sc.Cycles[0].Beta != nil {
			b.tree = vtree.Dec(sc.Cycles[0].Beta)
		}
	}
	conf := &synchronization.Configuration{SynchronizationMode: modes[sc.Mode], WatchMode: synchronization.WatchMode_WatchModeNoWatch}
	ctx, cancel := context.WithTimeout(context.Background(), 60*time.Second)
	defer cancel()
	id, err := m.Create(ctx,
		&urlpkg.URL{Kind: urlpkg.Kind_Synchronization, Protocol: urlpkg.Protocol_Local, Path: pa},
		&urlpkg.URL{Kind: urlpkg.Kind_Synchronization, Protocol: urlpkg.Protocol_Local, Path: pb},
		conf, &synchronization.Configuration{}, &synchronization.Configuration{}, "", nil, false, "")
	if err != nil {
		vlib.Fatal("create session: %v", err)
	}
	sel := selFor(id)
	defer m.Terminate(context.Background(), sel, "")
	waitWatching(m, sel)
	quiescent := false
	for k, cy := range sc.Cycles {
		edited := false
		if k > 0 {
			if cy.Alpha != nil {
				a.mu.Lock()
				a.tree = vtree.Dec(cy.Alpha)
				a.mu.Unlock()
				edited = true
			}
			if cy.Beta != nil {
				b.mu.Lock()
				b.tree = vtree.Dec(cy.Beta)
				b.mu.Unlock()
				edited = true
			}
		}
		if cy.MutA != 0 {
			a.mu.Lock()
			a.tree = rootDir(mutate(rand.New(rand.NewSource(cy.MutA)), a.tree, 3, true))
			a.mu.Unlock()
			edited = true
		}
		if cy.MutB != 0 {
			b.mu.Lock()
			b.tree = rootDir(mutate(rand.New(rand.NewSource(cy.MutB)), b.tree, 3, true))
			b.mu.Unlock()
			edited = true
		}
		a.outSeed, b.outSeed = cy.OutSeed, cy.OutSeed
		if cy.OutSeed != 0 {
			b.outSeed += 7919
		}
		a.mu.Lock()
		b.mu.Lock()
		cs.emit(map[string]any{"ev": "Edit", "alpha": vtree.Enc(a.tree), "beta": vtree.Enc(b.tree), "edited": edited, "quiescent": quiescent && !edited})
		a.mu.Unlock()
		b.mu.Unlock()
		saved := flushAndObserve(m, sel, dataDir, id)
		a.mu.Lock()
		b.mu.Lock()
		saved["alpha"] = vtree.Enc(a.tree)
		saved["beta"] = vtree.Enc(b.tree)
		a.mu.Unlock()
		b.mu.Unlock()
		saved["exact"] = cy.OutSeed == 0
		cs.emit(saved)
		var ferr error
		if saved["flushErr"] != "" {
			ferr = fmt.Errorf("%v", saved["flushErr"])
		}
		quiescent = cy.OutSeed == 0 && ferr == nil
		if ferr != nil {
			break
		}
	}
	return cs.recs
}

func selFor(id string) *selection.Selection {
	return &selection.Selection{Specifications: []string{id}}
}

// waitWatching waits until the run loop has connected and is able to synchronize (manual mode: it then waits for a flush).
func waitWatching(m *synchronization.Manager, sel *selection.Selection) {
	deadline := time.Now().Add(30 * time.Second)
	for time.Now().Before(deadline) {
		_, states, lerr := m.List(context.Background(), sel, 0)
		if lerr == nil && len(states) == 1 && states[0].Status == synchronization.Status_Watching {
			return
		}
		time.Sleep(time.Millisecond)
	}
}

// flushAndObserve forces one cycle and records the archive file, status and conflicts afterwards.
func flushAndObserve(m *synchronization.Manager, sel *selection.Selection, dataDir, id string) map[string]any {
	fctx, fcancel := context.WithTimeout(context.Background(), 60*time.Second)
	ferr := m.Flush(fctx, sel, "", false)
	fcancel()
	archive := &core.Archive{}
	aerr := encoding.LoadAndUnmarshalProtobuf(filepath.Join(dataDir, "archives", id), archive)
	_, states, lerr := m.List(context.Background(), sel, 0)
	status := "?"
	var roots []any
	var last string
	if lerr == nil && len(states) == 1 {
		status = states[0].Status.String()
		last = states[0].LastError
		for _, k := range states[0].Conflicts {
			roots = append(roots, vtree.Path(k.Root))
		}
		if states[0].ExcludedConflicts > 0 {
			status += "+truncated"
		}
	}
	if roots == nil {
		roots = []any{}
	}
	return map[string]any{"ev": "Saved", "archive": vtree.Enc(archive.Content), "archiveErr": errStr(aerr),
		"status": status, "lastError": last, "conflictRoots": roots, "flushErr": errStr(ferr)}
}

func errStr(err error) string {
	if err == nil {
		return ""
	}
	return err.Error()
}

// ---- case generation ----------------------------------------------------------------

var rnames = []string{"a", "b", "c", "d"}

func randLeaf(r *rand.Rand, unsync bool) *core.Entry {
	n := 7
	if unsync {
		n = 9
	}
	switch r.Intn(n) {
	case 0, 1, 2:
		return vtree.File(byte(1+r.Intn(3)), false)
	case 3:
		return vtree.File(byte(1+r.Intn(3)), true)
	case 4, 5:
		return vtree.Link(fmt.Sprintf("t%d", 1+r.Intn(2)))
	case 6:
		return vtree.Dir(nil)
	case 7:
		return vtree.Untracked()
	default:
		return vtree.Problem("boom")
	}
}

func randTree(r *rand.Rand, depth int, unsync bool) *core.Entry {
	if depth <= 0 || r.Intn(4) == 0 {
		return randLeaf(r, unsync)
	}
	c := map[string]*core.Entry{}
	for _, n := range rnames[:2+r.Intn(3)] {
		if r.Intn(3) != 0 {
			c[n] = randTree(r, depth-1, unsync)
		}
	}
	return vtree.Dir(c)
}

func mutate(r *rand.Rand, e *core.Entry, depth int, unsync bool) *core.Entry {
	if e == nil || e.Kind != core.EntryKind_Directory || r.Intn(6) == 0 {
		switch r.Intn(4) {
		case 0:
			return randTree(r, depth, unsync)
		default:
			return e.Copy(core.EntryCopyBehaviorDeep)
		}
	}
	out := map[string]*core.Entry{}
	for _, n := range vtree.SortedNames(e) {
		ch := e.Contents[n]
		switch r.Intn(7) {
		case 0:
		case 1:
			if m := mutate(r, ch, depth-1, unsync); m != nil {
				out[n] = m
			}
		case 2:
			out[n] = randLeaf(r, unsync)
		default:
			out[n] = ch.Copy(core.EntryCopyBehaviorDeep)
		}
	}
	if r.Intn(3) == 0 {
		out[rnames[r.Intn(len(rnames))]] = randTree(r, max(depth-1, 0), unsync)
	}
	return vtree.Dir(out)
}

func rootDir(e *core.Entry) *core.Entry {
	if e == nil || e.Kind != core.EntryKind_Directory || len(e.Contents) == 0 {
		return vtree.Dir(map[string]*core.Entry{"k": vtree.File(1, false), "l": vtree.File(2, false)})
	}
	return e
}

// genCase produces a random multi-cycle history. Roots are directories (root
// deletion / type change / emptying are the lifecycle family's subject and are
// avoided here so that the session keeps cycling).
func genCase(r *rand.Rand, prop string) caseScript {
	sc := caseScript{Mode: modeNames[r.Intn(4)], PresA: true, PresB: true}
	switch prop {
	case "C01":
		sc.Mode = "tws"
	case "C18":
		if r.Intn(2) == 0 {
			sc.PresA = false
		} else {
			sc.PresB = false
		}
	}
	depth := 1 + r.Intn(3)
	base := rootDir(randTree(r, depth, false))
	al := rootDir(mutate(r, base, depth, true))
	be := rootDir(mutate(r, base, depth, true))
	n := 2 + r.Intn(4)
	partial := prop == "C05" || r.Intn(3) == 0
	for k := 0; k < n; k++ {
		cy := cycleScript{}
		if k == 0 {
			cy.Alpha, cy.Beta = vtree.Enc(al), vtree.Enc(be)
		} else {
			switch r.Intn(6) {
			case 0: // quiescent cycle
			case 1:
				cy.MutA = 1 + r.Int63n(1<<40)
			case 2:
				cy.MutB = 1 + r.Int63n(1<<40)
			case 3: // wholesale replacement of one side by an unrelated tree
				al = rootDir(mutate(r, al, depth, true))
				cy.Alpha = vtree.Enc(al)
			default:
				cy.MutA = 1 + r.Int63n(1<<40)
				cy.MutB = 1 + r.Int63n(1<<40)
			}
		}
		if partial && r.Intn(2) == 0 {
			cy.OutSeed = 1 + r.Int63n(1<<40)
		}
		sc.Cycles = append(sc.Cycles, cy)
	}
	return sc
}

func newManager(c *vlib.Ctx) (*synchronization.Manager, string) {
	dataDir := c.TempDir("data")
	os.Setenv("MUTAGEN_DATA_DIRECTORY", dataDir)
	synchronization.ProtocolHandlers[urlpkg.Protocol_Local] = handler{}
	logger := logging.NewLogger(logging.LevelDisabled, io.Discard)
	m, err := synchronization.NewManager(logger)
	if err != nil {
		vlib.Fatal("manager: %v", err)
	}
	return m, dataDir
}

func emitAll(c *vlib.Ctx, recs []map[string]any) {
	nt := false
	for _, r := range recs {
		c.Emit(r)
		if r["ev"] == "Trans" {
			nt = true
		}
	}
	c.Eval()
	c.TraceDone()
	if nt {
		b, _ := json.Marshal(recs[0]["in"])
		c.NonTrivial(string(b))
	}
}

func run(c *vlib.Ctx) error {
	m, dataDir := newManager(c)
	defer m.Shutdown()
	n := 400
	if c.Thorough() {
		n = 6000
	}
	nreal := 40
	if c.Thorough() {
		nreal = 1500
	}
	for _, a := range c.Args {
		if strings.HasPrefix(a, "cases=") {
			fmt.Sscanf(a, "cases=%d", &n)
		}
		if strings.HasPrefix(a, "real=") {
			fmt.Sscanf(a, "real=%d", &nreal)
		}
	}
	realBase := c.TempDir("roots")
	// half of the real-disk sessions keep their roots on another device than the data directory
	// (staging then crosses devices and transitions take the copy-and-rename fallback)
	realBaseX := ""
	if fi, err := os.Stat("/dev/shm"); err == nil && fi.IsDir() {
		var a, b syscall.Stat_t
		if syscall.Stat("/dev/shm", &a) == nil && syscall.Stat(realBase, &b) == nil && a.Dev != b.Dev {
			if d, err := os.MkdirTemp("/dev/shm", "verif-session-"); err == nil {
				realBaseX = d
				defer rmTree(d)
			}
		}
	}
	crossDevice := 0
	// cases run in parallel sessions of the one manager; records of a case are emitted contiguously
	type job struct {
		cid  int
		sc   caseScript
		real *realScript
	}
	jobs := make(chan job)
	var wg sync.WaitGroup
	var emu sync.Mutex
	for w := 0; w < 8; w++ {
		wg.Add(1)
		go func() {
			defer wg.Done()
			for j := range jobs {
				var recs []map[string]any
				if j.real != nil {
					base := realBase
					if realBaseX != "" && j.cid%2 == 0 {
						base = realBaseX
						j.real.XDev = true
					}
					recs = runRealCase(m, dataDir, base, j.cid, *j.real)
				} else {
					recs = runCase(c, m, dataDir, j.cid, j.sc)
				}
				emu.Lock()
				emitAll(c, recs)
				if j.cid%97 == 1 {
					c.Sample(recs[:min(len(recs), 6)])
				}
				emu.Unlock()
			}
		}()
	}
	for i := 0; i < n; i++ {
		jobs <- job{cid: i + 1, sc: genCase(c.Rand, c.Prop)}
	}
	for i := 0; i < nreal; i++ {
		rs := genRealScript(c.Rand, c.Prop)
		jobs <- job{cid: n + i + 1, real: &rs}
	}
	close(jobs)
	wg.Wait()
	c.SetExtra("sessions", n)
	c.SetExtra("real_disk_sessions", nreal)
	if realBaseX != "" {
		crossDevice = nreal / 2
	}
	c.SetExtra("real_disk_sessions_cross_device", crossDevice)
	return nil
}

func replay(c *vlib.Ctx) error {
	doc := c.LoadReplay()
	begin := doc["begin"].(map[string]any)
	m, dataDir := newManager(c)
	defer m.Shutdown()
	if in, ok := begin["in"].(map[string]any); ok && in["real"] == true {
		var rs realScript
		vlib.Decode(begin["in"], &rs)
		base := c.TempDir("roots")
		if rs.XDev {
			if d, err := os.MkdirTemp("/dev/shm", "verif-session-replay-"); err == nil {
				base = d
				defer rmTree(d)
			}
		}
		emitAll(c, runRealCase(m, dataDir, base, 1, rs))
		return nil
	}
	var sc caseScript
	vlib.Decode(begin["in"], &sc)
	emitAll(c, runCase(c, m, dataDir, 1, sc))
	return nil
}

func main() { vlib.Main(run, replay) }
