package main

// Real-disk mode: the same Manager/controller, but the endpoints are the real
// local endpoints (pkg/synchronization/endpoint/local) on two real directories,
// wrapped by a journaling endpoint. Disk states are observed by an independent
// walker (os.Lstat / readlink / SHA-1; no mutagen code).

import (
	"context"
	"crypto/sha1"
	"encoding/hex"
	"fmt"
	"math/rand"
	"os"
	"path/filepath"
	"sort"
	"strings"
	"sync"
	"syscall"
	"time"

	"github.com/mutagen-io/mutagen/pkg/logging"
	"github.com/mutagen-io/mutagen/pkg/synchronization"
	"github.com/mutagen-io/mutagen/pkg/synchronization/core"
	"github.com/mutagen-io/mutagen/pkg/synchronization/endpoint/local"
	"github.com/mutagen-io/mutagen/pkg/synchronization/rsync"
	urlpkg "github.com/mutagen-io/mutagen/pkg/url"

	"verif/harness/internal/vtree"
)

// walk observes a directory tree. Paths with one of the anchored ignored prefixes
// are reported as untracked when view is "tracked"; raw reports what is there.
func walk(root string, rel string, ignored []string, tracked bool) map[string]any {
	full := filepath.Join(root, rel)
	fi, err := os.Lstat(full)
	if err != nil {
		return map[string]any{"k": "nil"}
	}
	if tracked {
		for _, ig := range ignored {
			if rel == ig || strings.HasPrefix(rel, ig+"/") {
				return map[string]any{"k": "untracked"}
			}
		}
	}
	switch {
	case fi.Mode()&os.ModeSymlink != 0:
		t, _ := os.Readlink(full)
		return map[string]any{"k": "link", "t": t}
	case fi.IsDir():
		c := map[string]any{}
		ents, _ := os.ReadDir(full)
		for _, e := range ents {
			if strings.HasPrefix(e.Name(), ".mutagen-temporary") {
				continue
			}
			c[e.Name()] = walk(root, filepath.Join(rel, e.Name()), ignored, tracked)
		}
		return map[string]any{"k": "dir", "c": c}
	case fi.Mode().IsRegular():
		b, err := os.ReadFile(full)
		if err != nil {
			return map[string]any{"k": "problem", "p": "unreadable"}
		}
		h := sha1.Sum(b)
		return map[string]any{"k": "file", "d": hex.EncodeToString(h[:]), "x": fi.Mode()&0o111 != 0}
	default:
		return map[string]any{"k": "untracked"}
	}
}

// journaling wrapper around a real endpoint
type realEP struct {
	inner   synchronization.Endpoint
	cs      *sessionCase
	side    string
	root    string
	ignored []string
}

func (e *realEP) Poll(ctx context.Context) error { return e.inner.Poll(ctx) }
func (e *realEP) Scan(ctx context.Context, ancestor *core.Entry, full bool) (*core.Snapshot, error, bool) {
	snap, err, again := e.inner.Scan(ctx, ancestor, full)
	if err == nil {
		e.cs.emit(map[string]any{"ev": "Scan", "side": e.side, "anc": vtree.Enc(ancestor), "snap": vtree.Enc(snap.Content), "pres": snap.PreservesExecutability})
	} else {
		e.cs.emit(map[string]any{"ev": "ScanError", "side": e.side, "err": err.Error()})
	}
	return snap, err, again
}
func (e *realEP) Stage(paths []string, digests [][]byte) ([]string, []*rsync.Signature, rsync.Receiver, error) {
	p, s, r, err := e.inner.Stage(paths, digests)
	e.cs.emit(map[string]any{"ev": "Stage", "side": e.side, "n": len(paths), "err": errStr(err)})
	return p, s, r, err
}
func (e *realEP) Supply(paths []string, signatures []*rsync.Signature, receiver rsync.Receiver) error {
	return e.inner.Supply(paths, signatures, receiver)
}
func (e *realEP) Transition(ctx context.Context, transitions []*core.Change) ([]*core.Entry, []*core.Problem, bool, error) {
	before := walk(e.root, "", nil, false)
	res, probs, missing, err := e.inner.Transition(ctx, transitions)
	after := walk(e.root, "", nil, false)
	var resEnc []any
	for _, r := range res {
		resEnc = append(resEnc, vtree.Enc(r))
	}
	if resEnc == nil {
		resEnc = []any{}
	}
	var ps []any
	for _, p := range probs {
		ps = append(ps, map[string]any{"path": vtree.Path(p.Path), "err": p.Error})
	}
	if ps == nil {
		ps = []any{}
	}
	if len(probs) > 0 || missing || err != nil {
		e.cs.mu.Lock()
		e.cs.inexact++
		e.cs.mu.Unlock()
	}
	if err != nil {
		e.cs.emit(map[string]any{"ev": "TransError", "side": e.side, "err": err.Error()})
	} else {
		e.cs.emit(map[string]any{"ev": "Trans", "side": e.side, "trans": vtree.EncChanges(transitions), "results": resEnc,
			"before": before, "after": after, "problems": ps, "missing": missing, "real": true})
	}
	return res, probs, missing, err
}
func (e *realEP) Shutdown() error { return e.inner.Shutdown() }

var (
	realMu  sync.Mutex
	realReg = map[string]*realCase{}
)

type realCase struct {
	cs      *sessionCase
	ignored []string
}

type realHandler struct{}

func (realHandler) Connect(ctx context.Context, logger *logging.Logger, url *urlpkg.URL, prompter string, session string,
	version synchronization.Version, configuration *synchronization.Configuration, alpha bool) (synchronization.Endpoint, error) {
	realMu.Lock()
	rc := realReg[filepath.Dir(url.Path)]
	realMu.Unlock()
	if rc == nil {
		return nil, fmt.Errorf("no real case for %s", url.Path)
	}
	inner, err := local.NewEndpoint(logger, url.Path, session, version, configuration, alpha)
	if err != nil {
		return nil, err
	}
	side := "beta"
	if alpha {
		side = "alpha"
	}
	if filepath.Base(url.Path) != side {
		rc.cs.emit(map[string]any{"ev": "Misconnect", "side": filepath.Base(url.Path), "asked": side})
	}
	return &realEP{inner: inner, cs: rc.cs, side: side, root: url.Path, ignored: rc.ignored}, nil
}

// ---- scripted external edits on a real root --------------------------------------

type editOp struct {
	Side string `json:"side"`
	Op   string `json:"op"` // write | rm | mkdir | link | chmod | fifo
	Path string `json:"path"`
	Arg  string `json:"arg,omitempty"` // content / target / "x" or "-"
}

type realScript struct {
	Mode    string     `json:"mode"`
	Ignored []string   `json:"ignored"`
	Cycles  [][]editOp `json:"cycles"`
	Real    bool       `json:"real"`
	XDev    bool       `json:"xdev"`    // roots on another device than the data directory (staging crosses devices)
	CapBeta int        `json:"capBeta"` // >0: beta's maximum entry count = entries on beta after the first edits + CapBeta - 1
}

var clock int64 = 1_600_000_000

func applyEdit(root string, op editOp) {
	full := filepath.Join(root, op.Path)
	switch op.Op {
	case "write":
		os.MkdirAll(filepath.Dir(full), 0o755)
		if fi, err := os.Lstat(full); err == nil && (fi.IsDir() || fi.Mode()&os.ModeSymlink != 0) {
			rmTree(full)
		}
		tmp := full + ".edit-tmp"
		os.WriteFile(tmp, []byte(op.Arg), 0o644)
		os.Rename(tmp, full) // new inode, new content, new size
		clock += 3
		t := time.Unix(clock, 0)
		os.Chtimes(full, t, t)
	case "rm":
		rmTree(full)
	case "mkdir":
		if fi, err := os.Lstat(full); err == nil && !fi.IsDir() {
			os.Remove(full)
		}
		os.MkdirAll(full, 0o755)
	case "link":
		os.MkdirAll(filepath.Dir(full), 0o755)
		rmTree(full)
		os.Symlink(op.Arg, full)
	case "chmod":
		if fi, err := os.Lstat(full); err == nil && fi.Mode().IsRegular() {
			if op.Arg == "x" {
				os.Chmod(full, 0o755)
			} else {
				os.Chmod(full, 0o644)
			}
		}
	case "fifo":
		os.MkdirAll(filepath.Dir(full), 0o755)
		rmTree(full)
		syscall.Mkfifo(full, 0o644)
	}
}

var realNames = []string{"a", "b", "c", "d", "sub", "build", "lib"}

func genRealScript(r *rand.Rand, prop string) realScript {
	sc := realScript{Mode: modeNames[r.Intn(4)], Real: true}
	if prop == "C01" {
		sc.Mode = "tws"
	}
	// anchored ignore patterns; "build" also occurs as a non-ignored name deeper in the tree
	sc.Ignored = []string{"build", "sub/cache"}
	counter := 0
	content := func() string {
		counter++
		return fmt.Sprintf("content-%d-%s", counter, strings.Repeat("x", counter%17))
	}
	randPath := func() string {
		d := 1 + r.Intn(3)
		var parts []string
		for i := 0; i < d; i++ {
			parts = append(parts, realNames[r.Intn(len(realNames))])
		}
		return strings.Join(parts, "/")
	}
	ncy := 2 + r.Intn(4)
	if r.Intn(4) == 0 || (prop == "C02" && r.Intn(2) == 0) {
		sc.CapBeta = 1 + r.Intn(4)
		if prop == "C02" && r.Intn(2) == 0 {
			sc.Mode = "twr"
		}
	}
	for k := 0; k < ncy; k++ {
		ops := []editOp{}
		if k == 0 {
			// both roots keep two permanent entries so that no safety halt (emptied root) is provoked
			for _, s := range []string{"alpha", "beta"} {
				ops = append(ops, editOp{Side: s, Op: "write", Path: "k1", Arg: "keep-one"}, editOp{Side: s, Op: "write", Path: "k2", Arg: "keep-two!"})
			}
		}
		n := r.Intn(7)
		if k == 0 {
			n += 3
		}
		for i := 0; i < n; i++ {
			side := []string{"alpha", "beta"}[r.Intn(2)]
			if sc.CapBeta > 0 && k > 0 {
				side = "alpha" // beta's own content must not outgrow its cap (its scans would then fail)
			}
			p := randPath()
			if sc.CapBeta > 0 && k > 0 && r.Intn(2) == 0 {
				// directories count against the cap at transition time but not at staging time
				ops = append(ops, editOp{Side: side, Op: "mkdir", Path: p + "/" + realNames[r.Intn(len(realNames))]})
				continue
			}
			switch r.Intn(12) {
			case 0, 1, 2, 3, 4:
				ops = append(ops, editOp{Side: side, Op: "write", Path: p, Arg: content()})
				if r.Intn(4) == 0 {
					ops = append(ops, editOp{Side: side, Op: "chmod", Path: p, Arg: "x"})
				}
			case 5:
				ops = append(ops, editOp{Side: side, Op: "rm", Path: p})
			case 6:
				ops = append(ops, editOp{Side: side, Op: "mkdir", Path: p})
			case 7:
				ops = append(ops, editOp{Side: side, Op: "link", Path: p, Arg: []string{"k1", "a", "k2", "sub/x"}[r.Intn(4)]})
			case 8:
				ops = append(ops, editOp{Side: side, Op: "chmod", Path: p, Arg: []string{"x", "-"}[r.Intn(2)]})
			case 9:
				ops = append(ops, editOp{Side: side, Op: "fifo", Path: p})
			case 10: // same edit on both sides
				if sc.CapBeta > 0 && k > 0 {
					continue
				}
				c := content()
				ops = append(ops, editOp{Side: "alpha", Op: "write", Path: p, Arg: c}, editOp{Side: "beta", Op: "write", Path: p, Arg: c})
			case 11: // content inside an ignored directory
				ops = append(ops, editOp{Side: side, Op: "write", Path: sc.Ignored[r.Intn(2)] + "/" + realNames[r.Intn(4)], Arg: content()})
			}
		}
		sc.Cycles = append(sc.Cycles, ops)
	}
	return sc
}

func runRealCase(m *synchronization.Manager, dataDir, base string, cid int, sc realScript) []map[string]any {
	cs := &sessionCase{cid: cid}
	dir := filepath.Join(base, fmt.Sprintf("r%d", cid))
	ra, rb := filepath.Join(dir, "alpha"), filepath.Join(dir, "beta")
	os.MkdirAll(ra, 0o755)
	os.MkdirAll(rb, 0o755)
	defer rmTree(dir)
	realMu.Lock()
	realReg[dir] = &realCase{cs: cs, ignored: sc.Ignored}
	realMu.Unlock()
	defer func() { realMu.Lock(); delete(realReg, dir); realMu.Unlock() }()
	in := map[string]any{"mode": sc.Mode, "presA": true, "presB": true, "real": true, "ignored": sc.Ignored, "cycles": sc.Cycles, "capBeta": sc.CapBeta, "xdev": sc.XDev}
	var ignSeqs []any
	for _, ig := range sc.Ignored {
		ignSeqs = append(ignSeqs, vtree.Path(ig))
	}
	cs.emit(map[string]any{"ev": "Begin", "begin": true, "in": in, "ign": ignSeqs})
	roots := map[string]string{"alpha": ra, "beta": rb}
	doEdits := func(ops []editOp) {
		for _, op := range ops {
			applyEdit(roots[op.Side], op)
		}
	}
	doEdits(sc.Cycles[0])
	var patterns []string
	for _, ig := range sc.Ignored {
		patterns = append(patterns, "/"+ig)
	}
	conf := &synchronization.Configuration{SynchronizationMode: modes[sc.Mode], WatchMode: synchronization.WatchMode_WatchModeNoWatch,
		Ignores: patterns}
	confBeta := &synchronization.Configuration{}
	if sc.CapBeta > 0 {
		confBeta.MaximumEntryCount = uint64(countNodes(walk(rb, "", nil, false)) + sc.CapBeta - 1)
	}
	ctx, cancel := context.WithTimeout(context.Background(), 60*time.Second)
	defer cancel()
	id, err := m.Create(ctx,
		&urlpkg.URL{Kind: urlpkg.Kind_Synchronization, Protocol: urlpkg.Protocol_Local, Path: ra},
		&urlpkg.URL{Kind: urlpkg.Kind_Synchronization, Protocol: urlpkg.Protocol_Local, Path: rb},
		conf, &synchronization.Configuration{}, confBeta, "", nil, false, "")
	if err != nil {
		cs.emit(map[string]any{"ev": "CreateError", "err": err.Error()})
		return cs.recs
	}
	sel := selFor(id)
	defer m.Terminate(context.Background(), sel, "")
	waitWatching(m, sel)
	quiescent := false
	for k, ops := range sc.Cycles {
		if k > 0 {
			doEdits(ops)
		}
		edited := k == 0 || len(ops) > 0
		cs.emit(map[string]any{"ev": "Edit", "alpha": walk(ra, "", sc.Ignored, true), "beta": walk(rb, "", sc.Ignored, true),
			"edited": edited, "quiescent": quiescent && !edited})
		saved := flushAndObserve(m, sel, dataDir, id)
		saved["alpha"] = walk(ra, "", sc.Ignored, true)
		saved["beta"] = walk(rb, "", sc.Ignored, true)
		cs.mu.Lock()
		saved["exact"] = cs.inexact == 0
		cs.inexact = 0
		cs.mu.Unlock()
		cs.emit(saved)
		quiescent = saved["flushErr"] == "" && saved["exact"] == true
		if saved["flushErr"] != "" {
			break
		}
	}
	return cs.recs
}

// rmTree removes a tree without ever opening a non-directory (os.RemoveAll may open(2) a FIFO and block).
func rmTree(p string) {
	fi, err := os.Lstat(p)
	if err != nil {
		return
	}
	if fi.IsDir() {
		ents, _ := os.ReadDir(p)
		for _, e := range ents {
			rmTree(filepath.Join(p, e.Name()))
		}
	}
	os.Remove(p)
}

func countNodes(t map[string]any) int {
	n := 1
	if c, ok := t["c"].(map[string]any); ok {
		for _, ch := range c {
			n += countNodes(ch.(map[string]any))
		}
	}
	return n
}

func sortedKeys(m map[string]any) []string {
	var ks []string
	for k := range m {
		ks = append(ks, k)
	}
	sort.Strings(ks)
	return ks
}
