---- MODULE BundleProps ----
(***************************************************************************)
(* C46 - agent bundle lookup (pkg/agent/bundle.go ExecutableForPlatform,    *)
(* pkg/filesystem/resources.go LibexecPath).                                *)
(*                                                                         *)
(* A layout is what the running executable finds around itself:            *)
(*   inbin : the executable's directory is called "bin" (then, and only     *)
(*           then, LibexecPath yields <dir>/../libexec as a second search   *)
(*           location);                                                     *)
(*   exe   : what sits under the bundle name in the executable's directory  *)
(*   lib   : what sits under the bundle name in the libexec directory       *)
(* A location is absent, a non-file (directory), or a bundle = a sequence   *)
(* of archive entries [n |-> platform name, b |-> content id, z |-> size];  *)
(* or something that is there but cannot be used: "dangling" (a symbolic    *)
(* link to nothing: opening it says "does not exist", so the search goes on *)
(* exactly as for absent), "loop" (a self-referential symbolic link: ELOOP),*)
(* "noperm" (a file the user may not read), "corrupt" (opens, but is not a  *)
(* gzip/tar stream).  Everything but absent/dangling HOLDS the location:    *)
(* the lookup uses it or fails naming it - it never falls through to a      *)
(* later location.                                                          *)
(* q is the requested platform name (goos "_" goarch).                      *)
(*                                                                         *)
(* This module holds the data vocabulary and the property operators; they   *)
(* are evaluated by TLC on the states of the lookup machine (Bundle.tla)    *)
(* and on the results the real code returned (Bundle_Trace.tla).            *)
(***************************************************************************)
EXTENDS Naturals, Sequences, FiniteSets

Absent == [k |-> "absent", e |-> <<>>]
NotFile == [k |-> "dir", e |-> <<>>]
Arch(es) == [k |-> "bundle", e |-> es]
Dangling == [k |-> "dangling", e |-> <<>>]
Loop == [k |-> "loop", e |-> <<>>]
NoPerm == [k |-> "noperm", e |-> <<>>]
Corrupt == [k |-> "corrupt", e |-> <<>>]
Kinds == {"absent", "dangling", "dir", "loop", "noperm", "corrupt", "bundle"}
\* os.Open reports "does not exist": the search loop continues
Missing(loc) == loc.k \in {"absent", "dangling"}

SearchPaths(inbin) == IF inbin THEN <<"exe", "lib">> ELSE <<"exe">>
LocAt(in, name) == IF name = "exe" THEN in.exe ELSE in.lib

\* index (into the search path) of the first location that is not absent; 0 if none
RECURSIVE FirstFrom(_, _, _)
FirstFrom(in, ps, i) ==
  IF i > Len(ps) THEN 0
  ELSE IF ~Missing(LocAt(in, ps[i])) THEN i ELSE FirstFrom(in, ps, i + 1)
FirstHolder(in) == FirstFrom(in, SearchPaths(in.inbin), 1)
Chosen(in) == LET h == FirstHolder(in) IN
              IF h = 0 THEN Absent ELSE LocAt(in, SearchPaths(in.inbin)[h])

Named(es, q) == {j \in DOMAIN es : es[j].n = q}

NoOut == [ok |-> FALSE, err |-> "", b |-> "", z |-> 0, exists |-> FALSE]
ErrOut(e) == [NoOut EXCEPT !.err = e]

(***************************************************************************)
(* The property, as operators over (input, observed result).  out.ok: a nil *)
(* error was returned; out.b/out.z: digest and size of the extracted file;  *)
(* out.exists: an output file exists after the call.                        *)
(***************************************************************************)
\* the first location holding a bundle is the one used, and it suffices
C46_SearchOrder(in, out) ==
  LET c == Chosen(in) IN
  /\ (out.ok => c.k = "bundle" /\ \E j \in DOMAIN c.e : c.e[j].b = out.b)
  /\ (c.k = "bundle" /\ Named(c.e, in.q) # {} => out.ok)
  /\ (c.k = "absent" => ~out.ok)
\* whatever holds the first location wins: bytes of a later location are never returned past it
C46_FirstHolderWins(in, out) ==
  LET ps == SearchPaths(in.inbin)  h == FirstHolder(in) IN
  (out.ok /\ h # 0) => \A i \in (h + 1)..Len(ps) : \A j \in DOMAIN LocAt(in, ps[i]).e : LocAt(in, ps[i]).e[j].b # out.b
\* the extracted agent is byte for byte the archive entry for the platform
C46_ExactBytes(in, out) ==
  LET c == Chosen(in) IN
  out.ok => /\ out.exists
            /\ \E j \in Named(c.e, in.q) : c.e[j].b = out.b /\ c.e[j].z = out.z
\* a platform the bundle has no entry for is rejected and nothing is produced
C46_UnknownRejected(in, out) ==
  LET c == Chosen(in) IN
  (c.k = "bundle" /\ Named(c.e, in.q) = {}) => ~out.ok /\ ~out.exists

\* what the model itself computes (conformance drift only, never a verdict)
Expected(in) ==
  LET c == Chosen(in) IN
  IF c.k = "absent" THEN ErrOut("locate")
  ELSE IF c.k = "dir" THEN ErrOut("notfile")
  ELSE IF c.k \in {"loop", "noperm"} THEN ErrOut("open")
  ELSE IF c.k = "corrupt" THEN ErrOut("gzip")
  ELSE IF Named(c.e, in.q) = {} THEN ErrOut("unsupported")
  ELSE LET j == CHOOSE x \in Named(c.e, in.q) : \A y \in Named(c.e, in.q) : x <= y IN
       [ok |-> TRUE, err |-> "", b |-> c.e[j].b, z |-> c.e[j].z, exists |-> TRUE]
====
