\* the refused path forgets to close the locker: expected to FAIL Inv_HolderOwns / Inv_Mutex / Inv_JournalSound
\* (refused, later acquires in the same process, a collection closes the leaked descriptor, the kernel
\* drops the lock, a second process gets it)
CONSTANTS Procs = {p1, p2}  None = none  MaxRounds = 2  MaxKills = 0  ClosesOnRefusal = FALSE
SPECIFICATION Spec
INVARIANTS Inv_Mutex
CHECK_DEADLOCK FALSE
