---- MODULE DaemonLifecycle ----
(***************************************************************************)
(* The daemon lifecycle machine: the lock table of DaemonLock.tla (fcntl    *)
(* write lock owned by a process, dropped by unlock, close and death) plus  *)
(* the IPC endpoint, one action per step of runMain and of its deferred     *)
(* calls in the order they run:                                             *)
(*   Open, TryLock (fails -> GiveUp), RemoveEndpoint (os.Remove of whatever *)
(*   socket file is there), Listen (ipc.NewListener), Terminate (signal or  *)
(*   Terminate request), CloseListener (closing a Unix listener unlinks its *)
(*   socket file), Unlock, Close.  Kill may strike anywhere: the lock goes, *)
(*   the socket file stays.                                                 *)
(* RemoveUnderLock = TRUE is the code (the endpoint is cleared only by the  *)
(* lock holder).  FALSE clears it before the lock attempt: a second daemon  *)
(* that is about to be refused would unlink the live daemon's socket        *)
(* (DaemonLifecycle_MC_early.cfg, expected to FAIL Inv_NoClobber).          *)
(* The abstract observer state of DaemonLifecycleProps runs along (a, bad): *)
(* every event the machine produces is one the observer rules accept.       *)
(***************************************************************************)
EXTENDS DaemonLifecycleProps

CONSTANTS Procs, MaxKills, RemoveUnderLock
VARIABLES pc, owner, sockFile, listening, kills, clobbered, a, bad
vars == <<pc, owner, sockFile, listening, kills, clobbered, a, bad>>

Alive(p) == pc[p] \notin {"exited", "dead"}
Ev(e) == /\ bad' = (bad \/ ~LOk(a, e)) /\ a' = LStep(a, e)
NoEv == UNCHANGED <<a, bad>>
Drop(p) == IF owner = p THEN None ELSE owner

Init == /\ pc = [p \in Procs |-> "idle"] /\ owner = None /\ sockFile = None
        /\ listening = [p \in Procs |-> FALSE] /\ kills = 0 /\ clobbered = FALSE /\ a = A0 /\ bad = FALSE

\* os.Remove(endpoint): unlinks whatever is there
Unlink(p) == /\ clobbered' = (clobbered \/ (sockFile # None /\ sockFile # p /\ listening[sockFile]))
             /\ sockFile' = None

EarlyRemove(p) == /\ ~RemoveUnderLock /\ pc[p] = "idle" /\ pc' = [pc EXCEPT ![p] = "precleared"]
                  /\ Unlink(p) /\ UNCHANGED <<owner, listening, kills>> /\ NoEv
Open(p) == /\ pc[p] = (IF RemoveUnderLock THEN "idle" ELSE "precleared") /\ pc' = [pc EXCEPT ![p] = "opened"]
           /\ UNCHANGED <<owner, sockFile, listening, kills, clobbered>> /\ NoEv
TryLock(p) == /\ pc[p] = "opened"
              /\ IF owner = None THEN owner' = p /\ pc' = [pc EXCEPT ![p] = "locked"] /\ NoEv
                 ELSE owner' = owner /\ pc' = [pc EXCEPT ![p] = "failed"] /\ Ev([what |-> "refused", who |-> p])
              /\ UNCHANGED <<sockFile, listening, kills, clobbered>>
\* "unable to acquire daemon lock": locker.Close, exit
GiveUp(p) == /\ pc[p] = "failed" /\ pc' = [pc EXCEPT ![p] = "exited"] /\ owner' = Drop(p)
             /\ UNCHANGED <<sockFile, listening, kills, clobbered>> /\ NoEv
RemoveEndpoint(p) == /\ pc[p] = "locked" /\ pc' = [pc EXCEPT ![p] = "cleared"]
                     /\ (IF RemoveUnderLock THEN Unlink(p) ELSE UNCHANGED <<sockFile, clobbered>>)
                     /\ UNCHANGED <<owner, listening, kills>> /\ NoEv
\* ipc.NewListener: fails if the path exists
Listen(p) == /\ pc[p] = "cleared"
             /\ IF sockFile = None
                THEN /\ sockFile' = p /\ listening' = [listening EXCEPT ![p] = TRUE]
                     /\ pc' = [pc EXCEPT ![p] = "serving"] /\ Ev([what |-> "up", who |-> p])
                ELSE /\ pc' = [pc EXCEPT ![p] = "closed"] /\ UNCHANGED <<sockFile, listening>> /\ NoEv
             /\ UNCHANGED <<owner, kills, clobbered>>
Terminate(p) == /\ pc[p] = "serving" /\ pc' = [pc EXCEPT ![p] = "stopping"]
                /\ UNCHANGED <<owner, sockFile, listening, kills, clobbered>> /\ NoEv
\* deferred listener.Close(): unlinks the socket file it created
CloseListener(p) == /\ pc[p] = "stopping" /\ pc' = [pc EXCEPT ![p] = "closed"]
                    /\ listening' = [listening EXCEPT ![p] = FALSE]
                    /\ sockFile' = (IF sockFile = p THEN None ELSE sockFile)
                    /\ Ev([what |-> "term", who |-> p])
                    /\ UNCHANGED <<owner, kills, clobbered>>
\* deferred lock.Release(): Unlock then Close
Unlock(p) == /\ pc[p] = "closed" /\ pc' = [pc EXCEPT ![p] = "unlocked"] /\ owner' = Drop(p)
             /\ UNCHANGED <<sockFile, listening, kills, clobbered>> /\ NoEv
Close(p) == /\ pc[p] = "unlocked" /\ pc' = [pc EXCEPT ![p] = "exited"] /\ owner' = Drop(p)
            /\ UNCHANGED <<sockFile, listening, kills, clobbered>> /\ NoEv
Kill(p) == /\ Alive(p) /\ pc[p] # "idle" /\ kills < MaxKills
           /\ pc' = [pc EXCEPT ![p] = "dead"] /\ owner' = Drop(p)
           /\ listening' = [listening EXCEPT ![p] = FALSE] /\ kills' = kills + 1
           /\ (IF a.holder = p THEN Ev([what |-> "kill", who |-> p]) ELSE NoEv)
           /\ UNCHANGED <<sockFile, clobbered>>

Step(p) == EarlyRemove(p) \/ Open(p) \/ TryLock(p) \/ GiveUp(p) \/ RemoveEndpoint(p) \/ Listen(p)
           \/ Terminate(p) \/ CloseListener(p) \/ Unlock(p) \/ Close(p)
Next == \E p \in Procs : Step(p) \/ Kill(p)
Spec == Init /\ [][Next]_vars
FairSpec == Spec /\ \A p \in Procs : WF_vars(Step(p))

Holding == {p \in Procs : pc[p] \in {"locked", "cleared", "serving", "stopping", "closed"}}
Inv_Mutex == Cardinality(Holding) <= 1
\* nobody unlinks the socket of a daemon that is up
Inv_NoClobber == ~clobbered
\* a live endpoint always belongs to the lock holder, and a serving daemon is reachable by the path
Inv_EndpointIsHolders == (sockFile # None /\ listening[sockFile]) => owner = sockFile
Inv_ServingReachable == \A p \in Procs : pc[p] = "serving" => sockFile = p
\* the observer rules accept everything the machine does, and the observer's view is right
Inv_ObserverSound == ~bad
\* (between a new holder's RemoveEndpoint and its Listen the observer still believes in the stale file)
Inv_ObserverView == /\ (a.holder # None => pc[a.holder] \in {"serving", "stopping"})
                    /\ (sockFile # None => a.sock = sockFile)
\* a stale socket never keeps a daemon that got the lock from coming up
ComesUp == \A p \in Procs : [](pc[p] = "locked" => <>(pc[p] \in {"serving", "dead"}))
====
