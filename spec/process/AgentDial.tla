---- MODULE AgentDial ----
(***************************************************************************)
(* The dial machine: the dialer state s of AgentDialProps driven by an      *)
(* environment that answers every command with any class it may.  One named *)
(* action per call site of the code.                                        *)
(***************************************************************************)
EXTENDS AgentDialProps, TLC, Json

CONSTANT DoExport
VARIABLES s, log
vars == <<s, log>>

Init == s = S0 /\ log = <<>>
Answer(pc) == /\ s.pc = pc
              /\ \E a \in Answers(Cmd(s)) :
                   /\ log' = Append(log, [cmd |-> Cmd(s), ans |-> a])
                   /\ s' = Delta(s, a)
ConnectPosix == Answer("connect1")        \* Dial: connect(..., cmdExe = false)
ConnectCmdExe == Answer("connect2")       \* Dial: re-attempt under the cmd.exe hypothesis
ProbePosix == Answer("uname")             \* install: probePOSIX
ProbeWindows == Answer("cmdset")          \* install: probeWindows
Copy == Answer("copy")                    \* install: ExecutableForPlatform + transport.Copy
InvokeInstall == Answer("install")        \* install: run(transport, "<name> install")
Redial == Answer("redial")                \* Dial: connect(..., cmdExe) after the installation
Next == ConnectPosix \/ ConnectCmdExe \/ ProbePosix \/ ProbeWindows \/ Copy \/ InvokeInstall \/ Redial
Spec == Init /\ [][Next]_vars
FairSpec == Spec /\ WF_vars(Next)

Inv_AtMostOneInstall == AtMostOneInstall(log)
Inv_InstallOnlyWhenMissing == InstallOnlyWhenMissing(log) /\ NeverAfterVersionMismatch(log)
\* every failed attempt's stream has been closed: nothing is left but the stream Dial returns
Inv_StreamsClosed == s.live = (IF s.pc = "done" /\ s.ok THEN 1 ELSE 0)
Inv_Conforms == s.pc = "done" => Conforms(log, s.ok)
Inv_Bounded == Len(log) <= 8
Terminates == <>(s.pc = "done")
Export == (DoExport /\ s.pc = "done") => PrintT(<<"BEHAVIOUR", ToJson([m |-> "dial", steps |-> log, ok |-> s.ok])>>)
====
