CONSTANT Want = {"C27_TargetIntact", "C27_NoStray", "C27_FailKeepsOld", "C27_SuccessNew"}
SPECIFICATION TSpec
CHECK_DEADLOCK FALSE
