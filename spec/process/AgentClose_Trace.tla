---- MODULE AgentClose_Trace ----
(***************************************************************************)
(* Trace validation for C35.  Every record is one real transport.Stream     *)
(* around a fake agent process (the harness executable re-executed with one *)
(* of the behaviours), closed with the real Stream.Close:                   *)
(*   in  = behaviour, its delay, the termination delay set on the stream,   *)
(*         the descendant the agent started first (none | inherit | own |   *)
(*         dies, see AgentClose.tla) and whether NewStream got a standard   *)
(*         error receiver;                                                  *)
(*   out = returned (Close came back within the watchdog of r.in.watchdog   *)
(*         ms, far above the worst legitimate latency of delay + 2 s),      *)
(*         latency in ms, alive (the pid still exists after the return /    *)
(*         after the watchdog; the AGENT's pid - a descendant may           *)
(*         legitimately survive, childalive is informational), what the     *)
(*         agent saw (end of input, SIGTERM).                               *)
(* Cases with in.write # "none": the agent never reads its standard input  *)
(* and one or two goroutines push more than the pipe holds through          *)
(* Stream.Write (one 1 MiB Write / many 8 KiB Writes / both) until they are *)
(* parked (stuck: the byte counter stopped growing and nobody came back -   *)
(* a gate, not a verdict); Close is then called from another goroutine, and *)
(* once more after it returned.  wreturned / werr: every writer came back,  *)
(* with an error, within seconds of Close's return.                         *)
(* Only the unambiguous facts are verdicts; latency outside the window  *)
(* the escalation model predicts is counted as drift.                       *)
(***************************************************************************)
EXTENDS AgentCloseProps, AgentDialProps, TraceKit

CONSTANT Want
VARIABLES l, fails, drift, escalated, held, dials, dialdrift, done
tvars == <<l, fails, drift, escalated, held, dials, dialdrift, done>>

WellFormed(r) == /\ Has(r, "ev") /\ r.ev = "AgentClose" /\ Has(r, "in") /\ Has(r, "out")
                 /\ r.out.returned \in BOOLEAN /\ r.out.alive \in BOOLEAN /\ r.out.ms \in Nat
                 /\ r.in.child \in {"none", "inherit", "own", "dies"} /\ r.in.recv \in BOOLEAN
                 /\ r.in.write \in {"none", "big", "many", "two"}
\* growth: a real agent.Dial against a scripted transport (see AgentDialProps).  connect() closes the
\* stream of every failed attempt, so when Dial has returned (and the caller has closed a returned
\* stream) no process it started may be left: Stream.Close's guarantee seen through the dialer.
IsDial(r) == Has(r, "ev") /\ r.ev = "Dial" /\ Has(r, "in") /\ Has(r, "out")
DialFails(i, r) ==
     Chk(Want, i, "C35_Returns", C35_Returns([returned |-> r.out.returned, alive |-> r.out.alive > 0]))
  \o Chk(Want, i, "C35_Exited", C35_Exited([returned |-> r.out.returned, alive |-> r.out.alive > 0]))
DialDrift(r) == ~(r.out.returned /\ ~r.out.offscript /\ Conforms(r.out.steps, r.out.ok) /\ r.out.steps = r.in.steps)

RecFails(i, r) ==
  IF IsDial(r) THEN DialFails(i, r)
  ELSE IF ~WellFormed(r) THEN <<Fail(i, "TraceAccepted")>>
  ELSE Chk(Want, i, "C35_Returns", C35_Returns(r.out) /\ (r.in.write # "none" => r.out.close2))   \* also when called twice
    \o Chk(Want, i, "C35_Exited", C35_Exited(r.out))
    \o Chk(Want, i, "C35_WriteUnblocked", C35_WriteUnblocked(r.out))

\* latency the escalation predicts (ms), lower bound; upper bound adds generous scheduling slack
Earliest(in) ==
  CASE in.kind = "self" -> IF in.delay <= in.td THEN in.delay
                            ELSE IF in.delay <= in.td + 1000 THEN in.delay
                            ELSE IF in.delay <= in.td + 2000 THEN in.delay ELSE in.td + 2000
    [] in.kind = "eof" -> IF in.delay <= 1000 THEN in.td + in.delay
                          ELSE IF in.delay <= 2000 THEN in.td + in.delay ELSE in.td + 2000
    [] in.kind = "term" -> IF in.delay <= 1000 THEN in.td + 1000 + in.delay ELSE in.td + 2000
    [] OTHER -> in.td + 2000
Drift(r) == WellFormed(r) /\ r.out.returned /\ (r.out.ms + 50 < Earliest(r.in) \/ r.out.ms > Earliest(r.in) + 3000)

\* cases in which a surviving descendant holds the standard error pipe when Close is called
Held(r) == WellFormed(r) /\ r.in.recv /\ r.in.child = "inherit"
TInit == l = 1 /\ fails = <<>> /\ drift = 0 /\ escalated = 0 /\ held = 0 /\ dials = 0 /\ dialdrift = 0 /\ done = FALSE
Step == /\ l <= NRec
        /\ LET r == Trace[l] IN
           /\ fails' = Cap(fails \o RecFails(l, r))
           /\ drift' = drift + (IF Drift(r) THEN 1 ELSE 0)
           /\ escalated' = escalated + (IF WellFormed(r) /\ r.out.sawterm THEN 1 ELSE 0)
           /\ held' = held + (IF Held(r) THEN 1 ELSE 0)
           /\ dials' = dials + (IF IsDial(r) THEN 1 ELSE 0)
           /\ dialdrift' = dialdrift + (IF IsDial(r) /\ DialDrift(r) THEN 1 ELSE 0)
        /\ l' = l + 1 /\ UNCHANGED done
Finish == /\ l = NRec + 1 /\ ~done
          /\ WriteResult(l - 1, fails, [stat_latency_drift |-> drift, stat_saw_sigterm |-> escalated, stat_descendant_holds_stderr |-> held, stat_dials |-> dials, stat_dial_drift |-> dialdrift])
          /\ done' = TRUE /\ UNCHANGED <<l, fails, drift, escalated, held, dials, dialdrift>>
TNext == Step \/ Finish
TSpec == TInit /\ [][TNext]_tvars
====
