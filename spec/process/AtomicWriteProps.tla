---- MODULE AtomicWriteProps ----
(***************************************************************************)
(* C27 - atomic replacement of session / archive / cache files              *)
(* (pkg/filesystem/atomic.go WriteFileAtomic, pkg/encoding/common.go).      *)
(*                                                                         *)
(* Vocabulary shared by the write machine (AtomicWrite.tla) and the trace   *)
(* module (AtomicWrite_Trace.tla).  A directory is a set of entries         *)
(*   [nc |-> name as a sequence of characters, k |-> "file" | "dir" | ...,  *)
(*    b |-> content digest, z |-> size, m |-> permission bits].             *)
(* A content descriptor is [k, b, z]; k = "absent" stands for "no entry".   *)
(***************************************************************************)
EXTENDS Naturals, Sequences, FiniteSets

\* filesystem.TemporaryNamePrefix: names with this prefix are ignored by scans
TempPrefix == <<".", "m", "u", "t", "a", "g", "e", "n", "-", "t", "e", "m", "p", "o", "r", "a", "r", "y", "-">>
HasTempPrefix(nc) == Len(nc) >= Len(TempPrefix) /\ SubSeq(nc, 1, Len(TempPrefix)) = TempPrefix

AbsentC == [k |-> "absent", b |-> "", z |-> 0]
Named(dir, tn) == {e \in dir : e.nc = tn}
Same(e, c) == e.k = c.k /\ e.b = c.b /\ e.z = c.z
TargetIs(dir, tn, c) ==
  IF c.k = "absent" THEN Named(dir, tn) = {}
  ELSE Cardinality(Named(dir, tn)) = 1 /\ \A e \in Named(dir, tn) : Same(e, c)
Temps(dir) == {e \in dir : HasTempPrefix(e.nc)}

(***************************************************************************)
(* The property.  dir: the directory of the target as it is (in a model     *)
(* state / as listed by the parent process after the child has returned or  *)
(* died); tn: the target's name; old/new: content before / content being    *)
(* written; pre: the other entries present before the call; elsewhere: what *)
(* lies in the other places a temporary file might be put (TMPDIR, cwd).    *)
(***************************************************************************)
\* at every moment - hence after a crash at any point - the target is whole: old or new
C27_TargetIntact(dir, tn, old, new) == TargetIs(dir, tn, old) \/ TargetIs(dir, tn, new)
\* whatever else appears carries the temporary prefix; what was there before is untouched
C27_NoStray(dir, tn, pre, elsewhere) ==
  /\ \A e \in dir : e.nc = tn \/ e \in pre \/ HasTempPrefix(e.nc)
  /\ pre \subseteq dir
  /\ \A e \in elsewhere : HasTempPrefix(e.nc)
\* a write that reports failure has not touched the target
C27_FailKeepsOld(dir, tn, old, failed) == failed => TargetIs(dir, tn, old)
\* a write that reports success has installed the new content with the requested mode
C27_SuccessNew(dir, tn, new, perm, succeeded) ==
  succeeded => TargetIs(dir, tn, new) /\ \A e \in Named(dir, tn) : e.m = perm
====
