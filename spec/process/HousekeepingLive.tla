---- MODULE HousekeepingLive ----
(***************************************************************************)
(* Growth beyond the listed properties: housekeeping while the data         *)
(* directory is in use.  One artifact (a staging root or an agent           *)
(* installation) with a user next to the housekeeper:                       *)
(*   Touch   the user does something that refreshes the timestamp           *)
(*           housekeeping looks at (creates a new prefix directory in the   *)
(*           staging root -> root mtime; executes the agent binary -> its   *)
(*           atime)                                                         *)
(*   Work    the user works inside without refreshing that timestamp        *)
(*           (writes into an existing prefix directory; a long-running      *)
(*           agent process keeps running)                                   *)
(* and the housekeeper's loop iteration split as the code performs it:      *)
(*   Stat    os.Stat / extstat: decides stale or not                        *)
(*   Remove  os.RemoveAll, some time later, if Stat said stale              *)
(* The code's own comment (housekeepStaging) accepts the window between the *)
(* two.  What C43 states survives concurrency in this form: whatever is     *)
(* removed was stale when it was looked at, and an artifact whose timestamp *)
(* was refreshed before the housekeeper looked at it is kept, however busy  *)
(* its user is.  Inv_NeverFreshAtRemoval is NOT an invariant of the code    *)
(* (HousekeepingLive_MC_toctou.cfg, expected to FAIL): a Touch between Stat *)
(* and Remove loses against the removal.                                    *)
(***************************************************************************)
EXTENDS Naturals, Sequences, FiniteSets
CONSTANT InitiallyFresh    \* set of BOOLEAN: the timestamp is recent at the start
VARIABLES fresh, present, hk, sawStale, touchedBeforeStat, workFailed, budget
vars == <<fresh, present, hk, sawStale, touchedBeforeStat, workFailed, budget>>

Init == /\ fresh \in InitiallyFresh /\ present = TRUE /\ hk = "idle" /\ sawStale = FALSE
        /\ touchedBeforeStat = FALSE /\ workFailed = FALSE /\ budget = 3
Touch == /\ budget > 0 /\ budget' = budget - 1
         /\ IF present THEN fresh' = TRUE /\ workFailed' = workFailed
                       ELSE fresh' = fresh /\ workFailed' = TRUE      \* the root is gone: the user notices an error
         /\ touchedBeforeStat' = (touchedBeforeStat \/ (hk = "idle" /\ present))
         /\ UNCHANGED <<present, hk, sawStale>>
Work == /\ budget > 0 /\ budget' = budget - 1
        /\ workFailed' = (workFailed \/ ~present)
        /\ UNCHANGED <<fresh, present, hk, sawStale, touchedBeforeStat>>
Stat == /\ hk = "idle" /\ hk' = "decided" /\ sawStale' = ~fresh
        /\ UNCHANGED <<fresh, present, touchedBeforeStat, workFailed, budget>>
Remove == /\ hk = "decided" /\ hk' = "done"
          /\ present' = (present /\ ~sawStale)
          /\ UNCHANGED <<fresh, sawStale, touchedBeforeStat, workFailed, budget>>
Next == Touch \/ Work \/ Stat \/ Remove
Spec == Init /\ [][Next]_vars
FairSpec == Spec /\ WF_vars(Stat) /\ WF_vars(Remove)

\* C43 under concurrency
Inv_RemovedWasStale == ~present => sawStale
Inv_RefreshedBeforeKept == touchedBeforeStat => present
Inv_FreshFromStartKept == (hk = "done" /\ ~sawStale) => present
\* the user only ever fails after a removal
Inv_FailureOnlyAfterRemoval == workFailed => ~present
\* not an invariant: see above
Inv_NeverFreshAtRemoval == ~present => ~fresh
Finishes == <>(hk = "done")
====
