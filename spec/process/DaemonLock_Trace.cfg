CONSTANT Want = {"C28_Mutex", "C28_Excludes", "C28_Available", "C28_TraceAccepted"}
CONSTANT None = "none"
SPECIFICATION TSpec
CHECK_DEADLOCK FALSE
