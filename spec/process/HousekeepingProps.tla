---- MODULE HousekeepingProps ----
(***************************************************************************)
(* C43 - housekeeping of the data directory (pkg/housekeeping/housekeep.go).*)
(*                                                                         *)
(* An artifact is [id, kind, form, age]:                                    *)
(*   kind  "agent"   <data>/agents/<version>/ with the agent binary inside  *)
(*         "cache"   <data>/caches/<name>           (a file)                 *)
(*         "staging" <data>/staging/<name>/        (a directory tree)       *)
(*         "other"   anything else under <data> (sessions, archives, ...)   *)
(*   form  "plain"                                                          *)
(*         "linkout"   the entry is a symbolic link to a place outside the  *)
(*                     data directory (its age is the age of what it        *)
(*                     resolves to, as stat reports it)                     *)
(*         "nobinary"  (agent) a version directory without an agent binary  *)
(*         "innerlink" (staging) a plain root that contains a symbolic link *)
(*                     to a directory outside                               *)
(*   age   minutes since the binary was last executed (agent: access time)  *)
(*         / since the entry was last modified (cache, staging), measured   *)
(*         when the directory was populated.                                *)
(* Ages in the bounded space sit at limit + d, d in {-1 d, -1 h, -1 min,    *)
(* +1 min, +1 h, +1 d}; never on the limit itself.                          *)
(***************************************************************************)
EXTENDS Naturals, Integers, Sequences, FiniteSets

Day == 24 * 60
Limit(kind) == CASE kind = "agent" -> 30 * Day
                 [] kind \in {"cache", "staging"} -> 7 * Day
                 [] OTHER -> 1000000000       \* never stale
\* housekeeping looks at this artifact at all
Eligible(a, sidecar) == /\ a.kind \in {"agent", "cache", "staging"}
                        /\ ~(a.kind = "agent" /\ (sidecar \/ a.form = "nobinary"))

(***************************************************************************)
(* The property, over: arts (what the directory held), gone (ids no longer  *)
(* present afterwards), sidecar, slack (whole minutes that may have passed  *)
(* between population and the end of the call, rounded up; 0 in the model), *)
(* and the outside world before/after.                                      *)
(***************************************************************************)
\* everything stale is removed ...
C43_RemovesStale(arts, gone, sidecar) ==
  \A a \in arts : (Eligible(a, sidecar) /\ a.age > Limit(a.kind)) => a.id \in gone
\* ... and nothing else is
C43_KeepsRecent(arts, gone, sidecar, slack) ==
  \A a \in arts : a.id \in gone => (Eligible(a, sidecar) /\ a.age + slack > Limit(a.kind))
\* nothing outside the data directory changes
C43_OutsideUntouched(before, after) == before = after
====
