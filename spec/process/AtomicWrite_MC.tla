---- MODULE AtomicWrite_MC ----
(***************************************************************************)
(* All scenarios: what was at the target x (no fault | crash before each of *)
(* the 7 points | failure of each of the 6 calls).  Each scenario is        *)
(* exported as a BEHAVIOUR line and realised on the real code by the driver.*)
(***************************************************************************)
EXTENDS AtomicWrite, TLC, Json

Rng(s) == {s[x] : x \in DOMAIN s}
MCScenarios ==
  {[old |-> o, mode |-> "none", step |-> "none"] : o \in {"absent", "file", "dir", "noparent"}}
  \cup {[old |-> o, mode |-> "crash", step |-> s] : o \in {"absent", "file", "dir"}, s \in Rng(Steps)}
  \cup {[old |-> o, mode |-> "fail", step |-> s] : o \in {"absent", "file", "dir"}, s \in Rng(Steps) \ {"ret"}}

Export == (pc = "create" /\ ret = "none") => PrintT(<<"BEHAVIOUR", ToJson(sc)>>)
====
