---- MODULE DaemonLock_Trace ----
(***************************************************************************)
(* Trace validation for C28.  The records of a race case are the lines of   *)
(* the journal the contending processes and the supervisor appended, in     *)
(* file order (one O_APPEND write per line):                                *)
(*   RaceBegin (resets the journal state), Lock{who, what}*, Probe*, RaceEnd*)
(* The journal state of DaemonLockProps is driven by JStep - the same       *)
(* operator the lock machine (DaemonLock.tla) runs as its monitor - and     *)
(* C28_Mutex judges every "enter".  A process that is still "in" at the end *)
(* of the race without having been announced as killed wrote no "exit"      *)
(* line: the journal is not one a lock-holder discipline can produce        *)
(* (C28_TraceAccepted).  Avail records are quiescent episodes judged by     *)
(* C28_Excludes / C28_Available; Probe records (a contender started after a *)
(* kill must get the lock within a multi-second watchdog) by C28_Available. *)
(***************************************************************************)
EXTENDS DaemonLockProps, DaemonLifecycleProps, TraceKit

CONSTANT Want
VARIABLES l, fails, j, enters, daemons, ddrift, done
tvars == <<l, fails, j, enters, daemons, ddrift, done>>

Kinds == {"RaceBegin", "Lock", "Probe", "RaceEnd", "Avail", "Daemon"}

\* growth: one episode of real daemons (see DaemonLifecycleProps).  Its events are replayed on the observer
\* rules (conformance: stat_daemon_drift); only what C28 states is a verdict - the second daemon is
\* excluded while the first is up, the lock is available once the first has ended.
RECURSIVE Replay(_, _, _)
Replay(a, evs, i) == IF i > Len(evs) THEN TRUE
                     ELSE LOk(a, evs[i]) /\ Replay(LStep(a, evs[i]), evs, i + 1)
DaemonConforms(r) == r.out.held /\ r.out.ended /\ r.out.restart /\ Replay(A0, r.out.events, 1)

RecFails(i, r) ==
  IF ~(Has(r, "ev") /\ r.ev \in Kinds) THEN <<Fail(i, "C28_TraceAccepted")>>
  ELSE CASE r.ev = "Lock" ->
              Chk(Want, i, "C28_Mutex", C28_Mutex(j, r.who, r.what))
           \o Chk(Want, i, "C28_TraceAccepted", JournalWF(j, r.who, r.what))
         [] r.ev = "Probe" -> Chk(Want, i, "C28_Available", r.ok)
         [] r.ev = "RaceEnd" -> Chk(Want, i, "C28_TraceAccepted", j.in \ j.dying = {})
         [] r.ev = "Daemon" ->
              Chk(Want, i, "C28_Excludes", C28_Excludes(r.out))
           \o Chk(Want, i, "C28_Available", C28_Available(r.out))
         [] r.ev = "Avail" ->
              Chk(Want, i, "C28_Excludes", C28_Excludes(r.out))
           \o Chk(Want, i, "C28_Available", C28_Available(r.out))
         [] OTHER -> <<>>

NextJ(r) == IF ~(Has(r, "ev") /\ r.ev \in Kinds) THEN j
            ELSE IF r.ev = "RaceBegin" THEN J0
            ELSE IF r.ev = "Lock" THEN JStep(j, r.who, r.what)
            ELSE j

TInit == l = 1 /\ fails = <<>> /\ j = J0 /\ enters = 0 /\ daemons = 0 /\ ddrift = 0 /\ done = FALSE
Step == /\ l <= NRec
        /\ LET r == Trace[l] IN
           /\ fails' = Cap(fails \o RecFails(l, r))
           /\ j' = NextJ(r)
           /\ enters' = enters + (IF Has(r, "what") /\ r.what = "enter" THEN 1 ELSE 0)
           /\ daemons' = daemons + (IF Has(r, "ev") /\ r.ev = "Daemon" THEN 1 ELSE 0)
           /\ ddrift' = ddrift + (IF Has(r, "ev") /\ r.ev = "Daemon" /\ ~DaemonConforms(r) THEN 1 ELSE 0)
        /\ l' = l + 1 /\ UNCHANGED done
Finish == /\ l = NRec + 1 /\ ~done
          /\ WriteResult(l - 1, fails, [stat_enters |-> enters, stat_daemon_episodes |-> daemons, stat_daemon_drift |-> ddrift])
          /\ done' = TRUE /\ UNCHANGED <<l, fails, j, enters, daemons, ddrift>>
TNext == Step \/ Finish
TSpec == TInit /\ [][TNext]_tvars
====
