---- MODULE DaemonLock_Trace ----
(***************************************************************************)
(* Trace validation for C28.  The records of a race case are the lines of   *)
(* the journal the contending processes and the supervisor appended, in     *)
(* file order (one O_APPEND write per line):                                *)
(*   RaceBegin (resets the journal state), Lock{who, what}*, Probe*, RaceEnd*)
(* The journal state of DaemonLockProps is driven by JStep - the same       *)
(* operator the lock machine (DaemonLock.tla) runs as its monitor - and     *)
(* C28_Mutex judges every "enter".  A process that is still "in" at the end *)
(* of the race without having been announced as killed wrote no "exit"      *)
(* line: the journal is not one a lock-holder discipline can produce        *)
(* (C28_TraceAccepted).  Avail records are quiescent episodes judged by     *)
(* C28_Excludes / C28_Available; Probe records (a contender started after a *)
(* kill must get the lock within a multi-second watchdog) by C28_Available. *)
(***************************************************************************)
EXTENDS DaemonLockProps, TraceKit

CONSTANT Want
VARIABLES l, fails, j, enters, done
tvars == <<l, fails, j, enters, done>>

Kinds == {"RaceBegin", "Lock", "Probe", "RaceEnd", "Avail"}

RecFails(i, r) ==
  IF ~(Has(r, "ev") /\ r.ev \in Kinds) THEN <<Fail(i, "C28_TraceAccepted")>>
  ELSE CASE r.ev = "Lock" ->
              Chk(Want, i, "C28_Mutex", C28_Mutex(j, r.who, r.what))
           \o Chk(Want, i, "C28_TraceAccepted", JournalWF(j, r.who, r.what))
         [] r.ev = "Probe" -> Chk(Want, i, "C28_Available", r.ok)
         [] r.ev = "RaceEnd" -> Chk(Want, i, "C28_TraceAccepted", j.in \ j.dying = {})
         [] r.ev = "Avail" ->
              Chk(Want, i, "C28_Excludes", C28_Excludes(r.out))
           \o Chk(Want, i, "C28_Available", C28_Available(r.out))
         [] OTHER -> <<>>

NextJ(r) == IF ~(Has(r, "ev") /\ r.ev \in Kinds) THEN j
            ELSE IF r.ev = "RaceBegin" THEN J0
            ELSE IF r.ev = "Lock" THEN JStep(j, r.who, r.what)
            ELSE j

TInit == l = 1 /\ fails = <<>> /\ j = J0 /\ enters = 0 /\ done = FALSE
Step == /\ l <= NRec
        /\ LET r == Trace[l] IN
           /\ fails' = Cap(fails \o RecFails(l, r))
           /\ j' = NextJ(r)
           /\ enters' = enters + (IF Has(r, "what") /\ r.what = "enter" THEN 1 ELSE 0)
        /\ l' = l + 1 /\ UNCHANGED done
Finish == /\ l = NRec + 1 /\ ~done
          /\ WriteResult(l - 1, fails, [stat_enters |-> enters])
          /\ done' = TRUE /\ UNCHANGED <<l, fails, j, enters>>
TNext == Step \/ Finish
TSpec == TInit /\ [][TNext]_tvars
====
