CONSTANT Want = {"C43_RemovesStale", "C43_KeepsRecent", "C43_OutsideUntouched"}
SPECIFICATION TSpec
CHECK_DEADLOCK FALSE
