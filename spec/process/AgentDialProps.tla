---- MODULE AgentDialProps ----
(***************************************************************************)
(* Growth beyond the listed properties: the agent dial / install state      *)
(* machine of pkg/agent/dial.go (Dial, connect), install.go (install) and   *)
(* probe.go, as a deterministic transition function over the answers of the *)
(* environment.  The transport/remote is the environment: every command the *)
(* dialer issues is answered with one of a few classes, and the class       *)
(* decides the dialer's next move.                                          *)
(*                                                                         *)
(* Commands (cmd) and their answer classes (ans):                           *)
(*   connect_posix / connect_cmd   the agent invocation, "/" or "\" syntax  *)
(*     ok          magic + version handshake succeed                        *)
(*     badversion  magic handshake succeeds, version differs                *)
(*     nf_posix    exit 127 / "command not found"   -> ClassifyError (install, not cmd.exe) *)
(*     inv_win     "is not recognized as an internal or external command"   -> (no install, cmd.exe) *)
(*     nf_win      "The system cannot find the path specified"              -> (install, cmd.exe) *)
(*     other       some other failure: ClassifyError gives up               *)
(*     garbage     something that is not a Mutagen stream answers, then ends*)
(*     stubborn    the same, but the process ignores end of input and       *)
(*                 SIGTERM (Stream.Close has to kill it)                    *)
(*   uname   (probePOSIX "uname -s -m")                                     *)
(*     posix_ok    a platform the bundle has (Linux x86_64)                 *)
(*     winposix_ok MINGW/CYGWIN/MSYS: windows binary, POSIX conventions     *)
(*     nobundle    a platform the probe knows but the bundle lacks          *)
(*     unknown / garbage / fail   -> fall through to the Windows probe      *)
(*   cmdset  (probeWindows "cmd.exe /c set"): win_ok | unknown | fail       *)
(*   copy    (Transport.Copy): ok | fail                                    *)
(*   install_posix / install_cmd ("./<name> install" / "<name> install"):   *)
(*     ok | fail                                                            *)
(* The dialer state s = [pc, hyp, inst, posix, live, ok]: hyp = cmd.exe      *)
(* hypothesis, inst = an install is recommended, live = agent processes     *)
(* whose stream has not been closed, ok = Dial returned a stream.           *)
(***************************************************************************)
EXTENDS Naturals, Sequences, FiniteSets

ConnectAnswers == {"ok", "badversion", "nf_posix", "inv_win", "nf_win", "other", "garbage", "stubborn"}
Answers(cmd) ==
  CASE cmd \in {"connect_posix", "connect_cmd"} -> ConnectAnswers
    [] cmd = "uname" -> {"posix_ok", "winposix_ok", "nobundle", "unknown", "garbage", "fail"}
    [] cmd = "cmdset" -> {"win_ok", "unknown", "fail"}
    [] cmd = "copy" -> {"ok", "fail"}
    [] cmd \in {"install_posix", "install_cmd"} -> {"ok", "fail"}
    [] OTHER -> {}

S0 == [pc |-> "connect1", hyp |-> FALSE, inst |-> FALSE, posix |-> FALSE, live |-> 0, ok |-> FALSE]
Done(s, ok) == [s EXCEPT !.pc = "done", !.ok = ok]

\* the command the dialer issues in state s ("none": Dial has returned)
Cmd(s) ==
  CASE s.pc = "connect1" -> "connect_posix"
    [] s.pc = "connect2" -> "connect_cmd"
    [] s.pc = "uname" -> "uname"
    [] s.pc = "cmdset" -> "cmdset"
    [] s.pc = "copy" -> "copy"
    [] s.pc = "install" -> (IF s.posix THEN "install_posix" ELSE "install_cmd")
    [] s.pc = "redial" -> (IF s.hyp THEN "connect_cmd" ELSE "connect_posix")
    [] OTHER -> "none"

\* connect(): what ClassifyError makes of a failed attempt (after Stream.Close)
TryInstall(ans) == ans \in {"nf_posix", "nf_win"}
CmdExe(ans) == ans \in {"inv_win", "nf_win"}

\* "If not [install recommended], then bail", else install(): probe first
Decide(s, inst, hyp) == IF inst THEN [s EXCEPT !.pc = "uname", !.inst = TRUE, !.hyp = hyp]
                        ELSE Done([s EXCEPT !.inst = FALSE, !.hyp = hyp], FALSE)

Delta(s, ans) ==
  CASE s.pc = "connect1" ->
         IF ans = "ok" THEN Done([s EXCEPT !.live = 1], TRUE)
         ELSE IF CmdExe(ans) THEN [s EXCEPT !.pc = "connect2", !.inst = TryInstall(ans), !.hyp = TRUE]
         ELSE Decide(s, TryInstall(ans), FALSE)
    [] s.pc = "connect2" ->
         IF ans = "ok" THEN Done([s EXCEPT !.live = 1], TRUE)
         ELSE Decide(s, TryInstall(ans), CmdExe(ans))          \* the second attempt's hints replace the first's
    [] s.pc = "uname" ->
         IF ans \in {"posix_ok", "winposix_ok"} THEN [s EXCEPT !.pc = "copy", !.posix = TRUE]
         ELSE IF ans = "nobundle" THEN Done(s, FALSE)           \* ExecutableForPlatform: unsupported platform
         ELSE [s EXCEPT !.pc = "cmdset"]
    [] s.pc = "cmdset" ->
         IF ans = "win_ok" THEN [s EXCEPT !.pc = "copy", !.posix = FALSE] ELSE Done(s, FALSE)
    [] s.pc = "copy" -> IF ans = "ok" THEN [s EXCEPT !.pc = "install"] ELSE Done(s, FALSE)
    [] s.pc = "install" -> IF ans = "ok" THEN [s EXCEPT !.pc = "redial"] ELSE Done(s, FALSE)
    [] s.pc = "redial" -> IF ans = "ok" THEN Done([s EXCEPT !.live = 1], TRUE) ELSE Done(s, FALSE)
    [] OTHER -> s

\* replay a recorded sequence of [cmd, ans] steps: the state reached, or a pc of "reject" where
\* the recorded command is not the one the dialer would issue
RECURSIVE Run(_, _, _)
Run(s, steps, i) ==
  IF i > Len(steps) THEN s
  ELSE IF s.pc = "done" \/ steps[i].cmd # Cmd(s) \/ steps[i].ans \notin Answers(steps[i].cmd)
       THEN [s EXCEPT !.pc = "reject"]
       ELSE Run(Delta(s, steps[i].ans), steps, i + 1)
\* a complete recorded dial conforms: same commands in the same order, same outcome
Conforms(steps, ok) == LET s == Run(S0, steps, 1) IN s.pc = "done" /\ s.ok = ok

IsConnect(c) == c \in {"connect_posix", "connect_cmd"}
IsInstallWork(c) == c \in {"uname", "cmdset", "copy", "install_posix", "install_cmd"}
Count(steps, P(_)) == Cardinality({i \in DOMAIN steps : P(steps[i].cmd)})

(***************************************************************************)
(* Model-level properties over a history of steps.                          *)
(***************************************************************************)
\* at most one installation (one copy, one install invocation) and three connection attempts per dial
AtMostOneInstall(steps) ==
  /\ Count(steps, LAMBDA c : c \in {"install_posix", "install_cmd"}) <= 1
  /\ Count(steps, LAMBDA c : c = "copy") <= 1
  /\ Count(steps, IsConnect) <= 3
\* installation work starts only right after a connect whose failure says "agent missing"
InstallOnlyWhenMissing(steps) ==
  \A i \in DOMAIN steps :
    (IsInstallWork(steps[i].cmd) /\ i > 1 /\ IsConnect(steps[i - 1].cmd)) => TryInstall(steps[i - 1].ans)
\* in particular never after a version mismatch
NeverAfterVersionMismatch(steps) ==
  \A i \in DOMAIN steps : (i > 1 /\ steps[i - 1].ans = "badversion") => ~IsInstallWork(steps[i].cmd)

(***************************************************************************)
(* Ties to listed properties, judged on real dials.                         *)
(***************************************************************************)
HasAns(steps, c, a) == \E i \in DOMAIN steps : steps[i].cmd = c /\ steps[i].ans = a
\* the platform the probe answers stand for
DialPlatform(steps) == IF HasAns(steps, "uname", "posix_ok") THEN "linux_amd64" ELSE "windows_amd64"
\* C46: what install hands to Transport.Copy is byte for byte the bundle's entry for the probed platform
DialCopiesEntry(steps, copied, bundle) ==
  copied.called => LET e == bundle[DialPlatform(steps)] IN copied.b = e.b /\ copied.z = e.z
\* C46: a platform the bundle has no entry for is rejected - nothing is copied or installed
DialRejectsUnknown(steps) ==
  HasAns(steps, "uname", "nobundle") => ~\E i \in DOMAIN steps : steps[i].cmd \in {"copy", "install_posix", "install_cmd"}
====
