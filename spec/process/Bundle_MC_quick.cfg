CONSTANTS BreakAfterFirst = TRUE  MaxEntries = 1  DoExport = TRUE
CONSTANT Inputs <- MCInputs
SPECIFICATION FairSpec
INVARIANTS Inv_C46 Inv_Expected Export
PROPERTY Terminates
CHECK_DEADLOCK FALSE
