---- MODULE AgentCloseProps ----
(***************************************************************************)
(* C35 - closing an agent stream (pkg/agent/transport/stream.go).           *)
(* The property over one observation o of a Close call:                     *)
(*   o.returned : Close came back (in the model: the call has returned; on  *)
(*                the real code: within the multi-second watchdog)          *)
(*   o.alive    : the agent process still exists afterwards                 *)
(***************************************************************************)
EXTENDS Naturals, Sequences, FiniteSets

C35_Returns(o) == o.returned
C35_Exited(o) == o.returned => ~o.alive
\* o.stuck: a Write was parked on the full standard input pipe when Close was called;
\* o.wreturned / o.werr: every such Write has come back / with an error
C35_WriteUnblocked(o) == (o.returned /\ o.stuck) => (o.wreturned /\ o.werr)
====
