CONSTANT Agents <- MCAgents
CONSTANT WaitsForCopy = FALSE
SPECIFICATION FairSpec
INVARIANTS Inv_Exited Inv_Reaped Inv_Order Export
PROPERTIES Returns ReapedDespiteHolders
CHECK_DEADLOCK FALSE
