CONSTANT Agents <- MCAgents
CONSTANT WaitsForCopy = FALSE
CONSTANT SharedLock = FALSE
SPECIFICATION FairSpec
INVARIANTS Inv_Exited Inv_Reaped Inv_Order Inv_CloseNeverWaitsOnWriter Export
PROPERTIES Returns ReapedDespiteHolders WriterReleased
CHECK_DEADLOCK FALSE
