CONSTANT Agents <- MCAgents
SPECIFICATION FairSpec
INVARIANTS Inv_Exited Inv_Reaped Inv_Order Export
PROPERTY Returns
CHECK_DEADLOCK FALSE
