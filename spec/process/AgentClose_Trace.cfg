CONSTANT Want = {"C35_Returns", "C35_Exited"}
SPECIFICATION TSpec
CHECK_DEADLOCK FALSE
