CONSTANT Want = {"C46_SearchOrder", "C46_ExactBytes", "C46_UnknownRejected", "C46_FirstHolderWins"}
SPECIFICATION TSpec
CHECK_DEADLOCK FALSE
