CONSTANT Want = {"C46_SearchOrder", "C46_ExactBytes", "C46_UnknownRejected"}
SPECIFICATION TSpec
CHECK_DEADLOCK FALSE
