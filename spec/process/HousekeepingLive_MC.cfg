CONSTANT InitiallyFresh = {TRUE, FALSE}
SPECIFICATION FairSpec
INVARIANTS Inv_RemovedWasStale Inv_RefreshedBeforeKept Inv_FreshFromStartKept Inv_FailureOnlyAfterRemoval
PROPERTY Finishes
CHECK_DEADLOCK FALSE
