---- MODULE Housekeeping ----
(***************************************************************************)
(* housekeeping.Housekeep as the code runs it: three passes (agents - only  *)
(* outside a sidecar container -, caches, staging roots), each listing its  *)
(* directory and visiting the entries one by one (Visit = one loop          *)
(* iteration: stat through symbolic links, compare with the limit, remove). *)
(* Removal of an entry that is a symbolic link removes the link, not what   *)
(* it points to (os.Remove / os.RemoveAll do not follow links), and         *)
(* os.RemoveAll on a real directory does not descend through links inside   *)
(* it; `outside` is the set of things beyond the data directory that links  *)
(* point to, and no action changes it.                                      *)
(***************************************************************************)
EXTENDS HousekeepingProps

CONSTANT Inputs           \* set of [sidecar, arts]
VARIABLES in, pass, todo, present, outside
vars == <<in, pass, todo, present, outside>>

Passes == <<"agent", "cache", "staging", "done">>
Targets(arts) == {a.id : a \in {x \in arts : x.form \in {"linkout", "innerlink"}}}
OfKind(arts, k) == {a \in arts : a.kind = k}

Init == /\ in \in Inputs /\ pass = 1 /\ todo = OfKind(in.arts, "agent")
        /\ present = {a.id : a \in in.arts} /\ outside = Targets(in.arts)

\* sidecar containers skip the agents pass altogether
SkipAgents == /\ pass = 1 /\ in.sidecar /\ todo # {}
              /\ todo' = {} /\ UNCHANGED <<in, pass, present, outside>>
Visit(a) ==
  /\ a \in todo /\ ~(pass = 1 /\ in.sidecar)
  /\ todo' = todo \ {a}
  /\ IF a.form = "nobinary" THEN present' = present                 \* stat of the binary fails: continue
     ELSE IF a.age > Limit(a.kind) THEN present' = present \ {a.id}   \* Remove / RemoveAll of the entry itself
     ELSE present' = present
  /\ UNCHANGED <<in, pass, outside>>
NextPass == /\ todo = {} /\ pass < 4
            /\ pass' = pass + 1
            /\ todo' = (IF pass + 1 < 4 THEN OfKind(in.arts, Passes[pass + 1]) ELSE {})
            /\ UNCHANGED <<in, present, outside>>
Next == SkipAgents \/ (\E a \in todo : Visit(a)) \/ NextPass
Spec == Init /\ [][Next]_vars
FairSpec == Spec /\ WF_vars(Next)

Gone == {a.id : a \in in.arts} \ present
Inv_KeepsRecent == C43_KeepsRecent(in.arts, Gone, in.sidecar, 0)
Inv_Outside == C43_OutsideUntouched(Targets(in.arts), outside)
Inv_Final == pass = 4 => C43_RemovesStale(in.arts, Gone, in.sidecar)
Terminates == <>(pass = 4)
====
