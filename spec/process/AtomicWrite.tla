---- MODULE AtomicWrite ----
(***************************************************************************)
(* The write machine of filesystem.WriteFileAtomic: one action per step of  *)
(* the function (CreateTemp, Write - split in two so that a partially       *)
(* written temporary exists -, Close, Chmod, Rename, return), the cleanup   *)
(* branch each failing step takes (Close + os.Remove of the temporary, whose*)
(* own failure is ignored), and a Crash that may strike before any step.    *)
(* A scenario fixes what was at the target before (nothing, a file, a       *)
(* non-empty directory - on which the rename fails by itself -, or not even *)
(* a parent directory - on which the creation fails by itself) and where    *)
(* the single crash or failure strikes.                                     *)
(***************************************************************************)
EXTENDS AtomicWriteProps

CONSTANT Scenarios
VARIABLES sc, pc, dir, ret
vars == <<sc, pc, dir, ret>>

Steps == <<"create", "write", "midwrite", "close", "chmod", "rename", "ret">>

TN == <<"s", "e", "s", "s">>
TmpN == TempPrefix \o <<"a", "t", "o", "m", "i", "c", "-", "w", "r", "i", "t", "e", "7">>
ByN == <<"b", "y">>
Perm == 384   \* 0600

E(nc, k, b, z, m) == [nc |-> nc, k |-> k, b |-> b, z |-> z, m |-> m]
OldC(o) == CASE o = "file" -> [k |-> "file", b |-> "old", z |-> 3]
             [] o = "dir" -> [k |-> "dir", b |-> "olddir", z |-> 1]
             [] OTHER -> AbsentC
NewC == [k |-> "file", b |-> "new", z |-> 5]
Pre(o) == IF o = "noparent" THEN {} ELSE {E(ByN, "file", "by", 2, 420)}
InitialDir(o) == Pre(o) \cup (IF OldC(o).k = "absent" THEN {} ELSE {E(TN, OldC(o).k, OldC(o).b, OldC(o).z, 420)})

Tmp == Named(dir, TmpN)
WithoutTmp == dir \ Tmp
SetTmp(b, z, m) == WithoutTmp \cup {E(TmpN, "file", b, z, m)}
TmpMode == IF Tmp = {} THEN 0 ELSE (CHOOSE e \in Tmp : TRUE).m

Faulting(s) == sc.mode = "fail" /\ sc.step = s
Crashing(s) == sc.mode = "crash" /\ sc.step = s

Init == /\ sc \in Scenarios /\ pc = "create" /\ dir = InitialDir(sc.old) /\ ret = "none"

\* the process dies; nothing else happens
Crash == /\ Crashing(pc) /\ pc' = "crashed" /\ UNCHANGED <<sc, dir, ret>>

\* os.CreateTemp(filepath.Dir(path), prefix)
Create ==
  /\ pc = "create" /\ ~Crashing(pc)
  /\ IF Faulting("create") \/ sc.old = "noparent"
     THEN pc' = "failed" /\ ret' = "err" /\ dir' = dir
     ELSE pc' = "write" /\ ret' = ret /\ dir' = dir \cup {E(TmpN, "file", "", 0, Perm)}
  /\ UNCHANGED sc

\* temporary.Write(data): the data reaches the file in pieces
WritePart ==
  /\ pc = "write" /\ ~Crashing(pc)
  /\ IF Faulting("write") THEN pc' = "cleanup" /\ dir' = dir
     ELSE pc' = "midwrite" /\ dir' = SetTmp("part", 2, TmpMode)
  /\ UNCHANGED <<sc, ret>>
WriteRest ==
  /\ pc = "midwrite" /\ ~Crashing(pc)
  /\ IF Faulting("midwrite") THEN pc' = "cleanup" /\ dir' = dir
     ELSE pc' = "close" /\ dir' = SetTmp(NewC.b, NewC.z, TmpMode)
  /\ UNCHANGED <<sc, ret>>

\* temporary.Close()
Close ==
  /\ pc = "close" /\ ~Crashing(pc)
  /\ pc' = (IF Faulting("close") THEN "cleanup" ELSE "chmod")
  /\ UNCHANGED <<sc, dir, ret>>

\* os.Chmod(temporary.Name(), permissions); it fails e.g. when the temporary has vanished
Chmod ==
  /\ pc = "chmod" /\ ~Crashing(pc)
  /\ IF Faulting("chmod") THEN pc' = "cleanup" /\ dir' \in {dir, WithoutTmp}
     ELSE pc' = "rename" /\ dir' = SetTmp(NewC.b, NewC.z, Perm)
  /\ UNCHANGED <<sc, ret>>

\* Rename(nil, temporary.Name(), nil, path, replace = true); fails by itself onto a non-empty directory
Rename ==
  /\ pc = "rename" /\ ~Crashing(pc)
  /\ IF Faulting("rename") THEN pc' = "cleanup" /\ dir' \in {dir, WithoutTmp}
     ELSE IF \E e \in Named(dir, TN) : e.k = "dir" THEN pc' = "cleanup" /\ dir' = dir
     ELSE /\ pc' = "ret"
          /\ dir' = (WithoutTmp \ Named(dir, TN)) \cup {E(TN, e.k, e.b, e.z, e.m) : e \in Tmp}
  /\ UNCHANGED <<sc, ret>>

Return == /\ pc = "ret" /\ ~Crashing(pc) /\ pc' = "done" /\ ret' = "ok" /\ UNCHANGED <<sc, dir>>

\* os.Remove(temporary.Name()) in every failure branch; its own error is ignored
Cleanup ==
  /\ pc = "cleanup"
  /\ dir' \in {WithoutTmp, dir}
  /\ pc' = "failed" /\ ret' = "err" /\ UNCHANGED sc

Next == Crash \/ Create \/ WritePart \/ WriteRest \/ Close \/ Chmod \/ Rename \/ Return \/ Cleanup
Spec == Init /\ [][Next]_vars
FairSpec == Spec /\ WF_vars(Next)

Old == OldC(sc.old)
Inv_TargetIntact == C27_TargetIntact(dir, TN, Old, NewC)
Inv_NoStray == C27_NoStray(dir, TN, Pre(sc.old), {})
Inv_FailKeepsOld == C27_FailKeepsOld(dir, TN, Old, pc = "failed")
Inv_SuccessNew == C27_SuccessNew(dir, TN, NewC, Perm, pc = "done") /\ (pc = "done" => Temps(dir) = {})
Inv_RetMatches == (ret = "ok" <=> pc = "done") /\ (ret = "err" <=> pc = "failed")
Terminates == <>(pc \in {"done", "failed", "crashed"})
====
