---- MODULE Bundle_MC ----
(***************************************************************************)
(* Bounded input space of Bundle: every layout (executable inside / outside *)
(* a "bin" directory) x (absent | directory | archive of <= MaxEntries      *)
(* entries over 2 platform names and 2 contents) in each of the two         *)
(* locations, with contents that differ between the locations, x requested  *)
(* platform (two known names, one unknown) x output mode.  Each initial     *)
(* state is exported as a BEHAVIOUR line; the driver materialises it on     *)
(* disk around a copy of its own executable and runs the real               *)
(* agent.ExecutableForPlatform there.                                       *)
(***************************************************************************)
EXTENDS Bundle, TLC, Json

CONSTANT MaxEntries, DoExport

Plats == {"linux_amd64", "windows_amd64"}
Queries == Plats \cup {"plan9_mips"}
SizeOf(b) == IF b \in {"e1", "l1"} THEN 1 ELSE 2
EntriesOver(blobs) == {[n |-> p, b |-> b, z |-> SizeOf(b)] : p \in Plats, b \in blobs}
SeqsUpTo(S, n) == UNION {[1..m -> S] : m \in 0..n}
Locs(blobs) == {Absent, NotFile} \cup {Arch(es) : es \in SeqsUpTo(EntriesOver(blobs), MaxEntries)}

Unusable == {Dangling, Loop, NoPerm, Corrupt}
\* the full product over the usable kinds, plus every layout with something unusable in at least one
\* location (for one known platform, explicit output path)
MCInputs == [inbin : BOOLEAN, exe : Locs({"e1", "e2"}), lib : Locs({"l1", "l2"}),
             q : Queries, om : {"path", "temp"}]
            \cup {x \in [inbin : BOOLEAN, exe : Locs({"e1", "e2"}) \cup Unusable, lib : Locs({"l1", "l2"}) \cup Unusable,
                          q : {"linux_amd64"}, om : {"path"}] : x.exe \in Unusable \/ x.lib \in Unusable}

Export == (DoExport /\ pc = "search" /\ i = 1 /\ bundle = Absent) => PrintT(<<"BEHAVIOUR", ToJson(in)>>)
====
