CONSTANT Scenarios <- MCScenarios
SPECIFICATION FairSpec
INVARIANTS Inv_TargetIntact Inv_NoStray Inv_FailKeepsOld Inv_SuccessNew Inv_RetMatches Export
PROPERTY Terminates
CHECK_DEADLOCK FALSE
