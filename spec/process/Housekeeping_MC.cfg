CONSTANT Inputs <- MCInputs
CONSTANT MaxArts = 2
SPECIFICATION FairSpec
INVARIANTS Inv_KeepsRecent Inv_Outside Inv_Final
PROPERTY Terminates
CHECK_DEADLOCK FALSE
