\* expected to FAIL: a refresh between the housekeeper's stat and its removal is lost
CONSTANT InitiallyFresh = {FALSE}
SPECIFICATION Spec
INVARIANTS Inv_NeverFreshAtRemoval
CHECK_DEADLOCK FALSE
