---- MODULE DaemonLock ----
(***************************************************************************)
(* The lock machine.  Kernel side: one whole-file fcntl write lock with its *)
(* POSIX semantics - owned by a process (not a descriptor), granted by      *)
(* F_SETLK only if no other process owns it, dropped by F_UNLCK, by closing *)
(* any descriptor of the file, and by the death of the process.  Process    *)
(* side, as daemon.AcquireLock / Lock.Release are written:                  *)
(*   Open (locking.NewLocker) -> TryLock (Locker.Lock(false): F_SETLK; on   *)
(*   failure Locker.Close) -> [holding: Enter .. Exit journal lines] ->     *)
(*   Unlock (F_UNLCK) -> Close.                                             *)
(* The supervisor announces a kill in the journal (Announce) before the     *)
(* process dies (Kill), and confirms it afterwards (Reap).                  *)
(* The journal monitor j of DaemonLockProps runs along; viol records a      *)
(* journal line the Mutex rule rejects, so TLC shows both that at most one  *)
(* process is inside and that the journal rule never accuses a correct lock.*)
(***************************************************************************)
EXTENDS DaemonLockProps

CONSTANTS Procs, None, MaxRounds, MaxKills
VARIABLES pc, owner, rounds, kills, announced, j, viol
vars == <<pc, owner, rounds, kills, announced, j, viol>>

Alive(p) == pc[p] \notin {"dead", "reaped"}
Log(who, what) == /\ viol' = (viol \/ ~C28_Mutex(j, who, what) \/ ~JournalWF(j, who, what))
                  /\ j' = JStep(j, who, what)

Init == /\ pc = [p \in Procs |-> "idle"] /\ owner = None /\ rounds = [p \in Procs |-> 0]
        /\ kills = 0 /\ announced = {} /\ j = J0 /\ viol = FALSE

Open(p) == /\ pc[p] = "idle" /\ rounds[p] < MaxRounds
           /\ pc' = [pc EXCEPT ![p] = "opened"] /\ rounds' = [rounds EXCEPT ![p] = @ + 1]
           /\ UNCHANGED <<owner, kills, announced, j, viol>>
\* F_SETLK, non-blocking
TryLock(p) == /\ pc[p] = "opened"
              /\ IF owner = None \/ owner = p
                 THEN owner' = p /\ pc' = [pc EXCEPT ![p] = "locked"]
                 ELSE owner' = owner /\ pc' = [pc EXCEPT ![p] = "failed"]
              /\ UNCHANGED <<rounds, kills, announced, j, viol>>
\* locker.Close() after a failed attempt: closing a descriptor drops the process's own lock only
CloseFailed(p) == /\ pc[p] = "failed" /\ pc' = [pc EXCEPT ![p] = "idle"]
                  /\ owner' = (IF owner = p THEN None ELSE owner)
                  /\ UNCHANGED <<rounds, kills, announced, j, viol>>
Enter(p) == /\ pc[p] = "locked" /\ pc' = [pc EXCEPT ![p] = "in"] /\ Log(p, "enter")
            /\ UNCHANGED <<owner, rounds, kills, announced>>
Exit(p) == /\ pc[p] = "in" /\ pc' = [pc EXCEPT ![p] = "out"] /\ Log(p, "exit")
           /\ UNCHANGED <<owner, rounds, kills, announced>>
\* Lock.Release: Unlock (F_UNLCK) then Close
Unlock(p) == /\ pc[p] = "out" /\ pc' = [pc EXCEPT ![p] = "unlocked"]
             /\ owner' = (IF owner = p THEN None ELSE owner)
             /\ UNCHANGED <<rounds, kills, announced, j, viol>>
Close(p) == /\ pc[p] = "unlocked" /\ pc' = [pc EXCEPT ![p] = "idle"]
            /\ owner' = (IF owner = p THEN None ELSE owner)
            /\ UNCHANGED <<rounds, kills, announced, j, viol>>

Announce(p) == /\ Alive(p) /\ p \notin announced /\ kills < MaxKills
               /\ announced' = announced \cup {p} /\ kills' = kills + 1 /\ Log(p, "killing")
               /\ UNCHANGED <<pc, owner, rounds>>
\* SIGKILL arrives: every descriptor is closed, the kernel drops the lock
Kill(p) == /\ Alive(p) /\ p \in announced
           /\ pc' = [pc EXCEPT ![p] = "dead"] /\ owner' = (IF owner = p THEN None ELSE owner)
           /\ UNCHANGED <<rounds, kills, announced, j, viol>>
Reap(p) == /\ pc[p] = "dead" /\ pc' = [pc EXCEPT ![p] = "reaped"] /\ Log(p, "killed")
           /\ UNCHANGED <<owner, rounds, kills, announced>>

ProcStep(p) == Open(p) \/ TryLock(p) \/ CloseFailed(p) \/ Enter(p) \/ Exit(p) \/ Unlock(p) \/ Close(p)
Next == \E p \in Procs : ProcStep(p) \/ Announce(p) \/ Kill(p) \/ Reap(p)
Spec == Init /\ [][Next]_vars
FairSpec == Spec /\ \A p \in Procs : WF_vars(ProcStep(p)) /\ WF_vars(Kill(p)) /\ WF_vars(Reap(p))

Holding == {p \in Procs : pc[p] \in {"locked", "in", "out"}}
Inv_Mutex == Cardinality(Holding) <= 1
Inv_JournalSound == ~viol
\* the kernel lock is never left with an owner that no longer holds it (released, closed, dead)
Inv_NoOrphan == owner # None => owner \in Holding
\* what an observer of the journal believes is consistent with who is really inside
Inv_JournalTracks == {p \in Procs : pc[p] = "in"} \subseteq j.in
\* the lock always becomes available again
Available == \A p \in Procs : [](owner = p => <>(owner # p))
====
