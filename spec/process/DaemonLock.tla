---- MODULE DaemonLock ----
(***************************************************************************)
(* The lock machine.  Kernel side: one whole-file fcntl write lock with its *)
(* POSIX semantics - owned by a process (not a descriptor), granted by      *)
(* F_SETLK only if no other process owns it, dropped by F_UNLCK, by closing *)
(* any descriptor of the file, and by the death of the process.  Process    *)
(* side, as daemon.AcquireLock / Lock.Release are written:                  *)
(*   Open (locking.NewLocker) -> TryLock (Locker.Lock(false): F_SETLK; on   *)
(*   failure Locker.Close = RefusedAttempt, after which the process lives   *)
(*   on and may try again) -> [holding: Enter .. Exit journal lines; a      *)
(*   garbage collection GC may run meanwhile] ->                            *)
(*   Unlock (F_UNLCK) -> Close.                                             *)
(* The supervisor announces a kill in the journal (Announce) before the     *)
(* process dies (Kill), and confirms it afterwards (Reap).                  *)
(* The journal monitor j of DaemonLockProps runs along; viol records a      *)
(* journal line the Mutex rule rejects, so TLC shows both that at most one  *)
(* process is inside and that the journal rule never accuses a correct lock.*)
(***************************************************************************)
EXTENDS DaemonLockProps

CONSTANTS Procs, None, MaxRounds, MaxKills,
          ClosesOnRefusal      \* TRUE: AcquireLock closes the locker when the attempt is refused (the code)
VARIABLES pc, owner, rounds, kills, announced, j, viol,
          stale,               \* per process: descriptors of the lock file it still has open but no longer references
          gcs                  \* per process: garbage collections run while holding (bounded)
vars == <<pc, owner, rounds, kills, announced, j, viol, stale, gcs>>

Alive(p) == pc[p] \notin {"dead", "reaped"}
Log(who, what) == /\ viol' = (viol \/ ~C28_Mutex(j, who, what) \/ ~JournalWF(j, who, what))
                  /\ j' = JStep(j, who, what)

Init == /\ pc = [p \in Procs |-> "idle"] /\ owner = None /\ rounds = [p \in Procs |-> 0]
        /\ kills = 0 /\ announced = {} /\ j = J0 /\ viol = FALSE
        /\ stale = [p \in Procs |-> 0] /\ gcs = [p \in Procs |-> 0]

Open(p) == /\ pc[p] = "idle" /\ rounds[p] < MaxRounds
           /\ pc' = [pc EXCEPT ![p] = "opened"] /\ rounds' = [rounds EXCEPT ![p] = @ + 1]
           /\ UNCHANGED <<owner, kills, announced, j, viol, stale, gcs>>
\* F_SETLK, non-blocking
TryLock(p) == /\ pc[p] = "opened"
              /\ IF owner = None \/ owner = p
                 THEN owner' = p /\ pc' = [pc EXCEPT ![p] = "locked"]
                 ELSE owner' = owner /\ pc' = [pc EXCEPT ![p] = "failed"]
              /\ UNCHANGED <<rounds, kills, announced, j, viol, stale, gcs>>
\* The refused attempt: AcquireLock returns the error to a caller that lives on and may try again later.
\* The code closes the locker first (closing a descriptor drops the process's own lock only - it has
\* none at this point).  ClosesOnRefusal = FALSE is the variant that forgets: the descriptor stays open
\* behind an *os.File nobody references any more (DaemonLock_MC_leak.cfg, expected to FAIL).
RefusedAttempt(p) == /\ pc[p] = "failed" /\ pc' = [pc EXCEPT ![p] = "idle"]
                     /\ IF ClosesOnRefusal
                        THEN owner' = (IF owner = p THEN None ELSE owner) /\ stale' = stale
                        ELSE owner' = owner /\ stale' = [stale EXCEPT ![p] = @ + 1]
                     /\ Log(p, "refused")
                     /\ UNCHANGED <<rounds, kills, announced, gcs>>
\* A garbage collection in a process that holds the lock: finalizers close every unreferenced
\* descriptor, and on POSIX closing ANY descriptor of the file drops ALL of the process's fcntl locks
\* on it - silently: the process goes on believing it holds the lock.  With no stale descriptor GC is a
\* no-op.
GC(p) == /\ pc[p] \in {"locked", "in", "out"} /\ gcs[p] < 1
         /\ gcs' = [gcs EXCEPT ![p] = @ + 1]
         /\ stale' = [stale EXCEPT ![p] = 0]
         /\ owner' = (IF stale[p] > 0 /\ owner = p THEN None ELSE owner)
         /\ Log(p, "gc")
         /\ UNCHANGED <<pc, rounds, kills, announced>>
Enter(p) == /\ pc[p] = "locked" /\ pc' = [pc EXCEPT ![p] = "in"] /\ Log(p, "enter")
            /\ UNCHANGED <<owner, rounds, kills, announced, stale, gcs>>
Exit(p) == /\ pc[p] = "in" /\ pc' = [pc EXCEPT ![p] = "out"] /\ Log(p, "exit")
           /\ UNCHANGED <<owner, rounds, kills, announced, stale, gcs>>
\* Lock.Release: Unlock (F_UNLCK) then Close
Unlock(p) == /\ pc[p] = "out" /\ pc' = [pc EXCEPT ![p] = "unlocked"]
             /\ owner' = (IF owner = p THEN None ELSE owner)
             /\ UNCHANGED <<rounds, kills, announced, j, viol, stale, gcs>>
Close(p) == /\ pc[p] = "unlocked" /\ pc' = [pc EXCEPT ![p] = "idle"]
            /\ owner' = (IF owner = p THEN None ELSE owner)
            /\ UNCHANGED <<rounds, kills, announced, j, viol, stale, gcs>>

Announce(p) == /\ Alive(p) /\ p \notin announced /\ kills < MaxKills
               /\ announced' = announced \cup {p} /\ kills' = kills + 1 /\ Log(p, "killing")
               /\ UNCHANGED <<pc, owner, rounds, stale, gcs>>
\* SIGKILL arrives: every descriptor is closed, the kernel drops the lock
Kill(p) == /\ Alive(p) /\ p \in announced
           /\ pc' = [pc EXCEPT ![p] = "dead"] /\ owner' = (IF owner = p THEN None ELSE owner)
           /\ stale' = [stale EXCEPT ![p] = 0]
           /\ UNCHANGED <<rounds, kills, announced, j, viol, gcs>>
Reap(p) == /\ pc[p] = "dead" /\ pc' = [pc EXCEPT ![p] = "reaped"] /\ Log(p, "killed")
           /\ UNCHANGED <<owner, rounds, kills, announced, stale, gcs>>

ProcStep(p) == Open(p) \/ TryLock(p) \/ RefusedAttempt(p) \/ GC(p) \/ Enter(p) \/ Exit(p) \/ Unlock(p) \/ Close(p)
Next == \E p \in Procs : ProcStep(p) \/ Announce(p) \/ Kill(p) \/ Reap(p)
Spec == Init /\ [][Next]_vars
FairSpec == Spec /\ \A p \in Procs : WF_vars(ProcStep(p)) /\ WF_vars(Kill(p)) /\ WF_vars(Reap(p))

Holding == {p \in Procs : pc[p] \in {"locked", "in", "out"}}
Inv_Mutex == Cardinality(Holding) <= 1
Inv_JournalSound == ~viol
\* whoever believes it holds the lock does hold it in the kernel (nothing dropped it behind its back)
Inv_HolderOwns == \A p \in Holding : owner = p
\* the design: no descriptor outlives a refused attempt, so a collection has nothing to close
Inv_NoStaleDescriptor == \A p \in Procs : stale[p] = 0
\* the kernel lock is never left with an owner that no longer holds it (released, closed, dead)
Inv_NoOrphan == owner # None => owner \in Holding
\* what an observer of the journal believes is consistent with who is really inside
Inv_JournalTracks == {p \in Procs : pc[p] = "in"} \subseteq j.in
\* the lock always becomes available again
Available == \A p \in Procs : [](owner = p => <>(owner # p))
====
