---- MODULE Housekeeping_Trace ----
(***************************************************************************)
(* Trace validation for C43.  Every record is one real                      *)
(* housekeeping.Housekeep call in a child process on a scratch              *)
(* MUTAGEN_DATA_DIRECTORY the driver populated (os.Chtimes):                *)
(*   in  = sidecar flag, the artifacts put there (id, kind, form, age in    *)
(*         minutes at population time);                                     *)
(*   out = ids whose entry no longer exists afterwards (gone), ids still    *)
(*         present whose subtree changed (changed), digest of everything    *)
(*         outside the data directory (link targets, a canary tree) before  *)
(*         and after, whole minutes elapsed since population (slack).       *)
(* "Removed exactly the stale ones" is an exactness statement; the          *)
(* HousekeepingProps operators judge the record directly.                   *)
(***************************************************************************)
EXTENDS HousekeepingProps, TraceKit

CONSTANT Want
VARIABLES l, fails, removed, kept, live, liveodd, done
tvars == <<l, fails, removed, kept, live, liveodd, done>>

Rng(s) == {s[x] : x \in DOMAIN s}
WellFormed(r) == /\ Has(r, "ev") /\ r.ev = "Housekeep" /\ Has(r, "in") /\ Has(r, "out")
                 /\ r.in.sidecar \in BOOLEAN /\ r.out.slack \in Nat
                 /\ \A a \in Rng(r.in.arts) : a.kind \in {"agent", "cache", "staging", "other"} /\ a.age \in Nat

RecFails(i, r) ==
  IF ~WellFormed(r) THEN <<Fail(i, "TraceAccepted")>>
  ELSE LET arts == Rng(r.in.arts)  gone == Rng(r.out.gone) IN
       Chk(Want, i, "C43_RemovesStale", C43_RemovesStale(arts, gone, r.in.sidecar))
    \o Chk(Want, i, "C43_KeepsRecent", C43_KeepsRecent(arts, gone, r.in.sidecar, r.out.slack) /\ r.out.changed = <<>>)
    \o Chk(Want, i, "C43_OutsideUntouched", C43_OutsideUntouched(r.out.before, r.out.after))

\* growth (HousekeepingLive.tla): runs with users at work.  The live artifacts that enter the verdict carry the
\* age the parent observed right before the call; what the model leaves open (a root worked in without being
\* refreshed, a long-running agent with an old access time) is only counted.
IsLive(r) == WellFormed(r) /\ Has(r, "src") /\ r.src = "live"
LiveOdd(r) == IsLive(r) /\ (r.out.live.errors_recent > 0 \/ r.out.live.errors_refreshed > 0
                           \/ ~r.out.live.running_agent_process_up \/ ~r.out.live.old_atime_agent_process_up)
TInit == l = 1 /\ fails = <<>> /\ removed = 0 /\ kept = 0 /\ live = 0 /\ liveodd = 0 /\ done = FALSE
Step == /\ l <= NRec
        /\ LET r == Trace[l] IN
           /\ fails' = Cap(fails \o RecFails(l, r))
           /\ removed' = removed + (IF WellFormed(r) THEN Len(r.out.gone) ELSE 0)
           /\ kept' = kept + (IF WellFormed(r) THEN Len(r.in.arts) - Len(r.out.gone) ELSE 0)
           /\ live' = live + (IF IsLive(r) THEN 1 ELSE 0)
           /\ liveodd' = liveodd + (IF LiveOdd(r) THEN 1 ELSE 0)
        /\ l' = l + 1 /\ UNCHANGED done
Finish == /\ l = NRec + 1 /\ ~done
          /\ WriteResult(l - 1, fails, [stat_removed |-> removed, stat_kept |-> kept, stat_live_runs |-> live, stat_live_drift |-> liveodd])
          /\ done' = TRUE /\ UNCHANGED <<l, fails, removed, kept, live, liveodd>>
TNext == Step \/ Finish
TSpec == TInit /\ [][TNext]_tvars
====
