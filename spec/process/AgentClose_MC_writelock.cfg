\* Write holds a mutex around the pipe write, Close takes it before closing standard input:
\* expected to FAIL Returns (Close eventually returns) - a parked writer makes Close unreachable
CONSTANT Agents <- MCAgents
CONSTANT WaitsForCopy = FALSE
CONSTANT SharedLock = TRUE
SPECIFICATION FairSpec
PROPERTIES Returns
CHECK_DEADLOCK FALSE
