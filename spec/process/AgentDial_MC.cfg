CONSTANT DoExport = TRUE
SPECIFICATION FairSpec
INVARIANTS Inv_AtMostOneInstall Inv_InstallOnlyWhenMissing Inv_StreamsClosed Inv_Conforms Inv_Bounded Export
PROPERTY Terminates
CHECK_DEADLOCK FALSE
