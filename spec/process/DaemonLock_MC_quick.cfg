CONSTANTS Procs = {p1, p2, p3}  None = none  MaxRounds = 1  MaxKills = 1
SPECIFICATION FairSpec
INVARIANTS Inv_Mutex Inv_JournalSound Inv_NoOrphan Inv_JournalTracks
PROPERTY Available
CHECK_DEADLOCK FALSE
