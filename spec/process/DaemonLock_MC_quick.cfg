CONSTANTS Procs = {p1, p2}  None = none  MaxRounds = 2  MaxKills = 1  ClosesOnRefusal = TRUE
SPECIFICATION FairSpec
INVARIANTS Inv_Mutex Inv_JournalSound Inv_NoOrphan Inv_JournalTracks Inv_HolderOwns Inv_NoStaleDescriptor
PROPERTY Available
CHECK_DEADLOCK FALSE
