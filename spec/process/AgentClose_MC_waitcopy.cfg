\* the waiting goroutine drains the standard error forwarder before Wait: expected to FAIL Returns
\* (agent with a descendant that inherited standard error and outlives it, receiver non-nil)
CONSTANT Agents <- MCAgents
CONSTANT WaitsForCopy = TRUE
CONSTANT SharedLock = FALSE
SPECIFICATION FairSpec
INVARIANTS Inv_Exited Inv_Reaped Inv_Order
PROPERTIES Returns
CHECK_DEADLOCK FALSE
