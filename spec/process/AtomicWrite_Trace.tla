---- MODULE AtomicWrite_Trace ----
(***************************************************************************)
(* Trace validation for C27.  Every record is one child process that called *)
(* the real filesystem.WriteFileAtomic or encoding.MarshalAndSaveProtobuf   *)
(* and was crashed (SIGKILL to itself from the verifAtomicStep hook, or the *)
(* kernel's file size limit striking in the middle of the write) or had its *)
(* next call sabotaged so that it failed genuinely, or ran undisturbed:     *)
(*   in   = scenario (old content kind, mode, step, how), digests/sizes of  *)
(*          the old and the new content, requested permission bits;         *)
(*   pre  = the other entries the parent put into the directory beforehand; *)
(*   out  = whether the call returned and with an error or not;             *)
(*   dir / else = what the parent found afterwards in the target's          *)
(*          directory and in the other places a temporary could be put.     *)
(* The step relation consumes every well-formed record; the                 *)
(* AtomicWriteProps operators judge it.                                     *)
(***************************************************************************)
EXTENDS AtomicWriteProps, TraceKit

CONSTANT Want
VARIABLES l, fails, drift, fired, templeft, done
tvars == <<l, fails, drift, fired, templeft, done>>

Rng(s) == {s[x] : x \in DOMAIN s}

WellFormed(r) ==
  /\ Has(r, "ev") /\ r.ev = "Atomic" /\ Has(r, "in") /\ Has(r, "out") /\ Has(r, "dir") /\ Has(r, "pre")
  /\ Has(r, "else") /\ Has(r, "tn")
  /\ r.in.mode \in {"none", "crash", "fail"} /\ r.out.returned \in BOOLEAN /\ r.out.err \in BOOLEAN
  /\ r.in.old.k \in {"absent", "file", "dir"} /\ r.in.new.k = "file"

RecFails(i, r) ==
  IF ~WellFormed(r) THEN <<Fail(i, "TraceAccepted")>>
  ELSE LET d == Rng(r.dir) IN
       Chk(Want, i, "C27_TargetIntact", C27_TargetIntact(d, r.tn, r.in.old, r.in.new))
    \o Chk(Want, i, "C27_NoStray", C27_NoStray(d, r.tn, Rng(r.pre), Rng(r.else)))
    \o Chk(Want, i, "C27_FailKeepsOld", C27_FailKeepsOld(d, r.tn, r.in.old, r.out.returned /\ r.out.err))
    \o Chk(Want, i, "C27_SuccessNew", C27_SuccessNew(d, r.tn, r.in.new, r.in.perm, r.out.returned /\ ~r.out.err))

\* the injected event took effect (crash: the call never returned; fail: it returned an error)
Fired(r) == WellFormed(r) /\ \/ (r.in.mode = "crash" /\ ~r.out.returned)
                             \/ (r.in.mode = "fail" /\ r.out.returned /\ r.out.err)
\* disagreement with what the write machine predicts (reported, never a verdict)
Drift(r) == WellFormed(r) /\
  \/ (r.in.mode # "none" /\ ~Fired(r))
  \/ (r.in.mode = "none" /\ r.in.old.k = "file" /\ r.in.parent /\ ~(r.out.returned /\ ~r.out.err))
  \/ (r.in.mode = "crash" /\ r.in.step # "ret" /\ ~TargetIs(Rng(r.dir), r.tn, r.in.old))
TempLeft(r) == WellFormed(r) /\ r.out.returned /\ Temps(Rng(r.dir)) \ Rng(r.pre) # {}

TInit == l = 1 /\ fails = <<>> /\ drift = 0 /\ fired = 0 /\ templeft = 0 /\ done = FALSE
Step == /\ l <= NRec
        /\ LET r == Trace[l] IN
           /\ fails' = Cap(fails \o RecFails(l, r))
           /\ drift' = drift + (IF Drift(r) THEN 1 ELSE 0)
           /\ fired' = fired + (IF Fired(r) THEN 1 ELSE 0)
           /\ templeft' = templeft + (IF TempLeft(r) THEN 1 ELSE 0)
        /\ l' = l + 1 /\ UNCHANGED done
Finish == /\ l = NRec + 1 /\ ~done
          /\ WriteResult(l - 1, fails, [stat_drift |-> drift, stat_fault_fired |-> fired, stat_temp_left_after_return |-> templeft])
          /\ done' = TRUE /\ UNCHANGED <<l, fails, drift, fired, templeft>>
TNext == Step \/ Finish
TSpec == TInit /\ [][TNext]_tvars
====
