\* the search loop as it was before the fix (no break): expected to FAIL Inv_C46
CONSTANTS BreakAfterFirst = FALSE  MaxEntries = 1  DoExport = FALSE
CONSTANT Inputs <- MCInputs
SPECIFICATION Spec
INVARIANTS Inv_C46
CHECK_DEADLOCK FALSE
