---- MODULE Bundle ----
(***************************************************************************)
(* C46 - the lookup machine of agent.ExecutableForPlatform.  Data and the   *)
(* property operators live in BundleProps (shared with Bundle_Trace).       *)
(*                                                                         *)
(* The actions follow the code: one Probe per iteration of the search loop  *)
(* (os.Open / Stat / mode test), one ScanNext per tar header, Copy.         *)
(* BreakAfterFirst = TRUE is the repaired loop (break after the first       *)
(* successful open); FALSE is the loop as it was before the fix (the last   *)
(* location holding a bundle wins; a non-file in a later location fails the *)
(* call although a bundle was already found) and is kept only so that TLC   *)
(* can show the counterexample (Bundle_MC_nobreak.cfg, expected to fail).   *)
(***************************************************************************)
EXTENDS BundleProps

CONSTANT BreakAfterFirst
CONSTANT Inputs
VARIABLES in, pc, i, bundle, j, out
vars == <<in, pc, i, bundle, j, out>>

Paths == SearchPaths(in.inbin)

Init == /\ in \in Inputs /\ pc = "search" /\ i = 1 /\ bundle = Absent /\ j = 1 /\ out = NoOut

\* one iteration of "for _, path := range bundleSearchPaths"
Probe ==
  /\ pc = "search" /\ i <= Len(Paths)
  /\ LET loc == LocAt(in, Paths[i]) IN
     \/ /\ Missing(loc)                                      \* os.IsNotExist (absent, dangling link): continue
        /\ i' = i + 1 /\ UNCHANGED <<pc, bundle, out>>
     \/ /\ loc.k = "dir"                                     \* "is not a file": return error
        /\ pc' = "done" /\ out' = ErrOut("notfile") /\ UNCHANGED <<i, bundle>>
     \/ /\ loc.k \in {"loop", "noperm"}                      \* any other open error: "unable to open agent bundle"
        /\ pc' = "done" /\ out' = ErrOut("open") /\ UNCHANGED <<i, bundle>>
     \/ /\ loc.k \in {"bundle", "corrupt"}                   \* bundle = file
        /\ bundle' = loc
        /\ IF BreakAfterFirst THEN pc' = "scan" /\ i' = i
                              ELSE pc' = pc /\ i' = i + 1
        /\ out' = out
  /\ UNCHANGED <<in, j>>

SearchEnd ==
  /\ pc = "search" /\ i > Len(Paths)
  /\ IF bundle.k = "bundle" THEN pc' = "scan" /\ out' = out
                            ELSE pc' = "done" /\ out' = ErrOut("locate")
  /\ UNCHANGED <<in, i, bundle, j>>

\* one bundleArchive.Next()
ScanNext ==
  /\ pc = "scan"
  /\ IF bundle.k = "corrupt" THEN pc' = "done" /\ out' = ErrOut("gzip") /\ j' = j       \* gzip.NewReader / Next fail
     ELSE IF j > Len(bundle.e) THEN pc' = "done" /\ out' = ErrOut("unsupported") /\ j' = j   \* io.EOF
     ELSE IF bundle.e[j].n = in.q THEN pc' = "copy" /\ out' = out /\ j' = j
     ELSE pc' = pc /\ out' = out /\ j' = j + 1
  /\ UNCHANGED <<in, i, bundle>>

\* create the output file, io.CopyN(header.Size), chmod, close
Copy ==
  /\ pc = "copy"
  /\ out' = [ok |-> TRUE, err |-> "", b |-> bundle.e[j].b, z |-> bundle.e[j].z, exists |-> TRUE]
  /\ pc' = "done" /\ UNCHANGED <<in, i, bundle, j>>

Next == Probe \/ SearchEnd \/ ScanNext \/ Copy
Spec == Init /\ [][Next]_vars
FairSpec == Spec /\ WF_vars(Next)

Inv_C46 == pc = "done" => /\ C46_SearchOrder(in, out)
                          /\ C46_ExactBytes(in, out)
                          /\ C46_UnknownRejected(in, out)
                          /\ C46_FirstHolderWins(in, out)
Inv_Expected == pc = "done" => out = Expected(in)
Terminates == <>(pc = "done")
====
