---- MODULE AgentClose_MC ----
EXTENDS AgentClose, TLC, Json
Behaviours == {[kind |-> "self", at |-> a, slow |-> FALSE] : a \in 1..5}
              \cup {[kind |-> k, at |-> 0, slow |-> s] : k \in {"eof", "term"}, s \in BOOLEAN}
              \cup {[kind |-> "stubborn", at |-> 0, slow |-> FALSE]}
MCAgents == {[kind |-> b.kind, at |-> b.at, slow |-> b.slow, child |-> c, recv |-> r] :
               b \in Behaviours, c \in {"none", "inherit", "own", "dies"}, r \in BOOLEAN}
Export == (phase = 1 /\ ~exited /\ ~returned /\ ~waited /\ copyDone = ~agent.recv /\ childAlive = (agent.child # "none"))
          => PrintT(<<"BEHAVIOUR", ToJson(agent)>>)
====
