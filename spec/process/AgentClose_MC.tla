---- MODULE AgentClose_MC ----
EXTENDS AgentClose, TLC, Json
MCAgents == {[kind |-> "self", at |-> a, slow |-> FALSE] : a \in 1..5}
            \cup {[kind |-> k, at |-> 0, slow |-> s] : k \in {"eof", "term"}, s \in BOOLEAN}
            \cup {[kind |-> "stubborn", at |-> 0, slow |-> FALSE]}
Export == (phase = 1 /\ ~exited /\ ~returned /\ ~waited) => PrintT(<<"BEHAVIOUR", ToJson(agent)>>)
====
