---- MODULE AgentClose_MC ----
EXTENDS AgentClose, TLC, Json
Behaviours == {[kind |-> "self", at |-> a, slow |-> FALSE] : a \in 1..5}
              \cup {[kind |-> k, at |-> 0, slow |-> s] : k \in {"eof", "term"}, s \in BOOLEAN}
              \cup {[kind |-> "stubborn", at |-> 0, slow |-> FALSE]}
Tree == {[kind |-> b.kind, at |-> b.at, slow |-> b.slow, child |-> c, recv |-> r, w |-> FALSE] :
           b \in Behaviours, c \in {"none", "inherit", "own", "dies"}, r \in BOOLEAN}
\* agents that never read their standard input, with a writer that overfills the pipe
Writers == {[kind |-> b.kind, at |-> b.at, slow |-> b.slow, child |-> "none", recv |-> r, w |-> TRUE] :
              b \in {x \in Behaviours : (x.kind \in {"eof", "term"} /\ ~x.slow) \/ x.kind = "stubborn"
                                        \/ (x.kind = "self" /\ x.at = 2)}, r \in BOOLEAN}
MCAgents == Tree \cup Writers
Export == (phase = 1 /\ ~exited /\ ~returned /\ ~waited /\ copyDone = ~agent.recv /\ childAlive = (agent.child # "none")
           /\ wstate \in {"none", "idle"})
          => PrintT(<<"BEHAVIOUR", ToJson(agent)>>)
====
