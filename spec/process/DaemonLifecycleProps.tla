---- MODULE DaemonLifecycleProps ----
(***************************************************************************)
(* Growth beyond the listed properties: the daemon's life around its lock   *)
(* (cmd/mutagen/daemon/run.go: AcquireLock -> remove a stale endpoint ->    *)
(* ipc.NewListener -> Serve -> termination -> listener.Close -> Release).   *)
(* What an outside observer can see of it - the abstract endpoint state     *)
(*   a = [holder |-> daemon that is up (None if none),                      *)
(*        sock   |-> daemon whose listener the endpoint path leads to       *)
(*                   (None: no socket file; a dead daemon: stale file)]     *)
(* and the events                                                           *)
(*   up p       daemon p has come up and serves                             *)
(*   refused p  daemon p gave up because the lock is held                   *)
(*   reach p    a client connecting to the endpoint path reached p          *)
(*   noreach    a client could not connect                                  *)
(*   term p     p terminated in an orderly way (signal or Terminate request)*)
(*   kill p     p was killed                                                *)
(*   file b     the endpoint's socket file exists (b) after that            *)
(***************************************************************************)
EXTENDS Naturals, Sequences, FiniteSets

CONSTANT None

A0 == [holder |-> None, sock |-> None]
LOk(a, e) ==
  CASE e.what = "up" -> a.holder = None
    [] e.what = "refused" -> a.holder # e.who      \* the lock may also be held by a daemon not yet / no longer up
    [] e.what = "reach" -> a.holder = e.who /\ a.sock = e.who
    [] e.what = "noreach" -> a.holder = None \/ a.sock # a.holder
    [] e.what \in {"term", "kill"} -> a.holder = e.who
    [] e.what = "file" -> (e.present <=> a.sock # None)
    [] OTHER -> FALSE
LStep(a, e) ==
  CASE e.what = "up" -> [holder |-> e.who, sock |-> e.who]      \* stale file replaced by the new listener
    [] e.what = "term" -> [holder |-> None, sock |-> IF a.sock = e.who THEN None ELSE a.sock]
    [] e.what = "kill" -> [a EXCEPT !.holder = None]             \* the socket file stays behind
    [] OTHER -> a
====
