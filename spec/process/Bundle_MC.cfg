CONSTANTS BreakAfterFirst = TRUE  MaxEntries = 2  DoExport = TRUE
CONSTANT Inputs <- MCInputs
SPECIFICATION FairSpec
INVARIANTS Inv_C46 Inv_Expected Export
PROPERTY Terminates
CHECK_DEADLOCK FALSE
