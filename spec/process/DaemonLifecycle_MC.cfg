CONSTANTS Procs = {d1, d2, d3}  None = none  MaxKills = 2  RemoveUnderLock = TRUE
SPECIFICATION FairSpec
INVARIANTS Inv_Mutex Inv_NoClobber Inv_EndpointIsHolders Inv_ServingReachable Inv_ObserverSound Inv_ObserverView
PROPERTY ComesUp
CHECK_DEADLOCK FALSE
