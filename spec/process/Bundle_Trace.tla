---- MODULE Bundle_Trace ----
(***************************************************************************)
(* Trace validation for C46.  Every record is one real call of              *)
(* agent.ExecutableForPlatform made by a copy of the harness executable     *)
(* placed in a scratch layout:                                              *)
(*   in  = the layout the driver built (archive entries with the sha-256    *)
(*         and size of the bytes it put there), the platform it asked for;  *)
(*   out = what came back: ok (nil error), err text, sha-256/size of the    *)
(*         file at the returned path, whether any output file exists.       *)
(* The property is an exactness statement (first location wins, bytes equal *)
(* the entry), so the BundleProps operators judge the record directly;      *)
(* agreement with Expected() in the remaining cases (e.g. a directory in    *)
(* the first location) is counted as drift only.                            *)
(***************************************************************************)
EXTENDS BundleProps, AgentDialProps, TraceKit

CONSTANT Want
VARIABLES l, fails, drift, frommc, dials, dialdrift, done
tvars == <<l, fails, drift, frommc, dials, dialdrift, done>>

WellFormed(r) == /\ Has(r, "ev") /\ r.ev = "Bundle" /\ Has(r, "in") /\ Has(r, "out")
                 /\ r.in.exe.k \in Kinds /\ r.in.lib.k \in Kinds
                 /\ r.in.inbin \in BOOLEAN /\ r.out.ok \in BOOLEAN /\ r.out.exists \in BOOLEAN

\* growth: a real agent.Dial against a scripted transport (see AgentDialProps); only the two facts that
\* are C46's are verdicts, agreement of the command sequence with the dial machine is conformance
IsDial(r) == Has(r, "ev") /\ r.ev = "Dial" /\ Has(r, "in") /\ Has(r, "out")
DialFails(i, r) ==
     Chk(Want, i, "C46_ExactBytes", DialCopiesEntry(r.out.steps, r.out.copied, r.in.bundle))
  \o Chk(Want, i, "C46_UnknownRejected", DialRejectsUnknown(r.out.steps))
DialDrift(r) == ~(r.out.returned /\ ~r.out.offscript /\ Conforms(r.out.steps, r.out.ok) /\ r.out.steps = r.in.steps)

RecFails(i, r) ==
  IF IsDial(r) THEN DialFails(i, r)
  ELSE IF ~WellFormed(r) THEN <<Fail(i, "TraceAccepted")>>
  ELSE Chk(Want, i, "C46_SearchOrder", C46_SearchOrder(r.in, r.out))
    \o Chk(Want, i, "C46_ExactBytes", C46_ExactBytes(r.in, r.out))
    \o Chk(Want, i, "C46_UnknownRejected", C46_UnknownRejected(r.in, r.out))
    \o Chk(Want, i, "C46_FirstHolderWins", C46_FirstHolderWins(r.in, r.out))

Drift(r) == IF WellFormed(r) /\ (r.out.ok # Expected(r.in).ok \/ (r.out.ok /\ r.out.b # Expected(r.in).b)) THEN 1 ELSE 0

TInit == l = 1 /\ fails = <<>> /\ drift = 0 /\ frommc = 0 /\ dials = 0 /\ dialdrift = 0 /\ done = FALSE
Step == /\ l <= NRec
        /\ LET r == Trace[l] IN
           /\ fails' = Cap(fails \o RecFails(l, r))
           /\ drift' = drift + (IF IsDial(r) THEN 0 ELSE Drift(r))
           /\ dials' = dials + (IF IsDial(r) THEN 1 ELSE 0)
           /\ dialdrift' = dialdrift + (IF IsDial(r) /\ DialDrift(r) THEN 1 ELSE 0)
           /\ frommc' = frommc + (IF Has(r, "src") /\ r.src = "mc" THEN 1 ELSE 0)
        /\ l' = l + 1 /\ UNCHANGED done
Finish == /\ l = NRec + 1 /\ ~done
          /\ WriteResult(l - 1, fails, [stat_drift |-> drift, stat_from_model |-> frommc, stat_dials |-> dials, stat_dial_drift |-> dialdrift])
          /\ done' = TRUE /\ UNCHANGED <<l, fails, drift, frommc, dials, dialdrift>>
TNext == Step \/ Finish
TSpec == TInit /\ [][TNext]_tvars
====
