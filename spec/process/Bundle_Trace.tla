---- MODULE Bundle_Trace ----
(***************************************************************************)
(* Trace validation for C46.  Every record is one real call of              *)
(* agent.ExecutableForPlatform made by a copy of the harness executable     *)
(* placed in a scratch layout:                                              *)
(*   in  = the layout the driver built (archive entries with the sha-256    *)
(*         and size of the bytes it put there), the platform it asked for;  *)
(*   out = what came back: ok (nil error), err text, sha-256/size of the    *)
(*         file at the returned path, whether any output file exists.       *)
(* The property is an exactness statement (first location wins, bytes equal *)
(* the entry), so the BundleProps operators judge the record directly;      *)
(* agreement with Expected() in the remaining cases (e.g. a directory in    *)
(* the first location) is counted as drift only.                            *)
(***************************************************************************)
EXTENDS BundleProps, TraceKit

CONSTANT Want
VARIABLES l, fails, drift, frommc, done
tvars == <<l, fails, drift, frommc, done>>

WellFormed(r) == /\ Has(r, "ev") /\ r.ev = "Bundle" /\ Has(r, "in") /\ Has(r, "out")
                 /\ r.in.exe.k \in {"absent", "dir", "bundle"} /\ r.in.lib.k \in {"absent", "dir", "bundle"}
                 /\ r.in.inbin \in BOOLEAN /\ r.out.ok \in BOOLEAN /\ r.out.exists \in BOOLEAN

RecFails(i, r) ==
  IF ~WellFormed(r) THEN <<Fail(i, "TraceAccepted")>>
  ELSE Chk(Want, i, "C46_SearchOrder", C46_SearchOrder(r.in, r.out))
    \o Chk(Want, i, "C46_ExactBytes", C46_ExactBytes(r.in, r.out))
    \o Chk(Want, i, "C46_UnknownRejected", C46_UnknownRejected(r.in, r.out))

Drift(r) == IF WellFormed(r) /\ (r.out.ok # Expected(r.in).ok \/ (r.out.ok /\ r.out.b # Expected(r.in).b)) THEN 1 ELSE 0

TInit == l = 1 /\ fails = <<>> /\ drift = 0 /\ frommc = 0 /\ done = FALSE
Step == /\ l <= NRec
        /\ LET r == Trace[l] IN
           /\ fails' = Cap(fails \o RecFails(l, r))
           /\ drift' = drift + Drift(r)
           /\ frommc' = frommc + (IF Has(r, "src") /\ r.src = "mc" THEN 1 ELSE 0)
        /\ l' = l + 1 /\ UNCHANGED done
Finish == /\ l = NRec + 1 /\ ~done
          /\ WriteResult(l - 1, fails, [stat_drift |-> drift, stat_from_model |-> frommc])
          /\ done' = TRUE /\ UNCHANGED <<l, fails, drift, frommc>>
TNext == Step \/ Finish
TSpec == TInit /\ [][TNext]_tvars
====
