\* the endpoint cleared before the lock attempt: expected to FAIL Inv_NoClobber
CONSTANTS Procs = {d1, d2}  None = none  MaxKills = 0  RemoveUnderLock = FALSE
SPECIFICATION Spec
INVARIANTS Inv_NoClobber
CHECK_DEADLOCK FALSE
