---- MODULE DaemonLockProps ----
(***************************************************************************)
(* C28 - the daemon lock (pkg/daemon/lock.go, pkg/filesystem/locking).      *)
(*                                                                         *)
(* The journal discipline shared by the lock machine (DaemonLock.tla) and   *)
(* the trace module: a process appends "enter" after AcquireLock succeeded  *)
(* and "exit" before it calls Release, so between the two lines it holds    *)
(* the lock; the supervising parent appends "killing p" before it sends     *)
(* SIGKILL to p and "killed p" after it has reaped p.  A journal state is   *)
(*   [in |-> processes that entered and have not exited,                    *)
(*    dying |-> processes announced as being killed].                       *)
(* A process in `in` may vanish without an "exit" line only if it is in     *)
(* `dying` (the silent Die step).  "refused" (AcquireLock returned an error *)
(* to a process that lives on) and "gc" (a garbage collection ran in the    *)
(* process) do not change the journal state: whatever they do behind the    *)
(* scenes must not let a second process enter.                              *)
(***************************************************************************)
EXTENDS Naturals, Sequences, FiniteSets

J0 == [in |-> {}, dying |-> {}]

\* at most one holder: when q enters, everybody still in must be dying (and is retired silently)
C28_Mutex(j, who, what) == what = "enter" => (j.in \ j.dying) \ {who} = {}
\* journal lines are well-formed with respect to each other
JournalWF(j, who, what) ==
  CASE what = "enter" -> who \notin j.in
    [] what = "exit" -> who \in j.in
    [] what = "refused" -> who \notin j.in      \* an attempt that was turned down; the process lives on
    [] what = "gc" -> TRUE                      \* a garbage collection in that process
    [] what = "killing" -> TRUE
    [] what = "killed" -> who \in j.dying
    [] OTHER -> FALSE
JStep(j, who, what) ==
  CASE what = "enter" -> [j EXCEPT !.in = (j.in \ j.dying) \cup {who}]
    [] what = "exit" -> [j EXCEPT !.in = j.in \ {who}]
    [] what = "killing" -> [j EXCEPT !.dying = j.dying \cup {who}]
    [] what = "killed" -> [j EXCEPT !.in = j.in \ {who}]
    [] OTHER -> j

(***************************************************************************)
(* Availability, judged on one quiescent episode: a holder acquired the     *)
(* lock (held), a second process tried meanwhile (second = its AcquireLock  *)
(* succeeded), the holder then released / exited / was killed and the end   *)
(* was confirmed (ended), after which a probe process tried once (probe).   *)
(***************************************************************************)
C28_Excludes(o) == o.held => ~o.second
C28_Available(o) == (o.held /\ o.ended) => o.probe
====
