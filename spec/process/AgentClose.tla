---- MODULE AgentClose ----
(***************************************************************************)
(* Stream.Close as written: a goroutine waits for the process (Wait posts   *)
(* its result on a channel of capacity 1); the caller selects between that  *)
(* result and a timer in three timed phases                                 *)
(*   1 terminationDelay   -> on expiry: close standard input                *)
(*   2 one second         -> on expiry: SIGTERM                             *)
(*   3 one second         -> on expiry: SIGKILL                             *)
(* and finally (phase 4) blocks on the result.  A timer may win the select  *)
(* even when the process has just exited (both cases ready), so escalation  *)
(* onto an already dead process is part of the model.                       *)
(*                                                                         *)
(* Agent behaviours: exits by itself once phase `at` has been reached       *)
(* (at = 5: never), exits on end of input, exits on SIGTERM - each either   *)
(* promptly or only after the following timer has expired ("slow") -, or    *)
(* ignores everything.  SIGKILL always ends the process (kernel).           *)
(***************************************************************************)
EXTENDS AgentCloseProps

CONSTANT Agents
VARIABLES agent, phase, exited, waited, stdinClosed, termSent, killSent, returned
vars == <<agent, phase, exited, waited, stdinClosed, termSent, killSent, returned>>

Init == /\ agent \in Agents /\ phase = 1 /\ exited = FALSE /\ waited = FALSE
        /\ stdinClosed = FALSE /\ termSent = FALSE /\ killSent = FALSE /\ returned = FALSE

MayExit ==
  \/ killSent
  \/ agent.kind = "self" /\ phase >= agent.at
  \/ agent.kind = "eof" /\ stdinClosed /\ (~agent.slow \/ phase >= 3)
  \/ agent.kind = "term" /\ termSent /\ (~agent.slow \/ phase >= 4)

ProcExit == /\ ~exited /\ MayExit /\ exited' = TRUE
            /\ UNCHANGED <<agent, phase, waited, stdinClosed, termSent, killSent, returned>>
\* the waiting goroutine: waitResults <- s.process.Wait()
WaitDone == /\ exited /\ ~waited /\ waited' = TRUE
            /\ UNCHANGED <<agent, phase, exited, stdinClosed, termSent, killSent, returned>>
\* case err := <-waitResults: return err
TakeResult == /\ ~returned /\ waited /\ returned' = TRUE
              /\ UNCHANGED <<agent, phase, exited, waited, stdinClosed, termSent, killSent>>
\* case <-waitTimer.C: escalate
TimerFires ==
  /\ ~returned /\ phase \in 1..3
  /\ phase' = phase + 1
  /\ stdinClosed' = (stdinClosed \/ phase = 1)
  /\ termSent' = (termSent \/ phase = 2)
  /\ killSent' = (killSent \/ phase = 3)
  /\ UNCHANGED <<agent, exited, waited, returned>>

Next == ProcExit \/ WaitDone \/ TakeResult \/ TimerFires
Spec == Init /\ [][Next]_vars
FairSpec == Spec /\ WF_vars(ProcExit) /\ WF_vars(WaitDone) /\ WF_vars(TakeResult) /\ WF_vars(TimerFires)

Obs == [returned |-> returned, alive |-> ~exited]
Inv_Exited == C35_Exited(Obs)
Inv_Reaped == returned => waited
Inv_Order == (killSent => termSent) /\ (termSent => stdinClosed)
Returns == <>C35_Returns(Obs)
====
