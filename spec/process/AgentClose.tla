---- MODULE AgentClose ----
(***************************************************************************)
(* Stream.Close as written: a goroutine waits for the process (Wait posts   *)
(* its result on a channel of capacity 1); the caller selects between that  *)
(* result and a timer in three timed phases                                 *)
(*   1 terminationDelay   -> on expiry: close standard input                *)
(*   2 one second         -> on expiry: SIGTERM                             *)
(*   3 one second         -> on expiry: SIGKILL                             *)
(* and finally (phase 4) blocks on the result.  A timer may win the select  *)
(* even when the process has just exited (both cases ready), so escalation  *)
(* onto an already dead process is part of the model.                       *)
(*                                                                         *)
(* Agent behaviours: exits by itself once phase `at` has been reached       *)
(* (at = 5: never), exits on end of input, exits on SIGTERM - each either   *)
(* promptly or only after the following timer has expired ("slow") -, or    *)
(* ignores everything.  SIGKILL always ends the agent process (kernel) -    *)
(* and only the agent: signals go to its pid, not to its descendants.       *)
(*                                                                         *)
(* Process tree and the standard error pipe.  The agent may have started a  *)
(* child of its own:                                                        *)
(*   "none"     no child                                                    *)
(*   "inherit"  a child that inherited the agent's standard error and       *)
(*              outlives the agent (it never exits within the behaviour)    *)
(*   "own"      a child with its own standard error that outlives the agent *)
(*   "dies"     a child that inherited standard error and exits once the    *)
(*              agent is gone                                               *)
(* When NewStream was given a standard error receiver (recv), the agent's   *)
(* standard error is a pipe and a forwarding goroutine copies from it until *)
(* end of file.  A pipe reaches end of file only when EVERY holder of its   *)
(* write end has closed it - the agent and each descendant that inherited   *)
(* it (Holders).  Wait, on the contrary, returns when the agent process     *)
(* itself has exited, whoever still holds the pipe, and then closes the     *)
(* read end, which also ends the forwarding goroutine.                      *)
(* WaitsForCopy = FALSE is the code: the waiting goroutine calls Wait at    *)
(* once.  WaitsForCopy = TRUE is the classic mistake (wait for the          *)
(* forwarding goroutine first, then Wait): AgentClose_MC_waitcopy.cfg,      *)
(* expected to FAIL - Close then depends on pipe end of file and hangs,     *)
(* with the agent never reaped, for as long as a descendant lives.          *)
(*                                                                         *)
(* A writer blocked on standard input (agent.w).  The agent never reads its *)
(* standard input and another goroutine pushes more than the pipe holds     *)
(* through Stream.Write, so that Write is parked (WriteBlocks).  It comes    *)
(* back - with an error - only when the write end is closed under it or the *)
(* read end disappears with the process (WriteUnblocks).  Close is a        *)
(* separate thread of steps (close stdin -> wait -> SIGTERM -> wait ->      *)
(* SIGKILL, the TimerFires escalation) and none of them may wait on         *)
(* something the parked Write holds.  SharedLock = FALSE is the code.       *)
(* SharedLock = TRUE puts a mutex around the pipe write that Close takes    *)
(* before closing standard input: the first escalation step is then         *)
(* disabled while the writer is parked, the agent is never told to go, and  *)
(* Close never returns (AgentClose_MC_writelock.cfg, expected to FAIL       *)
(* Returns).                                                                *)
(***************************************************************************)
EXTENDS AgentCloseProps

CONSTANTS Agents, WaitsForCopy, SharedLock
VARIABLES agent, phase, exited, waited, stdinClosed, termSent, killSent, returned, childAlive, copyDone, wstate
vars == <<agent, phase, exited, waited, stdinClosed, termSent, killSent, returned, childAlive, copyDone, wstate>>

Init == /\ agent \in Agents /\ phase = 1 /\ exited = FALSE /\ waited = FALSE
        /\ stdinClosed = FALSE /\ termSent = FALSE /\ killSent = FALSE /\ returned = FALSE
        /\ childAlive = (agent.child # "none")
        /\ copyDone = ~agent.recv            \* no receiver: no pipe, no forwarding goroutine
        /\ wstate = (IF agent.w THEN "idle" ELSE "none")

\* who holds the write end of the standard error pipe
Holders == (IF exited THEN {} ELSE {"agent"})
           \cup (IF childAlive /\ agent.child \in {"inherit", "dies"} THEN {"child"} ELSE {})
PipeEOF == Holders = {}

MayExit ==
  \/ killSent
  \/ agent.kind = "self" /\ phase >= agent.at
  \/ agent.kind = "eof" /\ stdinClosed /\ (~agent.slow \/ phase >= 3)
  \/ agent.kind = "term" /\ termSent /\ (~agent.slow \/ phase >= 4)

ProcExit == /\ ~exited /\ MayExit /\ exited' = TRUE
            /\ UNCHANGED <<agent, phase, waited, stdinClosed, termSent, killSent, returned, childAlive, copyDone, wstate>>
\* only the "dies" child ever goes away, and only after the agent
ChildExit == /\ childAlive /\ agent.child = "dies" /\ exited /\ childAlive' = FALSE
             /\ UNCHANGED <<agent, phase, exited, waited, stdinClosed, termSent, killSent, returned, copyDone, wstate>>
\* io.Copy(receiver, standardError) returns: end of file, or the read end was closed by Wait
CopyEnds == /\ ~copyDone /\ (PipeEOF \/ waited) /\ copyDone' = TRUE
            /\ UNCHANGED <<agent, phase, exited, waited, stdinClosed, termSent, killSent, returned, childAlive, wstate>>
\* the waiting goroutine: waitResults <- s.process.Wait()
WaitDone == /\ exited /\ ~waited
            /\ (WaitsForCopy => copyDone)
            /\ waited' = TRUE
            /\ UNCHANGED <<agent, phase, exited, stdinClosed, termSent, killSent, returned, childAlive, copyDone, wstate>>
\* case err := <-waitResults: return err
TakeResult == /\ ~returned /\ waited /\ returned' = TRUE
              /\ UNCHANGED <<agent, phase, exited, waited, stdinClosed, termSent, killSent, childAlive, copyDone, wstate>>
\* case <-waitTimer.C: escalate
\* Stream.Write on a full pipe parks; on a closed or orphaned pipe it fails at once
WriteBlocks == /\ wstate = "idle"
               /\ wstate' = (IF stdinClosed \/ exited THEN "failed" ELSE "blocked")
               /\ UNCHANGED <<agent, phase, exited, waited, stdinClosed, termSent, killSent, returned, childAlive, copyDone>>
\* the parked Write returns an error: its descriptor was closed (Close) or nobody can read any more (exit)
WriteUnblocks == /\ wstate = "blocked" /\ (stdinClosed \/ exited)
                 /\ wstate' = "failed"
                 /\ UNCHANGED <<agent, phase, exited, waited, stdinClosed, termSent, killSent, returned, childAlive, copyDone>>
TimerFires ==
  /\ ~returned /\ phase \in 1..3
  /\ ~(SharedLock /\ phase = 1 /\ wstate = "blocked")     \* closing stdin would first need the writer's mutex
  /\ phase' = phase + 1
  /\ stdinClosed' = (stdinClosed \/ phase = 1)
  /\ termSent' = (termSent \/ phase = 2)
  /\ killSent' = (killSent \/ phase = 3)
  /\ UNCHANGED <<agent, exited, waited, returned, childAlive, copyDone, wstate>>

Next == ProcExit \/ ChildExit \/ CopyEnds \/ WaitDone \/ TakeResult \/ TimerFires \/ WriteBlocks \/ WriteUnblocks
Spec == Init /\ [][Next]_vars
FairSpec == Spec /\ WF_vars(ProcExit) /\ WF_vars(ChildExit) /\ WF_vars(CopyEnds) /\ WF_vars(WaitDone)
                 /\ WF_vars(TakeResult) /\ WF_vars(TimerFires) /\ WF_vars(WriteBlocks) /\ WF_vars(WriteUnblocks)

Obs == [returned |-> returned, alive |-> ~exited]
Inv_Exited == C35_Exited(Obs)
Inv_Reaped == returned => waited
Inv_Order == (killSent => termSent) /\ (termSent => stdinClosed)
\* Close does not depend on the pipe: it may return while a descendant still holds it
\* no step of Close waits on anything a parked Write holds
Inv_CloseNeverWaitsOnWriter == (~returned /\ phase \in 1..3) => ENABLED TimerFires
\* a parked Write always comes back (with an error)
WriterReleased == [](wstate = "blocked" => <>(wstate = "failed"))
Returns == <>C35_Returns(Obs)
\* ... and the agent is reaped although the pipe never reaches end of file
ReapedDespiteHolders == <>(waited)
====
