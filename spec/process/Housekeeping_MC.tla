---- MODULE Housekeeping_MC ----
(***************************************************************************)
(* Bounded inputs: every artifact variant (kind x form x age at limit +- 1  *)
(* min / 1 h / 1 d, plus an "other" bystander) alone and in every pair, in  *)
(* and outside a sidecar container.  The driver puts all variants (and      *)
(* random subsets with random further ages) into real data directories.     *)
(***************************************************************************)
EXTENDS Housekeeping, TLC

CONSTANT MaxArts

Deltas == {-Day, -60, -1, 1, 60, Day}
Forms(k) == CASE k = "agent" -> {"plain", "linkout", "nobinary"}
              [] k = "cache" -> {"plain", "linkout"}
              [] k = "staging" -> {"plain", "linkout", "innerlink"}
              [] OTHER -> {"plain"}
Variants == {[id |-> <<k, f, d>>, kind |-> k, form |-> f, age |-> Limit(k) + d] :
               k \in {"agent", "cache", "staging"}, f \in {"plain", "linkout", "nobinary", "innerlink"}, d \in Deltas}
Valid == {v \in Variants : v.form \in Forms(v.kind)}
         \cup {[id |-> <<"other", "plain", 0>>, kind |-> "other", form |-> "plain", age |-> 400 * Day]}
UpTo1 == {{}} \cup {{a} : a \in Valid}
UpTo2 == UpTo1 \cup {{a, b} : a \in Valid, b \in Valid}
MCInputs == [sidecar : BOOLEAN, arts : IF MaxArts = 1 THEN UpTo1 ELSE UpTo2]
====
