---- MODULE DockerIgnore ----
(***************************************************************************)
(* Docker-style ignores.                                                    *)
(*                                                                         *)
(* Reference (what Docker does with a .dockerignore):                       *)
(*   DParse     = dockerignore.ReadAll cleaning (mirrored by                *)
(*                docker/ignore.go:newValidatedPatternMatcher)              *)
(*   MOPM       = patternmatcher.MatchesOrParentMatches                     *)
(*   MUPR       = patternmatcher.MatchesUsingParentResults                  *)
(*   DockerWalk = the build-context walk of moby pkg/archive (an excluded   *)
(*                directory is still descended when an exclusion pattern     *)
(*                has it as a prefix), with either matcher                   *)
(* Implementation (what Mutagen does):                                      *)
(*   StatusLoop = PatternMatcher.MatchesForMutagen, the loop as coded       *)
(*   Cont       = its traversal-continuation directive                      *)
(*   MScan      = core/scan.go:directory (ignore mask, phantom directories) *)
(*   ReifyCode  = core/phantom.go:reifyPhantomDirectories                   *)
(* Property C15: the synchronized leaves equal Docker's included leaves, and *)
(* an excluded directory is synchronized exactly when it holds synchronized *)
(* content or the ancestor had it.                                          *)
(*                                                                         *)
(* Trees: [k |-> "dir", c |-> [name -> tree]] | [k |-> "file"]; snapshots    *)
(* add the kinds "phantom" (with c) and "untracked"; Nil is [k |-> "nil"].  *)
(* `names` maps a name (map key) to its character sequence.                 *)
(***************************************************************************)
EXTENDS Glob

DInvalid == [valid |-> FALSE]
DParse(raw) ==
  LET cs0 == raw.comps IN
  IF cs0 = <<<<>>>> THEN DInvalid
  ELSE LET rooted == Len(cs0) >= 2 /\ Head(cs0) = <<>>
           st == CleanStack(cs0, <<>>, rooted) IN
       IF rooted /\ st = <<>> THEN DInvalid
       ELSE [valid |-> TRUE, neg |-> raw.neg, comps |-> IF st = <<>> THEN <<Dot>> ELSE st]
DParseAll(raws) == [i \in DOMAIN raws |-> DParse(raws[i])]
DAllValid(raws) == \A i \in DOMAIN raws : DParse(raws[i]).valid

HasExclusions(ps) == \E i \in DOMAIN ps : ps[i].neg

\* ------------------------------------------------------------------ reference
MatchSelfOrParent(p, path) == \E q \in Prefixes(path) : DMatch(p.comps, q)

\* MatchesOrParentMatches, as coded (the skip is an optimisation)
RECURSIVE MOPMFrom(_, _, _, _)
MOPMFrom(ps, i, matched, path) ==
  IF i > Len(ps) THEN matched
  ELSE IF ps[i].neg # matched THEN MOPMFrom(ps, i + 1, matched, path)
  ELSE IF MatchSelfOrParent(ps[i], path) THEN MOPMFrom(ps, i + 1, ~ps[i].neg, path)
  ELSE MOPMFrom(ps, i + 1, matched, path)
MOPM(ps, path) == MOPMFrom(ps, 1, FALSE, path)

\* MatchesUsingParentResults, as coded.  pinfo = <<>> for entries of the root
\* (which have no parent directories, so the fall-back parent test is vacuous).
RECURSIVE MUPRFrom(_, _, _, _, _, _)
MUPRFrom(ps, i, matched, info, pinfo, path) ==
  IF i > Len(ps) THEN [m |-> matched, info |-> info]
  ELSE IF pinfo # <<>> /\ pinfo[i] THEN
         MUPRFrom(ps, i + 1, ~ps[i].neg, Append(info, TRUE), pinfo, path)
  ELSE IF ps[i].neg # matched THEN MUPRFrom(ps, i + 1, matched, Append(info, FALSE), pinfo, path)
  ELSE LET mt == DMatch(ps[i].comps, path) \/ (pinfo = <<>> /\ \E q \in ProperPrefixesNE(path) : DMatch(ps[i].comps, q)) IN
       MUPRFrom(ps, i + 1, IF mt THEN ~ps[i].neg ELSE matched, Append(info, mt), pinfo, path)
MUPR(ps, pinfo, path) == MUPRFrom(ps, 1, FALSE, <<>>, pinfo, path)

\* an exclusion pattern has the directory as a (component-wise literal) prefix
LitPrefix(path, comps) == Len(path) <= Len(comps) /\ \A i \in 1..Len(path) : comps[i] = path[i]
ExclusionBelow(ps, path) == \E i \in DOMAIN ps : ps[i].neg /\ LitPrefix(path, ps[i].comps)

IsDirT(t) == t.k = "dir"
\* A walk yields the included paths (sequences of map keys) and, tagged with a leading "#", the excluded
\* directories it nevertheless enters.
Entered(q) == <<"#">> \o q
Inc(w) == {q \in w : q = <<>> \/ Head(q) # "#"}
Ent(w) == {Tail(q) : q \in {x \in w : x # <<>> /\ Head(x) = "#"}}
\* DockerWalk with MatchesOrParentMatches
RECURSIVE WalkO(_, _, _, _)
WalkO(t, path, ps, names) ==
  UNION {LET q == Append(path, n)
             qc == [i \in DOMAIN q |-> names[q[i]]]
             ch == t.c[n]
             skip == MOPM(ps, qc) IN
         IF ~skip THEN {q} \cup (IF IsDirT(ch) THEN WalkO(ch, q, ps, names) ELSE {})
         ELSE IF IsDirT(ch) /\ ExclusionBelow(ps, qc) THEN {Entered(q)} \cup WalkO(ch, q, ps, names)
         ELSE {} : n \in DOMAIN t.c}
\* DockerWalk with MatchesUsingParentResults (what moby's archive walk calls)
RECURSIVE WalkR(_, _, _, _, _)
WalkR(t, path, pinfo, ps, names) ==
  UNION {LET q == Append(path, n)
             qc == [i \in DOMAIN q |-> names[q[i]]]
             ch == t.c[n]
             r == MUPR(ps, pinfo, qc) IN
         IF ~r.m THEN {q} \cup (IF IsDirT(ch) THEN WalkR(ch, q, r.info, ps, names) ELSE {})
         ELSE IF IsDirT(ch) /\ ExclusionBelow(ps, qc) THEN {Entered(q)} \cup WalkR(ch, q, r.info, ps, names)
         ELSE {} : n \in DOMAIN t.c}
DockerWalkO(tree, ps, names) == WalkO(tree, <<>>, ps, names)
DockerWalkR(tree, ps, names) == WalkR(tree, <<>>, <<>>, ps, names)

RECURSIVE TreeAt(_, _)
TreeAt(t, q) == IF q = <<>> THEN t ELSE TreeAt(t.c[Head(q)], Tail(q))
FilesOf(tree, w) == {q \in Inc(w) : ~IsDirT(TreeAt(tree, q))}
DirsOf(tree, w) == {q \in Inc(w) : IsDirT(TreeAt(tree, q))}
RECURSIVE TreePathsOf(_)
TreePathsOf(t) == IF IsDirT(t) THEN {<<>>} \cup UNION {{<<n>> \o q : q \in TreePathsOf(t.c[n])} : n \in DOMAIN t.c} ELSE {<<>>}
RECURSIVE TreeDirs(_)
TreeDirs(t) == IF IsDirT(t) THEN {<<>>} \cup UNION {{<<n>> \o q : q \in TreeDirs(t.c[n])} : n \in DOMAIN t.c} ELSE {}

\* -------------------------------------------------------------- implementation
\* MatchesForMutagen: the status loop as coded
ExclCount(ps) == Cardinality({i \in DOMAIN ps : ps[i].neg})
RECURSIVE SLoop(_, _, _, _, _)
SLoop(ps, i, status, remaining, path) ==
  IF i > Len(ps) THEN status
  ELSE IF status = "matched" /\ remaining = 0 THEN status
  ELSE LET p == ps[i]
           rm == IF p.neg THEN remaining - 1 ELSE remaining IN
       IF p.neg /\ status = "inverted" THEN SLoop(ps, i + 1, status, rm, path)
       ELSE IF ~p.neg /\ status = "matched" THEN SLoop(ps, i + 1, status, rm, path)
       ELSE IF ~DMatch(p.comps, path) THEN SLoop(ps, i + 1, status, rm, path)
       ELSE SLoop(ps, i + 1, IF p.neg THEN "inverted" ELSE "matched", rm, path)
StatusLoop(ps, path) == SLoop(ps, 1, "nominal", ExclCount(ps), path)
\* ... and what it computes: the last pattern matching the path itself decides
StatusLast(ps, path) ==
  LET M == {i \in DOMAIN ps : DMatch(ps[i].comps, path)} IN
  IF M = {} THEN "nominal"
  ELSE LET m == CHOOSE i \in M : \A j \in M : j <= i IN IF ps[m].neg THEN "inverted" ELSE "matched"

Cont(ps, path, isDir, status) ==
  IF isDir /\ status = "inverted" THEN FALSE
  ELSE IF ~isDir \/ ~HasExclusions(ps) THEN FALSE
  ELSE ExclusionBelow(ps, path)

U == [k |-> "untracked"]
Nil == [k |-> "nil"]
FileE == [k |-> "file"]

\* scan.go:directory with a Docker-style ignorer
RECURSIVE MScan(_, _, _, _, _)
MScan(t, path, mask, ps, names) ==
  [k |-> IF mask THEN "phantom" ELSE "dir",
   c |-> [n \in DOMAIN t.c |->
            LET q == Append(path, n)
                qc == [i \in DOMAIN q |-> names[q[i]]]
                ch == t.c[n]
                st == StatusLoop(ps, qc)
                ct == Cont(ps, qc, IsDirT(ch), st)
                sub(m) == IF IsDirT(ch) THEN MScan(ch, q, m, ps, names) ELSE FileE
            IN CASE st = "nominal" -> (IF mask /\ ~ct THEN U ELSE sub(mask))
                 [] st = "matched" -> (IF ~ct THEN U ELSE sub(TRUE))
                 [] st = "inverted" -> sub(FALSE)]]
MutagenScan(tree, ps, names) == MScan(tree, <<>>, FALSE, ps, names)

\* phantom.go: reifyPhantomDirectories(ancestor, alpha, beta) -> [t, a, b, na, nb]
DirKind(e) == e.k \in {"dir", "phantom"}
Kids(e) == IF DirKind(e) THEN DOMAIN e.c ELSE {}
Kid(e, n) == IF DirKind(e) /\ n \in DOMAIN e.c THEN e.c[n] ELSE Nil
RECURSIVE SumF(_, _)
SumF(f, S) == IF S = {} THEN 0 ELSE LET x == CHOOSE y \in S : TRUE IN f[x] + SumF(f, S \ {x})
RECURSIVE ReifyCode(_, _, _)
ReifyCode(anc, a, b) ==
  IF ~DirKind(a) /\ ~DirKind(b) THEN
    [t |-> (a.k \notin {"nil", "untracked"}) \/ (b.k \notin {"nil", "untracked"}), a |-> a, b |-> b, na |-> 0, nb |-> 0]
  ELSE
    LET ns == Kids(a) \cup Kids(b)
        sub == [n \in ns |-> ReifyCode(Kid(anc, n), Kid(a, n), Kid(b, n))]
        lower == \E n \in ns : sub[n].t
        toTracked == lower \/ anc.k = "dir"
        re(x, side) ==
          IF ~DirKind(x) THEN x
          ELSE IF toTracked \/ x.k = "dir" THEN
                 [k |-> "dir", c |-> [n \in DOMAIN x.c |-> IF side = "a" THEN sub[n].a ELSE sub[n].b]]
          ELSE U
        cnt(x, side) ==
          IF ~DirKind(x) THEN 0
          ELSE (IF toTracked \/ x.k = "dir" THEN 1 ELSE 0)
               + (IF toTracked \/ x.k = "dir" THEN SumF([n \in DOMAIN x.c |-> IF side = "a" THEN sub[n].na ELSE sub[n].nb], DOMAIN x.c)
                  ELSE 0)
        \* the code adds the children's counts before deciding; a phantom reified to untracked keeps
        \* the children's counts, which are all 0 in that case (no tracked content below)
        na == cnt(a, "a")
        nb == cnt(b, "b")
    IN [t |-> na >= 1 \/ nb >= 1, a |-> re(a, "a"), b |-> re(b, "b"), na |-> na, nb |-> nb]

\* ------------------------------------------------------------------------
\* What the trinary status + mask design computes: the decision of the nearest
\* ancestor-or-self that some pattern matches *itself* (last such pattern), instead
\* of Docker's last pattern matching the path or any parent.
RECURSIVE NearestExcluded(_, _)
NearestExcluded(ps, path) ==
  IF path = <<>> THEN FALSE
  ELSE LET s == StatusLast(ps, path) IN
       IF s = "matched" THEN TRUE ELSE IF s = "inverted" THEN FALSE ELSE NearestExcluded(ps, Front(path))
RECURSIVE WalkN(_, _, _, _)
WalkN(t, path, ps, names) ==
  UNION {LET q == Append(path, n)
             qc == [i \in DOMAIN q |-> names[q[i]]]
             ch == t.c[n]
             skip == NearestExcluded(ps, qc) IN
         IF ~skip THEN {q} \cup (IF IsDirT(ch) THEN WalkN(ch, q, ps, names) ELSE {})
         ELSE IF IsDirT(ch) /\ ExclusionBelow(ps, qc) THEN {Entered(q)} \cup WalkN(ch, q, ps, names)
         ELSE {} : n \in DOMAIN t.c}
NearestWalk(tree, ps, names) == WalkN(tree, <<>>, ps, names)

\* -------------------------------------------------------------------- property
RECURSIVE At(_, _)
At(e, q) == IF q = <<>> THEN e ELSE At(Kid(e, Head(q)), Tail(q))
RECURSIVE SnapPaths(_)
SnapPaths(e) == IF e.k = "nil" THEN {} ELSE {<<>>} \cup UNION {{<<n>> \o q : q \in SnapPaths(e.c[n])} : n \in Kids(e)}
\* synchronized = reachable from the root through tracked directories
RECURSIVE SyncFiles(_)
SyncFiles(e) == IF e.k = "file" THEN {<<>>}
                ELSE IF e.k = "dir" THEN UNION {{<<n>> \o q : q \in SyncFiles(e.c[n])} : n \in DOMAIN e.c}
                ELSE {}
RECURSIVE SyncDirs(_)
SyncDirs(e) == IF e.k = "dir" THEN {<<>>} \cup UNION {{<<n>> \o q : q \in SyncDirs(e.c[n])} : n \in DOMAIN e.c}
               ELSE {}

\* the directories a scan entered although they are excluded: its phantom directories
PhantomPaths(e) == {q \in SnapPaths(e) : At(e, q).k = "phantom"}
\* a reified snapshot (and the scan it came from) conforms to a walk: same synchronized leaves, every
\* included directory synchronized, and exactly the excluded directories the walk enters were entered
ConformsTo(tree, w, snap, re) ==
  /\ SyncFiles(re) = FilesOf(tree, w)
  /\ DirsOf(tree, w) \subseteq SyncDirs(re)
  /\ PhantomPaths(snap) = Ent(w)

\* Docker is not a single function: where the two upstream matchers disagree either answer is Docker's
DockerFileSets(tree, ps, names) == {FilesOf(tree, DockerWalkO(tree, ps, names)), FilesOf(tree, DockerWalkR(tree, ps, names))}
DockerUnambiguous(tree, ps, names) == DockerWalkO(tree, ps, names) = DockerWalkR(tree, ps, names)

C15_LeafSetsEqual(tree, reified, ps, names) == SyncFiles(reified) \in DockerFileSets(tree, ps, names)

\* a directory Docker includes is synchronized
C15_IncludedDirsTracked(tree, reified, ps, names) ==
  \/ DirsOf(tree, DockerWalkO(tree, ps, names)) \subseteq SyncDirs(reified)
  \/ DirsOf(tree, DockerWalkR(tree, ps, names)) \subseteq SyncDirs(reified)

\* the reification rule, declaratively, on the scanned (unreified) snapshots of the two endpoints:
\* a phantom directory at q becomes a synchronized directory iff, at q or below it (through directory
\* kinds), an endpoint holds tracked content strictly below q or the ancestor had a directory where an
\* endpoint has a directory kind
TrackedKind(e) == e.k \in {"file", "dir", "link", "problem"}
HoldsOrHad(anc, a, b, q) ==
  \E r \in SnapPaths(At(a, q)) \cup SnapPaths(At(b, q)) :
     LET x == At(a, q \o r)  y == At(b, q \o r)  z == At(anc, q \o r) IN
     \/ r # <<>> /\ (TrackedKind(x) \/ TrackedKind(y))
     \/ z.k = "dir" /\ (DirKind(x) \/ DirKind(y))
ExpectedKindAfter(anc, a, b, side, q) ==
  LET x == At(IF side = "a" THEN a ELSE b, q) IN
  IF x.k # "phantom" THEN x.k ELSE IF HoldsOrHad(anc, a, b, q) THEN "dir" ELSE "untracked"
\* every entry reachable in the reified snapshot has the expected kind, phantoms are gone, and nothing
\* that was reachable through directories that stay is lost
RECURSIVE ReifiedAsExpected(_, _, _, _, _, _)
ReifiedAsExpected(anc, a, b, side, re, q) ==
  LET x == At(IF side = "a" THEN a ELSE b, q) IN
  /\ re.k = ExpectedKindAfter(anc, a, b, side, q)
  /\ re.k = "dir" => /\ DOMAIN re.c = DOMAIN x.c
                     /\ \A n \in DOMAIN re.c : ReifiedAsExpected(anc, a, b, side, re.c[n], Append(q, n))
C15_ExcludedDirRule(anc, a, b, reA, reB) ==
  /\ ReifiedAsExpected(anc, a, b, "a", reA, <<>>)
  /\ b.k # "nil" => ReifiedAsExpected(anc, a, b, "b", reB, <<>>)
====
