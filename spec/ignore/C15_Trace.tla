---- MODULE C15_Trace ----
(***************************************************************************)
(* Trace validation for C15.  Records:                                      *)
(*   Domain  - header of a full run (tier of the bounded domain that follows)*)
(*   DWalk   - docker.NewIgnorer(patterns); core.Scan of the materialised    *)
(*             tree (and of the other endpoint's tree);                      *)
(*             core.ReifyPhantomDirectories(ancestor, alpha, beta);          *)
(*             optionally the upstream reference walk (calibration)          *)
(*   DockCal - the vendored upstream matcher on one pattern and one path     *)
(*             (calibration of Glob!DMatch)                                  *)
(* C15 is an exactness statement: the synchronized leaves of the reified     *)
(* real snapshot must be the leaves Docker's walk includes.  Docker itself   *)
(* has two matchers that disagree on some lists; either answer is accepted.  *)
(*                                                                         *)
(* Known finding (open): Mutagen decides by the nearest ancestor-or-self     *)
(* matched by a pattern, Docker by the last pattern matching the path or any *)
(* parent.  On pattern lists where the two rules differ for the tree at hand  *)
(* (KnownClass), a failure is reported under the separate name               *)
(* C15_LeafSetsEqual_NearestOverride (listed in known_findings/ignore.json)  *)
(* and C15_DivergenceAsRecorded still demands that the real result is one of *)
(* Docker's answers or exactly the recorded divergence.  Everywhere else     *)
(* C15_LeafSetsEqual decides.                                                *)
(***************************************************************************)
EXTENDS DockerIgnore, IgnoreDomain, TraceKit

CONSTANT Want
VARIABLES l, fails, tier, next, cnt, done
tvars == <<l, fails, tier, next, cnt, done>>
KnownName == "C15_LeafSetsEqual_NearestOverride"
KeepKnown == 3     \* occurrences of the known finding kept in `fails`; all are counted in stat_known_class

BlocksQ == DBlocksQuick
BlocksT == DBlocksThorough
BlocksOf(t) == IF t = "thorough" THEN BlocksT ELSE BlocksQ
SizeQ == DTotalSize(BlocksQ)
SizeT == DTotalSize(BlocksT)
SizeOf(t) == IF t = "thorough" THEN SizeT ELSE SizeQ

Indexed(r) == Has(r, "idx") /\ tier # "none"
Member(r) ==
  LET x == r.idx  bs == BlocksOf(tier) IN
  /\ DWellFormedIdx(bs, x.b, x.li)
  /\ r.in.pats = ListOf(bs[x.b], x.li)
  /\ r.in.tree = DTrees[1] /\ r.in.tree2 = Nil /\ r.in.anc = Nil
RankOf(r) == DRank(BlocksOf(tier), r.idx.b, r.idx.li)

ToSet(s) == {s[i] : i \in DOMAIN s}

\* verdicts on one endpoint: tree, its real scan, its reified real snapshot; wo, wr are Docker's two walks
SideFails(i, tree, snap, re, ps, names, wo, wr) ==
  IF ConformsTo(tree, wo, snap, re) \/ ConformsTo(tree, wr, snap, re) THEN <<>>
  ELSE LET nw == NearestWalk(tree, ps, names) IN
       IF nw \notin {wo, wr}
       THEN Chk(Want, i, "C15_LeafSetsEqual_NearestOverride", FALSE)
         \o Chk(Want, i, "C15_DivergenceAsRecorded", ConformsTo(tree, nw, snap, re))
       ELSE IF SyncFiles(re) \notin {FilesOf(tree, wo), FilesOf(tree, wr)}
            THEN Chk(Want, i, "C15_LeafSetsEqual", FALSE)
            ELSE IF ~(DirsOf(tree, wo) \subseteq SyncDirs(re) \/ DirsOf(tree, wr) \subseteq SyncDirs(re))
                 THEN Chk(Want, i, "C15_IncludedDirsTracked", FALSE)
                 ELSE Chk(Want, i, "C15_DescendsAsDocker", FALSE)

WalkFails(i, r) ==
  LET raws == r.in.pats
      ok == DAllValid(raws)
      ps == DParseAll(raws)
      wo == DockerWalkO(r.in.tree, ps, r.names)
      wr == DockerWalkR(r.in.tree, ps, r.names) IN
  Chk(Want, i, "C15_DomainMember", Indexed(r) => Member(r) /\ RankOf(r) = next)
  \o Chk(Want, i, "Drift_Validity", r.valid = ok)
  \o (IF ~ok THEN <<>>
      ELSE IF ~r.valid \/ r.err # "" THEN Chk(Want, i, "C15_LeafSetsEqual", FALSE)
      ELSE SideFails(i, r.in.tree, r.snapA, r.reA, ps, r.names, wo, wr)
        \o (IF r.in.tree2 = Nil THEN <<>>
            ELSE SideFails(i, r.in.tree2, r.snapB, r.reB, ps, r.names,
                           DockerWalkO(r.in.tree2, ps, r.names), DockerWalkR(r.in.tree2, ps, r.names)))
        \o Chk(Want, i, "C15_ExcludedDirRule", C15_ExcludedDirRule(r.in.anc, r.snapA, r.snapB, r.reA, r.reB))
        \o Chk(Want, i, "Drift_DirCounts", r.cntA = Cardinality(SyncDirs(r.reA)) /\ r.cntB = Cardinality(SyncDirs(r.reB)))
        \o Chk(Want, i, "Drift_ScanAsModelled", r.snapA = MutagenScan(r.in.tree, ps, r.names))
        \o (IF r.ref.have
            THEN Chk(Want, i, "Calib_DockerWalk", ToSet(r.ref.o) = Inc(wo) /\ ToSet(r.ref.r) = Inc(wr))
            ELSE <<>>))

CalFails(i, r) == Chk(Want, i, "Calib_DockerMatch", ~r.err /\ r.m = DMatch(r.in.comps, r.in.path))

RecFails(i, r) ==
  CASE r.ev = "DWalk" -> WalkFails(i, r)
    [] r.ev = "DockCal" -> CalFails(i, r)
    [] r.ev = "Domain" -> <<>>
    [] OTHER -> <<Fail(i, "TraceAccepted")>>

HasPhantom(r) == r.ev = "DWalk" /\ r.valid /\ \E q \in SnapPaths(r.snapA) : At(r.snapA, q).k = "phantom"
TInit == l = 1 /\ fails = <<>> /\ tier = "none" /\ next = 0 /\ done = FALSE
         /\ cnt = [known |-> 0, walks |-> 0, indomain |-> 0, phantom |-> 0, conjoined |-> 0, cal |-> 0]
Step == /\ l <= NRec
        /\ LET r == Trace[l]
               fs == RecFails(l, r)
               known == SelectSeq(fs, LAMBDA f : f.inv = KnownName)
               other == SelectSeq(fs, LAMBDA f : f.inv # KnownName)
               room == IF cnt.known >= KeepKnown \/ known = <<>> THEN <<>> ELSE <<known[1]>>
           IN
           /\ fails' = Cap(fails \o other \o room)
           /\ tier' = IF r.ev = "Domain" THEN r.tier ELSE tier
           /\ next' = IF r.ev = "DWalk" /\ Indexed(r) THEN next + 1 ELSE next
           /\ cnt' = [cnt EXCEPT !.known = @ + (IF known # <<>> THEN 1 ELSE 0),
                                 !.walks = @ + (IF r.ev = "DWalk" THEN 1 ELSE 0),
                                 !.indomain = @ + (IF r.ev = "DWalk" /\ Indexed(r) THEN 1 ELSE 0),
                                 !.phantom = @ + (IF HasPhantom(r) THEN 1 ELSE 0),
                                 !.conjoined = @ + (IF r.ev = "DWalk" /\ r.in.tree2 # Nil THEN 1 ELSE 0),
                                 !.cal = @ + (IF r.ev = "DockCal" THEN 1 ELSE 0)]
        /\ l' = l + 1 /\ UNCHANGED done
Complete == tier # "none" => next = SizeOf(tier)
Finish == /\ l = NRec + 1 /\ ~done
          /\ WriteResult(l - 1,
                         Cap(fails \o Chk(Want, 1, "C15_DomainComplete", Complete)),
                         [stat_known_class |-> cnt.known, stat_walks |-> cnt.walks, stat_indomain |-> cnt.indomain, stat_with_phantoms |-> cnt.phantom,
                          stat_conjoined |-> cnt.conjoined, stat_calibrations |-> cnt.cal,
                          stat_domain_size |-> IF tier = "none" THEN 0 ELSE SizeOf(tier)])
          /\ done' = TRUE /\ UNCHANGED <<l, fails, tier, next, cnt>>
TNext == Step \/ Finish
TSpec == TInit /\ [][TNext]_tvars
====
