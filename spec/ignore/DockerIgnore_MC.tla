---- MODULE DockerIgnore_MC ----
(***************************************************************************)
(* Leg D for C15: over every pattern list of the bounded domain and the     *)
(* fixed trees.  Mutagen's mechanism (trinary status + traversal             *)
(* continuation + ignore mask + phantom directories + reification) is        *)
(* compared with Docker's build-context walk.                                *)
(*                                                                         *)
(* What TLC establishes on the model:                                       *)
(*  - the status loop as coded computes "the last pattern matching the path  *)
(*    itself decides" (StatusLoopIsLast);                                    *)
(*  - scan + mask + phantoms + reification yields exactly Docker's walk rule *)
(*    applied to the decision of the NEAREST ancestor-or-self that a pattern *)
(*    matches itself (AsCodedIsNearest);                                     *)
(*  - whenever that decision agrees with Docker's (last pattern matching the *)
(*    path or any parent), the synchronized leaves are Docker's (C15 holds); *)
(*    where it does not, the design itself departs from Docker: this is the  *)
(*    open finding recorded in known_findings/ignore.json;                   *)
(*  - reification as coded follows the declarative excluded-directory rule.  *)
(***************************************************************************)
EXTENDS DockerIgnore, IgnoreDomain, Json
CONSTANT Tier
VARIABLES bi, li
vars == <<bi, li>>
Blocks == DBlocks(Tier)

ASSUME ndJsonSerialize("behaviours.ndjson",
         [i \in 1..Len(Blocks) |-> [syntax |-> "docker", tier |-> Tier, index |-> i, trees |-> DTrees, names |-> NameChars] @@ Blocks[i]])

Init == bi \in 1..Len(Blocks) /\ li = <<>>
Next == /\ Len(li) < Blocks[bi].maxlen
        /\ \E x \in 1..Len(Blocks[bi].gram) : li' = Append(li, x)
        /\ UNCHANGED bi
Spec == Init /\ [][Next]_vars

Anc1 == [k |-> "dir", c |-> [a |-> [k |-> "dir", c |-> [a |-> [k |-> "dir", c |-> <<>>], b |-> [k |-> "file"]]], c |-> [k |-> "dir", c |-> <<>>]]]

Design ==
  Len(li) >= Blocks[bi].minlen =>
  LET raws == ListOf(Blocks[bi], li)
      ps == DParseAll(raws)
      t1 == DTrees[1]
      t2 == DTrees[2]
      s1 == MutagenScan(t1, ps, NameChars)
      s2 == MutagenScan(t2, ps, NameChars)
      r1 == ReifyCode(Nil, s1, Nil)
      r12 == ReifyCode(Anc1, s1, s2)
      n1 == NearestWalk(t1, ps, NameChars)
      n2 == NearestWalk(t2, ps, NameChars)
  IN DAllValid(raws) =>
     /\ \A q \in (TreePathsOf(t1) \ {<<>>}) :
          LET qc == [i \in DOMAIN q |-> NameChars[q[i]]] IN StatusLoop(ps, qc) = StatusLast(ps, qc)
     /\ ConformsTo(t1, n1, s1, r1.a)
     /\ ConformsTo(t2, n2, s2, ReifyCode(Nil, s2, Nil).a)
     /\ n1 \in {DockerWalkO(t1, ps, NameChars), DockerWalkR(t1, ps, NameChars)} =>
           /\ C15_LeafSetsEqual(t1, r1.a, ps, NameChars)
           /\ C15_IncludedDirsTracked(t1, r1.a, ps, NameChars)
     /\ C15_ExcludedDirRule(Nil, s1, Nil, r1.a, r1.b)
     /\ C15_ExcludedDirRule(Anc1, s1, s2, r12.a, r12.b)
     /\ r1.na = Cardinality(SyncDirs(r1.a))
====
