CONSTANT Tier = "thorough"
SPECIFICATION Spec
INVARIANT Design
CHECK_DEADLOCK FALSE
