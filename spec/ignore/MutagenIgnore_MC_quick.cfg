CONSTANT Tier = "quick"
SPECIFICATION Spec
INVARIANT Design
CHECK_DEADLOCK FALSE
