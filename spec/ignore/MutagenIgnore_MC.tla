---- MODULE MutagenIgnore_MC ----
(***************************************************************************)
(* Leg D for C14: over the complete bounded domain (IgnoreDomain blocks)    *)
(* the loop as coded (ShortCircuit) computes the declarative rule           *)
(* (LastMatchWins); parsing is total; pruning is consistent.  The module    *)
(* also exports the blocks for the driver.                                  *)
(***************************************************************************)
EXTENDS MutagenIgnore, IgnoreDomain, Json
CONSTANT Tier
VARIABLES bi, li, pi, d, vi, picked
vars == <<bi, li, pi, d, vi, picked>>
Blocks == MBlocks(Tier)

ASSUME ndJsonSerialize("behaviours.ndjson",
         [i \in 1..Len(Blocks) |-> [syntax |-> "mutagen", tier |-> Tier, index |-> i] @@ Blocks[i]])

RECURSIVE Lists(_, _)
Lists(g, n) == IF n = 0 THEN {<<>>} ELSE {Append(l, x) : l \in Lists(g, n - 1), x \in 1..g}
Init == /\ bi \in 1..Len(Blocks)
        /\ \E n \in 0..3 : n >= Blocks[bi].minlen /\ n <= Blocks[bi].maxlen /\ li \in Lists(Len(Blocks[bi].gram), n)
        /\ pi = 0 /\ d = FALSE /\ vi = 0 /\ picked = FALSE
Next == /\ ~picked /\ picked' = TRUE
        /\ pi' \in 1..Len(Blocks[bi].paths) /\ d' \in BOOLEAN /\ vi' \in 1..Len(Blocks[bi].vcs)
        /\ UNCHANGED <<bi, li>>
Spec == Init /\ [][Next]_vars

\* One combined invariant so that the list is parsed once per state:
\*  (1) the loop as coded decides exactly as the declarative rule;
\*  (2) the clauses of the statement on the parsed form (directory-only patterns never match files, a
\*      slash-less pattern matches wherever its final component matches, an anchored pattern only
\*      matches the whole path);
\*  (3) ranks stay inside 0..TotalSize-1;
\*  (4) beneath an ignored directory everything is ignored (the pruning clause).
Design ==
  picked =>
  LET blk == Blocks[bi]
      raws == ListOf(blk, li)
      path == blk.paths[pi]
      vcs == blk.vcs[vi]
      ok == AllValid(raws)
      ps == ParseAll(raws)
      st(q, isDir) == IF vcs /\ isDir /\ Last(q) \in VCSNames THEN "ignored" ELSE LastMatchWins(ps, q, isDir)
  IN
  /\ ok => ShortCircuit(ps, path, d) = LastMatchWins(ps, path, d)
  /\ \A i \in DOMAIN raws : LET p == ps[i] IN p.valid =>
       /\ p.comps # <<>> /\ \A k \in DOMAIN p.comps : p.comps[k] # <<>>
       /\ p.leaf => Len(p.comps) = 1
       /\ LET m == Matches(p, path, d) IN
          /\ p.dirOnly /\ ~d => ~m
          /\ p.leaf /\ Matches(p, <<Last(path)>>, d) => m
          /\ ~p.leaf => (m <=> (p.dirOnly => d) /\ MatchPath(p.comps, path))
  /\ Rank(Blocks, bi, li, pi, d, vi) \in 0..(TotalSize(Blocks) - 1)
  /\ ok /\ Len(path) >= 2 /\ (\E k \in 1..(Len(path) - 1) : st(SubSeq(path, 1, k), TRUE) = "ignored")
       => Ignored(raws, vcs, path, d)
====
