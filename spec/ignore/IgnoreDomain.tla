---- MODULE IgnoreDomain ----
(***************************************************************************)
(* The bounded input domain of the ignore family, as numbered blocks.       *)
(* A block is [name, gram, minlen, maxlen, paths, vcs]: every pattern list   *)
(* over `gram` (a sequence of raw patterns) of length minlen..maxlen, every  *)
(* element of `paths`, both directory flags, every element of `vcs`.         *)
(* Cases are ranked (block, length, list digits, path, dir, vcs); the        *)
(* driver enumerates in rank order and the trace module recomputes the rank  *)
(* and the case from the indices, so membership and completeness are         *)
(* checked by TLC, not assumed.  The blocks are exported to the driver        *)
(* (behaviours.ndjson) by the *_MC modules.                                   *)
(***************************************************************************)
EXTENDS Naturals, Sequences, TLC

cE == <<>>
cA == <<"a">>
cB == <<"b">>
cC == <<"c">>
cAB == <<"a", "b">>
cSt == <<"*">>
cDSt == <<"**">>
cDot == <<".">>
cDD == <<".", ".">>
R(neg, comps) == [neg |-> neg, comps |-> comps]

RECURSIVE Pow(_, _)
Pow(x, n) == IF n = 0 THEN 1 ELSE x * Pow(x, n - 1)

\* TLC keeps [i \in S |-> e] as an unevaluated closure; Force turns a sequence given that way into an
\* explicit tuple once, so that the cached domain constants are plain data
RECURSIVE ForceFrom(_, _, _)
ForceFrom(s, i, acc) == IF i > Len(s) THEN acc ELSE ForceFrom(s, i + 1, Append(acc, s[i]))
Force(s) == ForceFrom(s, 1, <<>>)
RECURSIVE Force2From(_, _, _)
Force2From(s, i, acc) == IF i > Len(s) THEN acc ELSE Force2From(s, i + 1, Append(acc, Force(s[i])))
Force2(s) == Force2From(s, 1, <<>>)

\* decoration k in 0..7 of cA body: negation, leading slash, trailing slash
Deco(body, k) == R(k % 2 = 1, (IF (k \div 2) % 2 = 1 THEN <<cE>> ELSE <<>>) \o body \o (IF (k \div 4) % 2 = 1 THEN <<cE>> ELSE <<>>))
Decorated(bodies) == Force([i \in 1..(Len(bodies) * 8) |-> Deco(bodies[((i - 1) \div 8) + 1], (i - 1) % 8)])

\* ---- Mutagen-style -------------------------------------------------------
MComps1 == << cA, cB, cAB, cSt, <<"?">>, <<"a", "*">>, <<"*", "b">>, <<"[ab]">>, <<"[^a]">>, <<"[!b]">>, <<"[a-c]">>, <<"a", "?">>, cDSt >>
MSmall == << cA, cB, cSt, cDSt >>
MBodies ==
     Force([i \in 1..Len(MComps1) |-> <<MComps1[i]>>])
  \o Force([i \in 1..16 |-> <<MSmall[((i - 1) \div 4) + 1], MSmall[((i - 1) % 4) + 1]>>])
  \o << <<cA, cDSt, cB>>, <<cDSt, cA, cB>>, <<cA, cB, cDSt>>, <<cSt, cSt, cSt>>, <<cA, cB, cA>>, <<cDSt, cDSt, cB>>, <<cA, cSt, cB>>, <<cAB, <<"?">> >> >>
  \o << <<cDot, cA>>, <<cA, cE, cB>>, <<cA, cDot, cB>>, <<cA, cDD, cB>>, <<cDD, cA>>, <<cA, cDD>>, <<cDot>>, <<cDD>>, <<cA, cB, cDD, cDD, cB>> >>
MInvalids == << R(FALSE, <<cE>>), R(TRUE, <<cE>>), R(FALSE, <<cE, cE>>), R(TRUE, <<cE, cE>>), R(FALSE, <<cE, cE, cE>>), R(TRUE, <<cE, cE, cE>>),
                R(FALSE, <<cE, cE, cE, cE>>), R(FALSE, <<cE, cDot>>), R(FALSE, <<cE, cDot, cE>>), R(TRUE, <<cE, cDD>>), R(FALSE, <<cE, cA, cDD, cE>>) >>
MGramFull == Decorated(MBodies) \o MInvalids

MCoreQ == << R(FALSE, <<cA>>), R(TRUE, <<cA>>), R(FALSE, <<cA, cE>>), R(TRUE, <<cE, cA>>),
             R(FALSE, <<cSt>>), R(TRUE, <<cSt>>), R(FALSE, <<cA, cB>>), R(TRUE, <<cA, cB>>), R(FALSE, <<cDSt, cB>>), R(TRUE, <<cB>>) >>
MCore == MCoreQ \o << R(TRUE, <<cA, cE>>), R(FALSE, <<cE, cA>>) >>
MCoreX == MCore \o << R(FALSE, <<cB>>), R(TRUE, <<cDSt, cB, cE>>), R(FALSE, <<cA, cDSt>>), R(TRUE, <<cE, cSt, cSt>>) >>

Names2 == <<cA, cB>>
Names3 == <<cA, cB, cAB>>
PathsOver(ns, depth) ==
  LET n == Len(ns)
      lvl(k) == [i \in 1..Pow(n, k) |-> [j \in 1..k |-> ns[(((i - 1) \div Pow(n, k - j)) % n) + 1]]]
  IN Force2(IF depth = 1 THEN lvl(1) ELSE IF depth = 2 THEN lvl(1) \o lvl(2) ELSE lvl(1) \o lvl(2) \o lvl(3))
MPaths2 == PathsOver(Names2, 3)
MPaths3 == PathsOver(Names3, 3)
\* quick tier: depth <= 2 over {a, b, ab} and depth 3 over {a, b}
MPathsQ == PathsOver(Names3, 2) \o SubSeq(MPaths2, 7, 14)
\* quick tier, list block: depth <= 2 over {a, b} and a/a/b, a/b/a, b/a/b, b/b/b
MPathsL == SubSeq(MPaths2, 1, 6) \o <<MPaths2[8], MPaths2[9], MPaths2[12], MPaths2[14]>>

cGit == <<".", "g", "i", "t">>
VGram == << R(TRUE, <<cGit>>), R(FALSE, <<cGit, cE>>), R(FALSE, <<cA>>), R(TRUE, <<cSt>>), R(TRUE, <<cDSt, cGit, cE>>) >>
VPaths == << <<cGit>>, <<cA, cGit>>, <<cGit, cA>>, <<cA>>, <<<<".", "s", "v", "n">>>>, <<<<".", "h", "g">>>>, <<<<".", "b", "z", "r">>>>,
             <<<<"_", "d", "a", "r", "c", "s">>>>, <<<<".", "g", "i", "t", "x">>>>, <<cA, <<".", "h", "g">>, cB>> >>

Blk(name, gram, lo, hi, paths, vcs) == [name |-> name, gram |-> gram, minlen |-> lo, maxlen |-> hi, paths |-> paths, vcs |-> vcs]
MBlocksQuick == << Blk("single", MGramFull, 1, 1, MPathsQ, <<FALSE>>),
                   Blk("lists", MCoreQ, 0, 3, MPathsL, <<FALSE>>),
                   Blk("vcs", VGram, 0, 2, VPaths, <<FALSE, TRUE>>) >>
Every(s, k) == Force([i \in 1..(Len(s) \div k) |-> s[i * k]])
MBlocksThorough == << Blk("single", MGramFull, 1, 1, MPaths3, <<FALSE>>),
                      Blk("lists", MCoreX, 0, 3, MPaths2, <<FALSE>>),
                      Blk("pairs", Every(MGramFull, 5), 2, 2, MPaths2, <<FALSE>>),
                      Blk("vcs", VGram, 0, 3, VPaths, <<FALSE, TRUE>>) >>
MBlocks(tier) == IF tier = "thorough" THEN MBlocksThorough ELSE MBlocksQuick

\* ---- ranking ---------------------------------------------------------------
ListsOfLen(blk, n) == Pow(Len(blk.gram), n)
PerList(blk) == Len(blk.paths) * 2 * Len(blk.vcs)
RECURSIVE ListsBelow(_, _)
ListsBelow(blk, n) == IF n <= blk.minlen THEN 0 ELSE ListsOfLen(blk, n - 1) + ListsBelow(blk, n - 1)
BlockSize(blk) == ListsBelow(blk, blk.maxlen + 1) * PerList(blk)
RECURSIVE SizeUpTo(_, _)
SizeUpTo(blocks, k) == IF k = 0 THEN 0 ELSE BlockSize(blocks[k]) + SizeUpTo(blocks, k - 1)
TotalSize(blocks) == SizeUpTo(blocks, Len(blocks))
RECURSIVE Digits(_, _, _)
Digits(xl, g, acc) == IF xl = <<>> THEN acc ELSE Digits(Tail(xl), g, acc * g + (Head(xl) - 1))
\* rank of case (block xb, list indices xl, path index xp, dir flag xd, vcs index xv), 0-based
Rank(blocks, xb, xl, xp, xd, xv) ==
  LET blk == blocks[xb] IN
  SizeUpTo(blocks, xb - 1)
  + (ListsBelow(blk, Len(xl)) + Digits(xl, Len(blk.gram), 0)) * PerList(blk)
  + ((xp - 1) * 2 + (IF xd THEN 1 ELSE 0)) * Len(blk.vcs) + (xv - 1)
WellFormedIdx(blocks, xb, xl, xp, xv) ==
  /\ xb \in 1..Len(blocks)
  /\ Len(xl) >= blocks[xb].minlen /\ Len(xl) <= blocks[xb].maxlen
  /\ \A i \in DOMAIN xl : xl[i] \in 1..Len(blocks[xb].gram)
  /\ xp \in 1..Len(blocks[xb].paths) /\ xv \in 1..Len(blocks[xb].vcs)
ListOf(blk, xl) == [i \in DOMAIN xl |-> blk.gram[xl[i]]]
\* ---- Docker-style ----------------------------------------------------------
\* trees: directories a (content), c (empty), ab (name having another as a character prefix), file b
NameChars == [n \in {"a", "b", "c", "ab"} |-> CASE n = "a" -> cA [] n = "b" -> cB [] n = "c" -> cC [] n = "ab" -> cAB]
FileT == [k |-> "file"]
DirT(cs) == [k |-> "dir", c |-> cs]
EmptyT == DirT(<<>>)
Tree1 == DirT([a |-> DirT([a |-> DirT([b |-> FileT, c |-> EmptyT]), b |-> FileT, c |-> EmptyT, ab |-> DirT([b |-> FileT])]),
               b |-> FileT, c |-> EmptyT, ab |-> DirT([b |-> FileT, a |-> DirT([b |-> FileT])])])
\* the other endpoint in conjoined reification: same names, partly different content
Tree2 == DirT([a |-> DirT([a |-> DirT([c |-> EmptyT]), c |-> DirT([b |-> FileT])]), ab |-> DirT([a |-> EmptyT]), c |-> FileT])
DTrees == <<Tree1, Tree2>>

DComps == <<cA, cB, cC, cAB, cSt, cDSt>>
DBodies == Force([i \in 1..6 |-> <<DComps[i]>>]) \o Force([i \in 1..36 |-> <<DComps[((i - 1) \div 6) + 1], DComps[((i - 1) % 6) + 1]>>])
DGramFull == Force([i \in 1..(2 * Len(DBodies)) |-> R(i % 2 = 0, DBodies[((i - 1) \div 2) + 1])])
\* quick tier: 18 patterns for all lists of length <= 2, 7 for all lists of length 3
DGramQ == << R(FALSE, <<cA>>), R(TRUE, <<cA>>), R(TRUE, <<cB>>), R(FALSE, <<cAB>>),
             R(FALSE, <<cSt>>), R(TRUE, <<cSt>>), R(FALSE, <<cDSt>>),
             R(FALSE, <<cA, cA>>), R(TRUE, <<cA, cA>>), R(TRUE, <<cA, cB>>), R(TRUE, <<cA, cC>>),
             R(FALSE, <<cA, cSt>>), R(TRUE, <<cA, cDSt>>),
             R(FALSE, <<cDSt, cB>>), R(TRUE, <<cDSt, cB>>), R(TRUE, <<cAB, cB>>), R(FALSE, <<cSt, cB>>), R(TRUE, <<cA, cAB>>) >>
DCoreQ == << R(FALSE, <<cA>>), R(TRUE, <<cA, cA>>), R(FALSE, <<cA, cA, cB>>), R(TRUE, <<cA, cA, cB>>),
             R(FALSE, <<cSt>>), R(TRUE, <<cSt, cB>>), R(TRUE, <<cA>>) >>
DCoreQ8 == Append(DCoreQ, R(FALSE, <<cA, cSt>>))
DCore == DCoreQ8 \o << R(TRUE, <<cA, cB>>), R(FALSE, <<cA, cA>>), R(FALSE, <<cDSt>>), R(TRUE, <<cDSt, cB>>), R(TRUE, <<cA, cC>>), R(FALSE, <<cAB>>),
                      R(TRUE, <<cAB, cB>>), R(FALSE, <<cA, cDSt>>) >>
DSpecial == << R(FALSE, <<cE, cA>>), R(TRUE, <<cE, cA, cB>>), R(FALSE, <<cDot, cA, cE>>), R(TRUE, <<cA, cDD, cAB, cB>>), R(FALSE, <<cE>>), R(FALSE, <<cE, cE>>),
               R(TRUE, <<cE, cDot>>), R(FALSE, <<cDot>>), R(FALSE, <<cA, cE, cE, cA>>), R(FALSE, <<<<"a", "*">>>>), R(TRUE, <<<<"?", "b">>, cB>>), R(FALSE, <<<<"[ab]">>>>),
               R(FALSE, <<cA>>), R(FALSE, <<cA, cA>>) >>
DBlk(name, gram, lo, hi) == [name |-> name, gram |-> gram, minlen |-> lo, maxlen |-> hi]
DBlocksQuick == << DBlk("pairs", DGramQ, 0, 2), DBlk("core3", DCoreQ, 3, 3), DBlk("special", DSpecial, 1, 1) >>
DBlocksThorough == << DBlk("pairs", DGramFull, 0, 2), DBlk("core3", DCore, 3, 3), DBlk("special", DSpecial, 1, 2) >>
DBlocks(tier) == IF tier = "thorough" THEN DBlocksThorough ELSE DBlocksQuick
DBlockSize(blk) == ListsBelow(blk, blk.maxlen + 1)
RECURSIVE DSizeUpTo(_, _)
DSizeUpTo(blocks, k) == IF k = 0 THEN 0 ELSE DBlockSize(blocks[k]) + DSizeUpTo(blocks, k - 1)
DTotalSize(blocks) == DSizeUpTo(blocks, Len(blocks))
DRank(blocks, xb, xl) == DSizeUpTo(blocks, xb - 1) + ListsBelow(blocks[xb], Len(xl)) + Digits(xl, Len(blocks[xb].gram), 0)
DWellFormedIdx(blocks, xb, xl) ==
  /\ xb \in 1..Len(blocks)
  /\ Len(xl) >= blocks[xb].minlen /\ Len(xl) <= blocks[xb].maxlen
  /\ \A i \in DOMAIN xl : xl[i] \in 1..Len(blocks[xb].gram)
====
