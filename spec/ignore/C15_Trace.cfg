CONSTANT Want = {"C15_LeafSetsEqual", "C15_LeafSetsEqual_NearestOverride", "C15_DivergenceAsRecorded", "C15_IncludedDirsTracked", "C15_DescendsAsDocker", "C15_ExcludedDirRule", "C15_DomainMember", "C15_DomainComplete", "Calib_DockerMatch", "Calib_DockerWalk", "Drift_Validity", "Drift_DirCounts"}
SPECIFICATION TSpec
CHECK_DEADLOCK FALSE
