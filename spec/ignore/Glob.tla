---- MODULE Glob ----
(***************************************************************************)
(* Glob patterns and paths as token sequences.                              *)
(*                                                                         *)
(* A path is a sequence of components; a component (a file name) is a       *)
(* non-empty sequence of one-character strings.  A pattern is a sequence    *)
(* of pattern components; a pattern component is a sequence of tokens:      *)
(*   a one-character string  - that literal character                       *)
(*   "*"                     - any run (possibly empty) of name characters  *)
(*   "?"                     - exactly one name character                   *)
(*   a key of ClassTable     - one character of (or outside) the class      *)
(* and the single-token component <<"**">> spans zero or more whole path     *)
(* components.  The string the real code receives is the concatenation of    *)
(* the tokens, components joined by "/".                                     *)
(*                                                                         *)
(* MatchPath is the semantics of doublestar.Match (Mutagen-style ignores);  *)
(* DMatch is the semantics of the regular expressions that moby's           *)
(* patternmatcher compiles (Docker-style ignores).  Both are calibrated     *)
(* against the real libraries over the bounded domain (GlobCal / DockCal    *)
(* records); constructs on which the libraries have surprising character    *)
(* level behaviour ("a**", "[^x]" in Docker patterns, escapes, braces) are  *)
(* outside the token grammar; so are, in Mutagen patterns, a "**" component  *)
(* directly after another "**" component or after a multi-token component   *)
(* ending in "*" (doublestar: "a/**" matches "a" but "a/**/**" does not;     *)
(* "b/**" matches "b" but "b*/**" does not) - found by the random leg,       *)
(* removed from the generator rather than argued about.                     *)
(***************************************************************************)
EXTENDS Naturals, Sequences, FiniteSets, TLC

ClassTable ==
  [c \in {"[ab]", "[a-c]", "[^a]", "[!b]"} |->
     CASE c = "[ab]"  -> [neg |-> FALSE, set |-> {"a", "b"}]
       [] c = "[a-c]" -> [neg |-> FALSE, set |-> {"a", "b", "c"}]
       [] c = "[^a]"  -> [neg |-> TRUE,  set |-> {"a"}]
       [] c = "[!b]"  -> [neg |-> TRUE,  set |-> {"b"}]]
IsClass(t) == t \in DOMAIN ClassTable
IsWild(t) == t \in {"*", "?", "**"} \/ IsClass(t)

TokMatches(t, ch) ==
  IF t = "?" THEN TRUE
  ELSE IF IsClass(t) THEN (ch \in ClassTable[t].set) # ClassTable[t].neg
  ELSE t = ch

Suffix(s, k) == SubSeq(s, k + 1, Len(s))     \* s without its first k elements
Last(s) == s[Len(s)]
Front(s) == SubSeq(s, 1, Len(s) - 1)

\* one pattern component against one name
RECURSIVE MatchComp(_, _)
MatchComp(ts, cs) ==
  IF ts = <<>> THEN cs = <<>>
  ELSE IF Head(ts) = "*" THEN \E k \in 0..Len(cs) : MatchComp(Tail(ts), Suffix(cs, k))
  ELSE cs # <<>> /\ TokMatches(Head(ts), Head(cs)) /\ MatchComp(Tail(ts), Tail(cs))

DoubleStar == <<"**">>

\* doublestar.Match(pattern, path): "**" as a whole component spans zero or more components
RECURSIVE MatchPath(_, _)
MatchPath(ps, path) ==
  IF ps = <<>> THEN path = <<>>
  ELSE IF Head(ps) = DoubleStar THEN \E k \in 0..Len(path) : MatchPath(Tail(ps), Suffix(path, k))
  ELSE path # <<>> /\ MatchComp(Head(ps), Head(path)) /\ MatchPath(Tail(ps), Tail(path))

\* moby patternmatcher: Pattern.match(path) for a cleaned pattern.
\*   "**/" in front or in the middle compiles to "(.*/)?"  : zero or more components;
\*   a final "**" after a separator compiles to ".*" behind the separator: one or more components;
\*   the pattern "**" alone accepts everything.
RECURSIVE DMatchFrom(_, _, _)
DMatchFrom(ps, path, first) ==
  IF ps = <<>> THEN path = <<>>
  ELSE IF Head(ps) = DoubleStar THEN
         IF Len(ps) = 1 THEN first \/ path # <<>>
         ELSE \E k \in 0..Len(path) : DMatchFrom(Tail(ps), Suffix(path, k), FALSE)
  ELSE path # <<>> /\ MatchComp(Head(ps), Head(path)) /\ DMatchFrom(Tail(ps), Tail(path), FALSE)
DMatch(ps, path) == DMatchFrom(ps, path, TRUE)

\* path.Clean on a component list (rooted = the string began with "/"): the surviving components
Dot == <<".">>
DotDot == <<".", ".">>
RECURSIVE CleanStack(_, _, _)
CleanStack(cs, st, rooted) ==
  IF cs = <<>> THEN st
  ELSE LET c == Head(cs) IN
       IF c = <<>> \/ c = Dot THEN CleanStack(Tail(cs), st, rooted)
       ELSE IF c = DotDot THEN
              IF st # <<>> /\ Last(st) # DotDot THEN CleanStack(Tail(cs), Front(st), rooted)
              ELSE IF rooted THEN CleanStack(Tail(cs), st, rooted)
              ELSE CleanStack(Tail(cs), Append(st, c), rooted)
       ELSE CleanStack(Tail(cs), Append(st, c), rooted)

Prefixes(path) == {SubSeq(path, 1, k) : k \in 1..Len(path)}
ProperPrefixesNE(path) == {SubSeq(path, 1, k) : k \in 1..(Len(path) - 1)}
IsPrefixOf(p, q) == Len(p) <= Len(q) /\ SubSeq(q, 1, Len(p)) = p
====
