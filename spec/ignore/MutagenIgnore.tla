---- MODULE MutagenIgnore ----
(***************************************************************************)
(* Mutagen-style ignores (pkg/synchronization/core/ignore/mutagen/ignore.go,*)
(* ignore_vcs.go, and the pruning done by core/scan.go:directory).          *)
(*                                                                         *)
(* A raw pattern is [neg, comps]: the string given to the code is           *)
(* ("!" if neg) followed by comps joined with "/"; an empty first component  *)
(* is a leading slash, an empty last component a trailing slash.            *)
(*                                                                         *)
(*   Parse          = newIgnorePattern   (negation, cleaning, root check,    *)
(*                                        anchoring, directory-only, leaf)   *)
(*   Matches        = ignorePattern.matches                                  *)
(*   ShortCircuit   = ignorer.Ignore, the loop as coded                      *)
(*   LastMatchWins  = the declarative rule of property C14                   *)
(*   StatusVCS      = vcsIgnorer.Ignore                                      *)
(*   ExpectedScan   = what a scan of a tree must contain (pruning)           *)
(***************************************************************************)
EXTENDS Glob

Invalid == [valid |-> FALSE]

Parse(raw) ==
  LET cs0 == raw.comps IN
  IF cs0 = <<<<>>>> THEN Invalid                      \* "" or "!" : empty pattern
  ELSE
  LET rooted   == Len(cs0) >= 2 /\ Head(cs0) = <<>>    \* string starts with "/"
      trailing == Len(cs0) >= 2 /\ Last(cs0) = <<>>    \* string ends with "/" (and is not just "/")
      st       == CleanStack(cs0, <<>>, rooted)
  IN
  IF rooted /\ st = <<>> THEN Invalid                 \* cleans to "/" or "//": root pattern
  ELSE
  LET comps == IF st = <<>> THEN <<Dot>> ELSE st       \* path.Clean yields "." for an empty result
  IN [valid |-> TRUE, neg |-> raw.neg, dirOnly |-> trailing,
      leaf |-> ~rooted /\ Len(comps) = 1, comps |-> comps]

AllValid(raws) == \A i \in DOMAIN raws : Parse(raws[i]).valid

Matches(p, path, isDir) ==
  /\ p.dirOnly => isDir
  /\ \/ MatchPath(p.comps, path)
     \/ p.leaf /\ path # <<>> /\ MatchPath(p.comps, <<Last(path)>>)

\* C14, declaratively: the last matching pattern decides
LastMatchWins(ps, path, isDir) ==
  LET M == {i \in DOMAIN ps : Matches(ps[i], path, isDir)} IN
  IF M = {} THEN "nominal"
  ELSE LET m == CHOOSE i \in M : \A j \in M : j <= i IN
       IF ps[m].neg THEN "unignored" ELSE "ignored"

\* ignorer.Ignore as coded: one pass with the three short cuts
NegCount(ps) == Cardinality({i \in DOMAIN ps : ps[i].neg})
RECURSIVE Loop(_, _, _, _, _, _)
Loop(ps, i, status, negRemaining, path, isDir) ==
  IF i > Len(ps) THEN status
  ELSE IF status = "ignored" /\ negRemaining = 0 THEN status                       \* break
  ELSE LET p == ps[i]
           nr == IF p.neg THEN negRemaining - 1 ELSE negRemaining IN
       IF p.neg /\ status = "unignored" THEN Loop(ps, i + 1, status, nr, path, isDir)       \* continue
       ELSE IF ~p.neg /\ status = "ignored" THEN Loop(ps, i + 1, status, nr, path, isDir)   \* continue
       ELSE IF ~Matches(p, path, isDir) THEN Loop(ps, i + 1, status, nr, path, isDir)
       ELSE Loop(ps, i + 1, IF p.neg THEN "unignored" ELSE "ignored", nr, path, isDir)
ShortCircuit(ps, path, isDir) == Loop(ps, 1, "nominal", NegCount(ps), path, isDir)

ParseAll(raws) == [i \in DOMAIN raws |-> Parse(raws[i])]

VCSNames == { <<".", "g", "i", "t">>, <<".", "s", "v", "n">>, <<".", "h", "g">>,
              <<".", "b", "z", "r">>, <<"_", "d", "a", "r", "c", "s">> }

\* the status the configured ignorer must report for (path, isDir)
StatusVCS(raws, vcs, path, isDir) ==
  IF vcs /\ isDir /\ path # <<>> /\ Last(path) \in VCSNames THEN "ignored"
  ELSE LastMatchWins(ParseAll(raws), path, isDir)

\* ------------------------------------------------------------------------
\* Pruning.  A tree is [k |-> "dir", c |-> [name -> tree]] or [k |-> "file"];
\* `names` maps a name (map key) to its character sequence.
IsDirT(t) == t.k = "dir"
RECURSIVE ExpectedScan(_, _, _, _, _)
ExpectedScan(t, path, raws, vcs, names) ==
  IF ~IsDirT(t) THEN [k |-> "file"]
  ELSE [k |-> "dir",
        c |-> [n \in DOMAIN t.c |->
                 LET q == Append(path, names[n]) IN
                 IF StatusVCS(raws, vcs, q, IsDirT(t.c[n])) = "ignored" THEN [k |-> "untracked"]
                 ELSE ExpectedScan(t.c[n], q, raws, vcs, names)]]

\* "ignored" in the sense of the property: its own status or that of an ancestor directory
Ignored(raws, vcs, path, isDir) ==
  \/ StatusVCS(raws, vcs, path, isDir) = "ignored"
  \/ \E q \in ProperPrefixesNE(path) : StatusVCS(raws, vcs, q, TRUE) = "ignored"

\* the paths (as sequences of map keys) present in a snapshot with a synchronizable kind
RECURSIVE SyncPaths(_)
SyncPaths(e) ==
  IF e.k = "dir" THEN {<<>>} \cup UNION {{<<n>> \o q : q \in SyncPaths(e.c[n])} : n \in DOMAIN e.c}
  ELSE IF e.k = "file" THEN {<<>>} ELSE {}
RECURSIVE TreePaths(_)
TreePaths(t) ==
  IF IsDirT(t) THEN {<<>>} \cup UNION {{<<n>> \o q : q \in TreePaths(t.c[n])} : n \in DOMAIN t.c}
  ELSE {<<>>}
RECURSIVE TreeAt(_, _)
TreeAt(t, q) == IF q = <<>> THEN t ELSE TreeAt(t.c[Head(q)], Tail(q))
ToChars(q, names) == [i \in DOMAIN q |-> names[q[i]]]

\* C14 on a scan: synchronized paths are exactly the paths that are not ignored
C14_ScanPrunes(tree, snap, raws, vcs, names) ==
  SyncPaths(snap) = {q \in TreePaths(tree) :
                       q = <<>> \/ ~Ignored(raws, vcs, ToChars(q, names), IsDirT(TreeAt(tree, q)))}
\* ... and the snapshot has the exact shape (one untracked entry per pruned sub-tree)
C14_ScanShape(tree, snap, raws, vcs, names) == snap = ExpectedScan(tree, <<>>, raws, vcs, names)
====
