CONSTANT Want = {"C14_StatusExact", "C14_NoContinuation", "C14_DomainMember", "C14_DomainComplete", "C14_ScanPrunes", "C14_ScanShape", "Calib_Glob", "Drift_Validity"}
SPECIFICATION TSpec
CHECK_DEADLOCK FALSE
