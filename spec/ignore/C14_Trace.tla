---- MODULE C14_Trace ----
(***************************************************************************)
(* Trace validation for C14.  Records (one real call sequence each):        *)
(*   Domain  - header of a full run: the tier whose bounded domain follows   *)
(*   Ignore  - mutagen.NewIgnorer(patterns) (+ ignore.IgnoreVCS) and          *)
(*             Ignore(path, dir): validity, status, continuation             *)
(*   MScan   - core.Scan of a materialised tree with such an ignorer         *)
(*   GlobCal - doublestar.Match(pattern, path): calibration of Glob.tla      *)
(* C14 is an exactness statement, so the real status must equal             *)
(* LastMatchWins.  In-domain records carry their indices; the module         *)
(* recomputes the case and its rank from IgnoreDomain, so membership and     *)
(* completeness of the enumeration are checked here.                         *)
(***************************************************************************)
EXTENDS MutagenIgnore, IgnoreDomain, TraceKit

CONSTANT Want
VARIABLES l, fails, tier, next, cnt, done
tvars == <<l, fails, tier, next, cnt, done>>

BlocksQ == MBlocksQuick
BlocksT == MBlocksThorough
BlocksOf(t) == IF t = "thorough" THEN BlocksT ELSE BlocksQ
SizeQ == TotalSize(BlocksQ)
SizeT == TotalSize(BlocksT)
SizeOf(t) == IF t = "thorough" THEN SizeT ELSE SizeQ

Indexed(r) == Has(r, "idx") /\ tier # "none"
Member(r) ==
  LET x == r.idx  bs == BlocksOf(tier) IN
  /\ WellFormedIdx(bs, x.b, x.li, x.p, x.v)
  /\ r.in.pats = ListOf(bs[x.b], x.li)
  /\ r.in.path = bs[x.b].paths[x.p]
  /\ r.in.vcs = bs[x.b].vcs[x.v]
RankOf(r) == Rank(BlocksOf(tier), r.idx.b, r.idx.li, r.idx.p, r.in.dir, r.idx.v)

IgnoreFails(i, r) ==
  LET raws == r.in.pats
      ok == AllValid(raws) IN
     Chk(Want, i, "C14_StatusExact",
         ok => r.valid /\ r.status = StatusVCS(raws, r.in.vcs, r.in.path, r.in.dir))
  \o Chk(Want, i, "C14_NoContinuation", r.cont = FALSE)
  \o Chk(Want, i, "C14_DomainMember", Indexed(r) => Member(r) /\ RankOf(r) = next)
  \o Chk(Want, i, "Drift_Validity", r.valid = ok)

ScanFails(i, r) ==
  IF ~AllValid(r.in.pats) THEN <<>>
  ELSE Chk(Want, i, "C14_ScanPrunes", r.err = "" /\ C14_ScanPrunes(r.in.tree, r.snap, r.in.pats, r.in.vcs, r.names))
    \o Chk(Want, i, "C14_ScanShape", r.err = "" /\ C14_ScanShape(r.in.tree, r.snap, r.in.pats, r.in.vcs, r.names))

CalFails(i, r) == Chk(Want, i, "Calib_Glob", ~r.err /\ r.m = MatchPath(r.in.comps, r.in.path))

RecFails(i, r) ==
  CASE r.ev = "Ignore" -> IgnoreFails(i, r)
    [] r.ev = "MScan" -> ScanFails(i, r)
    [] r.ev = "GlobCal" -> CalFails(i, r)
    [] r.ev = "Domain" -> <<>>
    [] OTHER -> <<Fail(i, "TraceAccepted")>>

TInit == l = 1 /\ fails = <<>> /\ tier = "none" /\ next = 0 /\ done = FALSE
         /\ cnt = [ignore |-> 0, indomain |-> 0, nonnominal |-> 0, scans |-> 0, cal |-> 0]
Step == /\ l <= NRec
        /\ LET r == Trace[l] IN
           /\ fails' = Cap(fails \o RecFails(l, r))
           /\ tier' = IF r.ev = "Domain" THEN r.tier ELSE tier
           /\ next' = IF r.ev = "Ignore" /\ Indexed(r) THEN next + 1 ELSE next
           /\ cnt' = [cnt EXCEPT !.ignore = @ + (IF r.ev = "Ignore" THEN 1 ELSE 0),
                                 !.indomain = @ + (IF r.ev = "Ignore" /\ Indexed(r) THEN 1 ELSE 0),
                                 !.nonnominal = @ + (IF r.ev = "Ignore" /\ r.status \in {"ignored", "unignored"} THEN 1 ELSE 0),
                                 !.scans = @ + (IF r.ev = "MScan" THEN 1 ELSE 0),
                                 !.cal = @ + (IF r.ev = "GlobCal" THEN 1 ELSE 0)]
        /\ l' = l + 1 /\ UNCHANGED done
Complete == tier # "none" => next = SizeOf(tier)
Finish == /\ l = NRec + 1 /\ ~done
          /\ WriteResult(l - 1,
                         Cap(fails \o Chk(Want, 1, "C14_DomainComplete", Complete)),
                         [stat_ignore |-> cnt.ignore, stat_indomain |-> cnt.indomain, stat_nonnominal |-> cnt.nonnominal,
                          stat_scans |-> cnt.scans, stat_calibrations |-> cnt.cal,
                          stat_domain_size |-> IF tier = "none" THEN 0 ELSE SizeOf(tier)])
          /\ done' = TRUE /\ UNCHANGED <<l, fails, tier, next, cnt>>
TNext == Step \/ Finish
TSpec == TInit /\ [][TNext]_tvars
====
