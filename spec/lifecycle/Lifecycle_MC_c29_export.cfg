\* C29 thorough: exhaustive export - one behaviour per distinct (end state, call positions) of every pair of commands
CONSTANTS
 Mixes <- MixesX2
 StartPaused = {FALSE}
 Mode = "tws"
 InitTree <- D2
 InitArchive <- D2
 EditVals <- EditsC29
 EditSides = {"alpha"}
 EventSides = {"alpha"}
 MaxEdits = 1
 MaxEvents = 1
 MaxFaults = 0
 MaxTicks = 0
 MaxBreaks = 0
 Export = TRUE
 RunToBlock = TRUE
 TrackInterrupts = FALSE
 Mut = "none"
SPECIFICATION Spec
INVARIANTS InvPausedQuiet InvFlushFresh InvPauseSurvives InvTerminatedGone InvReset InvC11 InvNeverPropagated InvLoopShape InvStatusMachine InvRecycle ExportBehaviour
VIEW View
CHECK_DEADLOCK FALSE
