---- MODULE Lifecycle_MC ----
(* Constant definitions for the model-checking configurations of Lifecycle.tla *)
EXTENDS Lifecycle

F1 == F("01", FALSE)
F2 == F("02", FALSE)
D0 == D(<<>>)
D1 == D([n \in {"a"} |-> F1])
D2 == D([n \in {"a", "b"} |-> F1])
D2m == D([n \in {"a", "b"} |-> IF n = "a" THEN F2 ELSE F1])     \* D2 with a modified file
D3 == D([n \in {"a", "b", "c"} |-> F1])

\* C29: three commands each, chosen so that every pair of lifecycle commands meets in some mix
MixesC29 == {<<"pause", "flushw", "resume">>, <<"flushw", "flushn", "terminate">>, <<"pause", "restart", "flushw">>,
             <<"reset", "flushw", "pause">>, <<"reset", "terminate", "restart">>, <<"flushw", "resume", "terminate">>}
MixesC29a == {<<"pause", "flushw", "resume">>, <<"flushw", "flushn", "terminate">>}
MixesC29b == {<<"pause", "restart", "flushw">>, <<"reset", "flushw", "pause">>}
MixesC29c == {<<"reset", "terminate", "restart">>, <<"flushw", "resume", "terminate">>}
MixesC29q == {<<"pause", "flushw", "resume">>, <<"reset", "terminate", "restart">>}
Mixes4 == {<<"flushw", "flushw", "resume", "pause">>}
\* C11: destructive edits, flushes before/after, the user's interventions
MixesC11 == {<<"flushw", "flushw", "resume">>, <<"flushw", "pause", "resume">>, <<"flushw", "reset", "flushn">>}
MixesC11q == {<<"flushw", "flushw", "resume">>}
EditsC29 == {D2m}
EditsC11 == {Nil, F1, D0, D1}
EditsC11q == {Nil, F1, D0}
\* export of harness scripts: two commands, full budgets
MixesX2 == {<<x, y>> : x, y \in {"pause", "resume", "flushw", "flushn", "reset", "terminate", "restart"}}
MixesX3 == MixesC29
\* simulation: every sequence of three or four commands
Kinds7 == {"pause", "resume", "flushw", "flushn", "reset", "terminate", "restart"}
MixesSim3 == {<<x, y, z>> : x, y, z \in Kinds7} \cup {<<"flushw", x, y, z>> : x, y, z \in Kinds7 \ {"flushn", "flushw"}}
Kinds6 == {"pause", "resume", "flushw", "flushn", "reset", "restart"}
MixesSimC11 == {<<"flushw", y, z>> : y, z \in Kinds6} \cup {<<"flushw", "flushw", y, z>> : y, z \in Kinds6 \ {"flushn"}}
EditsC11x == EditsC11 \cup {D2m}
\* status machine / reconnect / back-off: failures in a row, with the timers allowed to fire
MixesStatus == {<<"flushw", "pause", "resume">>, <<"resume", "flushw", "restart">>, <<"flushw", "flushn", "resume">>}
MixRec == {<<"flushw", "pause">>}
\* persistence faults: the same command twice (fail, then retry), then the manager restarts
MixesPersist == {<<"pause", "pause", "restart">>, <<"resume", "resume", "restart">>, <<"reset", "reset", "restart">>,
                 <<"terminate", "terminate", "restart">>, <<"pause", "resume", "restart">>, <<"flushw", "flushw", "restart">>}
MixesPersistQ == {<<"pause", "pause", "restart">>, <<"reset", "terminate", "restart">>}
MixesPersist2 == {<<x, y, "restart">> : x, y \in {"pause", "resume", "reset", "terminate"}}
MixesPersistSim == {<<x, y, "restart">> : x, y \in {"pause", "resume", "reset", "terminate", "flushw"}}
                   \cup {<<x, y, "restart", z>> : x, y, z \in {"pause", "resume", "flushw"}}
\* C11, interrupts: a root that grows from one entry to two on both sides in a cycle that a pause / shutdown interrupts
MixesInterrupt == {<<"pause", "resume", "flushw">>, <<"restart", "flushw", "flushw">>}
MixesInterruptQ == {<<"pause", "resume", "flushw">>}
EditsInterruptQ == {D2, D0}
EditsInterrupt == {D2, D0, Nil, F1}
NeverIntrTransitioning == NeverInterrupted("transitioning")
====
