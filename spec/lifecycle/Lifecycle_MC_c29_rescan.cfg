\* growth: scan retry (WaitingForRescan, rescanWaitDuration) and missing-files re-cycle: three faults, two timers, flushw + pause
CONSTANTS
 Mixes <- MixRec
 StartPaused = {FALSE}
 Mode = "tws"
 InitTree <- D2
 InitArchive <- D2
 EditVals <- EditsC29
 EditSides = {"alpha"}
 EventSides = {"alpha"}
 MaxEdits = 1
 MaxEvents = 1
 MaxFaults = 3
 MaxTicks = 2
 MaxBreaks = 0
 Export = FALSE
 RunToBlock = FALSE
 TrackInterrupts = FALSE
 Mut = "none"
SPECIFICATION Spec
INVARIANTS InvPausedQuiet InvFlushFresh InvPauseSurvives InvTerminatedGone InvReset InvC11 InvNeverPropagated InvLoopShape InvStatusMachine InvRecycle
CHECK_DEADLOCK FALSE
