---- MODULE LifecycleMon ----
(***************************************************************************)
(* The observer ("monitor") of the lifecycle family: a deterministic        *)
(* automaton over the OBSERVABLE alphabet of one synchronization session    *)
(*                                                                          *)
(*   Cmd call / Cmd return     lifecycle commands issued through Manager    *)
(*   Op                        endpoint operations (Connect, Poll, Scan,    *)
(*                             Stage, Supply, Transition, Shutdown), call   *)
(*                             and return, with the ancestor handed to Scan *)
(*                             and the tree Scan returned                   *)
(*   Edit / Roots              external modification of a root, and the     *)
(*                             contents of both roots as seen by a walker   *)
(*   Disk / State              session+archive files, Manager.List          *)
(*                                                                          *)
(* and the properties C29 / C11 as predicates over the monitor state and    *)
(* the current observation.  The SAME operators are driven                  *)
(*   - by the model Lifecycle.tla (every action of the controller model     *)
(*     emits the events it makes observable): TLC checks that the algorithm *)
(*     as coded never drives the monitor into a bad state, and              *)
(*   - by Lifecycle_Trace.tla with the events journalled from the real      *)
(*     synchronization.Manager: TLC checks the implementation.              *)
(* The monitor never needs to know what the controller does internally; it  *)
(* only uses orderings that are sound for a journal in which a call is      *)
(* written before the call is made and a return after it returned.          *)
(***************************************************************************)
EXTENDS Reconcile

Sides == {"alpha", "beta"}
\* commands that may start a synchronization loop for a paused session
RestartKinds == {"resume", "restart"}
\* commands that write the persisted pause flag (reset pauses and resumes a running session)
FlagWriters == {"pause", "resume", "reset", "terminate"}
\* commands after which a session halted for safety may legitimately operate again ("the user intervenes")
HaltEndKinds == {"resume", "restart", "reset"}
HaltedStatuses == {"halted-on-root-emptied", "halted-on-root-deletion", "halted-on-root-type-change"}

\* ---------------------------------------------------------------- safety.go
\* oneEndpointEmptiedRoot, transcribed (minEntries = 2 in the code)
EmptiedRootN(minEntries, a, x, y) ==
  /\ a.k = "dir" /\ x.k = "dir" /\ y.k = "dir"
  /\ Cardinality(DOMAIN a.c) >= minEntries
  /\ ((DOMAIN x.c = {}) # (DOMAIN y.c = {}))
EmptiedRoot(a, x, y) == EmptiedRootN(2, a, x, y)
IsRootDeletion(c) == c.path = <<>> /\ c.old # Nil /\ c.new = Nil
IsRootTypeChange(c) == c.path = <<>> /\ c.old # Nil /\ c.new # Nil /\ c.old.k # c.new.k

\* A sufficient condition, in terms of what the scans of one cycle showed, for "this cycle would propagate a root
\* deletion, a root type change or a one-sided emptying": the other side still equals the ancestor, so every mode that
\* propagates from the changed side has exactly one thing to do.  (Cases outside it - conflicts, both sides emptied, fewer
\* than two ancestor entries - are admitted: the statement does not speak about them.)
RootDestroyed(a, x, y) == a # Nil /\ y = a /\ x # a /\ Sync(x) = x /\ (x = Nil \/ x.k # a.k)
MustHalt(mode, a, x, y) ==
  \/ EmptiedRoot(a, x, y)
  \/ RootDestroyed(a, x, y)
  \/ (mode \in {"tws", "twr"} /\ RootDestroyed(a, y, x))

\* sides that must have been transitioned by a complete cycle (again a sufficient condition only)
Need(mode, a, x, y) ==
  (IF y = a /\ x # a /\ Sync(x) = x THEN {"beta"} ELSE {})
  \cup (IF mode \in {"tws", "twr"} /\ x = a /\ y # a /\ Sync(y) = y THEN {"alpha"} ELSE {})

\* every file of ref is still there, every directory still a directory
Keeps(ref, cur) == \A p \in Nodes(ref) :
  LET e == At(ref, p) IN
  CASE e.k = "file" -> ShallowEq(At(cur, p), e)
    [] e.k = "link" -> ShallowEq(At(cur, p), e)
    [] e.k = "dir" -> At(cur, p).k = "dir"
    [] OTHER -> TRUE

\* ---------------------------------------------------------------- the controller's status machine (state.proto Status)
\* Every write of State.Status / LastError / SuccessfulCycles in controller.go is one StatusStep; the table is checked
\* against the model's named status actions (Lifecycle.tla: every write goes through W, InvStatusMachine) and, closed
\* under composition, against the change stream Manager.List delivers for real sessions (conformance counters only).
RunningStatuses == {"watching", "scanning", "waiting-for-rescan", "reconciling", "staging-alpha", "staging-beta",
                    "transitioning", "saving"}
AllStatuses == {"disconnected", "connecting-alpha", "connecting-beta"} \cup HaltedStatuses \cup RunningStatuses
StatusStep ==
  {<<"disconnected", x>> : x \in {"disconnected", "connecting-alpha", "connecting-beta", "watching", "scanning"}}
  \cup {<<"connecting-alpha", x>> : x \in {"connecting-alpha", "connecting-beta", "watching", "scanning", "disconnected"}}
  \cup {<<"connecting-beta", x>> : x \in {"connecting-alpha", "connecting-beta", "watching", "scanning", "disconnected"}}
  \cup {<<"watching", x>> : x \in {"scanning", "disconnected"}}
  \cup {<<"scanning", x>> : x \in {"scanning", "waiting-for-rescan", "reconciling", "disconnected"}}
  \cup {<<"waiting-for-rescan", x>> : x \in {"scanning", "disconnected"}}
  \cup {<<"reconciling", x>> : x \in {"reconciling", "staging-alpha"} \cup HaltedStatuses}
  \cup {<<"staging-alpha", x>> : x \in {"staging-alpha", "staging-beta", "disconnected"}}
  \cup {<<"staging-beta", x>> : x \in {"staging-beta", "transitioning", "disconnected"}}
  \cup {<<"transitioning", "saving">>}
  \cup {<<"saving", x>> : x \in {"saving", "watching", "scanning", "disconnected"}}
  \cup {<<x, "disconnected">> : x \in HaltedStatuses}
\* LastError is non-empty only here: a terminal error survives the reset and the reconnect until synchronize() starts
\* again; a try-again scan error lives until the next successful scan
ErrStatuses == {"disconnected", "connecting-alpha", "connecting-beta", "scanning", "waiting-for-rescan"}
\* abstract status: [st, err (LastError # ""), cyc (SuccessfulCycles)]
Abs(st, err, cyc) == [st |-> st, err |-> err, cyc |-> cyc]
StepOK(a, b) ==
  /\ <<a.st, b.st>> \in StatusStep
  /\ (b.err => b.st \in ErrStatuses)
  /\ ((b.err /\ ~a.err) => b.st \in {"disconnected", "scanning"})
  /\ \/ b.cyc = a.cyc
     \/ (b.cyc = a.cyc + 1 /\ a.st = "saving" /\ b.st = "saving")
     \/ (b.cyc = 0 /\ b.st = "disconnected")
\* reflexive-transitive closure of StatusStep (the stream samples, it does not see every write)
StatusReach ==
  LET Next1(R) == R \cup UNION {{<<p[1], q[2]>> : q \in {y \in StatusStep : y[1] = p[2]}} : p \in R}
      RECURSIVE Close(_)
      Close(R) == IF Next1(R) = R THEN R ELSE Close(Next1(R))
  IN Close({<<x, x>> : x \in AllStatuses} \cup StatusStep)
\* two consecutive samples of the change stream
StreamOK(a, b) ==
  /\ a.st \in AllStatuses /\ b.st \in AllStatuses
  /\ <<a.st, b.st>> \in StatusReach
  /\ (b.err => b.st \in ErrStatuses)
  /\ (b.cyc > a.cyc => <<a.st, "saving">> \in StatusReach)
  /\ (b.cyc < a.cyc => <<a.st, "disconnected">> \in StatusReach)

\* what the status must be while an endpoint operation is pending (the loop is inside that call)
OtherSide(x) == IF x = "alpha" THEN "beta" ELSE "alpha"
StatusOfOp(side, op) ==
  CASE op = "Poll" -> "watching"
    [] op = "Scan" -> "scanning"
    [] op = "Stage" -> IF side = "alpha" THEN "staging-alpha" ELSE "staging-beta"
    [] op = "Supply" -> IF side = "alpha" THEN "staging-beta" ELSE "staging-alpha"   \* alpha supplies what beta stages
    [] op = "Transition" -> "transitioning"
    [] op = "Open" -> "forwarding-connections"      \* forwarding endpoints (FwdLifecycle.tla): accept / dial
    [] OTHER -> "none"
PinnedOps == {"Poll", "Scan", "Stage", "Supply", "Transition", "Open"}

\* ---------------------------------------------------------------- monitor state
NoRoots == [set |-> FALSE, alpha |-> Nil, beta |-> Nil]
RootsOf(a, b) == [set |-> TRUE, alpha |-> a, beta |-> b]
NoTree == [set |-> FALSE, tree |-> Nil]
NoCycle == [ph |-> "none", called |-> {}, got |-> {}, ok |-> TRUE, anc |-> Nil, a |-> Nil, b |-> Nil, clean |-> FALSE,
            pend |-> 0, trans |-> {}]

MInit(mode) == [
  mode |-> mode,
  infl |-> {},           \* commands called and not yet returned, as [id, kind, ep, busy]: ep = epoch when called,
                         \* busy = a resume/restart was in flight when it was called
  epoch |-> 0,           \* number of resume/restart calls so far
  epoch2 |-> 0,          \* number of pause/reset/terminate/resume calls so far (commands that write the pause flag)
  resetDirty |-> FALSE,  \* a scan returned while a reset was in flight
  pz |-> "no",           \* "yes": a pause returned ok (or the session was created paused) and no resume/restart began since
  quiet |-> FALSE,       \* the session must not perform endpoint operations
  term |-> FALSE,        \* a terminate returned ok
  badOp |-> FALSE,       \* C29: an endpoint operation was journalled while quiet
  fresh |-> {},          \* waiting flushes for which the cycle in progress started after their call
  fdone |-> {},          \* waiting flushes for which a complete cycle that started after their call has finished
  badFlush |-> FALSE,    \* C29: a waiting flush returned ok without such a cycle
  cy |-> NoCycle,        \* the cycle in progress, reconstructed from endpoint operations
  halted |-> FALSE,      \* C11: the scans of a cycle showed a condition that must halt; no intervention since
  haltSettled |-> FALSE, \* ... and the loop has shut its endpoints down since (status is final)
  haltTouched |-> FALSE, \* a pause/terminate was called since (the status legitimately changes)
  hflush |-> {},         \* flushes called while halted and settled
  haltBad |-> FALSE,     \* C11: an operation / a successful flush although halted
  haltRoots |-> NoRoots, \* roots as walked when the halt was established
  lastRoots |-> NoRoots, \* most recent Roots observation not invalidated by an Edit or a Transition
  resetRef |-> NoRoots,  \* roots as walked when a reset was called
  resetClean |-> FALSE,  \* a reset returned ok and no scan has returned since: the archive must be empty
  \* C11 against the disks themselves: the last state BOTH roots were seen in (by the walker) right after the session
  \* itself had brought them there - a cycle that started after the last external edit finished its transitions, or
  \* completed - so that an unchanged controller has recorded exactly that state as its ancestor
  agreed |-> NoTree,
  synced |-> FALSE,      \* such a cycle has finished since the last external edit / transition
  haltVia |-> "none",    \* "anc": the halt was due by the ancestor handed to Scan; "agreed": only by the agreed state
  pin |-> {},            \* endpoint operations called and not yet returned, as <<side, op>> (the loop is inside them)
  mc |-> 0,              \* complete cycles since the endpoints were last connected (SuccessfulCycles)
  rerr |-> FALSE,        \* the last scan of this connection asked to be tried again (LastError is set)
  want |-> "any",        \* what the loop must do next: "scan" after a try-again scan or a missing-files cycle
  forced |-> FALSE,      \* the cycle in progress is such a forced re-cycle after missing files
  missed |-> FALSE,      \* a transition of the cycle in progress missed staged files
  rcok |-> 0, rcdrift |-> 0   \* forced re-scans seen / polls seen where a re-scan was due (conformance)
]

InflKinds(m, K) == {x \in m.infl : x.kind \in K}
Waiting(m) == {x.id : x \in InflKinds(m, {"flushw"})}

CycleComplete(c, mode) ==
  /\ c.ph \in {"scanned", "applying"} /\ c.ok /\ c.pend = 0
  /\ Need(mode, c.anc, c.a, c.b) \subseteq c.trans

\* ---------------------------------------------------------------- events
\* kinds: "create" "createp" "pause" "resume" "flushw" "flushn" "reset" "terminate" "restart"
MCall(m, i, k) ==
  LET m1 == [m EXCEPT !.infl = @ \cup {[id |-> i, kind |-> k, ep |-> m.epoch, busy |-> InflKinds(m, RestartKinds) # {},
                                        ep2 |-> m.epoch2 + (IF k \in FlagWriters THEN 1 ELSE 0),
                                        busy2 |-> InflKinds(m, FlagWriters) # {}]},
                      !.epoch = IF k \in RestartKinds THEN @ + 1 ELSE @,
                      !.epoch2 = IF k \in FlagWriters THEN @ + 1 ELSE @,
                      \* a pause / reset / terminate that begins may (or, failing, may not) change the flag on disk
                      \* (a terminate - even one that then reports an error - may remove the session file)
                      !.pz = IF k = "terminate" \/ (k \in {"pause", "reset"} /\ @ = "no") THEN "unk" ELSE @]
      m2 == IF k \in HaltEndKinds
            THEN [m1 EXCEPT !.halted = FALSE, !.haltSettled = FALSE, !.hflush = {}, !.haltRoots = NoRoots]
            ELSE IF k = "pause" THEN [m1 EXCEPT !.haltTouched = TRUE]
            ELSE IF k = "terminate" THEN [m1 EXCEPT !.haltTouched = TRUE, !.resetClean = FALSE]
            ELSE m1
  IN CASE k = "resume" -> [m2 EXCEPT !.quiet = m.term, !.pz = "unk"]
       [] k = "restart" -> [m2 EXCEPT !.quiet = m.term \/ (@ /\ m.pz = "yes")]
       [] k = "reset" -> [m2 EXCEPT !.agreed = NoTree, !.synced = FALSE,        \* the history is being cleared
                                    !.resetRef = m.lastRoots, !.resetClean = FALSE,
                                    !.resetDirty = IF InflKinds(m, {"reset"}) = {} THEN FALSE ELSE @]
       [] k \in {"flushw", "flushn"} ->
            [m2 EXCEPT !.fresh = @ \ {i}, !.fdone = @ \ {i},
                       !.hflush = IF m.halted /\ m.haltSettled THEN @ \cup {i} ELSE @]
       [] OTHER -> m2

\* r \in {"ok", "err", "timeout"}
MRet(m, i, k, r) ==
  LET m1 == [m EXCEPT !.infl = {x \in @ : x.id # i}]
      me == CHOOSE x \in m.infl : x.id = i
      \* no resume/restart was in flight, or was called, at any time between this command's call and now.  (The
      \* journal entry of a return may lag behind the return itself, so "none in flight now" is not enough.)
      undisturbed == (\E x \in m.infl : x.id = i) /\ ~me.busy /\ me.ep = m.epoch
  IN CASE k = "pause" /\ r = "ok" ->
            \* the flag on disk is known only if no other writer of it (pause, resume, reset, terminate - a terminate may
            \* remove the session file and still report an error) was in flight at, or called since, this pause's call
            IF undisturbed THEN [m1 EXCEPT !.quiet = TRUE, !.pz = IF ~me.busy2 /\ me.ep2 = m.epoch2 THEN "yes" ELSE "unk"]
            ELSE [m1 EXCEPT !.pz = "unk"]
       [] k = "createp" /\ r = "ok" -> [m1 EXCEPT !.quiet = TRUE, !.pz = "yes"]
       [] k = "terminate" /\ r = "ok" -> [m1 EXCEPT !.quiet = TRUE, !.term = TRUE, !.resetClean = FALSE]
       [] k = "resume" /\ r = "ok" ->      \* no other writer of the pause flag was called or in flight since this call
            IF (\E x \in m.infl : x.id = i) /\ ~me.busy2 /\ me.ep2 = m.epoch2 THEN [m1 EXCEPT !.pz = "no"] ELSE m1
       [] k = "reset" /\ r = "ok" ->
            [m1 EXCEPT !.resetClean = ~m.term /\ ~m.resetDirty /\ InflKinds(m1, {"terminate", "reset"}) = {}]
       [] k = "reset" /\ r # "ok" -> [m1 EXCEPT !.resetRef = NoRoots]
       [] k = "flushw" /\ r = "ok" ->
            [m1 EXCEPT !.badFlush = @ \/ ~(i \in m.fdone \/ (i \in m.fresh /\ CycleComplete(m.cy, m.mode))),
                       !.haltBad = @ \/ (i \in m.hflush),
                       !.fresh = @ \ {i}, !.fdone = @ \ {i}, !.hflush = @ \ {i}]
       [] k = "flushn" /\ r = "ok" -> [m1 EXCEPT !.haltBad = @ \/ (i \in m.hflush), !.hflush = @ \ {i}]
       [] OTHER -> m1

\* o = [side, op, phase, res, anc, tree]
MOp(m, o) ==
  LET isCall == o.phase = "call"
      c == m.cy
      newCycle == o.op = "Scan" /\ isCall /\ (c.ph # "scanning" \/ o.side \in c.called)
      c2 == CASE o.op \in {"Connect", "Shutdown"} -> NoCycle     \* synchronize() is over / starts afresh
              [] newCycle ->
                   [NoCycle EXCEPT !.ph = "scanning", !.called = {o.side}, !.anc = o.anc, !.pend = 1, !.clean = TRUE]
              [] o.op = "Scan" /\ isCall ->
                   [c EXCEPT !.called = @ \cup {o.side}, !.pend = @ + 1]
              [] o.op = "Scan" /\ ~isCall /\ c.ph = "scanning" /\ o.side \in (c.called \ c.got) ->
                   (LET c1 == [c EXCEPT !.got = @ \cup {o.side}, !.pend = @ - 1, !.ok = @ /\ o.res = "ok",
                                        !.a = IF o.side = "alpha" THEN o.tree ELSE @,
                                        !.b = IF o.side = "beta" THEN o.tree ELSE @]
                    IN IF c1.got = Sides THEN [c1 EXCEPT !.ph = IF c1.ok THEN "scanned" ELSE "failed"] ELSE c1)
              [] o.op \in {"Stage", "Supply", "Transition"} /\ isCall /\ c.ph \in {"scanned", "applying"} ->
                   [c EXCEPT !.ph = "applying", !.pend = @ + 1]
              [] o.op \in {"Stage", "Supply", "Transition"} /\ ~isCall /\ c.ph = "applying" ->
                   [c EXCEPT !.pend = IF @ > 0 THEN @ - 1 ELSE 0,
                             !.ok = @ /\ o.res \in {"ok", "missing"},
                             !.trans = IF o.op = "Transition" /\ o.res \in {"ok", "missing"} THEN @ \cup {o.side} ELSE @]
              [] o.op = "Poll" /\ isCall /\ CycleComplete(c, m.mode) -> [c EXCEPT !.ph = "done"]   \* counted once
              [] OTHER -> c
      endsOld == (newCycle \/ (o.op = "Poll" /\ isCall)) /\ CycleComplete(c, m.mode)
      scanned == c.ph = "scanning" /\ c2.ph = "scanned"
      mustA == scanned /\ MustHalt(m.mode, c2.anc, c2.a, c2.b)
      mustG == scanned /\ m.agreed.set /\ MustHalt(m.mode, m.agreed.tree, c2.a, c2.b)
      estab == (mustA \/ mustG) /\ ~m.halted /\ InflKinds(m, HaltEndKinds) = {}
      transRet == o.op = "Transition" /\ ~isCall
      \* all transitions of a cycle that began after the last external edit are back, successfully
      txDone == transRet /\ c2.ph = "applying" /\ c2.ok /\ c2.pend = 0 /\ c2.trans # {} /\ c2.clean
  IN [m EXCEPT !.cy = c2,
               !.fdone = IF endsOld THEN @ \cup m.fresh ELSE @,
               !.fresh = IF newCycle THEN Waiting(m) ELSE @,
               !.badOp = @ \/ m.quiet,
               !.haltBad = @ \/ (m.halted /\ o.op # "Shutdown"),
               !.haltSettled = @ \/ (m.halted /\ o.op = "Shutdown"),
               !.halted = @ \/ estab,
               !.haltTouched = IF estab THEN InflKinds(m, {"pause", "terminate"}) # {} ELSE @,
               !.haltRoots = IF estab THEN m.lastRoots ELSE @,
               !.haltVia = IF estab THEN (IF mustA THEN "anc" ELSE "agreed") ELSE @,
               \* the agreed state is forgotten as soon as the session may have moved its ancestor away from it: a
               \* transition returned, or a cycle scanned something else and was not obliged to halt
               !.agreed = IF transRet THEN NoTree
                          ELSE IF scanned /\ ~(mustA \/ mustG) /\ m.agreed.set
                                  /\ ~(c2.a = m.agreed.tree /\ c2.b = m.agreed.tree) THEN NoTree
                          ELSE @,
               !.synced = IF transRet THEN txDone ELSE IF endsOld THEN c.clean ELSE @,
               !.lastRoots = IF transRet THEN NoRoots ELSE @,
               !.resetRef = IF transRet /\ InflKinds(m, {"reset"}) # {} THEN NoRoots ELSE @,
               !.resetClean = @ /\ ~(o.op = "Scan" /\ ~isCall),
               !.resetDirty = @ \/ (o.op = "Scan" /\ ~isCall /\ InflKinds(m, {"reset"}) # {}),
               !.pin = IF o.op \in {"Connect", "Shutdown"} THEN {}
                       ELSE IF o.op \in PinnedOps THEN (IF isCall THEN @ \cup {<<o.side, o.op>>} ELSE @ \ {<<o.side, o.op>>})
                       ELSE @,
               !.mc = IF o.op = "Connect" THEN 0 ELSE IF endsOld THEN @ + 1 ELSE @,
               \* scan retry / missing-files re-cycle (synchronize: skipPolling for exactly one iteration)
               !.missed = IF o.op \in {"Connect", "Shutdown"} \/ newCycle THEN FALSE
                          ELSE @ \/ (o.op = "Transition" /\ ~isCall /\ o.res = "missing"),
               !.forced = IF o.op \in {"Connect", "Shutdown"} THEN FALSE
                          ELSE IF newCycle THEN (m.want = "scan" /\ m.missed) ELSE @,
               !.want = IF o.op \in {"Connect", "Shutdown"} THEN "any"
                        ELSE IF o.op = "Scan" /\ ~isCall /\ o.res = "again" THEN "scan"
                        ELSE IF endsOld /\ m.missed /\ ~m.forced /\ ~newCycle THEN "any"      \* a poll came instead (drift)
                        ELSE IF o.op = "Transition" /\ ~isCall /\ o.res = "missing" /\ ~m.forced THEN "scan"
                        ELSE IF newCycle \/ (o.op = "Poll" /\ isCall) THEN "any"
                        ELSE @,
               !.rcok = IF newCycle /\ m.want = "scan" THEN @ + 1 ELSE @,
               !.rcdrift = IF o.op = "Poll" /\ isCall /\ m.want = "scan" THEN @ + 1 ELSE @,
               !.rerr = IF o.op = "Connect" THEN FALSE
                        ELSE IF o.op = "Scan" /\ ~isCall /\ o.res = "again" THEN TRUE
                        ELSE IF c.ph = "scanning" /\ c2.ph = "scanned" THEN FALSE
                        ELSE @]

RECURSIVE MOps(_, _)
MOps(m, q) == IF q = <<>> THEN m ELSE MOps(MOp(m, Head(q)), Tail(q))

MEdit(m) == [m EXCEPT !.lastRoots = NoRoots, !.resetRef = NoRoots, !.haltRoots = NoRoots, !.synced = FALSE, !.cy.clean = FALSE]
MRoots(m, r) == [m EXCEPT !.lastRoots = r, !.haltRoots = IF m.halted /\ ~@.set THEN r ELSE @,
                          !.agreed = IF m.synced /\ r.alpha = r.beta THEN [set |-> TRUE, tree |-> r.alpha] ELSE @]
\* the sessions / archives directory became unavailable: the ancestor may not have been saved
MBreak(m) == [m EXCEPT !.agreed = NoTree, !.synced = FALSE]

\* ---------------------------------------------------------------- properties
\* (observation records: st = [listed, paused, status], dk = [sessionFile, paused, archive], r = RootsOf(..);
\*  archive is a tree, or [k |-> "gone"] when the file does not exist)
Gone == [k |-> "gone"]

C29_PausedQuiet(m) == ~m.badOp
C29_FlushFresh(m) == ~m.badFlush
KnownPaused(m) == m.pz = "yes" /\ ~m.term /\ InflKinds(m, {"terminate"}) = {}
C29_PauseSurvivesRestart(m, st) == KnownPaused(m) => (st.listed /\ st.paused)
C29_PauseOnDisk(m, dk) == KnownPaused(m) => (dk.sessionFile /\ dk.paused)
\* a resume that returned ok has persisted "not paused" (growth: model invariant, conformance counter on real sessions)
ResumeOnDisk(m, dk) == (m.pz = "no" /\ ~m.term /\ m.infl = {}) => (dk.sessionFile => ~dk.paused)
C29_TerminatedGoneDisk(m, dk) == m.term => (~dk.sessionFile /\ dk.archive = Gone)
C29_TerminatedGoneList(m, st) == m.term => ~st.listed
C29_ResetArchive(m, dk) == m.resetClean => dk.archive = Nil
C29_ResetKeepsRoots(m, r) == m.resetRef.set => (Keeps(m.resetRef.alpha, r.alpha) /\ Keeps(m.resetRef.beta, r.beta))

\* conformance (not a verdict of C29): while the loop is inside an endpoint operation, Manager.List shows exactly the
\* status written before that call, LastError only after a try-again scan, and the cycles completed on this connection
Pinned(m) == m.pin # {}
ExpectedStatus(m) ==
  LET x == CHOOSE y \in m.pin : TRUE
      st == StatusOfOp(x[1], x[2])
  IN Abs(st, st = "scanning" /\ m.rerr, m.mc)
StatusAgrees(m, st) == Pinned(m) => Abs(st.status, st.lastError # "", st.cycles) = ExpectedStatus(m)

C11_NoOpsWhileHalted(m) == ~m.haltBad
ViaAgreed(m) == m.halted /\ m.haltVia = "agreed"
C11_Status(m, st) == (m.halted /\ m.haltSettled /\ ~m.haltTouched /\ ~m.term) => st.status \in HaltedStatuses
C11_Roots(m, r) == (m.halted /\ m.haltRoots.set) => (r.alpha = m.haltRoots.alpha /\ r.beta = m.haltRoots.beta)
====
