\* C11 thorough: pause / reset / resume around the halt, one injected fault
CONSTANTS
 Mixes <- MixesC11
 StartPaused = {FALSE}
 Mode = "tws"
 InitTree <- D2
 InitArchive <- D2
 EditVals <- EditsC11
 EditSides = {"alpha", "beta"}
 EventSides = {"alpha"}
 MaxEdits = 1
 MaxEvents = 1
 MaxFaults = 1
 MaxTicks = 0
 MaxBreaks = 0
 Export = FALSE
 RunToBlock = FALSE
 TrackInterrupts = FALSE
 Mut = "none"
SPECIFICATION Spec
INVARIANTS InvPausedQuiet InvFlushFresh InvPauseSurvives InvTerminatedGone InvReset InvC11 InvNeverPropagated InvLoopShape InvStatusMachine InvRecycle
CHECK_DEADLOCK FALSE
