---- MODULE Reconcile ----
(***************************************************************************)
(* Transcription of pkg/synchronization/core/reconcile.go: the recursive    *)
(* three-way merge and its four mode handlers.  A plan is a record          *)
(*   [anc : Seq(change), alpha : SUBSET change, beta : SUBSET change,       *)
(*    conf : SUBSET [root, ac, bc]]                                         *)
(* (the code's list orders are unspecified except that ancestor changes are *)
(* emitted parents-first, which Apply relies on).                           *)
(***************************************************************************)
EXTENDS Entries

Modes == {"tws", "twr", "ows", "owr"}

Empty == [anc |-> <<>>, alpha |-> {}, beta |-> {}, conf |-> {}]
Merge(r1, r2) == [anc |-> r1.anc \o r2.anc, alpha |-> r1.alpha \cup r2.alpha,
                  beta |-> r1.beta \cup r2.beta, conf |-> r1.conf \cup r2.conf]
Conf(p, ac, bc) == [Empty EXCEPT !.conf = {[root |-> p, ac |-> ac, bc |-> bc]}]
ToA(c) == [Empty EXCEPT !.alpha = {c}]
ToB(c) == [Empty EXCEPT !.beta = {c}]

\* handleDisagreementBidirectional
Bidir(path, anc, alpha, beta, mode) ==
  LET a == Sync(alpha)
      b == Sync(beta)
      aD == Diff(path, anc, a)
      bD == Diff(path, anc, b)
      bU == Diff(path, b, beta)
      aU == Diff(path, a, alpha)
      aN == NonDel(aD)
      bN == NonDel(bD)
      ToBeta(old, new, ac) == IF bU # {} THEN Conf(path, ac, bU) ELSE ToB(Chg(path, old, new))
      ToAlpha(old, new, bc) == IF aU # {} THEN Conf(path, aU, bc) ELSE ToA(Chg(path, old, new))
  IN IF bD = {} THEN ToBeta(anc, a, aD)
     ELSE IF aD = {} THEN ToAlpha(anc, b, bD)
     ELSE IF aN = {} /\ bN = {} THEN (IF a = Nil THEN ToBeta(b, Nil, aD) ELSE ToAlpha(a, Nil, bD))
     ELSE IF bN = {} THEN ToBeta(b, a, aN)
     ELSE IF aN = {} THEN ToAlpha(a, b, bN)
     ELSE IF mode = "tws" THEN Conf(path, aN, bN)
     ELSE ToBeta(b, a, aN)

\* handleDisagreementOneWaySafe
OneWaySafe(path, anc, alpha, beta) ==
  LET b == Sync(beta)
      bN == NonDel(Diff(path, anc, b))
      bU == Diff(path, b, beta)
      synth == {Chg(path, anc, alpha)}
      untrack == (alpha.k \in {"nil", "untracked"})
                 /\ (anc = Nil \/ anc.k # "dir" \/ beta = Nil \/ beta.k # "dir")
  IN IF bN = {} THEN (IF bU # {} THEN Conf(path, synth, bU) ELSE ToB(Chg(path, beta, Sync(alpha))))
     ELSE IF untrack THEN (IF anc # Nil THEN [Empty EXCEPT !.anc = <<Chg(path, Nil, Nil)>>] ELSE Empty)
     ELSE Conf(path, synth, bN)

\* handleDisagreementOneWayReplica
OneWayReplica(path, anc, alpha, beta) ==
  LET bU == Diff(path, Sync(beta), beta)
  IN IF bU # {} THEN Conf(path, {Chg(path, anc, alpha)}, bU) ELSE ToB(Chg(path, beta, Sync(alpha)))

\* reconciler.reconcile
RECURSIVE Rec(_, _, _, _, _)
Rec(path, anc, alpha, beta, mode) ==
  IF alpha.k = "problem" \/ beta.k = "problem" THEN Empty
  ELSE IF alpha.k \in {"nil", "untracked"} /\ beta.k \in {"nil", "untracked"}
    THEN IF anc # Nil THEN [Empty EXCEPT !.anc = <<Chg(path, Nil, Nil)>>] ELSE Empty
  ELSE IF ShallowEq(alpha, beta) THEN
    LET fix == ~ShallowEq(anc, alpha)
        ac == IF fix THEN Nil ELSE anc
        names == ChildNames(ac) \cup ChildNames(alpha) \cup ChildNames(beta)
        RECURSIVE Fold(_)
        Fold(S) == IF S = {} THEN Empty
                   ELSE LET n == CHOOSE x \in S : TRUE
                        IN Merge(Rec(Append(path, n), Child(ac, n), Child(alpha, n), Child(beta, n), mode),
                                 Fold(S \ {n}))
        sub == Fold(names)
    IN IF fix THEN [sub EXCEPT !.anc = <<Chg(path, Nil, Slim(alpha))>> \o @] ELSE sub
  ELSE IF mode \in {"tws", "twr"} THEN Bidir(path, anc, alpha, beta, mode)
  ELSE IF mode = "ows" THEN OneWaySafe(path, anc, alpha, beta)
  ELSE OneWayReplica(path, anc, alpha, beta)

Reconcile(anc, alpha, beta, mode) == Rec(<<>>, anc, alpha, beta, mode)
====
