\* forwarding controller lifecycle (growth; conformance only): four mixes of three commands, two accepts, one fault
CONSTANTS
 Mixes <- FMixesQ
 StartPaused = {FALSE, TRUE}
 MaxAccepts = 2
 MaxFaults = 1
 MaxTicks = 0
 Export = FALSE
 RunToBlock = FALSE
 Mut = "none"
SPECIFICATION Spec
INVARIANTS InvPausedQuiet InvPauseSurvives InvTerminatedGone InvStatusMachine InvStatusAgrees InvConnsClosed
PROPERTY AllReturn
CHECK_DEADLOCK FALSE
