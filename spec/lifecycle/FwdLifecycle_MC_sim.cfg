\* forwarding: random behaviours (tlc -simulate) exported for replay on the real forwarding.Manager
CONSTANTS
 Mixes <- FMixes3
 StartPaused = {FALSE, TRUE}
 MaxAccepts = 3
 MaxFaults = 1
 MaxTicks = 0
 Export = TRUE
 RunToBlock = TRUE
 Mut = "none"
SPECIFICATION Spec
INVARIANTS InvPausedQuiet InvPauseSurvives InvTerminatedGone InvStatusMachine InvStatusAgrees InvConnsClosed ExportBehaviour
CHECK_DEADLOCK FALSE
