\* C11: random behaviours with destructive edits exported for replay
CONSTANTS
 Mixes <- MixesSimC11
 StartPaused = {FALSE}
 Mode = "tws"
 InitTree <- D2
 InitArchive <- D2
 EditVals <- EditsC11x
 EditSides = {"alpha", "beta"}
 EventSides = {"alpha", "beta"}
 MaxEdits = 2
 MaxEvents = 1
 MaxFaults = 0
 MaxTicks = 0
 MaxBreaks = 0
 Export = TRUE
 RunToBlock = TRUE
 TrackInterrupts = FALSE
 Mut = "none"
SPECIFICATION Spec
INVARIANTS InvPausedQuiet InvFlushFresh InvPauseSurvives InvTerminatedGone InvReset InvC11 InvNeverPropagated InvLoopShape InvStatusMachine InvRecycle ExportBehaviour
CHECK_DEADLOCK FALSE
