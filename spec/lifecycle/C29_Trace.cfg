CONSTANT Want = {"C29_PausedQuiet", "C29_PauseSurvivesRestart", "C29_FlushFresh", "C29_TerminatedGone", "C29_ResetKeepsRoots", "C29_AllReturn", "C29_TraceAccepted"}
SPECIFICATION TSpec
CHECK_DEADLOCK FALSE
