\* persistence faults: random behaviours exported for replay (directories made unavailable for real)
CONSTANTS
 Mixes <- MixesPersistSim
 StartPaused = {FALSE, TRUE}
 Mode = "tws"
 InitTree <- D2
 InitArchive <- D2
 EditVals <- EditsC29
 EditSides = {"alpha", "beta"}
 EventSides = {"alpha", "beta"}
 MaxEdits = 2
 MaxEvents = 1
 MaxFaults = 0
 MaxTicks = 0
 MaxBreaks = 2
 Export = TRUE
 RunToBlock = TRUE
 TrackInterrupts = FALSE
 Mut = "none"
SPECIFICATION Spec
INVARIANTS InvPausedQuiet InvFlushFresh InvPauseSurvives InvTerminatedGone InvReset InvC11 InvNeverPropagated InvLoopShape InvStatusMachine InvRecycle ExportBehaviour
CHECK_DEADLOCK FALSE
