\* C29 thorough: every command returns (liveness under weak fairness of the loop and of each command)
CONSTANTS
 Mixes <- MixesC29
 StartPaused = {FALSE}
 Mode = "tws"
 InitTree <- D2
 InitArchive <- D2
 EditVals <- EditsC29
 EditSides = {"alpha"}
 EventSides = {"alpha"}
 MaxEdits = 1
 MaxEvents = 1
 MaxFaults = 0
 MaxTicks = 0
 MaxBreaks = 0
 Export = FALSE
 RunToBlock = FALSE
 TrackInterrupts = FALSE
 Mut = "none"
SPECIFICATION Spec
INVARIANTS InvPausedQuiet InvFlushFresh InvPauseSurvives InvTerminatedGone InvReset InvC11 InvNeverPropagated InvLoopShape InvStatusMachine InvRecycle
PROPERTY AllReturn
CHECK_DEADLOCK FALSE
