\* C29 thorough: the six mixes, created running or paused, one injected fault (scan retry/error, stage error, transition error/missing files)
CONSTANTS
 Mixes <- MixesC29
 StartPaused = {FALSE, TRUE}
 Mode = "tws"
 InitTree <- D2
 InitArchive <- D2
 EditVals <- EditsC29
 EditSides = {"alpha"}
 EventSides = {"alpha"}
 MaxEdits = 1
 MaxEvents = 1
 MaxFaults = 1
 MaxTicks = 0
 MaxBreaks = 0
 Export = FALSE
 RunToBlock = FALSE
 TrackInterrupts = FALSE
 Mut = "none"
SPECIFICATION Spec
INVARIANTS InvPausedQuiet InvFlushFresh InvPauseSurvives InvTerminatedGone InvReset InvC11 InvNeverPropagated InvLoopShape InvStatusMachine InvRecycle
CHECK_DEADLOCK FALSE
