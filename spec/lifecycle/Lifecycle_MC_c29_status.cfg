\* growth: status machine, LastError, reconnect / back-off: two injected faults (scan, stage, transition, dial of either endpoint), one timer may fire
CONSTANTS
 Mixes <- MixesStatus
 StartPaused = {FALSE}
 Mode = "tws"
 InitTree <- D2
 InitArchive <- D2
 EditVals <- EditsC29
 EditSides = {"alpha"}
 EventSides = {"alpha"}
 MaxEdits = 1
 MaxEvents = 1
 MaxFaults = 2
 MaxTicks = 1
 MaxBreaks = 0
 Export = FALSE
 RunToBlock = FALSE
 TrackInterrupts = FALSE
 Mut = "none"
SPECIFICATION Spec
INVARIANTS InvPausedQuiet InvFlushFresh InvPauseSurvives InvTerminatedGone InvReset InvC11 InvNeverPropagated InvLoopShape InvStatusMachine InvRecycle
CHECK_DEADLOCK FALSE
