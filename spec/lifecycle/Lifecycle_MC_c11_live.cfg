\* C11 thorough: every command returns although the session halts
CONSTANTS
 Mixes <- MixesC11q
 StartPaused = {FALSE}
 Mode = "tws"
 InitTree <- D2
 InitArchive <- D2
 EditVals <- EditsC11
 EditSides = {"alpha", "beta"}
 EventSides = {"alpha"}
 MaxEdits = 1
 MaxEvents = 0
 MaxFaults = 0
 MaxTicks = 0
 MaxBreaks = 0
 Export = FALSE
 RunToBlock = FALSE
 TrackInterrupts = FALSE
 Mut = "none"
SPECIFICATION Spec
INVARIANTS InvPausedQuiet InvFlushFresh InvPauseSurvives InvTerminatedGone InvReset InvC11 InvNeverPropagated InvLoopShape InvStatusMachine InvRecycle
PROPERTY AllReturn
CHECK_DEADLOCK FALSE
