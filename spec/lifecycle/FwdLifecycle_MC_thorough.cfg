\* forwarding controller lifecycle (growth; conformance only): all 64 mixes of three commands, two accepts, two faults, one timer
CONSTANTS
 Mixes <- FMixes3
 StartPaused = {FALSE, TRUE}
 MaxAccepts = 2
 MaxFaults = 2
 MaxTicks = 1
 Export = FALSE
 RunToBlock = FALSE
 Mut = "none"
SPECIFICATION Spec
INVARIANTS InvPausedQuiet InvPauseSurvives InvTerminatedGone InvStatusMachine InvStatusAgrees InvConnsClosed
CHECK_DEADLOCK FALSE
