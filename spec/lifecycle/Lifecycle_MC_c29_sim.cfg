\* C29: random behaviours (tlc -simulate) exported for replay on the real manager
CONSTANTS
 Mixes <- MixesSim3
 StartPaused = {FALSE, TRUE}
 Mode = "tws"
 InitTree <- D2
 InitArchive <- D2
 EditVals <- EditsC29
 EditSides = {"alpha", "beta"}
 EventSides = {"alpha", "beta"}
 MaxEdits = 2
 MaxEvents = 2
 MaxFaults = 1
 MaxTicks = 0
 MaxBreaks = 0
 Export = TRUE
 RunToBlock = TRUE
 TrackInterrupts = FALSE
 Mut = "none"
SPECIFICATION Spec
INVARIANTS InvPausedQuiet InvFlushFresh InvPauseSurvives InvTerminatedGone InvReset InvC11 InvNeverPropagated InvLoopShape InvStatusMachine InvRecycle ExportBehaviour
CHECK_DEADLOCK FALSE
