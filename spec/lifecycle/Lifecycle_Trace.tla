---- MODULE Lifecycle_Trace ----
(***************************************************************************)
(* Trace validation for the lifecycle family.  trace.ndjson is the journal  *)
(* of real sessions driven by harness/cmd/lifecycle: commands issued        *)
(* through the real synchronization.Manager (call / return), endpoint       *)
(* operations of the gating endpoints (call / return, with the ancestor     *)
(* handed to Scan and the tree it returned), external edits, and            *)
(* observations (roots, session and archive files, Manager.List).           *)
(*                                                                          *)
(* Each record drives the monitor of LifecycleMon - the same operators the  *)
(* model Lifecycle.tla drives - and the property operators are evaluated on *)
(* the monitor state and the observation.  The step relation is total and   *)
(* permissive: nothing is required to agree with the model's own choices;   *)
(* disagreement with the results TLC predicted for a replayed behaviour is  *)
(* only counted (stat_drift).                                               *)
(***************************************************************************)
EXTENDS LifecycleMon, TraceKit, Integers

CONSTANT Want

VARIABLES l, fails, m, pred, drift, ncase, cnt, prevS, seen, rs, fm, fc, done
tvars == <<l, fails, m, pred, drift, ncase, cnt, prevS, seen, rs, fm, fc, done>>

OpOf(r) == [side |-> r.side, op |-> r.op, phase |-> r.phase, res |-> r.res, anc |-> r.anc, tree |-> r.tree]
KnownEv == {"Begin", "Cmd", "EndpointOp", "Edit", "Roots", "Disk", "State", "Stream", "Break", "Interrupt", "End", "CaseAborted", "Infra",
            "FBegin", "FCmd", "FEndpointOp", "FDisk", "FState", "FConns", "FEnd", "FInfra"}

\* ------------------------------------------------------------------ forwarding sessions (FwdLifecycle.tla): the same
\* observer, driven by the F-records of the real forwarding.Manager; conformance counters only, no verdict
FApply(mm, r) ==
  CASE r.ev = "FBegin" -> MInit("tws")
    [] r.ev = "FCmd" /\ r.phase = "call" -> MCall(mm, r.id, r.kind)
    [] r.ev = "FCmd" /\ r.phase = "return" -> MRet(mm, r.id, r.kind, r.result)
    [] r.ev = "FEndpointOp" -> MOp(mm, OpOf(r))
    [] OTHER -> mm
FCnt0 == [cases |-> 0, quiets |-> 0, quietdrift |-> 0, pausechk |-> 0, pausedrift |-> 0, termchk |-> 0, termdrift |-> 0,
          stchk |-> 0, stdrift |-> 0, connchk |-> 0, conndrift |-> 0, retdrift |-> 0]
B(x) == IF x THEN 1 ELSE 0
FStable(r, ev) == r.ev = ev /\ r.stable
FBump(c, r, f0, f1) ==
  [cases |-> c.cases + B(r.ev = "FBegin"),
   quiets |-> c.quiets + B(f1.quiet /\ ~f0.quiet),
   quietdrift |-> c.quietdrift + B(f1.badOp /\ ~f0.badOp),
   pausechk |-> c.pausechk + B((FStable(r, "FState") \/ FStable(r, "FDisk")) /\ KnownPaused(f0)),
   pausedrift |-> c.pausedrift + B(FStable(r, "FState") /\ r.listErr = "" /\ ~C29_PauseSurvivesRestart(f0, r))
                               + B(FStable(r, "FDisk") /\ ~C29_PauseOnDisk(f0, r)),
   termchk |-> c.termchk + B((FStable(r, "FState") \/ FStable(r, "FDisk")) /\ f0.term),
   termdrift |-> c.termdrift + B(FStable(r, "FState") /\ r.listErr = "" /\ ~C29_TerminatedGoneList(f0, r))
                             + B(FStable(r, "FDisk") /\ ~C29_TerminatedGoneDisk(f0, r)),
   stchk |-> c.stchk + B(FStable(r, "FState") /\ r.listErr = "" /\ r.listed /\ Pinned(f0)),
   stdrift |-> c.stdrift + B(FStable(r, "FState") /\ r.listErr = "" /\ r.listed /\ Pinned(f0) /\ ~StatusAgrees(f0, r)),
   \* once quiet, every connection the endpoints handed to the controller has been closed
   connchk |-> c.connchk + B(FStable(r, "FConns") /\ f0.quiet),
   conndrift |-> c.conndrift + B(FStable(r, "FConns") /\ f0.quiet /\ r.handed # r.closed),
   retdrift |-> c.retdrift + B((r.ev = "FCmd" /\ r.phase = "timeout") \/ (r.ev = "FEnd" /\ ~r.allBack))]

Apply(mm, r) ==
  CASE r.ev = "Begin" -> MInit(r.in.mode)
    [] r.ev = "Cmd" /\ r.phase = "call" -> MCall(mm, r.id, r.kind)
    [] r.ev = "Cmd" /\ r.phase = "return" -> MRet(mm, r.id, r.kind, r.result)
    [] r.ev = "EndpointOp" -> MOp(mm, OpOf(r))
    [] r.ev = "Edit" -> MEdit(mm)
    [] r.ev = "Break" -> MBreak(mm)
    [] r.ev = "Roots" /\ r.stable -> MRoots(mm, RootsOf(r.alpha, r.beta))
    [] OTHER -> mm

\* newly(flag): the flag is raised by this record
Judge(i, r, m0, m1) ==
     Chk(Want, i, "C29_PausedQuiet", ~(m1.badOp /\ ~m0.badOp))
  \o Chk(Want, i, "C29_FlushFresh", ~(m1.badFlush /\ ~m0.badFlush))
  \o Chk(Want, i, "C11_Halts", ~(m1.haltBad /\ ~m0.haltBad))
  \* the same failures, labelled, when the halt was due only by the state both disks had agreed on (as walked by the
  \* driver), not by the ancestor the controller handed to Scan: the controller lost history
  \o Chk(Want, i, "C11_HaltsVsAgreedDisks", ~(m1.haltBad /\ ~m0.haltBad /\ ViaAgreed(m0)))
  \* observations are judged only when nothing else was journalled while they were taken (r.stable)
  \o (IF r.ev = "State" /\ r.stable /\ r.listErr = "" THEN
           Chk(Want, i, "C29_PauseSurvivesRestart", C29_PauseSurvivesRestart(m0, r))
        \o Chk(Want, i, "C29_TerminatedGone", C29_TerminatedGoneList(m0, r))
        \o Chk(Want, i, "C11_Halts", C11_Status(m0, r))
        \o Chk(Want, i, "C11_HaltsVsAgreedDisks", ViaAgreed(m0) => C11_Status(m0, r))
      ELSE <<>>)
  \o (IF r.ev = "Disk" /\ r.stable THEN
           Chk(Want, i, "C29_PauseSurvivesRestart", C29_PauseOnDisk(m0, r))
        \o Chk(Want, i, "C29_TerminatedGone", C29_TerminatedGoneDisk(m0, r))
        \o Chk(Want, i, "C29_ResetKeepsRoots", C29_ResetArchive(m0, r))
      ELSE <<>>)
  \o (IF r.ev = "Roots" /\ r.stable THEN
           Chk(Want, i, "C29_ResetKeepsRoots", C29_ResetKeepsRoots(m0, RootsOf(r.alpha, r.beta)))
        \o Chk(Want, i, "C11_Halts", C11_Roots(m0, RootsOf(r.alpha, r.beta)))
        \o Chk(Want, i, "C11_HaltsVsAgreedDisks", ViaAgreed(m0) => C11_Roots(m0, RootsOf(r.alpha, r.beta)))
      ELSE <<>>)
  \o (IF (r.ev = "Cmd" /\ r.phase = "timeout") \/ (r.ev = "End" /\ ~r.allBack)
      THEN Chk(Want, i, "C29_AllReturn", FALSE) \o Chk(Want, i, "C11_AllReturn", FALSE) ELSE <<>>)
  \o (IF r.ev \notin KnownEv THEN Chk(Want, i, "C29_TraceAccepted", FALSE) \o Chk(Want, i, "C11_TraceAccepted", FALSE) ELSE <<>>)
  \* the case process itself died or was killed: machinery trouble, counted, never a verdict (every wait inside a case
  \* has its own watchdog whose expiry is journalled as a Cmd timeout)
  \o (IF r.ev \in {"Infra", "CaseAborted"} THEN <<Fail(i, "DriverInfra")>> ELSE <<>>)

Drift(r, p) == IF r.ev = "Cmd" /\ r.phase = "return" /\ r.id \in DOMAIN p /\ p[r.id] # r.result THEN 1 ELSE 0

\* how often the antecedents of the properties were established by real observations (vacuity control)
Cnt0 == [halts |-> 0, quiets |-> 0, flushok |-> 0, terms |-> 0, resets |-> 0, pausedobs |-> 0, cycles |-> 0,
         stchk |-> 0, stdrift |-> 0, stream |-> 0, strdrift |-> 0, strdirect |-> 0,
         recyc |-> 0, recdrift |-> 0, rwaits |-> 0, rwdrift |-> 0, breaks |-> 0, rdchk |-> 0, rdnot |-> 0,
         agreed |-> 0, haltag |-> 0, intr |-> 0, intrtx |-> 0, agdrift |-> 0]
\* scan retry timing (the trace has clocks, the monitor has none): rs = [n: try-again scans in a row, t: when the last
\* one returned]; the scan that follows two or more in a row must start at least rescanWaitDuration later
RescanWaitMs == 4900
Rs0 == [n |-> 0, t |-> 0]
NextRs(r, x) ==
  IF r.ev = "Begin" THEN Rs0
  ELSE IF r.ev # "EndpointOp" THEN x
  ELSE IF r.op \in {"Connect", "Shutdown"} THEN Rs0
  ELSE IF r.op = "Scan" /\ r.phase = "return" /\ r.res = "again" THEN [n |-> x.n + 1, t |-> r.t]
  ELSE IF r.op = "Scan" /\ r.phase = "return" /\ r.res = "ok" /\ r.side = "alpha" THEN Rs0
  ELSE x
WaitedScan(r, x) == r.ev = "EndpointOp" /\ r.op = "Scan" /\ r.phase = "call" /\ r.side = "alpha" /\ x.n >= 2
\* conformance with the status machine (growth beyond C29/C11: counted, never a verdict)
NoSample == [set |-> FALSE, st |-> "none", err |-> FALSE, cyc |-> 0]
SampleOf(r) == [set |-> TRUE, st |-> r.status, err |-> r.err, cyc |-> r.cycles]
PinnedState(r, m0) == r.ev = "State" /\ r.stable /\ r.listErr = "" /\ r.listed /\ Pinned(m0)
StreamPair(r, p) == r.ev = "Stream" /\ r.listed /\ p.set
Bump(c, r, m0, m1, p, x) ==
  [halts |-> c.halts + (IF m1.halted /\ ~m0.halted THEN 1 ELSE 0),
   quiets |-> c.quiets + (IF m1.quiet /\ ~m0.quiet THEN 1 ELSE 0),
   flushok |-> c.flushok + (IF r.ev = "Cmd" /\ r.phase = "return" /\ r.kind = "flushw" /\ r.result = "ok" THEN 1 ELSE 0),
   terms |-> c.terms + (IF m1.term /\ ~m0.term THEN 1 ELSE 0),
   resets |-> c.resets + (IF m1.resetClean /\ ~m0.resetClean THEN 1 ELSE 0),
   pausedobs |-> c.pausedobs + (IF r.ev = "State" /\ KnownPaused(m0) THEN 1 ELSE 0),
   cycles |-> c.cycles + (IF m1.cy.ph = "scanned" /\ m0.cy.ph = "scanning" THEN 1 ELSE 0),
   stchk |-> c.stchk + (IF PinnedState(r, m0) THEN 1 ELSE 0),
   stdrift |-> c.stdrift + (IF PinnedState(r, m0) /\ ~StatusAgrees(m0, r) THEN 1 ELSE 0),
   stream |-> c.stream + (IF r.ev = "Stream" THEN 1 ELSE 0),
   strdrift |-> c.strdrift + (IF StreamPair(r, p) /\ ~StreamOK(p, SampleOf(r)) THEN 1 ELSE 0),
   strdirect |-> c.strdirect + (IF StreamPair(r, p) /\ StepOK(p, SampleOf(r)) THEN 1 ELSE 0),
   recyc |-> c.recyc + (IF r.ev = "EndpointOp" THEN m1.rcok - m0.rcok ELSE 0),
   recdrift |-> c.recdrift + (IF r.ev = "EndpointOp" THEN m1.rcdrift - m0.rcdrift ELSE 0),
   rwaits |-> c.rwaits + (IF WaitedScan(r, x) THEN 1 ELSE 0),
   rwdrift |-> c.rwdrift + (IF WaitedScan(r, x) /\ r.t - x.t < RescanWaitMs THEN 1 ELSE 0),
   \* persistence faults injected; "a resume that returned ok has persisted not-paused" (not implied by C29, and not
   \* true of the controller as coded after a failed save: counted, see docs)
   breaks |-> c.breaks + (IF r.ev = "Break" /\ r.on THEN 1 ELSE 0),
   rdchk |-> c.rdchk + (IF r.ev = "Disk" /\ r.stable /\ m0.pz = "no" /\ ~m0.term /\ m0.infl = {} THEN 1 ELSE 0),
   rdnot |-> c.rdnot + (IF r.ev = "Disk" /\ r.stable /\ ~ResumeOnDisk(m0, r) THEN 1 ELSE 0),
   \* agreed states established from the walker; halts due while an agreed state was known; interrupts injected;
   \* conformance: whenever both are known at a scan, the ancestor handed to Scan IS the agreed state
   agreed |-> c.agreed + (IF m1.agreed.set /\ (~m0.agreed.set \/ m0.agreed.tree # m1.agreed.tree) THEN 1 ELSE 0),
   haltag |-> c.haltag + (IF m1.halted /\ ~m0.halted /\ m0.agreed.set THEN 1 ELSE 0),
   intr |-> c.intr + (IF r.ev = "Interrupt" THEN 1 ELSE 0),
   intrtx |-> c.intrtx + (IF r.ev = "Interrupt" /\ r.phase = "transition" THEN 1 ELSE 0),
   agdrift |-> c.agdrift + (IF r.ev = "EndpointOp" /\ r.op = "Scan" /\ r.phase = "call" /\ m0.agreed.set /\ r.anc # m0.agreed.tree
                            THEN 1 ELSE 0)]

\* the previous sample of the stream; forgotten where the state object itself is replaced (a new manager) or gone
NextSample(r, p) ==
  IF r.ev = "Begin" \/ (r.ev = "Cmd" /\ r.kind = "restart") THEN NoSample
  ELSE IF r.ev = "Stream" THEN (IF r.listed THEN SampleOf(r) ELSE NoSample)
  ELSE p

TInit == l = 1 /\ fails = <<>> /\ m = MInit("tws") /\ pred = <<>> /\ drift = 0 /\ ncase = 0 /\ cnt = Cnt0
         /\ prevS = NoSample /\ seen = {} /\ rs = Rs0 /\ fm = MInit("tws") /\ fc = FCnt0 /\ done = FALSE
Step == /\ l <= NRec
        /\ LET r == Trace[l]
               m1 == Apply(m, r)
           IN /\ m' = m1
              /\ fails' = Cap(fails \o Judge(l, r, m, m1))
              /\ pred' = IF r.ev = "Begin" THEN (IF Has(r.in, "predicted") THEN r.in.predicted ELSE <<>>) ELSE pred
              /\ drift' = drift + Drift(r, pred)
              /\ ncase' = ncase + (IF r.ev = "Begin" THEN 1 ELSE 0)
              /\ cnt' = Bump(cnt, r, m, m1, prevS, rs)
              /\ rs' = NextRs(r, rs)
              /\ fm' = FApply(fm, r)
              /\ fc' = FBump(fc, r, fm, FApply(fm, r))
              /\ prevS' = NextSample(r, prevS)
              /\ seen' = IF r.ev = "Stream" /\ r.listed THEN seen \cup {r.status} ELSE seen
        /\ l' = l + 1 /\ UNCHANGED done
Finish == /\ l = NRec + 1 /\ ~done
          /\ WriteResult(l - 1, fails, [stat_drift |-> drift, stat_cases |-> ncase, stat_halts |-> cnt.halts, stat_quiets |-> cnt.quiets,
                                        stat_flushok |-> cnt.flushok, stat_terms |-> cnt.terms, stat_resets |-> cnt.resets,
                                        stat_pausedobs |-> cnt.pausedobs, stat_cycles |-> cnt.cycles,
                                        stat_status_checked |-> cnt.stchk, stat_status_drift |-> cnt.stdrift,
                                        stat_stream |-> cnt.stream, stat_stream_drift |-> cnt.strdrift,
                                        stat_stream_direct |-> cnt.strdirect, stat_statuses_seen |-> Cardinality(seen),
                                        stat_recycles |-> cnt.recyc, stat_recycle_drift |-> cnt.recdrift,
                                        stat_rescan_waits |-> cnt.rwaits, stat_rescan_wait_drift |-> cnt.rwdrift,
                                        stat_persistence_faults |-> cnt.breaks, stat_resume_disk_checked |-> cnt.rdchk,
                                        stat_resume_not_persisted |-> cnt.rdnot,
                                        stat_agreed_states |-> cnt.agreed, stat_halts_with_agreed |-> cnt.haltag,
                                        stat_interrupts |-> cnt.intr, stat_interrupts_in_transition |-> cnt.intrtx,
                                        stat_ancestor_vs_agreed_drift |-> cnt.agdrift,
                                        stat_fwd_cases |-> fc.cases, stat_fwd_quiets |-> fc.quiets, stat_fwd_quiet_drift |-> fc.quietdrift,
                                        stat_fwd_pause_checked |-> fc.pausechk, stat_fwd_pause_drift |-> fc.pausedrift,
                                        stat_fwd_term_checked |-> fc.termchk, stat_fwd_term_drift |-> fc.termdrift,
                                        stat_fwd_status_checked |-> fc.stchk, stat_fwd_status_drift |-> fc.stdrift,
                                        stat_fwd_conns_checked |-> fc.connchk, stat_fwd_conns_drift |-> fc.conndrift,
                                        stat_fwd_return_drift |-> fc.retdrift])
          /\ done' = TRUE /\ UNCHANGED <<l, fails, m, pred, drift, ncase, cnt, prevS, seen, rs, fm, fc>>
TNext == Step \/ Finish
TSpec == TInit /\ [][TNext]_tvars
====
