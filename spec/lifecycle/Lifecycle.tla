---- MODULE Lifecycle ----
(***************************************************************************)
(* pkg/synchronization/controller.go + manager.go + safety.go for ONE       *)
(* session: the run loop (run/synchronize), the lifecycle lock with         *)
(* cancel/done, the flush request channel (capacity 1), the persisted pause *)
(* flag, terminate, reset, manager Shutdown + NewManager, and the safety    *)
(* halts of the synchronization cycle (root emptied / deleted / retyped).   *)
(*                                                                          *)
(* The whole state is one record `s`; actions are sets of EXCEPT-updated    *)
(* successor records.  There are no clocks: what the properties need to     *)
(* know about time is kept by the monitor (LifecycleMon) that every action  *)
(* feeds with the events the real code makes observable.  The loop only     *)
(* stops at the points where the real loop blocks (the poll select, the     *)
(* endpoint operations Scan / Stage / Transition that the harness gates,    *)
(* <-ctx.Done() after a safety halt, the reconnect back-off); everything    *)
(* between two blocking points is one step, exactly as much as the harness  *)
(* can control on the real code.                                            *)
(***************************************************************************)
EXTENDS LifecycleMon, Json

CONSTANTS Mixes,        \* set of command mixes; a mix is a sequence of kinds, the position is the command id
          StartPaused,  \* subset of BOOLEAN: was the session created paused
          Mode,         \* synchronization mode of the session
          InitTree,     \* contents of both roots when the session is created
          InitArchive,  \* ancestor already recorded at that time (Nil: a fresh session)
          EditVals,     \* trees an external edit may put in place of a root
          EditSides,    \* roots an external edit may touch
          EventSides,   \* endpoints whose Poll may report an event
          MaxEdits, MaxEvents, MaxFaults,   \* budgets: external edits, poll events, injected endpoint faults
          MaxTicks,     \* budget: timers that fire (autoReconnectInterval, rescanWaitDuration)
          MaxBreaks,    \* budget: times the sessions / archives directory becomes unavailable (saves and removals fail)
          Export,       \* TRUE: keep the harness-controllable events of the behaviour in s.h
          RunToBlock,   \* TRUE: the environment (harness) acts only when neither the loop nor a command can move on its own
          TrackInterrupts, \* TRUE: remember at which blocking points a pause / shutdown landed (vacuity runs only)
          Mut           \* "none", or the name of a seeded mutation of the algorithm (to show that the invariants bite)

VARIABLE s

InterruptPhases == {"poll", "scanning", "stagingA", "stagingB", "transitioning"}
\* ------------------------------------------------------------------ events
E(side, op, phase, res, anc, tree) == [side |-> side, op |-> op, phase |-> phase, res |-> res, anc |-> anc, tree |-> tree]
Ev(side, op, phase) == E(side, op, phase, "ok", Nil, Nil)
Both(op, phase) == <<Ev("alpha", op, phase), Ev("beta", op, phase)>>
CallRet(side, op) == <<Ev(side, op, "call"), Ev(side, op, "return")>>
ShutdownBoth == CallRet("alpha", "Shutdown") \o CallRet("beta", "Shutdown")
ShutdownOf(ends) == (IF "alpha" \in ends THEN CallRet("alpha", "Shutdown") ELSE <<>>)
                    \o (IF "beta" \in ends THEN CallRet("beta", "Shutdown") ELSE <<>>)
ConnectBoth == CallRet("alpha", "Connect") \o CallRet("beta", "Connect")
ConnectEv(side, out) == <<Ev(side, "Connect", "call"), E(side, "Connect", "return", out, Nil, Nil)>>
Mon(t, q) == [t EXCEPT !.m = MOps(@, q)]
H(t, e) == IF Export THEN [t EXCEPT !.h = Append(@, e)] ELSE t

Ids(t) == DOMAIN t.kinds
KindOf(t, i) == t.kinds[i]
InFlight(t, i) == t.cpc[i] \notin {"idle", "done"}
Roots(t) == RootsOf(t.da, t.db)

\* ------------------------------------------------------------------ initial state
\* Manager.Create: the command is issued and returns before anything else happens (id 0 in the monitor)
InitState(kinds, sp) ==
  LET ck == IF sp THEN "createp" ELSE "create"
      m0 == MCall(MInit(Mode), 0, ck)
      m1 == IF sp THEN m0 ELSE MOps(m0, ConnectBoth)
      m2 == MRoots(MRet(m1, 0, ck, "ok"), RootsOf(InitTree, InitTree))
  IN [kinds |-> kinds, sp |-> sp,
      alive |-> TRUE, disabled |-> FALSE, cancelSet |-> ~sp, cancelled |-> FALSE, paused |-> sp,
      loopGen |-> 1, doneClosed |-> {},
      synGen |-> 0, synOpen |-> FALSE, synClosed |-> {},
      flushQ |-> <<>>, flushHeld |-> 0, resp |-> {},
      lpc |-> IF sp THEN "none" ELSE "connect", ends |-> IF sp THEN {} ELSE Sides,
      skipPoll |-> FALSE, retries |-> 0, missing |-> FALSE,
      recent |-> FALSE,      \* a synchronization failure of this run() is less than autoReconnectInterval old
      status |-> "disconnected", lerr |-> FALSE, ncyc |-> 0,   \* State.Status, LastError # "", SuccessfulCycles
      stbad |-> FALSE,       \* some write of the three was not a StatusStep of the status machine
      sessionFile |-> TRUE, pausedDisk |-> sp, archive |-> InitArchive,
      da |-> InitTree, db |-> InitTree, anc |-> Nil, sa |-> Nil, sb |-> Nil, plan |-> Empty,
      pendT |-> {}, tres |-> [x \in Sides |-> "none"],
      lock |-> 0, cpc |-> [i \in DOMAIN kinds |-> "idle"],
      cref |-> [i \in DOMAIN kinds |-> [syn |-> 0, gen |-> 0]],
      result |-> [i \in DOMAIN kinds |-> "none"],
      edits |-> 0, events |-> 0, faults |-> 0, ticks |-> 0, breaks |-> 0,
      broken |-> {},         \* of {"sessions", "archives"}: the directory is unavailable, saving / removing in it fails
      intr |-> {},           \* blocking points of the loop at which a pause / shutdown has landed (Interrupt)
      cp |-> [i \in DOMAIN kinds |-> <<>>],      \* where the loop stood, and who was in flight, when command i was called
      m |-> m2, h |-> <<>>]

Init == \E kinds \in Mixes, sp \in StartPaused : s = InitState(kinds, sp)

\* ------------------------------------------------------------------ the status machine: named writes
\* one stateLock.Unlock() after setting Status / LastError / SuccessfulCycles; checked against StatusStep on the fly
W(t, st, err, cyc) ==
  [t EXCEPT !.status = st, !.lerr = err, !.ncyc = cyc,
            !.stbad = @ \/ ~StepOK(Abs(t.status, t.lerr, t.ncyc), Abs(st, err, cyc))]
St(t, st) == W(t, st, t.lerr, t.ncyc)                       \* c.state.Status = st
StReset(t, err) == W(t, "disconnected", err, 0)             \* c.state = &State{Session, LastError: err}
StScanRetry(t) == W(t, "scanning", TRUE, t.ncyc)            \* c.state.LastError = scan error (try again)
StReconciling(t) == W(t, "reconciling", FALSE, t.ncyc)      \* LastError = "", Status = Reconciling (one critical section)
StCycleDone(t) == W(t, "saving", t.lerr, t.ncyc + 1)        \* c.state.SuccessfulCycles++
StClearError(t) == IF t.lerr THEN W(t, t.status, FALSE, t.ncyc) ELSE t   \* synchronize(): LastError = ""
Connected(t) == t.status \in RunningStatuses                \* resume(): c.state.Status >= Status_Watching
HaltStatus(kind) == CASE kind = "emptied" -> "halted-on-root-emptied" [] kind = "deletion" -> "halted-on-root-deletion"
                      [] OTHER -> "halted-on-root-type-change"

\* ------------------------------------------------------------------ persistence (encoding.MarshalAndSaveProtobuf, os.Remove)
\* every save of the session file / the archive and every removal is fallible: it fails while its directory is
\* unavailable (WriteFileAtomic cannot create its temporary file there), and then leaves the file as it was
SessionOK(t) == "sessions" \notin t.broken
ArchiveOK(t) == "archives" \notin t.broken
SaveSession(t, flag) == IF SessionOK(t) THEN [t EXCEPT !.pausedDisk = flag, !.sessionFile = TRUE] ELSE t
SaveArchive(t, tree) == IF ArchiveOK(t) THEN [t EXCEPT !.archive = tree] ELSE t
\* the environment makes a directory unavailable / available again
BreakSteps(t) ==
  (IF t.breaks < MaxBreaks /\ ~(\E j \in Ids(t) : KindOf(t, j) = "restart" /\ InFlight(t, j))
   THEN {H([t EXCEPT !.breaks = @ + 1, !.broken = @ \cup {d}, !.m = MBreak(@)], [a |-> "break", what |-> d]) : d \in {"sessions", "archives"} \ t.broken}
   ELSE {})
  \cup {H([t EXCEPT !.broken = @ \ {d}], [a |-> "restore", what |-> d]) : d \in t.broken}

\* ------------------------------------------------------------------ run loop (controller.run / synchronize)
\* the deferred function of run(): shut down endpoints still held, reset the state, close(done)
Exit(t) ==
  LET u == StReset(Mon(t, ShutdownOf(t.ends)), FALSE) IN
  [u EXCEPT !.lpc = "exited", !.doneClosed = @ \cup {t.loopGen}, !.ends = {}]

\* synchronize returned: close(synchronizing), shut both endpoints down; then either wait for cancellation (safety halt,
\* the Halted* status stays), or reset the state keeping the error, and reconnect: at once if the previous failure of
\* this run() is at least autoReconnectInterval old (lastSynchronizationFailureTime starts at zero), otherwise after
\* waiting one interval - after which the failure that caused the wait counts as old (it was stamped before the wait)
SyncReturn(t, halted) ==
  LET u == Mon([t EXCEPT !.synOpen = FALSE, !.synClosed = @ \cup {t.synGen}, !.flushHeld = 0, !.ends = {},
                         !.pendT = {}, !.plan = Empty, !.sa = Nil, !.sb = Nil], ShutdownBoth)
  IN IF halted THEN [u EXCEPT !.lpc = "haltwait"]
     ELSE LET v == StReset(u, TRUE) IN
          IF ~t.recent THEN [v EXCEPT !.recent = TRUE, !.lpc = "connect"] ELSE [v EXCEPT !.lpc = "backoff"]

\* both Scan calls are issued: this is where a cycle starts
ScanCall(t) ==
  LET u == Mon(St([t EXCEPT !.skipPoll = FALSE, !.lpc = "scanning"], "scanning"),
               <<E("alpha", "Scan", "call", "ok", t.anc, Nil), E("beta", "Scan", "call", "ok", t.anc, Nil)>>)
  IN IF Mut = "flush_early" /\ t.flushHeld # 0
     THEN [u EXCEPT !.resp = @ \cup {t.flushHeld}, !.flushHeld = 0] ELSE u

RECURSIVE HasFile(_)
HasFile(e) == e.k = "file" \/ (e.k = "dir" /\ \E n \in DOMAIN e.c : HasFile(e.c[n]))
\* core.TransitionDependencies is non-empty
NeedsStage(cs) == \E c \in cs : HasFile(c.new) /\ ~(c.old.k = "file" /\ c.new.k = "file" /\ c.old.d = c.new.d)
PlanOf(t, x) == IF x = "alpha" THEN t.plan.alpha ELSE t.plan.beta
ResultsOf(t, x) == LET q == SetToSeq(PlanOf(t, x)) IN [j \in 1..Len(q) |-> Chg(q[j].path, Nil, q[j].new)]

\* the end of one pass through synchronize's loop: Status = Saving, fold results into the ancestor, save it, report
\* transition errors, count the cycle, answer the flush request that triggered it
SaveAndFinish(t0) ==
  LET t == St(t0, "saving")
      okSides == {x \in Sides : t.tres[x] \in {"ok", "missing"}}
      changes == t.plan.anc \o (IF "alpha" \in okSides THEN ResultsOf(t, "alpha") ELSE <<>>)
                            \o (IF "beta" \in okSides THEN ResultsOf(t, "beta") ELSE <<>>)
      lose == Mut = "lose_interrupted_results" /\ t.cancelled
      anc2 == IF changes = <<>> \/ lose THEN t.anc ELSE ApplySeq(t.anc, changes)
      u == [(IF changes = <<>> \/ lose THEN t ELSE SaveArchive(t, anc2)) EXCEPT !.anc = anc2, !.pendT = {}, !.tres = [x \in Sides |-> "none"]]
      miss == \E x \in Sides : t.tres[x] = "missing"
  IN IF changes # <<>> /\ ~ArchiveOK(t) THEN SyncReturn(u, FALSE)        \* "unable to save ancestor"
     ELSE IF \E x \in Sides : t.tres[x] = "err" THEN SyncReturn(u, FALSE)
     ELSE [StCycleDone(u) EXCEPT !.skipPoll = miss /\ ~t.missing, !.missing = miss /\ ~t.missing,
                    !.resp = IF t.flushHeld # 0 THEN @ \cup {t.flushHeld} ELSE @, !.flushHeld = 0,
                    !.plan = Empty, !.lpc = "top"]

\* after reconciliation: Status = StagingAlpha, StagingBeta, Transitioning are written one after the other whether or
\* not there is anything to stage; run on to the next blocking endpoint operation
Advance(t, from) ==
  LET a == IF from = "stageA" THEN St(t, "staging-alpha") ELSE t IN
  IF from = "stageA" /\ NeedsStage(t.plan.alpha) THEN Mon([a EXCEPT !.lpc = "stagingA"], <<Ev("alpha", "Stage", "call")>>)
  ELSE LET b == IF from \in {"stageA", "stageB"} THEN St(a, "staging-beta") ELSE a IN
       IF from \in {"stageA", "stageB"} /\ NeedsStage(t.plan.beta) THEN Mon([b EXCEPT !.lpc = "stagingB"], <<Ev("beta", "Stage", "call")>>)
       ELSE LET c == St(b, "transitioning")
                ps == {x \in Sides : PlanOf(t, x) # {}} IN
            IF ps = {} THEN SaveAndFinish(c)
            ELSE Mon([c EXCEPT !.lpc = "transitioning", !.pendT = ps],
                     (IF "alpha" \in ps THEN <<Ev("alpha", "Transition", "call")>> ELSE <<>>)
                     \o (IF "beta" \in ps THEN <<Ev("beta", "Transition", "call")>> ELSE <<>>))

\* both scans are back without error: LastError cleared, Status = Reconciling; safety checks, reconciliation, safety checks
Reconciled(t0) ==
  LET t == StReconciling(t0)
      minE == IF Mut = "emptied_3" THEN 3 ELSE 2
      pl == Reconcile(t.anc, t.sa, t.sb, Mode)
      delIn == IF Mut = "deletion_alpha_only" THEN pl.alpha ELSE pl.alpha \cup pl.beta
      kind == IF EmptiedRootN(minE, t.anc, t.sa, t.sb) THEN "emptied"
              ELSE IF \E c \in delIn : IsRootDeletion(c) THEN "deletion"
              ELSE IF Mut # "no_type_check" /\ \E c \in pl.alpha \cup pl.beta : IsRootTypeChange(c) THEN "type"
              ELSE "none"
  IN IF kind # "none"
     THEN SyncReturn(St(t, HaltStatus(kind)), Mut # "halt_not_sentinel")
     ELSE Advance([t EXCEPT !.plan = pl], "stageA")

Budget(t) == t.faults < MaxFaults
Fault(t) == [t EXCEPT !.faults = @ + 1]
PollReturns(t) == Mon(t, Both("Poll", "return"))

\* Transition returned on side x with outcome `out`: a successful (or missing-files) transition has changed that root
TransReturn(t, x) ==
  LET Ret(out) == Mon(H(t, [a |-> "trans", side |-> x, out |-> out]), <<E(x, "Transition", "return", out, Nil, Nil)>>)
      Done(u, out) ==
        LET v == [u EXCEPT !.pendT = @ \ {x}, !.tres[x] = out,
                           !.da = IF x = "alpha" /\ out # "err" THEN ApplySeq(@, SetToSeq(t.plan.alpha)) ELSE @,
                           !.db = IF x = "beta" /\ out # "err" THEN ApplySeq(@, SetToSeq(t.plan.beta)) ELSE @]
            w == [v EXCEPT !.m = MRoots(@, Roots(v))]          \* the walker looks at both roots after every step
        IN IF w.pendT = {} THEN SaveAndFinish(w) ELSE w
  IN {Done(Ret("ok"), "ok")}
     \cup (IF Budget(t) THEN {Done(Fault(Ret("missing")), "missing"), Done(Fault(Ret("err")), "err")} ELSE {})

\* the poll select: woken by cancellation or by a queued flush request (internal) ...
PollInternal(t) ==
  (IF t.cancelled THEN {SyncReturn(PollReturns(t), FALSE)} ELSE {})
  \cup (IF t.flushQ # <<>>
        THEN {ScanCall([PollReturns(t) EXCEPT !.flushHeld = Head(t.flushQ), !.flushQ = Tail(@)])} ELSE {})
\* ... or by an endpoint reporting an event (the harness decides)
PollEvent(t) ==
  IF t.events < MaxEvents
  THEN {ScanCall(H([PollReturns(t) EXCEPT !.events = @ + 1], [a |-> "event", side |-> x])) : x \in EventSides}
  ELSE {}

\* one dial of side x with outcome out (Status = ConnectingAlpha/Beta is written before it)
Dial(t, x, out) ==
  LET u == St(t, IF x = "alpha" THEN "connecting-alpha" ELSE "connecting-beta")
      v == Mon(H(u, [a |-> "connect", side |-> x, out |-> out]), ConnectEv(x, out))
  IN IF out = "ok" THEN [v EXCEPT !.ends = @ \cup {x}] ELSE Fault(v)
DialOutcomes(t) == {"ok"} \cup (IF Budget(t) THEN {"err"} ELSE {})
\* both dials in order (a side that is already connected is skipped)
DialBoth(t) ==
  LET A == IF "alpha" \in t.ends THEN {t} ELSE {Dial(t, "alpha", o) : o \in DialOutcomes(t)}
  IN UNION {IF "beta" \in a.ends THEN {a} ELSE {Dial(a, "beta", o) : o \in DialOutcomes(a)} : a \in A}

\* the timers of the loop fire only when the environment lets time pass (a budgeted, harness-controlled event)
TimerSteps(t) ==
  IF t.cancelled \/ t.ticks >= MaxTicks THEN {}
  ELSE CASE t.lpc = "reconnwait" ->          \* time.After(autoReconnectInterval) in the connect loop
              {H([t EXCEPT !.ticks = @ + 1, !.lpc = "connect"], [a |-> "tick", what |-> "reconnect"])}
         [] t.lpc = "backoff" ->             \* time.After(autoReconnectInterval) after a second failure in a row
              {H([t EXCEPT !.ticks = @ + 1, !.recent = FALSE, !.lpc = "connect"], [a |-> "tick", what |-> "backoff"])}
         [] t.lpc = "rescanwait" ->          \* time.After(rescanWaitDuration) before the third scan in a row
              {H([t EXCEPT !.ticks = @ + 1, !.lpc = "top"], [a |-> "tick", what |-> "rescan"])}
         [] OTHER -> {}

LoopSteps(t) ==
  CASE t.lpc = "connect" ->        \* the connect loop of run(): dial what is missing; cancellation is checked between the dials
         IF t.cancelled THEN {Exit(t)}
         ELSE {[u EXCEPT !.lpc = IF u.ends = Sides THEN "syncstart" ELSE "reconnwait"] : u \in DialBoth(t)}
    [] t.lpc = "syncstart" ->      \* c.synchronizing = make(chan); synchronize(): clear LastError, load the archive
         LET u == StClearError([t EXCEPT !.synGen = @ + 1, !.synOpen = TRUE, !.flushHeld = 0, !.skipPoll = TRUE,
                                         !.retries = 0, !.missing = FALSE]) IN
         IF t.archive = Gone \/ ~ArchiveOK(t) THEN {SyncReturn(u, FALSE)}        \* "unable to load archive"
         ELSE {[u EXCEPT !.anc = t.archive, !.lpc = "top"]}
    [] t.lpc = "top" ->
         IF t.skipPoll THEN {ScanCall(t)}
         ELSE {Mon(St([t EXCEPT !.lpc = "poll"], "watching"), Both("Poll", "call"))}
    [] t.lpc = "poll" ->           \* select: endpoint event | flush request | cancellation
         PollInternal(t) \cup PollEvent(t)
    [] t.lpc = "scanning" ->       \* both scans return (the harness decides when, and with what outcome)
         LET Ret(out) == Mon(H(t, [a |-> "scan", out |-> out]),
                             <<E("alpha", "Scan", "return", out, Nil, IF out = "ok" THEN t.da ELSE Nil),
                               E("beta", "Scan", "return", "ok", Nil, t.db)>>)
             okStep == LET u == Ret("ok") IN
                       IF t.cancelled THEN SyncReturn(u, FALSE)
                       ELSE Reconciled([u EXCEPT !.sa = t.da, !.sb = t.db, !.retries = 0])
             \* try again: LastError is set; the first time the scan is repeated at once (polling skipped), a second
             \* time in a row the loop first waits rescanWaitDuration in Status WaitingForRescan
             againStep == LET u == Fault(Ret("again")) IN
                          IF t.cancelled THEN SyncReturn(u, FALSE)
                          ELSE IF t.retries = 0
                          THEN [StScanRetry(u) EXCEPT !.retries = 1, !.skipPoll = TRUE, !.lpc = "top"]
                          ELSE [St(StScanRetry(u), "waiting-for-rescan") EXCEPT !.skipPoll = TRUE, !.lpc = "rescanwait"]
             errStep == SyncReturn(Fault(Ret("err")), FALSE)
         IN {okStep} \cup (IF Budget(t) /\ (t.retries = 0 \/ t.ticks < MaxTicks) THEN {againStep} ELSE {})
                     \cup (IF Budget(t) THEN {errStep} ELSE {})
    [] t.lpc \in {"stagingA", "stagingB"} ->
         LET x == IF t.lpc = "stagingA" THEN "alpha" ELSE "beta"
             Ret(out) == Mon(H(t, [a |-> "stage", side |-> x, out |-> out]), <<E(x, "Stage", "return", out, Nil, Nil)>>)
         IN {Advance(Ret("ok"), IF x = "alpha" THEN "stageB" ELSE "trans")}
            \cup (IF Budget(t) THEN {SyncReturn(Fault(Ret("err")), FALSE)} ELSE {})
    [] t.lpc = "transitioning" ->  \* the two transitions run in parallel and return in either order
         UNION {TransReturn(t, x) : x \in t.pendT}
    [] t.lpc = "rescanwait" ->     \* "cancelled during rescan wait" | the timer
         (IF t.cancelled THEN {SyncReturn(t, FALSE)} ELSE {}) \cup TimerSteps(t)
    [] t.lpc \in {"haltwait", "backoff", "reconnwait"} ->     \* <-ctx.Done() | the timer
         (IF t.cancelled THEN {Exit(t)} ELSE {}) \cup TimerSteps(t)
    [] OTHER -> {}

Loop == s' \in LoopSteps(s)

\* an external process replaces the contents of a root (never between the scans and the transitions of a cycle:
\* what endpoints do about concurrent modification is the subject of C08, not of this family)
EditTo(t, x, v) ==
  LET u == [t EXCEPT !.edits = @ + 1, !.da = IF x = "alpha" THEN v ELSE @, !.db = IF x = "beta" THEN v ELSE @]
  IN H([u EXCEPT !.m = MRoots(MEdit(@), Roots(u))], [a |-> "edit", side |-> x, tree |-> v])
EditSteps(t) ==
  IF t.edits < MaxEdits /\ t.lpc \notin {"stagingA", "stagingB", "transitioning"}
  THEN UNION {{EditTo(t, x, v) : v \in {w \in EditVals : w # (IF x = "alpha" THEN t.da ELSE t.db)}} : x \in EditSides}
  ELSE {}
Edit == s' \in EditSteps(s)

\* ------------------------------------------------------------------ commands
Set(t, i, pc) == [t EXCEPT !.cpc[i] = pc]
Finish(t, i, r) == [t EXCEPT !.cpc[i] = "done", !.result[i] = r, !.m = MRet(@, i, KindOf(t, i), r)]
Unlock(t) == [t EXCEPT !.lock = 0]
StartLoop(t) == [t EXCEPT !.cancelSet = TRUE, !.cancelled = FALSE, !.loopGen = @ + 1, !.flushQ = <<>>,
                          !.lpc = "connect", !.recent = FALSE, !.flushHeld = 0]
RestartInFlight(t) == \E j \in Ids(t) : KindOf(t, j) = "restart" /\ InFlight(t, j)
Dead(t, i) == t.cref[i].syn \in t.synClosed \/ t.cref[i].gen \in t.doneClosed

CmdSteps(t, i) ==
  LET k == KindOf(t, i) pc == t.cpc[i] IN
  CASE pc = "idle" ->
         IF RestartInFlight(t) THEN {}      \* the daemon is going down / coming up: nobody can issue commands
         ELSE LET u == H([t EXCEPT !.m = MCall(@, i, k),
                                   !.intr = IF TrackInterrupts /\ k \in {"pause", "restart"} /\ t.lpc \in InterruptPhases THEN @ \cup {t.lpc} ELSE @,
                                   !.cp[i] = IF Export THEN <<t.lpc, {j \in Ids(t) : InFlight(t, j)}>> ELSE <<>>],
                         [a |-> "call", id |-> i, kind |-> k]) IN
              IF k = "restart" /\ t.broken # {} THEN {}     \* the daemon is not restarted while a directory is away
              ELSE IF k = "restart" THEN {Set(u, i, IF t.alive THEN "r_lock" ELSE "r_waitcmds")}
              ELSE IF ~t.alive THEN {Finish(u, i, "err")}          \* "did not match any sessions"
              ELSE {Set(u, i, "lock")}
    [] pc = "lock" -> IF t.lock = 0 THEN {Set([t EXCEPT !.lock = i], i, "locked")} ELSE {}
    [] pc = "locked" ->
         (CASE k \in {"pause", "terminate"} ->        \* controller.halt
                 IF t.disabled THEN {Unlock(Finish(t, i, "err"))}
                 ELSE IF t.cancelSet THEN {Set([t EXCEPT !.cancelled = TRUE], i, "waitdone")}
                 ELSE {Set(t, i, "halted")}
            [] k = "reset" ->                         \* controller.reset (it does not look at `disabled` unless FixResetDisabled)
                 IF t.disabled /\ Mut # "reset_ignores_disabled" THEN {Unlock(Finish(t, i, "err"))}
                 ELSE IF t.cancelSet THEN {Set([t EXCEPT !.cancelled = TRUE], i, "waitdone")}
                 ELSE {Set(t, i, "reset_archive")}
            [] k = "resume" ->                        \* controller.resume
                 IF t.disabled THEN {Unlock(Finish(t, i, "err"))}
                 ELSE IF t.cancelSet /\ Connected(t) THEN {Unlock(Finish(t, i, "ok"))}
                 ELSE IF t.cancelSet THEN {Set([t EXCEPT !.cancelled = TRUE], i, "waitdone")}
                 ELSE {Set(t, i, "resume_go")}
            [] k \in {"flushw", "flushn"} ->          \* controller.flush
                 IF t.disabled \/ ~t.cancelSet \/ ~t.synOpen THEN {Unlock(Finish(t, i, "err"))}
                 ELSE {Unlock(Set([t EXCEPT !.cref[i] = [syn |-> t.synGen, gen |-> t.loopGen]], i, "send"))}
            [] OTHER -> {})
    [] pc = "waitdone" ->                             \* <-c.done, then nil out cancel / flushRequests / done
         IF t.loopGen \notin t.doneClosed /\ Mut # "halt_no_wait" THEN {}
         ELSE {Set([t EXCEPT !.cancelSet = FALSE], i,
                   CASE k \in {"pause", "terminate"} -> "halted" [] k = "reset" -> "reset_pause" [] k = "resume" -> "resume_go")}
    [] pc = "halted" ->
         IF k = "pause"
         THEN \* c.session.Paused = true, then save; a failed save is reported, the flag in memory stays set
              IF Mut = "pause_shortcut" /\ t.paused THEN {Unlock(Finish(t, i, "ok"))}      \* "already paused": no save
              ELSE LET u == [t EXCEPT !.paused = TRUE] IN
                   {Unlock(Finish(IF Mut = "pause_not_saved" THEN u ELSE SaveSession(u, TRUE), i,
                                  IF SessionOK(t) THEN "ok" ELSE "err"))}
         ELSE \* terminate: disabled = true, then both removals are attempted, then their errors are reported; only a
              \* successful halt is followed by Manager.Terminate's delete(m.sessions, id)
              LET u == [t EXCEPT !.disabled = TRUE,
                                 !.sessionFile = IF SessionOK(t) THEN FALSE ELSE @,
                                 !.archive = IF Mut = "terminate_keeps_archive" \/ ~ArchiveOK(t) THEN @ ELSE Gone]
              IN IF SessionOK(t) /\ ArchiveOK(t) THEN {Set(Unlock(u), i, "unregister")} ELSE {Unlock(Finish(u, i, "err"))}
    [] pc = "unregister" -> {Finish([t EXCEPT !.alive = FALSE], i, "ok")}     \* Manager.Terminate: delete(m.sessions, id)
    \* reset: the inner halt (pause mode) may fail to save - "unable to pause session", the loop stays stopped; the
    \* archive write may fail - "unable to clear session history", and a session that was running is not resumed
    [] pc = "reset_pause" ->
         LET u == SaveSession([t EXCEPT !.paused = TRUE], TRUE) IN
         IF SessionOK(t) THEN {Set(u, i, "reset_archive_r")} ELSE {Unlock(Finish(u, i, "err"))}
    [] pc = "reset_archive" -> {Unlock(Finish(SaveArchive(t, Nil), i, IF ArchiveOK(t) THEN "ok" ELSE "err"))}
    [] pc = "reset_archive_r" ->
         IF ArchiveOK(t) THEN {Set(SaveArchive(t, Nil), i, "resume_go")} ELSE {Unlock(Finish(t, i, "err"))}
    [] pc = "resume_go" ->                            \* save Paused=false, dial both endpoints, go c.run(...)
         \* c.session.Paused = false, save (a failure is reported at the very end), dial, start the loop regardless
         {Unlock(Finish(StartLoop(u), i, IF u.ends = Sides /\ SessionOK(t) THEN "ok" ELSE "err"))
            : u \in DialBoth(SaveSession([t EXCEPT !.paused = FALSE, !.ends = {}], FALSE))}
    [] pc = "send" ->                                 \* flushRequests <- request | <-synchronizing | <-done
         LET room == t.cref[i].gen = t.loopGen /\ Len(t.flushQ) < 1 IN
         IF k = "flushn"
         THEN (IF room THEN {Finish([t EXCEPT !.flushQ = Append(@, i)], i, "ok")} ELSE {})
              \cup (IF Dead(t, i) THEN {Finish(t, i, "err")} ELSE {})
              \cup (IF ~room /\ ~Dead(t, i) THEN {Finish(t, i, "ok")} ELSE {})
         ELSE (IF room THEN {Set([t EXCEPT !.flushQ = Append(@, i)], i, "await")} ELSE {})
              \cup (IF Dead(t, i) THEN {Finish(t, i, "err")} ELSE {})
    [] pc = "await" ->                                \* <-request | <-synchronizing | <-done
         (IF i \in t.resp THEN {Finish([t EXCEPT !.resp = @ \ {i}], i, "ok")} ELSE {})
         \cup (IF Dead(t, i) THEN {Finish(t, i, "err")} ELSE {})
    \* Manager.Shutdown (halt in shutdown mode), then - once every call into the old manager has returned - NewManager
    [] pc = "r_lock" -> IF t.lock = 0 THEN {Set([t EXCEPT !.lock = i], i, "r_locked")} ELSE {}
    [] pc = "r_locked" ->
         IF t.disabled THEN {Unlock(Set(t, i, "r_waitcmds"))}
         ELSE IF t.cancelSet THEN {Set([t EXCEPT !.cancelled = TRUE], i, "r_waitdone")}
         ELSE {Unlock(Set([t EXCEPT !.disabled = TRUE], i, "r_waitcmds"))}
    [] pc = "r_waitdone" ->
         IF t.loopGen \notin t.doneClosed THEN {}
         ELSE {Unlock(Set([t EXCEPT !.cancelSet = FALSE, !.disabled = TRUE], i, "r_waitcmds"))}
    [] pc = "r_waitcmds" ->
         IF \E j \in Ids(t) \ {i} : InFlight(t, j) THEN {}
         ELSE LET loadPaused == IF Mut = "load_ignores_paused" THEN FALSE ELSE t.pausedDisk
                  u == [t EXCEPT !.alive = t.sessionFile, !.disabled = ~t.sessionFile, !.paused = t.pausedDisk,
                                 !.lock = 0, !.ends = {}, !.status = "disconnected", !.lerr = FALSE, !.ncyc = 0]
                  v == IF t.sessionFile /\ ~loadPaused THEN StartLoop(u) ELSE [u EXCEPT !.cancelSet = FALSE]
              IN {Finish(v, i, "ok")}
    [] OTHER -> {}

Command(i) == s' \in CmdSteps(s, i)
\* Interrupt(phase): a pause or a manager shutdown is issued while the loop stands at that blocking point - inside the
\* poll select, inside Scan, inside Stage, or inside the transition phase (Transition issued, not all returned)
Interrupt(ph) == \E i \in Ids(s) : /\ KindOf(s, i) \in {"pause", "restart"} /\ s.cpc[i] = "idle" /\ s.lpc = ph
                                   /\ Command(i)

\* Steps the real system takes on its own, without the harness doing anything: a command that has been called runs until
\* it blocks; the loop runs until it blocks on an endpoint operation or in the poll select.  (The harness's moves are:
\* call a command, edit a root, report a poll event, let a gated endpoint operation return.)
GatePcs == {"scanning", "stagingA", "stagingB", "transitioning"}
\* vacuity control for the interrupt configurations: expected to be VIOLATED (every phase is interrupted somewhere)
NeverInterrupted(ph) == ph \notin s.intr
InternalSteps(t) ==
  (IF t.lpc \in GatePcs THEN {} ELSE IF t.lpc = "poll" THEN PollInternal(t) ELSE LoopSteps(t) \ TimerSteps(t))
  \cup UNION {IF t.cpc[i] = "idle" THEN {} ELSE CmdSteps(t, i) : i \in Ids(t)}
EnvEnabled == ~RunToBlock \/ InternalSteps(s) = {}
Break == s' \in BreakSteps(s)
Next == IF EnvEnabled THEN Loop \/ Edit \/ Break \/ \E i \in Ids(s) : Command(i)
        ELSE s' \in InternalSteps(s)
MaxN == 4
Spec == Init /\ [][Next]_s /\ WF_s(Loop) /\ \A i \in 1..MaxN : WF_s(i \in Ids(s) /\ Command(i))

\* ------------------------------------------------------------------ properties (the monitor's, on the model's own state)
ObsState(t) == [listed |-> t.alive, paused |-> t.paused, status |-> t.status,
                lastError |-> IF t.lerr THEN "error" ELSE "", cycles |-> t.ncyc]
ObsDisk(t) == [sessionFile |-> t.sessionFile, paused |-> t.pausedDisk, archive |-> t.archive]
NoRestart == ~RestartInFlight(s)

InvPausedQuiet == C29_PausedQuiet(s.m)
InvFlushFresh == C29_FlushFresh(s.m)
InvPauseSurvives == NoRestart => (C29_PauseSurvivesRestart(s.m, ObsState(s)) /\ C29_PauseOnDisk(s.m, ObsDisk(s)))
\* NOT an invariant of the controller as coded (TLC: resume whose save fails, then a second resume that finds the loop
\* connected and returns nil without saving - the session file still says paused; see docs/lifecycle.md).  C29 does not
\* speak about the persistence of "resumed"; kept for the record and counted on real sessions.
InvResumeOnDisk == NoRestart => ResumeOnDisk(s.m, ObsDisk(s))
InvTerminatedGone == C29_TerminatedGoneDisk(s.m, ObsDisk(s)) /\ (NoRestart => C29_TerminatedGoneList(s.m, ObsState(s)))
InvReset == C29_ResetArchive(s.m, ObsDisk(s)) /\ C29_ResetKeepsRoots(s.m, Roots(s))
InvC11 == C11_NoOpsWhileHalted(s.m) /\ C11_Status(s.m, ObsState(s)) /\ C11_Roots(s.m, Roots(s))
\* every write of Status / LastError / SuccessfulCycles is a step of the status machine, and while the loop is inside an
\* endpoint operation the three are what the observer expects from the journal alone (the conformance relation
\* the trace module counts on real sessions)
InvStatusMachine == ~s.stbad /\ StatusAgrees(s.m, ObsState(s))
\* scan retry and missing-files re-cycle, as the observer sees them in the journal: a try-again scan and a cycle
\* whose transition missed staged files are followed by the next scan without polling in between (once)
InvRecycle == s.m.rcdrift = 0
\* the model's own view of C11: whenever transitions are in flight the plan propagates none of the three
InvNeverPropagated ==
  s.lpc \in {"stagingA", "stagingB", "transitioning"} =>
    /\ ~EmptiedRoot(s.anc, s.sa, s.sb)
    /\ \A c \in s.plan.alpha \cup s.plan.beta : ~IsRootDeletion(c) /\ ~IsRootTypeChange(c)
\* a loop is running iff the controller holds a cancel function; a paused session has none
InvLoopShape == /\ (s.lpc \notin {"none", "exited"}) => s.cancelSet \/ (\E i \in Ids(s) : s.cpc[i] \in {"waitdone", "r_waitdone"})
                /\ (s.lock = 0 /\ s.alive /\ ~s.disabled /\ s.paused) => ~s.cancelSet
\* every command returns (C29_AllReturn)
AllReturn == \A i \in 1..MaxN : (i \in Ids(s) /\ InFlight(s, i)) ~> (i \in Ids(s) /\ s.cpc[i] = "done")

\* ------------------------------------------------------------------ export of the harness-controllable behaviours
\* (s.h is hidden from the fingerprint: one behaviour is exported per distinct quiescent end state, where states also
\*  remember at which blocking point of the loop, and among which other commands, every command was called)
View == [s EXCEPT !.h = <<>>]
Quiescent(t) == LoopSteps(t) = {} /\ \A i \in Ids(t) : CmdSteps(t, i) = {}
ExportBehaviour ==
  (Export /\ Quiescent(s) /\ EditSteps(s) = {} /\ s.broken = {})
    => PrintT(<<"BEHAVIOUR", ToJson([steps |-> s.h, kinds |-> s.kinds, results |-> s.result,
                                       startPaused |-> s.sp])>>)
====
