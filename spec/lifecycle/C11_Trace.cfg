CONSTANT Want = {"C11_Halts", "C11_HaltsVsAgreedDisks", "C11_AllReturn", "C11_TraceAccepted"}
SPECIFICATION TSpec
CHECK_DEADLOCK FALSE
