\* persistence faults, wider: every pair of pause/resume/reset/terminate followed by a restart, two directory outages
CONSTANTS
 Mixes <- MixesPersist2
 StartPaused = {FALSE, TRUE}
 Mode = "tws"
 InitTree <- D2
 InitArchive <- D2
 EditVals <- EditsC29
 EditSides = {"alpha"}
 EventSides = {"alpha"}
 MaxEdits = 0
 MaxEvents = 0
 MaxFaults = 0
 MaxTicks = 0
 MaxBreaks = 2
 Export = FALSE
 RunToBlock = FALSE
 TrackInterrupts = FALSE
 Mut = "none"
SPECIFICATION Spec
INVARIANTS InvPausedQuiet InvFlushFresh InvPauseSurvives InvTerminatedGone InvReset InvC11 InvNeverPropagated InvLoopShape InvStatusMachine InvRecycle
CHECK_DEADLOCK FALSE
