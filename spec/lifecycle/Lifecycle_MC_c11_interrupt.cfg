\* C11 interrupts: roots start with ONE entry; edits grow a root to two entries, empty it, delete it, retype it; pause or shutdown at any blocking point, resume, flush
CONSTANTS
 Mixes <- MixesInterrupt
 StartPaused = {FALSE}
 Mode = "tws"
 InitTree <- D1
 InitArchive <- D1
 EditVals <- EditsInterrupt
 EditSides = {"alpha", "beta"}
 EventSides = {"alpha"}
 MaxEdits = 2
 MaxEvents = 0
 MaxFaults = 0
 MaxTicks = 0
 MaxBreaks = 0
 Export = FALSE
 RunToBlock = FALSE
 TrackInterrupts = FALSE
 Mut = "none"
SPECIFICATION Spec
INVARIANTS InvPausedQuiet InvFlushFresh InvPauseSurvives InvTerminatedGone InvReset InvC11 InvNeverPropagated InvLoopShape InvStatusMachine InvRecycle
CHECK_DEADLOCK FALSE
