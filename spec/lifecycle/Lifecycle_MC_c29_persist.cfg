\* persistence faults: the sessions / archives directory becomes unavailable once (saves and removals fail), commands are retried, the manager restarts
CONSTANTS
 Mixes <- MixesPersist
 StartPaused = {FALSE, TRUE}
 Mode = "tws"
 InitTree <- D2
 InitArchive <- D2
 EditVals <- EditsC29
 EditSides = {"alpha"}
 EventSides = {"alpha"}
 MaxEdits = 1
 MaxEvents = 0
 MaxFaults = 0
 MaxTicks = 0
 MaxBreaks = 1
 Export = FALSE
 RunToBlock = FALSE
 TrackInterrupts = FALSE
 Mut = "none"
SPECIFICATION Spec
INVARIANTS InvPausedQuiet InvFlushFresh InvPauseSurvives InvTerminatedGone InvReset InvC11 InvNeverPropagated InvLoopShape InvStatusMachine InvRecycle
CHECK_DEADLOCK FALSE
