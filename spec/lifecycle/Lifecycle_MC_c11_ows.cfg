\* C11 thorough: mode ows
CONSTANTS
 Mixes <- MixesC11q
 StartPaused = {FALSE}
 Mode = "ows"
 InitTree <- D2
 InitArchive <- D2
 EditVals <- EditsC11
 EditSides = {"alpha", "beta"}
 EventSides = {"alpha"}
 MaxEdits = 1
 MaxEvents = 1
 MaxFaults = 0
 MaxTicks = 0
 MaxBreaks = 0
 Export = FALSE
 RunToBlock = FALSE
 TrackInterrupts = FALSE
 Mut = "none"
SPECIFICATION Spec
INVARIANTS InvPausedQuiet InvFlushFresh InvPauseSurvives InvTerminatedGone InvReset InvC11 InvNeverPropagated InvLoopShape InvStatusMachine InvRecycle
CHECK_DEADLOCK FALSE
