---- MODULE FwdLifecycle ----
(***************************************************************************)
(* Growth beyond the listed properties: the forwarding controller           *)
(* (pkg/forwarding/controller.go, manager.go) as a mirror of Lifecycle.tla: *)
(* lifecycle lock with cancel/done, persisted pause flag, terminate,        *)
(* manager Shutdown + NewManager, and the run loop                          *)
(*   connect source, connect destination (a failed dial leaves its error in *)
(*   LastError; retry after autoReconnectInterval) -> forward(): LastError  *)
(*   cleared, Status = ForwardingConnections, source.Open (accept) ->       *)
(*   destination.Open (dial) -> connection forwarded in the background ->   *)
(*   accept again ...; cancellation, a forwarding error or a transport      *)
(*   error shut both endpoints down (which unblocks Open and closes every   *)
(*   forwarded connection), reset the state keeping the error, and          *)
(*   reconnect with the same back-off as the synchronization loop.          *)
(* The observer is LifecycleMon, unchanged: the same operators that judge   *)
(* C29 on synchronization sessions are evaluated here as conformance        *)
(* (quiet after pause, pause flag persisted, terminate removes the session) *)
(* plus the forwarding status machine and "no connection stays open once    *)
(* forwarding was cancelled".                                               *)
(***************************************************************************)
EXTENDS LifecycleMon, Json

CONSTANTS Mixes, StartPaused, MaxAccepts, MaxFaults, MaxTicks, Export, RunToBlock, Mut
VARIABLE s

FSides == {"source", "destination"}
E(side, op, phase, res) == [side |-> side, op |-> op, phase |-> phase, res |-> res, anc |-> Nil, tree |-> Nil]
CallRet(side, op, res) == <<E(side, op, "call", "ok"), E(side, op, "return", res)>>
ShutdownOf(ends) == (IF "source" \in ends THEN CallRet("source", "Shutdown", "ok") ELSE <<>>)
                    \o (IF "destination" \in ends THEN CallRet("destination", "Shutdown", "ok") ELSE <<>>)
Mon(t, q) == [t EXCEPT !.m = MOps(@, q)]
H(t, e) == IF Export THEN [t EXCEPT !.h = Append(@, e)] ELSE t
Ids(t) == DOMAIN t.kinds
KindOf(t, i) == t.kinds[i]
InFlight(t, i) == t.cpc[i] \notin {"idle", "done"}

\* ------------------------------------------------------------------ status machine (forwarding/state.proto)
FStatuses == {"disconnected", "connecting-source", "connecting-destination", "forwarding-connections"}
FStatusStep ==
  {<<"disconnected", x>> : x \in {"disconnected", "connecting-source", "connecting-destination", "forwarding-connections"}}
  \cup {<<"connecting-source", x>> : x \in FStatuses}
  \cup {<<"connecting-destination", x>> : x \in FStatuses}
  \cup {<<"forwarding-connections", "disconnected">>}
\* LastError: set by a failed dial (kept while connecting) or by the reset after forwarding failed; cleared by forward()
FStepOK(a, b) == <<a.st, b.st>> \in FStatusStep /\ (b.err => b.st # "forwarding-connections")
W(t, st, err) == [t EXCEPT !.status = st, !.lerr = err,
                           !.stbad = @ \/ ~FStepOK([st |-> t.status, err |-> t.lerr], [st |-> st, err |-> err])]

InitState(kinds, sp) ==
  LET ck == IF sp THEN "createp" ELSE "create"
      m0 == MCall(MInit("tws"), 0, ck)
      m1 == IF sp THEN m0 ELSE MOps(m0, CallRet("source", "Connect", "ok") \o CallRet("destination", "Connect", "ok"))
  IN [kinds |-> kinds, sp |-> sp,
      alive |-> TRUE, disabled |-> FALSE, cancelSet |-> ~sp, cancelled |-> FALSE, paused |-> sp,
      loopGen |-> 1, doneClosed |-> {},
      lpc |-> IF sp THEN "none" ELSE "connect", ends |-> IF sp THEN {} ELSE FSides, recent |-> FALSE,
      status |-> "disconnected", lerr |-> FALSE, stbad |-> FALSE,
      open |-> 0, total |-> 0,        \* connections being forwarded / forwarded so far by this forward()
      leaked |-> FALSE,               \* a connection was still open when the loop that forwarded it had finished
      sessionFile |-> TRUE, pausedDisk |-> sp,
      lock |-> 0, cpc |-> [i \in DOMAIN kinds |-> "idle"], result |-> [i \in DOMAIN kinds |-> "none"],
      accepts |-> 0, faults |-> 0, ticks |-> 0,
      m |-> MRet(m1, 0, ck, "ok"), h |-> <<>>]
Init == \E kinds \in Mixes, sp \in StartPaused : s = InitState(kinds, sp)

\* ------------------------------------------------------------------ run loop
Budget(t) == t.faults < MaxFaults
Fault(t) == [t EXCEPT !.faults = @ + 1]
Exit(t) ==
  LET u == W(Mon(t, ShutdownOf(t.ends)), "disconnected", FALSE) IN
  [u EXCEPT !.lpc = "exited", !.doneClosed = @ \cup {t.loopGen}, !.ends = {}, !.leaked = @ \/ t.open > 0]

\* forwarding is over (cancellation | forwarding error | transport error): force shutdown of both endpoints, wait for
\* forward() to return (its deferred cancel closes every forwarded connection), reset the state keeping the error
Teardown(t, pendingOpen) ==
  LET q == ShutdownOf(FSides) \o (IF pendingOpen = "none" THEN <<>> ELSE <<E(pendingOpen, "Open", "return", "err")>>)
      u == W(Mon([t EXCEPT !.ends = {}, !.open = IF Mut = "conns_survive" THEN @ ELSE 0], q), "disconnected", TRUE)
  IN IF t.cancelled THEN Exit(u)
     ELSE IF ~t.recent THEN [u EXCEPT !.recent = TRUE, !.lpc = "connect"] ELSE [u EXCEPT !.lpc = "backoff"]

\* one dial (Status = ConnectingSource/Destination before it); inside the run loop a failed dial leaves its error in
\* LastError, resume() does not touch LastError
Dial(t, x, out, inLoop) ==
  LET u == W(t, IF x = "source" THEN "connecting-source" ELSE "connecting-destination", t.lerr)
      v == Mon(H(u, [a |-> "connect", side |-> x, out |-> out]), CallRet(x, "Connect", out))
  IN IF out = "ok" THEN [v EXCEPT !.ends = @ \cup {x}]
     ELSE Fault(IF inLoop THEN W(v, v.status, TRUE) ELSE v)
DialOutcomes(t) == {"ok"} \cup (IF Budget(t) THEN {"err"} ELSE {})
DialBoth(t, inLoop) ==
  LET A == IF "source" \in t.ends THEN {t} ELSE {Dial(t, "source", o, inLoop) : o \in DialOutcomes(t)}
  IN UNION {IF "destination" \in a.ends THEN {a} ELSE {Dial(a, "destination", o, inLoop) : o \in DialOutcomes(a)} : a \in A}

TimerSteps(t) ==
  IF t.cancelled \/ t.ticks >= MaxTicks THEN {}
  ELSE CASE t.lpc = "reconnwait" -> {H([t EXCEPT !.ticks = @ + 1, !.lpc = "connect"], [a |-> "tick", what |-> "reconnect"])}
         [] t.lpc = "backoff" -> {H([t EXCEPT !.ticks = @ + 1, !.recent = FALSE, !.lpc = "connect"], [a |-> "tick", what |-> "backoff"])}
         [] OTHER -> {}

\* source.Open is called: the loop waits for an incoming connection
Accept(t) == Mon([t EXCEPT !.lpc = "accepting"], <<E("source", "Open", "call", "ok")>>)

LoopInternal(t) ==
  CASE t.lpc = "connect" ->
         IF t.cancelled THEN {Exit(t)}
         ELSE {[u EXCEPT !.lpc = IF u.ends = FSides THEN "fwdstart" ELSE "reconnwait"] : u \in DialBoth(t, TRUE)}
    [] t.lpc = "fwdstart" ->       \* forward(): LastError = "", Status = ForwardingConnections; accept
         {Accept(W([t EXCEPT !.open = 0, !.total = 0], "forwarding-connections", FALSE))}
    [] t.lpc \in {"accepting", "dialing"} ->
         IF t.cancelled THEN {Teardown(t, IF t.lpc = "accepting" THEN "source" ELSE "destination")} ELSE {}
    [] t.lpc \in {"backoff", "reconnwait"} -> IF t.cancelled THEN {Exit(t)} ELSE {}
    [] OTHER -> {}
\* what the harness decides: an incoming connection, a failing accept or dial, a transport error, a timer
LoopGate(t) ==
  CASE t.lpc = "accepting" /\ ~t.cancelled ->
         (IF t.accepts < MaxAccepts
          THEN {Mon(H([t EXCEPT !.accepts = @ + 1, !.lpc = "dialing"], [a |-> "accept", out |-> "ok"]),
                    <<E("source", "Open", "return", "ok"), E("destination", "Open", "call", "ok")>>)} ELSE {})
         \cup (IF Budget(t) THEN {Teardown(Fault(Mon(H(t, [a |-> "accept", out |-> "err"]), <<E("source", "Open", "return", "err")>>)), "none"),
                                 Teardown(Fault(H(t, [a |-> "transport", side |-> "source"])), "source")} ELSE {})
    [] t.lpc = "dialing" /\ ~t.cancelled ->
         {Accept(Mon(H([t EXCEPT !.open = @ + 1, !.total = @ + 1], [a |-> "dial", out |-> "ok"]), <<E("destination", "Open", "return", "ok")>>))}
         \cup (IF Budget(t) THEN {Teardown(Fault(Mon(H(t, [a |-> "dial", out |-> "err"]), <<E("destination", "Open", "return", "err")>>)), "none")} ELSE {})
    [] OTHER -> TimerSteps(t)
\* a forwarded connection ends on its own (either peer closes it)
ConnCloses(t) == IF t.open > 0 /\ t.lpc \in {"accepting", "dialing"} THEN {H([t EXCEPT !.open = @ - 1], [a |-> "close"])} ELSE {}
LoopSteps(t) == LoopInternal(t) \cup LoopGate(t)

\* ------------------------------------------------------------------ commands (halt / resume / Manager.Terminate / restart)
Set(t, i, pc) == [t EXCEPT !.cpc[i] = pc]
Finish(t, i, r) == [t EXCEPT !.cpc[i] = "done", !.result[i] = r, !.m = MRet(@, i, KindOf(t, i), r)]
Unlock(t) == [t EXCEPT !.lock = 0]
StartLoop(t) == [t EXCEPT !.cancelSet = TRUE, !.cancelled = FALSE, !.loopGen = @ + 1, !.lpc = "connect", !.recent = FALSE]
RestartInFlight(t) == \E j \in Ids(t) : KindOf(t, j) = "restart" /\ InFlight(t, j)

CmdSteps(t, i) ==
  LET k == KindOf(t, i) pc == t.cpc[i] IN
  CASE pc = "idle" ->
         IF RestartInFlight(t) THEN {}
         ELSE LET u == H([t EXCEPT !.m = MCall(@, i, k)], [a |-> "call", id |-> i, kind |-> k]) IN
              IF k = "restart" THEN {Set(u, i, IF t.alive THEN "r_lock" ELSE "r_waitcmds")}
              ELSE IF ~t.alive THEN {Finish(u, i, "err")}
              ELSE {Set(u, i, "lock")}
    [] pc = "lock" -> IF t.lock = 0 THEN {Set([t EXCEPT !.lock = i], i, "locked")} ELSE {}
    [] pc = "locked" ->
         (CASE k \in {"pause", "terminate"} ->
                 IF t.disabled THEN {Unlock(Finish(t, i, "err"))}
                 ELSE IF t.cancelSet THEN {Set([t EXCEPT !.cancelled = TRUE], i, "waitdone")}
                 ELSE {Set(t, i, "halted")}
            [] k = "resume" ->
                 IF t.disabled THEN {Unlock(Finish(t, i, "err"))}
                 ELSE IF t.cancelSet /\ t.status = "forwarding-connections" THEN {Unlock(Finish(t, i, "ok"))}
                 ELSE IF t.cancelSet THEN {Set([t EXCEPT !.cancelled = TRUE], i, "waitdone")}
                 ELSE {Set(t, i, "resume_go")}
            [] OTHER -> {})
    [] pc = "waitdone" ->
         IF t.loopGen \notin t.doneClosed /\ Mut # "halt_no_wait" THEN {}
         ELSE {Set([t EXCEPT !.cancelSet = FALSE], i, IF k = "resume" THEN "resume_go" ELSE "halted")}
    [] pc = "halted" ->
         IF k = "pause"
         THEN {Unlock(Finish([t EXCEPT !.paused = TRUE, !.pausedDisk = IF Mut = "pause_not_saved" THEN @ ELSE TRUE, !.sessionFile = TRUE], i, "ok"))}
         ELSE {Set(Unlock([t EXCEPT !.disabled = TRUE, !.sessionFile = FALSE]), i, "unregister")}
    [] pc = "unregister" -> {Finish([t EXCEPT !.alive = FALSE], i, "ok")}
    [] pc = "resume_go" ->
         {Unlock(Finish(StartLoop(u), i, IF u.ends = FSides THEN "ok" ELSE "err"))
            : u \in DialBoth([t EXCEPT !.paused = FALSE, !.pausedDisk = FALSE, !.ends = {}], FALSE)}
    [] pc = "r_lock" -> IF t.lock = 0 THEN {Set([t EXCEPT !.lock = i], i, "r_locked")} ELSE {}
    [] pc = "r_locked" ->
         IF t.disabled THEN {Unlock(Set(t, i, "r_waitcmds"))}
         ELSE IF t.cancelSet THEN {Set([t EXCEPT !.cancelled = TRUE], i, "r_waitdone")}
         ELSE {Unlock(Set([t EXCEPT !.disabled = TRUE], i, "r_waitcmds"))}
    [] pc = "r_waitdone" ->
         IF t.loopGen \notin t.doneClosed THEN {}
         ELSE {Unlock(Set([t EXCEPT !.cancelSet = FALSE, !.disabled = TRUE], i, "r_waitcmds"))}
    [] pc = "r_waitcmds" ->
         IF \E j \in Ids(t) \ {i} : InFlight(t, j) THEN {}
         ELSE LET u == [t EXCEPT !.alive = t.sessionFile, !.disabled = ~t.sessionFile, !.paused = t.pausedDisk,
                                 !.lock = 0, !.ends = {}, !.status = "disconnected", !.lerr = FALSE]
                  v == IF t.sessionFile /\ ~t.pausedDisk THEN StartLoop(u) ELSE [u EXCEPT !.cancelSet = FALSE]
              IN {Finish(v, i, "ok")}
    [] OTHER -> {}

Loop == s' \in LoopSteps(s)
Close == s' \in ConnCloses(s)
Command(i) == s' \in CmdSteps(s, i)
InternalSteps(t) == LoopInternal(t) \cup UNION {IF t.cpc[i] = "idle" THEN {} ELSE CmdSteps(t, i) : i \in Ids(t)}
EnvEnabled == ~RunToBlock \/ InternalSteps(s) = {}
Next == IF EnvEnabled THEN Loop \/ Close \/ \E i \in Ids(s) : Command(i) ELSE s' \in InternalSteps(s)
MaxN == 4
Spec == Init /\ [][Next]_s /\ WF_s(s' \in LoopInternal(s)) /\ \A i \in 1..MaxN : WF_s(i \in Ids(s) /\ Command(i))

\* ------------------------------------------------------------------ properties: LifecycleMon's, and forwarding's own
ObsState(t) == [listed |-> t.alive, paused |-> t.paused, status |-> t.status, lastError |-> IF t.lerr THEN "e" ELSE "", cycles |-> 0]
ObsDisk(t) == [sessionFile |-> t.sessionFile, paused |-> t.pausedDisk, archive |-> Gone]   \* forwarding keeps no archive
NoRestart == ~RestartInFlight(s)
InvPausedQuiet == C29_PausedQuiet(s.m)
InvPauseSurvives == NoRestart => (C29_PauseSurvivesRestart(s.m, ObsState(s)) /\ C29_PauseOnDisk(s.m, ObsDisk(s)))
InvTerminatedGone == C29_TerminatedGoneDisk(s.m, ObsDisk(s)) /\ (NoRestart => C29_TerminatedGoneList(s.m, ObsState(s)))
InvStatusMachine == ~s.stbad
\* while an Open is pending the session shows ForwardingConnections without an error (the observer's pinned status)
InvStatusAgrees == StatusAgrees(s.m, ObsState(s))
\* no forwarded connection outlives the loop that forwarded it: once quiet, nothing is open
InvConnsClosed == ~s.leaked /\ (s.m.quiet => s.open = 0)
AllReturn == \A i \in 1..MaxN : (i \in Ids(s) /\ InFlight(s, i)) ~> (i \in Ids(s) /\ s.cpc[i] = "done")

View == [s EXCEPT !.h = <<>>]
Quiescent(t) == LoopInternal(t) = {} /\ LoopGate(t) = {} /\ \A i \in Ids(t) : CmdSteps(t, i) = {}
ExportBehaviour ==
  (Export /\ Quiescent(s))
    => PrintT(<<"BEHAVIOUR", ToJson([fam |-> "fwd", steps |-> s.h, kinds |-> s.kinds, results |-> s.result, startPaused |-> s.sp])>>)
====
