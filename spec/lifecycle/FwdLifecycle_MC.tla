---- MODULE FwdLifecycle_MC ----
EXTENDS FwdLifecycle
FKinds == {"pause", "resume", "terminate", "restart"}
FMixes3 == {<<x, y, z>> : x, y, z \in FKinds}
FMixesQ == {<<"pause", "resume", "restart">>, <<"resume", "terminate", "pause">>, <<"pause", "restart", "resume">>, <<"terminate", "restart", "resume">>}
====
