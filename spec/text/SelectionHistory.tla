---- MODULE SelectionHistory ----
(***************************************************************************)
(* C40 on a manager whose registry has a history.  Sessions 1..N are        *)
(* created; afterwards Terminate calls (manager.go Terminate) select a set  *)
(* S of registered sessions and halt them one by one in an arbitrary order. *)
(*   Terminate(S)          every halt succeeds                              *)
(*   TerminateFailsAt(S,k) the halt of session k fails after it disabled    *)
(*                         the controller (its files cannot be removed);    *)
(*                         the sessions halted before k are gone, k is      *)
(*                         disabled, the call returns an error and the rest *)
(*                         of S is untouched                                *)
(* live = sessions that are neither terminated nor disabled; reg = the      *)
(* manager's session map.  Invariant (REPAIRED behaviour, /repo cde6463):   *)
(* reg = live after every action - a session that was in fact terminated    *)
(* is never listed, selected by label or matched by a specification.        *)
(* Pause changes neither set.                                               *)
(***************************************************************************)
EXTENDS Naturals, FiniteSets, TLC
CONSTANTS N, RemoveOnFailure    \* RemoveOnFailure = TRUE: the repaired clean-up
VARIABLES reg, live, calls
vars == <<reg, live, calls>>
All == 1..N
Init == reg = All /\ live = All /\ calls = 0
Terminate(S) == /\ S # {} /\ S \subseteq reg /\ calls < 3
                /\ reg' = reg \ S /\ live' = live \ S /\ calls' = calls + 1
TerminateFailsAt(S, k, before) ==
  /\ k \in S /\ S \subseteq reg /\ before \subseteq S \ {k} /\ calls < 3
  /\ live' = live \ (before \cup {k})
  /\ reg' = reg \ (before \cup (IF RemoveOnFailure THEN {k} ELSE {}))
  /\ calls' = calls + 1
Pause(S) == S \subseteq reg /\ calls < 3 /\ calls' = calls + 1 /\ UNCHANGED <<reg, live>>
Next == \E S \in SUBSET All : \/ Terminate(S) \/ Pause(S)
                              \/ \E k \in S : \E b \in SUBSET (S \ {k}) : TerminateFailsAt(S, k, b)
Spec == Init /\ [][Next]_vars
RegistryIsLive == reg = live
====
