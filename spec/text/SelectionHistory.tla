---- MODULE SelectionHistory ----
(***************************************************************************)
(* C40 on a manager whose registry has a history.  Sessions 1..N are        *)
(* created; afterwards Terminate calls (manager.go Terminate) select a set  *)
(* S of registered sessions and halt them one by one in an arbitrary order, *)
(* removing each from the registry when its halt succeeded.                 *)
(*   Terminate(S)                 every halt succeeds                       *)
(*   TerminateFailsAt(S,k,before) the halt of session k fails (its session  *)
(*                         file cannot be removed); the sessions halted     *)
(*                         before k are gone, the call returns an error,    *)
(*                         the rest of S is untouched, and k itself is in   *)
(*                         limbo: the property does not say whether a       *)
(*                         session whose termination failed is still a      *)
(*                         session, so it may stay in the registry or not   *)
(*   Pause(S)              changes nothing here                             *)
(* gone = sessions whose terminating halt succeeded.  Invariant: no gone    *)
(* session is registered, and every session that is neither gone nor in     *)
(* limbo is registered.  CleanupAfterLoop = TRUE is the seeded mistake      *)
(* (sanity only): the registry is updated after the loop, so an early error *)
(* return leaves the sessions halted before k registered.                   *)
(***************************************************************************)
EXTENDS Naturals, FiniteSets, TLC
CONSTANTS N, CleanupAfterLoop
VARIABLES reg, gone, limbo, calls
vars == <<reg, gone, limbo, calls>>
All == 1..N
Init == reg = All /\ gone = {} /\ limbo = {} /\ calls = 0
Terminate(S) == /\ S # {} /\ S \subseteq reg /\ calls < 3
                /\ reg' = reg \ S /\ gone' = gone \cup (S \ limbo) /\ calls' = calls + 1
                /\ UNCHANGED limbo
TerminateFailsAt(S, k, before) ==
  /\ k \in S /\ S \subseteq reg /\ before \subseteq S \ {k} /\ calls < 3
  /\ gone' = gone \cup (before \ limbo)
  /\ limbo' = limbo \cup {k}
  /\ \E keep \in BOOLEAN :
       reg' = (IF CleanupAfterLoop THEN reg ELSE reg \ before) \ (IF keep THEN {} ELSE {k})
  /\ calls' = calls + 1
Pause(S) == S \subseteq reg /\ calls < 3 /\ calls' = calls + 1 /\ UNCHANGED <<reg, gone, limbo>>
Next == \E S \in SUBSET All : \/ Terminate(S) \/ Pause(S)
                              \/ \E k \in S : \E b \in SUBSET (S \ {k}) : TerminateFailsAt(S, k, b)
Spec == Init /\ [][Next]_vars
RegistryExact == /\ reg \cap gone = {}
                 /\ (All \ gone) \ limbo \subseteq reg
====
