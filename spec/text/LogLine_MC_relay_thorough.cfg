CONSTANTS Tokens = {"a", "LF", "CR", "ESC", "PE", "PT"} MaxLen = 4 Mode = "relay"
SPECIFICATION Spec
INVARIANTS InvLog InvRelay
CHECK_DEADLOCK FALSE
