---- MODULE Argv ----
(***************************************************************************)
(* C36: URL components are never treated as command-line options.           *)
(*                                                                         *)
(* A URL string is built from a user and a host/container token string,     *)
(* parsed and validated by UrlText (pkg/url), and - if accepted - turned     *)
(* into the argument vectors the transports build:                          *)
(*   SshArgv, ScpArgv          pkg/agent/transport/ssh/transport.go          *)
(*   DockerExecArgv, DockerCpArgv  pkg/agent/transport/docker/transport.go   *)
(* An argument is a sequence of pieces; every piece that the option scanner *)
(* looks at is a single character, so the same scanner runs on the model's  *)
(* token sequences and on real argv strings recorded character by character.*)
(* Scan is the getopt / pflag model: an argument that begins with '-' (and  *)
(* is not exactly "-") is an option unless it follows "--" or is the value   *)
(* of a preceding option that takes one; ssh keeps scanning options after   *)
(* its first operand, scp stops at the first operand, docker exec stops at  *)
(* the first operand, docker cp permutes.                                   *)
(* Property: in every command the word that carries the URL component is an *)
(* operand (the Docker user: the value of --user) and carries the component *)
(* text unchanged; a URL that cannot satisfy this is rejected before any    *)
(* command.  Components range over text with '-', '@', '/', 'o' and the     *)
(* white space characters (space, TAB, LF) that a Trim* would remove.       *)
(***************************************************************************)
EXTENDS UrlText

\* ---------------------------------------------------------------- option tables
SshSpec == [long |-> FALSE, longArg |-> {}, maxops |-> 2,
            shortArg |-> {"B", "b", "c", "D", "E", "e", "F", "I", "i", "J", "L", "l", "m", "O", "o", "P", "p", "Q", "R", "S", "W", "w"}]
ScpSpec == [long |-> FALSE, longArg |-> {}, maxops |-> 1,
            shortArg |-> {"c", "D", "F", "i", "J", "l", "o", "P", "S", "X"}]
DockerGlobalSpec == [long |-> TRUE, maxops |-> 1, shortArg |-> {"c", "H", "l"},
                     longArg |-> {"config", "context", "host", "log-level", "tlscacert", "tlscert", "tlskey"}]
DockerExecSpec == [long |-> TRUE, maxops |-> 1, shortArg |-> {"u", "w", "e"},
                   longArg |-> {"user", "workdir", "env", "env-file", "detach-keys"}]
DockerCpSpec == [long |-> TRUE, maxops |-> 99, shortArg |-> {}, longArg |-> {}]

\* ---------------------------------------------------------------- the option scanner
IsOpt(a) == Len(a) >= 2 /\ a[1] = "-"
IsLong(a) == Len(a) >= 3 /\ a[1] = "-" /\ a[2] = "-"
RECURSIVE ClusterNeeds(_, _, _)
ClusterNeeds(a, k, spec) == IF k > Len(a) THEN FALSE
                            ELSE IF a[k] \in spec.shortArg THEN k = Len(a)
                            ELSE ClusterNeeds(a, k + 1, spec)
\* the option consumes the next argument as its value
NeedsNext(a, spec) ==
  IF spec.long /\ IsLong(a)
  THEN LET eq == First(a, {"="}) IN eq = 0 /\ Str(SubSeq(a, 3, Len(a))) \in spec.longArg
  ELSE ClusterNeeds(a, 2, spec)
\* ops: the operands in order; pairs: <<option>> or <<option, value>>
RECURSIVE Scan(_, _, _, _, _)
Scan(args, i, spec, ops, pairs) ==
  IF i > Len(args) THEN [ops |-> ops, pairs |-> pairs]
  ELSE IF Len(ops) >= spec.maxops THEN [ops |-> ops \o SubSeq(args, i, Len(args)), pairs |-> pairs]
  ELSE LET a == args[i] IN
    IF a = <<"-", "-">> THEN [ops |-> ops \o SubSeq(args, i + 1, Len(args)), pairs |-> pairs]
    ELSE IF IsOpt(a) THEN
      IF NeedsNext(a, spec) /\ i < Len(args)
      THEN Scan(args, i + 2, spec, ops, Append(pairs, <<a, args[i + 1]>>))
      ELSE Scan(args, i + 1, spec, ops, Append(pairs, <<a>>))
    ELSE Scan(args, i + 1, spec, Append(ops, a), pairs)

\* ---------------------------------------------------------------- the property on one command
\* args: the argument vector without argv[0] AS IT ARRIVES at the program; everything else: plain strings
\* (x.user, x.host: the components of the validated URL message).  Two statements per command:
\*   ...Operand : the operand structure is the expected one - the word that carries the component sits
\*                in an operand position and the fixed operands (command, source, words) are in place;
\*   ...Intact  : that word is exactly the text composed from the URL's components (nothing was trimmed,
\*                re-cased, unquoted or otherwise normalised on the way).
TargetStr(user, host) == IF user = "" THEN host ELSE user \o "@" \o host
\* the user may travel in the target ("user@host") or as the value of ssh's -l option
LoginPair(pairs, user) == \E i \in DOMAIN pairs : Len(pairs[i]) = 2 /\ Str(pairs[i][1]) = "-l" /\ Str(pairs[i][2]) = user
SshScan(args) == Scan(args, 1, SshSpec, <<>>, <<>>)
SshOperand(args, cmd) == LET r == SshScan(args) IN Len(r.ops) = 2 /\ Str(r.ops[2]) = cmd
SshIntact(args, user, host) ==
  LET r == SshScan(args) IN
  r.ops # <<>> /\ \/ Str(r.ops[1]) = TargetStr(user, host)
                  \/ (user # "" /\ Str(r.ops[1]) = host /\ LoginPair(r.pairs, user))
ScpScan(args) == Scan(args, 1, ScpSpec, <<>>, <<>>)
ScpOperand(args, src) == LET r == ScpScan(args) IN Len(r.ops) = 2 /\ Str(r.ops[1]) = src
ScpIntact(args, user, host, remote) ==
  LET r == ScpScan(args) IN Len(r.ops) >= 2 /\ Str(r.ops[2]) = TargetStr(user, host) \o ":" \o remote
UserPairOK(pairs, user) ==
  user # "" => \E i \in DOMAIN pairs : /\ Len(pairs[i]) = 2 /\ Str(pairs[i][1]) = "--user"
                                        /\ Str(pairs[i][2]) \in {user, "root"}
\* the command words the Docker transport runs inside the container (strings.Split(command, " "))
RECURSIVE StrEach(_)
StrEach(ws) == IF ws = <<>> THEN <<>> ELSE <<Str(Head(ws))>> \o StrEach(Tail(ws))
DockerWords(x) == {<<"env">>, <<"id", "-un">>, <<"id", "-gn">>, <<"cmd", "/c", "set">>, x.words}
\* chown <probed user>:<probed group> <remote name>; the probed names come from the container (the
\* fake docker echoes the --user value) and the command line is split at blanks, so a name with
\* blanks yields more words - all of them operands of docker after the container
IsChown(ws, x) == Len(ws) >= 3 /\ ws[1] = "chown" /\ ws[Len(ws)] = x.remote
ExpectedWords(ws, x) == ws \in DockerWords(x) \/ IsChown(ws, x)
DockerSub(args) == LET g == Scan(args, 1, DockerGlobalSpec, <<>>, <<>>) IN
                   IF g.ops = <<>> THEN [sub |-> "", rest |-> <<>>] ELSE [sub |-> Str(g.ops[1]), rest |-> Tail(g.ops)]
DockerOperand(args, x) ==
  LET d == DockerSub(args) IN
  IF d.sub = "exec" THEN LET r == Scan(d.rest, 1, DockerExecSpec, <<>>, <<>>) IN
                         Len(r.ops) >= 2 /\ ExpectedWords(StrEach(Tail(r.ops)), x)
  ELSE IF d.sub = "cp" THEN LET r == Scan(d.rest, 1, DockerCpSpec, <<>>, <<>>) IN Len(r.ops) = 2 /\ Str(r.ops[1]) = x.local
  ELSE d.sub \in {"stop", "start"} /\ Len(d.rest) = 1 /\ ~IsOpt(d.rest[1])
DockerIntact(args, x) ==
  LET d == DockerSub(args) IN
  IF d.sub = "exec" THEN LET r == Scan(d.rest, 1, DockerExecSpec, <<>>, <<>>) IN
                         r.ops # <<>> /\ Str(r.ops[1]) = x.host /\ UserPairOK(r.pairs, x.user)
  ELSE IF d.sub = "cp" THEN LET r == Scan(d.rest, 1, DockerCpSpec, <<>>, <<>>) IN
                            Len(r.ops) >= 2 /\ Str(r.ops[2]) = x.host \o ":" \o x.home \o "/" \o x.remote
  ELSE d.rest # <<>> /\ Str(d.rest[1]) = x.host

\* one recorded / modelled command: [prog, args] with the case's plain strings x
CmdOperand(prog, args, x) ==
  IF prog = "ssh" THEN SshOperand(args, x.cmd)
  ELSE IF prog = "scp" THEN ScpOperand(args, x.src)
  ELSE IF prog = "docker" THEN DockerOperand(args, x)
  ELSE FALSE
CmdIntact(prog, args, x) ==
  IF prog = "ssh" THEN SshIntact(args, x.user, x.host)
  ELSE IF prog = "scp" THEN ScpIntact(args, x.user, x.host, x.remote)
  ELSE IF prog = "docker" THEN DockerIntact(args, x)
  ELSE FALSE
CmdOK(prog, args, x) == CmdOperand(prog, args, x) /\ CmdIntact(prog, args, x)

\* ---------------------------------------------------------------- argv construction (the transports)
\* words of a command line as arguments (strings.Split(command, " "))
FixedSsh == << <<"-", "o", "ConnectTimeout=5">>, <<"-", "o", "ServerAliveInterval=10">>, <<"-", "o", "ServerAliveCountMax=1">> >>
Target(u) == (IF u.user # <<>> THEN u.user \o <<"@">> ELSE <<>>) \o u.host
SshArgv(u, cmd) == FixedSsh \o (IF u.port # 0 THEN << <<"-", "p">>, ToDigits(u.port) >> ELSE <<>>) \o <<Target(u), <<cmd>> >>
ScpArgv(u, src, remote) == << <<"-", "C">> >> \o FixedSsh \o (IF u.port # 0 THEN << <<"-", "P">>, ToDigits(u.port) >> ELSE <<>>)
                           \o << <<src>>, Target(u) \o <<":", remote>> >>
DockerExecArgv(u, asUser, workdir, words) ==
     << <<"exec">>, <<"-", "-", "interactive">> >>
  \o (IF asUser # <<>> THEN << <<"-", "-", "user">>, asUser >> ELSE IF u.user # <<>> THEN << <<"-", "-", "user">>, u.user >> ELSE <<>>)
  \o (IF workdir # <<>> THEN << <<"-", "-", "workdir">>, workdir >> ELSE <<>>)
  \o <<u.host>> \o words
DockerCpArgv(u, local, home, remote) == << <<"cp">>, <<local>>, u.host \o <<":", home, "/", remote>> >>

\* every command of one connection attempt (probe, agent command, copy + chown)
CmdsOf(u, x) ==
  IF u.proto = "ssh" THEN {[prog |-> "ssh", args |-> SshArgv(u, x.cmd)], [prog |-> "scp", args |-> ScpArgv(u, x.src, x.remote)]}
  ELSE IF u.proto = "docker" THEN
    {[prog |-> "docker", args |-> DockerExecArgv(u, <<>>, <<>>, << <<"env">> >>)],
     [prog |-> "docker", args |-> DockerExecArgv(u, <<>>, <<>>, << <<"id">>, <<"-", "u", "n">> >>)],
     [prog |-> "docker", args |-> DockerExecArgv(u, <<>>, <<x.home>>, << <<x.words[1]>>, <<x.words[2]>> >>)],
     [prog |-> "docker", args |-> DockerCpArgv(u, x.local, x.home, x.remote)],
     [prog |-> "docker", args |-> DockerExecArgv(u, <<"root">>, <<x.home>>, << <<"chown">>, <<"root:root">>, <<x.remote>> >>)]}
  ELSE {}

\* ---------------------------------------------------------------- the input domain
\* route "parse": the components are placed in a URL string that goes through url.Parse;
\* route "raw": a url.URL message is built directly from them (what the daemon receives over gRPC).
UrlOf(form, user, host) ==
  IF form = "ssh" THEN (IF user # <<>> THEN user \o <<"@">> ELSE <<>>) \o host \o <<":", "p">>
  ELSE <<DockerPrefix>> \o (IF user # <<>> THEN user \o <<"@">> ELSE <<>>) \o host \o <<"/", "p">>
RawUrl(form, user, host) == Url("sync", form, user, host, 0, IF form = "ssh" THEN <<"p">> ELSE <<"/", "p">>, <<>>)
\* the URL message that reaches validation (or none)
Message(route, form, user, host, H, W, E) ==
  IF route = "raw" THEN Ok(RawUrl(form, user, host)) ELSE Parse(UrlOf(form, user, host), "sync", H, W, E)

\* C36 on the model: accepted => every command passes the component intact as an operand
ModelOK(route, form, user, host, H, W, E, x0) ==
  LET p == Message(route, form, user, host, H, W, E) IN
  (p.ok /\ Valid(p.u)) =>
     LET x == [x0 EXCEPT !.user = Str(p.u.user), !.host = Str(p.u.host)] IN
     \A c \in CmdsOf(p.u, x) : CmdOK(c.prog, c.args, x)
====
