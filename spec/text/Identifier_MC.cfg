SPECIFICATION Spec
INVARIANTS InvId InvDistinct InvName
CHECK_DEADLOCK FALSE
