---- MODULE Selection ----
(***************************************************************************)
(* C40: session selection and listing are exact.                            *)
(*                                                                         *)
(* A session is [id, name, labels, csec, cnano]; labels is a function from  *)
(* keys to values.  Transcribed from the code:                              *)
(*   BySpecs      manager.go findControllersBySpecification: every           *)
(*                specification must equal the identifier or the name of at *)
(*                least one session; the result is the union                 *)
(*   ByLabels     manager.go findControllersByLabelSelector with the         *)
(*                Kubernetes selector semantics for a restricted grammar     *)
(*                (k, !k, k=v, k!=v, k in (..), k notin (..), joined by ',') *)
(*   ListOrder    manager.go List: ordered by creation time                  *)
(*   DfsLess      core/fastpath Less on path component sequences: a parent   *)
(*                precedes its children, siblings in byte order of the name  *)
(*   Truncation   manager.go List: at most 10 entries, the rest counted      *)
(***************************************************************************)
EXTENDS Naturals, Sequences, FiniteSets, TLC

\* ---------------------------------------------------------------- selection
MatchesSpec(s, spec) == s.id = spec \/ s.name = spec
SpecsMatchAll(sessions, specs) == \A k \in DOMAIN specs : \E i \in DOMAIN sessions : MatchesSpec(sessions[i], specs[k])
BySpecs(sessions, specs) == {sessions[i].id : i \in {j \in DOMAIN sessions : \E k \in DOMAIN specs : MatchesSpec(sessions[j], specs[k])}}
\* one requirement of a label selector
ReqOK(labels, q) ==
  IF q.op = "exists" THEN q.key \in DOMAIN labels
  ELSE IF q.op = "notexists" THEN q.key \notin DOMAIN labels
  ELSE IF q.op = "eq" THEN q.key \in DOMAIN labels /\ labels[q.key] = q.vals[1]
  ELSE IF q.op = "neq" THEN q.key \notin DOMAIN labels \/ labels[q.key] # q.vals[1]
  ELSE IF q.op = "in" THEN q.key \in DOMAIN labels /\ \E v \in DOMAIN q.vals : labels[q.key] = q.vals[v]
  ELSE IF q.op = "notin" THEN q.key \notin DOMAIN labels \/ \A v \in DOMAIN q.vals : labels[q.key] # q.vals[v]
  ELSE FALSE
ByLabels(sessions, reqs) == {sessions[i].id : i \in {j \in DOMAIN sessions : \A k \in DOMAIN reqs : ReqOK(sessions[j].labels, reqs[k])}}
AllIds(sessions) == {sessions[i].id : i \in DOMAIN sessions}

TimeLeq(a, b) == a.csec < b.csec \/ (a.csec = b.csec /\ a.cnano <= b.cnano)

\* what List must return for a query: [ok, ids]
Expected(sessions, q, specs) ==
  IF q.kind = "all" THEN [ok |-> TRUE, ids |-> AllIds(sessions)]
  ELSE IF q.kind = "specs" THEN
    (IF SpecsMatchAll(sessions, specs) THEN [ok |-> TRUE, ids |-> BySpecs(sessions, specs)] ELSE [ok |-> FALSE, ids |-> {}])
  ELSE [ok |-> TRUE, ids |-> ByLabels(sessions, q.reqs)]

\* C40 on one observed listing: r.err, r.out (sequence of [id, csec, cnano])
OutIds(out) == {out[i].id : i \in DOMAIN out}
C40_SelectExact(sessions, q, specs, err, out) ==
  LET e == Expected(sessions, q, specs) IN
  IF e.ok THEN err = "" /\ OutIds(out) = e.ids /\ Cardinality(OutIds(out)) = Len(out)
  ELSE err # ""
C40_CreationOrder(out) == \A i \in 1..(Len(out) - 1) : TimeLeq(out[i], out[i + 1])

\* ---------------------------------------------------------------- selection after a history (SelectionHistory.tla)
\* sessions: every session ever created, with what an outside observer can tell afterwards:
\*   file, archive : its session file / archive still exist on disk
\*   sabotaged     : the driver itself removed the session file before a Terminate call
\* gone  : a terminating halt succeeded for it - both files are gone and the driver did not remove them;
\*         it must never be listed, selected by label or matched by a specification;
\* limbo : the driver removed its file and a failing Terminate may or may not have reached it - the manager
\*         may keep it or not (either outcome is accepted);
\* live  : everything else - it must be listed / selected / matched exactly.
Gone(s) == ~s.file /\ ~s.archive /\ ~s.sabotaged
Limbo(s) == s.sabotaged
LiveIdx(ss) == {i \in DOMAIN ss : ~Gone(ss[i]) /\ ~Limbo(ss[i])}
LimboIdx(ss) == {i \in DOMAIN ss : Limbo(ss[i])}
RECURSIVE Pick(_, _, _)
Pick(ss, I, i) == IF i > Len(ss) THEN <<>> ELSE (IF i \in I THEN <<ss[i]>> ELSE <<>>) \o Pick(ss, I, i + 1)
\* one registry content (the live sessions plus some of the limbo ones) explains every answer
C40_ExactSelection(sessions, queries) ==
  \E X \in SUBSET LimboIdx(sessions) :
    LET reg == Pick(sessions, LiveIdx(sessions) \cup X, 1) IN
    \A k \in DOMAIN queries :
      /\ C40_SelectExact(reg, queries[k].q, queries[k].specs, queries[k].err, queries[k].out)
      /\ C40_CreationOrder(queries[k].out)

\* ---------------------------------------------------------------- depth-first path order
\* component names of the bound in byte order: '-' < '.' < '/' < '0'
Names == <<"a", "a-b", "a.b", "a0", "b">>
NameRank(n) == CHOOSE i \in DOMAIN Names : Names[i] = n
NameSet == {Names[i] : i \in DOMAIN Names}
IsPath(p) == \A i \in DOMAIN p : p[i] \in NameSet
\* fastpath.Less: the root path (no components) is smallest; compare component by component; a proper prefix is smaller
DfsLess(p, q) ==
  /\ p # q
  /\ \/ \E d \in DOMAIN p \cap DOMAIN q : /\ \A j \in 1..(d - 1) : p[j] = q[j]
                                          /\ NameRank(p[d]) < NameRank(q[d])
     \/ (Len(p) < Len(q) /\ \A j \in DOMAIN p : p[j] = q[j])
RECURSIVE Join(_)
Join(p) == IF p = <<>> THEN "" ELSE IF Len(p) = 1 THEN p[1] ELSE p[1] \o "/" \o Join(Tail(p))
SortedDfs(out) == \A i \in 1..(Len(out) - 1) : ~DfsLess(out[i + 1], out[i])
CountIn(x, s) == Cardinality({i \in DOMAIN s : s[i] = x})
IsPermutation(a, b) == Len(a) = Len(b) /\ \A i \in DOMAIN a : CountIn(a[i], a) = CountIn(a[i], b)
C40_Sorted(input, out) == IsPermutation(input, out) /\ SortedDfs(out)

\* ---------------------------------------------------------------- truncation
MaxList == 10
Min(a, b) == IF a < b THEN a ELSE b
\* out / excluded reported for a list whose full content is the set of paths full
C40_Truncation(full, out, excluded) ==
  LET outset == {out[i] : i \in DOMAIN out} IN
  /\ Len(out) = Min(Cardinality(full), MaxList)
  /\ excluded = Cardinality(full) - Len(out)
  /\ Cardinality(outset) = Len(out) /\ outset \subseteq full
  /\ SortedDfs(out)
  /\ \A p \in full \ outset : \A i \in DOMAIN out : DfsLess(out[i], p)      \* the first entries were kept

\* ---------------------------------------------------------------- the bounded domain
\* session types: name index 1..3 ("" / "na" / "nb") x label set index 1..4
NameOf(i) == <<"", "na", "nb">>[i]
LabelsOf(i) == IF i = 1 THEN <<>> ELSE IF i = 2 THEN [k |-> "v"] ELSE IF i = 3 THEN [k |-> "w"] ELSE [k |-> "v", m |-> "v"]
\* specification candidates and label selectors, by index
SpecSyms == <<"id1", "id2", "id3", "na", "nb", "zz", "pre1">>
Selectors == << << [op |-> "exists", key |-> "k", vals |-> <<>>] >>,
                << [op |-> "notexists", key |-> "k", vals |-> <<>>] >>,
                << [op |-> "eq", key |-> "k", vals |-> <<"v">>] >>,
                << [op |-> "neq", key |-> "k", vals |-> <<"v">>] >>,
                << [op |-> "eq", key |-> "k", vals |-> <<"w">>] >>,
                << [op |-> "exists", key |-> "k", vals |-> <<>>], [op |-> "eq", key |-> "m", vals |-> <<"v">>] >>,
                << [op |-> "neq", key |-> "k", vals |-> <<"v">>], [op |-> "notexists", key |-> "m", vals |-> <<>>] >>,
                << [op |-> "exists", key |-> "m", vals |-> <<>>] >>,
                << [op |-> "eq", key |-> "k", vals |-> <<"v">>], [op |-> "neq", key |-> "k", vals |-> <<"v">>] >>,
                << [op |-> "in", key |-> "k", vals |-> <<"v", "w">>] >>,
                << [op |-> "notin", key |-> "k", vals |-> <<"v">>] >>,
                << [op |-> "eq", key |-> "m", vals |-> <<"w">>] >> >>
====
