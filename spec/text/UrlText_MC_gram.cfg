CONSTANTS Tokens = {} MaxLen = 0 Mode = "gram"
SPECIFICATION Spec
INVARIANTS InvC38
CHECK_DEADLOCK FALSE
