CONSTANTS Want = {"C38_Valid", "C38_RoundTrip", "C38_DomainCovered", "Conforms"} MinLen = 4 MinTok = 8
SPECIFICATION TSpec
CHECK_DEADLOCK FALSE
