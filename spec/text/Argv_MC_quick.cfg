CONSTANTS Tokens = {"-", "a", "@", "/", " ", "TAB", "LF"}
  SshBox <- QuickSsh
  DockerBox <- QuickDocker
SPECIFICATION Spec
INVARIANTS InvC36
CHECK_DEADLOCK FALSE
