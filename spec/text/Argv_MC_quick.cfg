CONSTANTS Tokens = {"-", "a", "@", ":", "/", "o", "="}
  SshBox <- QuickSsh
  DockerBox <- QuickDocker
SPECIFICATION Spec
INVARIANTS InvC36
CHECK_DEADLOCK FALSE
