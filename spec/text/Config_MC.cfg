SPECIFICATION Spec
INVARIANTS InvC37 InvOverride InvText InvKeys
CHECK_DEADLOCK FALSE
