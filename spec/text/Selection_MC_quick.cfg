CONSTANTS MaxPop = 2 MaxDepth = 2
SPECIFICATION Spec
INVARIANTS InvSelect InvDfs InvTrunc
CHECK_DEADLOCK FALSE
