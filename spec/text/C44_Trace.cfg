CONSTANTS Want = {"C44_OneLinePerRecord", "C44_Neutral", "C44_Prefixed", "C44_FragmentationIndependent", "C44_DomainCovered", "C44_TraceAccepted", "Conforms"} MinLen = 3
SPECIFICATION TSpec
CHECK_DEADLOCK FALSE
