CONSTANTS Tokens = {"a", "@", ":", "/", "0", "8", "~", "unix", "tcp"} MaxLen = 5 Mode = "flat"
SPECIFICATION Spec
INVARIANTS InvC38
CHECK_DEADLOCK FALSE
