CONSTANTS Want = {"C39_WellFormed", "C39_Valid", "C39_TruncatedPrefix", "C39_Distinct", "C39_NameRule", "C39_DomainCovered", "C39_TraceAccepted", "Conforms"}
SPECIFICATION TSpec
CHECK_DEADLOCK FALSE
