---- MODULE Argv_MC ----
(***************************************************************************)
(* Leg D of C36: every (user, host/container) token string pair of the      *)
(* bound, as an SCP-style SSH URL and as a docker:// URL.                    *)
(* The bound is a union of two boxes per form: (user <= UA, host <= HA) and *)
(* (user <= UB, host <= HB); the empty user means "no user@ part".          *)
(***************************************************************************)
EXTENDS Argv
CONSTANTS Tokens, SshBox, DockerBox     \* boxes: <<UA, HA, UB, HB>> given as sets of 4-tuples is not possible in cfg: see below
VARIABLES route, form, usr, hst
vars == <<route, form, usr, hst>>

Strs(n) == UNION {[1..k -> Tokens] : k \in 0..n}
InBox(b, u, h) == Len(h) >= 1 /\ ((Len(u) <= b[1] /\ Len(h) <= b[2]) \/ (Len(u) <= b[3] /\ Len(h) <= b[4]))
Max(a, b) == IF a > b THEN a ELSE b
BoxOf(f) == IF f = "ssh" THEN SshBox ELSE DockerBox

X0 == [user |-> "", host |-> "", cmd |-> "agent synchronizer", words |-> <<"agent", "synchronizer">>, src |-> "agent-bin",
       remote |-> ".agent-remote", home |-> "/root", local |-> "/scratch/agent-bin"]

Init == /\ route \in {"parse", "raw"} /\ form \in {"ssh", "docker"}
        /\ \E b \in {BoxOf(form)} :
             /\ usr \in Strs(Max(b[1], b[3]))
             /\ hst \in Strs(Max(b[2], b[4]))
             /\ InBox(b, usr, hst)
Next == UNCHANGED vars
Spec == Init /\ [][Next]_vars

InvC36 == ModelOK(route, form, usr, hst, <<"/", "h">>, <<"/", "w">>, [DOCKER_HOST |-> "tcp://dh:1"], X0)
====
