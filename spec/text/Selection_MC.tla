---- MODULE Selection_MC ----
(***************************************************************************)
(* Leg D of C40.  "select": every population of at most MaxPop sessions of  *)
(* the 12 types and every query (all / 1-2 specifications / 12 selectors);  *)
(* the listing produced by select-then-sort-by-creation satisfies the       *)
(* property operators.  "dfs": DfsLess is a strict total order on the paths *)
(* of the bound in which parents precede children (pairs and triples).      *)
(* "trunc": the truncation arithmetic for 0..25 entries.                    *)
(***************************************************************************)
EXTENDS Selection
CONSTANTS MaxPop, MaxDepth
VARIABLES Mode, pop, q, x
vars == <<Mode, pop, q, x>>

Types == {<<n, lb>> : n \in 1..3, lb \in 1..4}
Pops == UNION {[1..k -> Types] : k \in 0..MaxPop}
\* model sessions: identifiers "id1".."idN", creation time = index
SessionsOf(p) == [i \in DOMAIN p |-> [id |-> <<"id1", "id2", "id3">>[i], name |-> NameOf(p[i][1]), labels |-> LabelsOf(p[i][2]),
                                     csec |-> i, cnano |-> 0]]
SpecVal(sym) == sym      \* symbols double as the strings ("na", "nb", "id1"...; "zz" and "pre1" match nothing)
Queries == {[kind |-> "all"]} \cup {[kind |-> "labels", sel |-> s] : s \in DOMAIN Selectors}
           \cup {[kind |-> "specs", syms |-> ss] : ss \in UNION {[1..k -> DOMAIN SpecSyms] : k \in 1..2}}
Paths == UNION {[1..k -> NameSet] : k \in 0..MaxDepth}

\* the listing the code computes: selected sessions in creation order
Listing(sessions, ids) == LET idx == {i \in DOMAIN sessions : sessions[i].id \in ids}
                              RECURSIVE Build(_)
                              Build(S) == IF S = {} THEN <<>> ELSE
                                          LET m == CHOOSE i \in S : \A j \in S : i <= j IN
                                          <<[id |-> sessions[m].id, csec |-> sessions[m].csec, cnano |-> sessions[m].cnano]>> \o Build(S \ {m})
                          IN Build(idx)

Init == \/ Mode = "select" /\ pop \in Pops /\ q \in Queries /\ x = 0
        \/ Mode = "dfs" /\ pop \in Paths /\ q \in Paths /\ x \in {p \in Paths : Len(p) <= 2}
        \/ Mode = "trunc" /\ pop = <<>> /\ q = <<>> /\ x \in 0..25
Next == UNCHANGED vars
Spec == Init /\ [][Next]_vars

InvSelect == Mode = "select" =>
  LET ss == SessionsOf(pop)
      qq == IF q.kind = "labels" THEN [kind |-> "labels", reqs |-> Selectors[q.sel]] ELSE [kind |-> q.kind]
      specs == IF q.kind = "specs" THEN [k \in DOMAIN q.syms |-> SpecVal(SpecSyms[q.syms[k]])] ELSE <<>>
      e == Expected(ss, qq, specs)
      out == Listing(ss, e.ids)
  IN C40_SelectExact(ss, qq, specs, IF e.ok THEN "" ELSE "no match", out) /\ C40_CreationOrder(out)
InvDfs == Mode = "dfs" =>
  /\ ~DfsLess(pop, pop)
  /\ pop # q => (DfsLess(pop, q) \/ DfsLess(q, pop)) /\ ~(DfsLess(pop, q) /\ DfsLess(q, pop))
  /\ (DfsLess(pop, q) /\ DfsLess(q, x)) => DfsLess(pop, x)
  /\ (Len(pop) < Len(q) /\ SubSeq(q, 1, Len(pop)) = pop) => DfsLess(pop, q)
InvTrunc == Mode = "trunc" =>
  LET full == {<<Names[1 + (i % 5)], Names[1 + ((i \div 5) % 5)]>> : i \in 0..(x - 1)}
      RECURSIVE SortSet(_)
      SortSet(S) == IF S = {} THEN <<>> ELSE LET m == CHOOSE p \in S : \A r \in S \ {p} : DfsLess(p, r) IN <<m>> \o SortSet(S \ {m})
      sorted == SortSet(full)
      kept == SubSeq(sorted, 1, Min(Len(sorted), MaxList))
  IN C40_Truncation(full, kept, Len(sorted) - Len(kept))
====
