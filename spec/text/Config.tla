---- MODULE Config ----
(***************************************************************************)
(* C37: accepted session configurations are valid for every endpoint.       *)
(*                                                                         *)
(* A configuration is a function from the 20 field names of                 *)
(* synchronization.Configuration to abstract values: "d" (default / unset), *)
(* "v1", "v2" (two supported values), "x" (a value validation must reject); *)
(* the two ignore lists hold sequences of patterns.                         *)
(*   Valid(c, es)        configuration.go Configuration.EnsureValid(es)      *)
(*   Merge(lo, hi)       configuration.go MergeConfigurations                *)
(*   SessionAccepts      session.go Session.EnsureValid / the service's      *)
(*                       CreationSpecification.ensureValid (three parts and, *)
(*                       REPAIRED, the two merged configurations)            *)
(*   EndpointAccepts(m)  remote/protocol.go ensureValid: EnsureValid(false)  *)
(* Concrete values (Conc) bind the abstract values to the real enum numbers *)
(* and literals the driver uses.                                            *)
(***************************************************************************)
EXTENDS Naturals, Sequences, FiniteSets, TLC

Fields == <<"sync", "hash", "maxEntry", "maxStage", "probe", "scan", "stage", "symlink", "watch", "poll", "syntax",
            "defIgnores", "ignores", "vcs", "perm", "fmode", "dmode", "owner", "group", "compress">>
FieldSet == {Fields[i] : i \in DOMAIN Fields}
SessionEnum == {"sync", "hash", "symlink", "syntax", "vcs", "perm"}   \* may only be set session-wide
BothEnum == {"probe", "scan", "stage", "watch", "compress"}
Num == {"maxEntry", "maxStage", "poll"}
Lists == {"defIgnores", "ignores"}
Ident == {"owner", "group"}
StringFields == Ident
Labels == <<"d", "v1", "v2", "x">>
LabelIdx(lab) == CHOOSE i \in 1..4 : Labels[i] = lab

\* the real values behind the abstract ones (enum numbers, octal modes as decimals)
Conc == [sync |-> <<0, 1, 4, 9>>, hash |-> <<0, 1, 2, 9>>, maxEntry |-> <<0, 1, 2, 1000000>>,
         maxStage |-> <<0, 1, 2, 1000000>>, probe |-> <<0, 1, 2, 9>>, scan |-> <<0, 1, 2, 9>>, stage |-> <<0, 1, 2, 9>>,
         symlink |-> <<0, 1, 3, 9>>, watch |-> <<0, 2, 3, 9>>, poll |-> <<0, 1, 2, 60>>, syntax |-> <<0, 1, 2, 9>>,
         defIgnores |-> << <<>>, <<"i1">>, <<"i2", "i3">>, <<"i4">> >>,
         ignores |-> << <<>>, <<"j1">>, <<"j2", "j3">>, <<"j4">> >>,
         vcs |-> <<0, 1, 2, 9>>, perm |-> <<0, 1, 2, 9>>,
         fmode |-> <<0, 420, 493, 932>>,      \* 0, 0644, 0755, 01644
         dmode |-> <<0, 493, 448, 1005>>,     \* 0, 0755, 0700, 01755
         owner |-> <<"", "id:1000", "root", "id:x1">>, group |-> <<"", "id:1001", "root", "id:x2">>,
         compress |-> <<0, 1, 2, 9>>]
Zero(f) == IF f \in StringFields THEN "" ELSE IF f \in Lists THEN <<>> ELSE 0

\* abstract configurations: scalar fields hold a label, list fields a sequence
Val(f, lab) == IF f \in Lists THEN Conc[f][LabelIdx(lab)] ELSE lab
Base == [f \in FieldSet |-> Val(f, "d")]
IsSet(c, f) == IF f \in Lists THEN c[f] # <<>> ELSE c[f] # "d"
\* the real configuration an abstract one stands for
Concrete(c) == [f \in FieldSet |-> IF f \in Lists THEN c[f] ELSE Conc[f][LabelIdx(c[f])]]

\* ---------------------------------------------------------------- Configuration.EnsureValid
EffPerm(c, es) == IF es THEN "zero" ELSE IF c["perm"] \in {"d", "v1"} THEN "portable" ELSE "manual"
Valid(c, es) ==
  /\ \A f \in SessionEnum : IF es THEN c[f] = "d" ELSE c[f] # "x"
  /\ \A f \in BothEnum : c[f] # "x"
  /\ \A f \in Lists : es => c[f] = <<>>
  /\ c["fmode"] # "x" /\ ~(c["fmode"] = "v2" /\ EffPerm(c, es) = "portable")
  /\ c["dmode"] # "x"
  /\ \A f \in Ident : c[f] # "x"

\* ---------------------------------------------------------------- MergeConfigurations
Merge(lo, hi) == [f \in FieldSet |-> IF f \in Lists THEN lo[f] \o hi[f] ELSE IF hi[f] # "d" THEN hi[f] ELSE lo[f]]

\* ---------------------------------------------------------------- acceptance
EndpointAccepts(m) == Valid(m, FALSE)
SessionAccepts(c, ca, cb) ==
  /\ Valid(c, FALSE) /\ Valid(ca, TRUE) /\ Valid(cb, TRUE)
  /\ Valid(Merge(c, ca), FALSE) /\ Valid(Merge(c, cb), FALSE)       \* the repair
PortableNoExec(m) == EffPerm(m, FALSE) = "portable" => m["fmode"] # "v2"
ModelOK(c, ca, cb) ==
  SessionAccepts(c, ca, cb) =>
    \A e \in {ca, cb} : EndpointAccepts(Merge(c, e)) /\ PortableNoExec(Merge(c, e))

\* ---------------------------------------------------------------- the factored domain
\* group 1: one field, every (session, alpha, beta) value triple:  <<1, field, s, a, b>>
\* group 2: the coupled fields perm x fmode x dmode:               <<2, permS, permA, fmodeS, fmodeA, fmodeB, dmodeA>>
\*          permA in {d, v2}, dmodeA in {d, v1}
\* group 3: two different fields, one set session-wide, one on alpha: <<3, f, g, s, a>>, s, a in {v1, v2, x}
NF == Len(Fields)
With(c, f, lab) == [c EXCEPT ![f] = Val(f, lab)]
TripleAt(k) ==
  IF k[1] = 1 THEN
    LET f == Fields[k[2]] IN
    [c |-> With(Base, f, Labels[k[3]]), ca |-> With(Base, f, Labels[k[4]]), cb |-> With(Base, f, Labels[k[5]])]
  ELSE IF k[1] = 2 THEN
    [c |-> With(With(Base, "perm", Labels[k[2]]), "fmode", Labels[k[4]]),
     ca |-> With(With(With(Base, "perm", <<"d", "v2">>[k[3]]), "fmode", Labels[k[5]]), "dmode", <<"d", "v1">>[k[7]]),
     cb |-> With(Base, "fmode", Labels[k[6]])]
  ELSE
    [c |-> With(Base, Fields[k[2]], Labels[k[4] + 1]), ca |-> With(Base, Fields[k[3]], Labels[k[5] + 1]), cb |-> Base]
Keys1 == {<<1, f, s, a, b>> : f \in 1..NF, s \in 1..4, a \in 1..4, b \in 1..4}
Keys2 == {<<2, ps, pa, fs, fa, fb, da>> : ps \in 1..4, pa \in 1..2, fs \in 1..4, fa \in 1..4, fb \in 1..4, da \in 1..2}
Keys3 == {<<3, f, g, s, a>> : f \in 1..NF, g \in 1..NF, s \in 1..3, a \in 1..3} \ {<<3, f, f, s, a>> : f \in 1..NF, s \in 1..3, a \in 1..3}
KeyOK(k) == \/ (k[1] = 1 /\ Len(k) = 5 /\ k[2] \in 1..NF /\ \A i \in 3..5 : k[i] \in 1..4)
            \/ (k[1] = 2 /\ Len(k) = 7 /\ k[2] \in 1..4 /\ k[3] \in 1..2 /\ (\A i \in 4..6 : k[i] \in 1..4) /\ k[7] \in 1..2)
            \/ (k[1] = 3 /\ Len(k) = 5 /\ k[2] \in 1..NF /\ k[3] \in 1..NF /\ k[2] # k[3] /\ k[4] \in 1..3 /\ k[5] \in 1..3)
NKeys == NF * 64 + 4 * 2 * 64 * 2 + NF * (NF - 1) * 9

\* ---------------------------------------------------------------- Merge yields a fresh value (frame property)
\* In TLA+ Merge(lo, hi) is a value: nothing done later can change it and computing it changes neither
\* operand.  The Go function must behave the same although its lists are slices that may share a
\* backing array (ConfigHeap.tla models exactly that and shows that only a fresh allocation does).
\* Frame scenarios: one lower configuration (both ignore lists = list number lo of Conc, built with or
\* without spare capacity), merged with two or three higher configurations (list numbers hs[j]);
\* key <<lo, build, h1, h2, h3>>, h3 = 0: only two merges.
ListCfg(i) == [Base EXCEPT !["defIgnores"] = Conc["defIgnores"][i], !["ignores"] = Conc["ignores"][i]]
FrameHighers(k) == IF k[5] = 0 THEN <<k[3], k[4]>> ELSE <<k[3], k[4], k[5]>>
FrameKeyOK(k) == Len(k) = 5 /\ k[1] \in 1..4 /\ k[2] \in 1..3 /\ k[3] \in 1..4 /\ k[4] \in 1..4 /\ k[5] \in 0..4
NFrameKeys == 4 * 3 * 4 * 4 * 5
FrameExpected(k, j) == Concrete(Merge(ListCfg(k[1]), ListCfg(FrameHighers(k)[j])))
\* on observations: r.lower, r.highers: the operands as built; r.first[j]: result j read right after its
\* merge; r.after[j], r.lowerAfter, r.highersAfter: everything read again after all merges; part B (a
\* replica of the scenario): r.firstB[j]; r.resMut: operands and the other results read after result 1
\* was overwritten in place and appended to; r.opMut: the other results read after every operand was
\* overwritten in place and appended to.
C37_MergeFresh(r) ==
  /\ \A j \in DOMAIN r.first : /\ r.after[j] = r.first[j]
                                /\ \A f \in Lists : r.first[j][f] = r.lower[f] \o r.highers[j][f]
  /\ r.lowerAfter = r.lower /\ r.highersAfter = r.highers
  /\ r.resMut.lower = r.lower /\ r.resMut.highers = r.highers
  /\ \A j \in 2..Len(r.firstB) : r.resMut.results[j - 1] = r.firstB[j] /\ r.opMut.results[j - 1] = r.firstB[j]
  /\ r.firstB = r.first

\* ---------------------------------------------------------------- text forms of the mode enumerations
\* MarshalText names by enum number (index = number + 1; "" = no text form)
TextNames == [sync |-> <<"", "two-way-safe", "two-way-resolved", "one-way-safe", "one-way-replica">>,
              hash |-> <<"", "sha1", "sha256", "xxh128">>,
              probe |-> <<"", "probe", "assume">>,
              scan |-> <<"", "full", "accelerated">>,
              stage |-> <<"", "mutagen", "neighboring", "internal">>,
              symlink |-> <<"", "ignore", "portable", "posix-raw">>,
              watch |-> <<"", "portable", "force-poll", "no-watch">>,
              syntax |-> <<"", "mutagen", "docker">>,
              vcs |-> <<"", "true", "false">>,
              perm |-> <<"", "portable", "manual">>,
              compress |-> <<"", "none", "deflate", "zstandard">>]
TextTypes == DOMAIN TextNames
TextOf(t, v) == IF v + 1 \in DOMAIN TextNames[t] THEN TextNames[t][v + 1] ELSE "unknown"
ParseText(t, s) == IF \E v \in 1..(Len(TextNames[t]) - 1) : TextNames[t][v + 1] = s
                   THEN [ok |-> TRUE, v |-> CHOOSE v \in 1..(Len(TextNames[t]) - 1) : TextNames[t][v + 1] = s]
                   ELSE [ok |-> FALSE, v |-> 0]
TextModelOK(t, v) == (v \in 1..(Len(TextNames[t]) - 1)) => (ParseText(t, TextOf(t, v)).ok /\ ParseText(t, TextOf(t, v)).v = v)

\* ---------------------------------------------------------------- C37 on observations
\* r.c, r.ca, r.cb, r.ma, r.mb: real configurations as field maps; r.acc*: what the real acceptance functions said
ScalarFields == FieldSet \ Lists
C37_Override(r) ==
  \A p \in {<<r.ca, r.ma>>, <<r.cb, r.mb>>} :
    /\ \A f \in ScalarFields : p[2][f] = IF p[1][f] # Zero(f) THEN p[1][f] ELSE r.c[f]
    /\ \A f \in Lists : p[2][f] = r.c[f] \o p[1][f]
Accepted(r) == r.accSession \/ r.accCreate
C37_EndpointAccepts(r) == Accepted(r) => /\ r.vma /\ r.vmb
                                         /\ r.loca \in {"ok", "skip"} /\ r.locb \in {"ok", "skip"}
NoExec(n) == (n % 2 = 0) /\ ((n \div 8) % 2 = 0) /\ ((n \div 64) % 2 = 0)
C37_NoExecBits(r) ==
  Accepted(r) => \A m \in {r.ma, r.mb} :
    LET perm == IF m["perm"] = 0 THEN r.defaults.perm ELSE m["perm"]
        fm == IF m["fmode"] = 0 THEN r.defaults.fmode ELSE m["fmode"]
    IN perm = r.defaults.portable => NoExec(fm)
\* a value that has a text form: a defined, non-default enum number; a permission-bits-only file mode
HasText(t, v) == IF t = "fsmode" THEN v < 512 ELSE t \in TextTypes /\ v \in 1..(Len(TextNames[t]) - 1)
C37_TextRoundTrip(r) == HasText(r.type, r.value) => (r.ok /\ r.back = r.value)
====
