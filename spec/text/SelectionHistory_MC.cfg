CONSTANTS N = 3 CleanupAfterLoop = FALSE
SPECIFICATION Spec
INVARIANT RegistryExact
CHECK_DEADLOCK FALSE
