CONSTANTS N = 3 RemoveOnFailure = TRUE
SPECIFICATION Spec
INVARIANT RegistryIsLive
CHECK_DEADLOCK FALSE
