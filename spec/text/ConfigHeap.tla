---- MODULE ConfigHeap ----
(***************************************************************************)
(* Why MergeConfigurations must build its ignore lists in a fresh slice.    *)
(* A Go slice is [arr, len] into a backing array of fixed capacity kept in  *)
(* heap.  The "lower" list has spare capacity (built by appends or by an    *)
(* earlier merge).  Merge(h) is the code as written when Fresh = TRUE       *)
(* (append to an empty result: always a new array) and the tempting         *)
(* shortcut append(lower.X, higher.X...) when Fresh = FALSE (reuses lower's *)
(* array while it has room).  Operands and results may afterwards be        *)
(* overwritten in place by their owners.  Frame property: every result      *)
(* keeps the concatenation it was created with, and the lower list changes  *)
(* only when its owner changes it.                                          *)
(***************************************************************************)
EXTENDS Naturals, Sequences, FiniteSets, TLC
CONSTANTS Fresh, MaxMerges, MaxMutations
VARIABLES heap, lower, lowerWant, res, muts
vars == <<heap, lower, lowerWant, res, muts>>

Vals == {"i", "j", "k"}
Highers == {<<>>, <<"j">>, <<"k">>, <<"j", "k">>}
Read(sl) == SubSeq(heap[sl.arr], 1, sl.len)
Cap(sl) == Len(heap[sl.arr])
NewArr == Len(heap) + 1
Pad(s, n) == s \o [i \in 1..(n - Len(s)) |-> "_"]
Overwrite(a, from, vs) == [i \in DOMAIN a |-> IF i >= from /\ i < from + Len(vs) THEN vs[i - from + 1] ELSE a[i]]

Init == /\ \E n \in 0..2, spare \in 0..2 :
             /\ heap = << Pad([i \in 1..n |-> "i"], n + spare) >>
             /\ lower = [arr |-> 1, len |-> n]
             /\ lowerWant = [i \in 1..n |-> "i"]
        /\ res = <<>> /\ muts = 0
Merge(h) ==
  /\ Len(res) < MaxMerges
  /\ LET want == Read(lower) \o h IN
     IF Fresh \/ lower.len + Len(h) > Cap(lower)
     THEN /\ heap' = Append(heap, want)
          /\ res' = Append(res, [sl |-> [arr |-> NewArr, len |-> Len(want)], want |-> want])
     ELSE /\ heap' = [heap EXCEPT ![lower.arr] = Overwrite(@, lower.len + 1, h)]     \* append in place
          /\ res' = Append(res, [sl |-> [arr |-> lower.arr, len |-> Len(want)], want |-> want])
  /\ UNCHANGED <<lower, lowerWant, muts>>
\* the owner of the lower list overwrites one of its elements
MutateLower == /\ muts < MaxMutations /\ lower.len > 0
               /\ \E i \in 1..lower.len :
                    /\ heap' = [heap EXCEPT ![lower.arr][i] = "M"]
                    /\ lowerWant' = [lowerWant EXCEPT ![i] = "M"]
               /\ muts' = muts + 1 /\ UNCHANGED <<lower, res>>
\* the owner of result j overwrites one of its elements
MutateResult == /\ muts < MaxMutations
                /\ \E j \in DOMAIN res : res[j].sl.len > 0 /\ \E i \in 1..res[j].sl.len :
                     /\ heap' = [heap EXCEPT ![res[j].sl.arr][i] = "R"]
                     /\ res' = [res EXCEPT ![j].want[i] = "R"]
                /\ muts' = muts + 1 /\ UNCHANGED <<lower, lowerWant>>
Next == (\E h \in Highers : Merge(h)) \/ MutateLower \/ MutateResult
Spec == Init /\ [][Next]_vars

MergeFresh == /\ \A j \in DOMAIN res : Read(res[j].sl) = res[j].want
              /\ Read(lower) = lowerWant
====
