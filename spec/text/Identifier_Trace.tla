---- MODULE Identifier_Trace ----
(***************************************************************************)
(* Trace validation for C39.  "Id": identifier.New with crypto/rand.Reader  *)
(* replaced by a reader that returns the recorded 32 bytes; "Name":         *)
(* selection.EnsureNameValid and identifier.IsValid on one name.            *)
(* Identifiers, prefixes and names are recorded character by character.     *)
(* Distinctness is judged over the whole run, which is therefore one case  *)
(* ("Begin" record with the seed; a replay repeats the run).                *)
(***************************************************************************)
EXTENDS Identifier, TraceKit
CONSTANTS Want
VARIABLES l, fails, ids, ins, prevP, prevN, npat, nname, nid, drift, done
tvars == <<l, fails, ids, ins, prevP, prevN, npat, nname, nid, drift, done>>

NumLess(x, y) == \E d \in DOMAIN x : (\A j \in 1..(d - 1) : x[j] = y[j]) /\ x[d] < y[d]
IdWF(r) == /\ {"in", "err", "id", "idstr", "valid", "trunc"} \subseteq DOMAIN r
           /\ {"dom", "key", "bytes", "prefix"} \subseteq DOMAIN r.in
           /\ Len(r.in.bytes) = 32 /\ \A i \in 1..32 : r.in.bytes[i] \in 0..255
           /\ Str(r.id) = r.idstr
           /\ r.in.dom = "pat" => /\ Len(r.in.key) = 3 /\ r.in.key[1] \in 0..31 /\ r.in.key[2] \in DOMAIN Firsts /\ r.in.key[3] \in DOMAIN Fills
                                  /\ r.in.key[1] = 31 => r.in.key[3] = 1
                                  /\ r.in.bytes = BytesOf(r.in.key[1], r.in.key[2], r.in.key[3])
           /\ r.in.dom = "zero" => r.in.bytes = AllZero
           /\ <<r.in.prefix, r.in.bytes>> \notin ins          \* the driver supplies distinct draws
IdFails(i, r) ==
  IF ~IdWF(r) THEN <<Fail(i, "C39_TraceAccepted")>>
  ELSE Chk(Want, i, "C39_WellFormed", /\ PrefixOK(r.in.prefix) => r.err = ""
                                      /\ r.err = "" => C39_WellFormed(r.in.prefix, r.id))
    \o Chk(Want, i, "C39_Valid", r.err = "" => r.valid)
    \o Chk(Want, i, "C39_TruncatedPrefix", r.err = "" => C39_TruncatedPrefix(r.id, r.trunc))
    \o Chk(Want, i, "C39_Distinct", r.err = "" => r.idstr \notin ids)
    \o (IF r.in.dom = "pat" /\ prevP # <<>> /\ ~NumLess(prevP[1], r.in.key) THEN <<Fail(i, "C39_DomainCovered")>> ELSE <<>>)
IdConforms(r) == IF PrefixOK(r.in.prefix) THEN r.err = "" /\ r.id = NewId(r.in.prefix, r.in.bytes) /\ r.trunc = Truncated(r.id)
                 ELSE r.err # ""

NameWF(r) == /\ {"in", "ok", "isId"} \subseteq DOMAIN r /\ {"dom", "key", "name", "s"} \subseteq DOMAIN r.in
             /\ r.in.dom = "gram" => /\ Len(r.in.key) = 5 /\ (\A i \in 1..5 : r.in.key[i] \in 1..4)
                                     /\ r.in.name = NameOf(r.in.key)
             /\ r.in.dom # "raw" => Str(r.in.name) = r.in.s
NameFails(i, r) ==
  IF ~NameWF(r) THEN <<Fail(i, "C39_TraceAccepted")>>
  ELSE Chk(Want, i, "C39_NameRule", r.in.dom # "raw" => C39_NameRule(r.in.name, r.ok, r.isId))
    \o Chk(Want, i, "C39_NameRule", r.in.dom = "raw" => (r.ok => ~r.isId))
    \o (IF r.in.dom = "gram" /\ prevN # <<>> /\ ~NumLess(prevN[1], r.in.key) THEN <<Fail(i, "C39_DomainCovered")>> ELSE <<>>)
NameConforms(r) == r.in.dom = "raw" \/ (r.ok = NameValid(r.in.name) /\ r.isId = IsValidId(r.in.name))

TInit == /\ l = 1 /\ fails = <<>> /\ ids = {} /\ ins = {} /\ prevP = <<>> /\ prevN = <<>> /\ npat = 0 /\ nname = 0 /\ nid = 0
         /\ drift = 0 /\ done = FALSE
Step == /\ l <= NRec
        /\ LET r == Trace[l] IN
           IF r.ev = "Id" THEN
             LET wf == IdWF(r) IN
             /\ fails' = Cap(fails \o IdFails(l, r))
             /\ ids' = IF wf /\ r.err = "" THEN ids \cup {r.idstr} ELSE ids
             /\ ins' = IF wf THEN ins \cup {<<r.in.prefix, r.in.bytes>>} ELSE ins
             /\ prevP' = IF wf /\ r.in.dom = "pat" THEN <<r.in.key>> ELSE prevP
             /\ npat' = IF wf /\ r.in.dom \in {"pat", "zero"} THEN npat + 1 ELSE npat
             /\ nid' = IF wf /\ r.err = "" THEN nid + 1 ELSE nid
             /\ drift' = IF wf /\ r.in.dom \in {"pat", "zero", "prefix"} /\ "Conforms" \in Want /\ ~IdConforms(r) THEN drift + 1 ELSE drift
             /\ UNCHANGED <<prevN, nname>>
           ELSE IF r.ev = "Name" THEN
             LET wf == NameWF(r) IN
             /\ fails' = Cap(fails \o NameFails(l, r))
             /\ prevN' = IF wf /\ r.in.dom = "gram" THEN <<r.in.key>> ELSE prevN
             /\ nname' = IF wf /\ r.in.dom = "gram" THEN nname + 1 ELSE nname
             /\ drift' = IF wf /\ "Conforms" \in Want /\ ~NameConforms(r) THEN drift + 1 ELSE drift
             /\ UNCHANGED <<ids, ins, prevP, npat, nid>>
           ELSE IF r.ev = "Begin" THEN UNCHANGED <<fails, ids, ins, prevP, prevN, npat, nname, nid, drift>>
           ELSE /\ fails' = Cap(Append(fails, Fail(l, "C39_TraceAccepted")))
                /\ UNCHANGED <<ids, ins, prevP, prevN, npat, nname, nid, drift>>
        /\ l' = l + 1 /\ UNCHANGED done
Covered == NRec > 1 => npat = 31 * Len(Firsts) * Len(Fills) + Len(Firsts) + 1 /\ nname = 1024
Finish == /\ l = NRec + 1 /\ ~done
          /\ WriteResult(l - 1,
                         Cap(fails \o (IF "C39_DomainCovered" \in Want /\ ~Covered THEN <<Fail(NRec, "C39_DomainCovered")>> ELSE <<>>)),
                         [stat_drift |-> drift, stat_pattern_inputs |-> npat, stat_identifiers |-> nid,
                          stat_distinct_identifiers |-> Cardinality(ids), stat_grammar_names |-> nname])
          /\ done' = TRUE /\ UNCHANGED <<l, fails, ids, ins, prevP, prevN, npat, nname, nid, drift>>
TNext == Step \/ Finish
TSpec == TInit /\ [][TNext]_tvars
====
