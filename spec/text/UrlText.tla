---- MODULE UrlText ----
(***************************************************************************)
(* Endpoint URL text form (pkg/url): Parse, Format and EnsureValid          *)
(* transcribed at token level.  A raw URL is a sequence of tokens; every    *)
(* token is an atomic piece of text ("a", "@", ":", "/", "0", "8", "~",     *)
(* "tcp", "unix", "docker://", "-", ...).  The separators the parsers look  *)
(* for ("@", ":", "/", "~", "\\", digits, "-") are single-character tokens, *)
(* so splitting a token sequence at a separator token is exactly splitting  *)
(* the concatenated string at that character.                               *)
(*                                                                         *)
(* One operator per Go function:                                            *)
(*   IsDocker, IsSCPSSH        parse.go / parse_ssh.go / parse_docker.go    *)
(*   ParseSSH, ParseDocker, ParseLocal, FwdParse, Norm (filesystem.Normalize)*)
(*   Format (format.go), Valid (url.go EnsureValid)                         *)
(* Properties (C38): every parsed URL is valid, and                         *)
(* Parse(Format(Parse(s))) = Parse(s).                                      *)
(* The module describes the REPAIRED behaviour:                             *)
(*  - formatSSH writes an explicit ":0" port when the path would otherwise  *)
(*    be read back as "<digits>:" port prefix (host:0:80:x);                *)
(*  - parseDocker rejects an empty user name ("docker://@a@b/p"), as        *)
(*    parseSCPSSH always did;                                               *)
(*  - formatSSH also writes ":0" when the text would otherwise begin with    *)
(*    the Docker URL prefix (host "docker", path "//x": docker:0://x);       *)
(*  - user/host/container names beginning with "-" are rejected (C36).      *)
(***************************************************************************)
EXTENDS Naturals, Sequences, FiniteSets, TLC

DigitTok == {"0", "1", "2", "3", "4", "5", "6", "7", "8", "9"}
DV == ("0" :> 0) @@ ("1" :> 1) @@ ("2" :> 2) @@ ("3" :> 3) @@ ("4" :> 4) @@
      ("5" :> 5) @@ ("6" :> 6) @@ ("7" :> 7) @@ ("8" :> 8) @@ ("9" :> 9)
DS == <<"0", "1", "2", "3", "4", "5", "6", "7", "8", "9">>
Letter1 == {"a", "b", "c", "h", "o", "w", "C"}      \* single-letter tokens (drive letters)
FwdProtocols == {"tcp", "tcp4", "tcp6", "unix", "npipe"}
DockerPrefix == "docker://"

\* ---------------------------------------------------------------- sequences
First(s, S) == IF \E i \in DOMAIN s : s[i] \in S
               THEN CHOOSE i \in DOMAIN s : s[i] \in S /\ \A j \in 1..(i - 1) : s[j] \notin S
               ELSE 0
FirstNot(s, S) == IF \E i \in DOMAIN s : s[i] \notin S
                  THEN CHOOSE i \in DOMAIN s : s[i] \notin S /\ \A j \in 1..(i - 1) : s[j] \in S
                  ELSE 0
From(s, i) == SubSeq(s, i, Len(s))
Upto(s, i) == SubSeq(s, 1, i)
CountTok(s, t) == Cardinality({i \in DOMAIN s : s[i] = t})
RECURSIVE Str(_)
Str(s) == IF s = <<>> THEN "" ELSE Head(s) \o Str(Tail(s))

Err(m) == [ok |-> FALSE, err |-> m]
Ok(u) == [ok |-> TRUE, u |-> u]
Url(kind, proto, user, host, port, path, env) ==
  [kind |-> kind, proto |-> proto, user |-> user, host |-> host, port |-> port, path |-> path, env |-> env]

\* ---------------------------------------------------------------- numbers
RECURSIVE Dec(_)
Dec(ds) == IF ds = <<>> THEN 0 ELSE Dec(Upto(ds, Len(ds) - 1)) * 10 + DV[ds[Len(ds)]]
RECURSIVE StripZeros(_)
StripZeros(ds) == IF ds # <<>> /\ ds[1] = "0" THEN StripZeros(Tail(ds)) ELSE ds
\* strconv.ParseUint(text, 10, 16) succeeds
PortOK(ds) == ds # <<>> /\ LET z == StripZeros(ds) IN Len(z) <= 5 /\ Dec(z) <= 65535
RECURSIVE ToDigits(_)
ToDigits(n) == IF n < 10 THEN <<DS[n + 1]>> ELSE ToDigits(n \div 10) \o <<DS[(n % 10) + 1]>>

\* ---------------------------------------------------------------- helpers of the Go code
\* paths.go isWindowsPath (byte level: letter, ':', '\' or '/')
IsWin(s) == Len(s) >= 3 /\ s[1] \in Letter1 /\ s[2] = ":" /\ s[3] \in {"/", "\\"}
\* the rule added by the C36 repair: a component that begins with '-'
Dashed(c) == c # <<>> /\ c[1] = "-"

\* forwarding/parse.go Parse
FwdParse(s) ==
  LET i == First(s, {":"}) IN
  IF s = <<>> \/ i = 0 THEN [ok |-> FALSE]
  ELSE IF Str(Upto(s, i - 1)) \notin FwdProtocols THEN [ok |-> FALSE]
  ELSE IF From(s, i + 1) = <<>> THEN [ok |-> FALSE]
  ELSE [ok |-> TRUE, proto |-> Str(Upto(s, i - 1)), ptoks |-> Upto(s, i - 1), addr |-> From(s, i + 1)]

\* filepath.Clean restricted to the separators of the bound (no "." / ".." tokens)
RECURSIVE Dedup(_)
Dedup(a) == IF Len(a) < 2 THEN a
            ELSE IF a[1] = "/" /\ a[2] = "/" THEN Dedup(Tail(a))
            ELSE <<a[1]>> \o Dedup(Tail(a))
Clean(a) == LET b == Dedup(a) IN IF Len(b) > 1 /\ b[Len(b)] = "/" THEN Upto(b, Len(b) - 1) ELSE b

\* filesystem.Normalize: tilde expansion (only the current user exists), Abs, Clean.
\* H, W: home and working directory as token sequences (absolute, clean).
Norm(p, H, W) ==
  LET tilde == p # <<>> /\ p[1] = "~"
      sep == First(p, {"/"})
      uname == IF sep > 0 THEN SubSeq(p, 2, sep - 1) ELSE Tail(p)
      rem == IF sep > 0 THEN From(p, sep + 1) ELSE <<>>
  IN IF tilde /\ uname # <<>> THEN [ok |-> FALSE]
     ELSE [ok |-> TRUE,
           path |-> IF tilde THEN Clean(H \o <<"/">> \o rem)
                    ELSE IF p # <<>> /\ p[1] = "/" THEN Clean(p)
                    ELSE Clean(W \o <<"/">> \o p)]

\* ---------------------------------------------------------------- classification
\* strings.HasPrefix(strings.ToLower(raw), "docker://"): the prefix as one token, or spelled by a
\* scheme-word token followed by ":", "/", "/" (an SCP-style text for a host named "docker")
DockerCut(s) == IF s # <<>> /\ s[1] \in {"docker://", "DOCKER://", "Docker://"} THEN 1
                ELSE IF Len(s) >= 4 /\ s[1] \in {"docker", "DOCKER", "Docker"} /\ s[2] = ":" /\ s[3] = "/" /\ s[4] = "/" THEN 4
                ELSE 0
IsDocker(s) == DockerCut(s) > 0
IsSCPSSH(s, kind) ==
  IF kind = "sync" THEN LET i == First(s, {":", "/"}) IN i > 0 /\ s[i] = ":"
  ELSE ~FwdParse(s).ok /\ CountTok(s, ":") >= 2

\* ---------------------------------------------------------------- parse_ssh.go parseSCPSSH
ParseSSH(s, kind) ==
  LET i == First(s, {":", "@"})
      hasUser == i > 0 /\ s[i] = "@"
      user == IF hasUser THEN Upto(s, i - 1) ELSE <<>>
      r1 == IF hasUser THEN From(s, i + 1) ELSE s
      j == First(r1, {":"})
      host == Upto(r1, j - 1)
      r2 == From(r1, j + 1)
      k == FirstNot(r2, DigitTok)
      hasPort == k > 0 /\ r2[k] = ":"
      ds == Upto(r2, k - 1)
      port == IF hasPort THEN Dec(StripZeros(ds)) ELSE 0
      path == IF hasPort THEN From(r2, k + 1) ELSE r2
  IN IF hasUser /\ i = 1 THEN Err("empty username specified")
     ELSE IF Dashed(user) THEN Err("username begins with a dash")
     ELSE IF j = 0 THEN Err("no hostname present")
     ELSE IF j = 1 THEN Err("empty hostname")
     ELSE IF Dashed(host) THEN Err("hostname begins with a dash")
     ELSE IF hasPort /\ ~PortOK(ds) THEN Err("invalid port value specified")
     ELSE IF kind = "sync" /\ path = <<>> THEN Err("empty path")
     ELSE IF kind = "fwd" /\ ~FwdParse(path).ok THEN Err("invalid forwarding endpoint URL")
     ELSE Ok(Url(kind, "ssh", user, host, port, path, <<>>))

\* ---------------------------------------------------------------- parse_docker.go parseDocker
ParseDocker(s, kind, E) ==
  LET raw == From(s, DockerCut(s) + 1)
      split == IF kind = "sync" THEN "/" ELSE ":"
      i == First(raw, {split, "@"})
      hasUser == i > 0 /\ raw[i] = "@"
      user == IF hasUser THEN Upto(raw, i - 1) ELSE <<>>
      r1 == IF hasUser THEN From(raw, i + 1) ELSE raw
      j == First(r1, {split})
      container == Upto(r1, j - 1)
      p0 == From(r1, j)
      p1 == IF Len(p0) > 1 /\ p0[2] = "~" THEN Tail(p0) ELSE p0
      p2 == IF IsWin(Tail(p1)) THEN Tail(p1) ELSE p1
      pf == Tail(p0)
  IN IF hasUser /\ i = 1 THEN Err("empty username specified")
     ELSE IF j = 0 \/ j = 1 THEN Err("empty container name")
     ELSE IF Dashed(container) THEN Err("container name begins with a dash")
     ELSE IF kind = "sync" THEN Ok(Url(kind, "docker", user, container, 0, p2, E))
     ELSE IF ~FwdParse(pf).ok THEN Err("invalid forwarding endpoint URL")
     ELSE Ok(Url(kind, "docker", user, container, 0, pf, E))

\* ---------------------------------------------------------------- parse_local.go parseLocal
ParseLocal(s, kind, H, W) ==
  IF kind = "sync" THEN
    LET n == Norm(s, H, W) IN
    IF n.ok THEN Ok(Url(kind, "local", <<>>, <<>>, 0, n.path, <<>>)) ELSE Err("unable to normalize path")
  ELSE
    LET f == FwdParse(s) IN
    IF ~f.ok THEN Err("invalid forwarding endpoint URL")
    ELSE IF f.proto = "unix" THEN
      LET n == Norm(f.addr, H, W) IN
      IF n.ok THEN Ok(Url(kind, "local", <<>>, <<>>, 0, f.ptoks \o <<":">> \o n.path, <<>>))
      ELSE Err("unable to normalize socket path")
    ELSE Ok(Url(kind, "local", <<>>, <<>>, 0, s, <<>>))

\* ---------------------------------------------------------------- parse.go Parse
Parse(s, kind, H, W, E) ==
  IF s = <<>> THEN Err("empty URL")
  ELSE IF IsDocker(s) THEN ParseDocker(s, kind, E)
  ELSE IF IsSCPSSH(s, kind) THEN ParseSSH(s, kind)
  ELSE ParseLocal(s, kind, H, W)

\* ---------------------------------------------------------------- format.go
\* the SCP-style parser would take a prefix of this path for a port specification
PortLike(path) == LET k == FirstNot(path, DigitTok) IN k > 0 /\ path[k] = ":"
InvalidDocker == <<"<invalid-docker-url>">>
Format(u) ==
  IF u.proto = "local" THEN u.path
  ELSE IF u.proto = "ssh" THEN
       (IF u.user # <<>> THEN u.user \o <<"@">> ELSE <<>>) \o u.host
    \o (IF u.port # 0 \/ PortLike(u.path)
           \/ IsDocker((IF u.user # <<>> THEN u.user \o <<"@">> ELSE <<>>) \o u.host \o <<":">> \o u.path)
        THEN <<":">> \o ToDigits(u.port) ELSE <<>>)
    \o <<":">> \o u.path
  ELSE LET base == (IF u.user # <<>> THEN u.user \o <<"@">> ELSE <<>>) \o u.host IN
    IF u.kind = "sync" THEN
      IF u.path = <<>> THEN InvalidDocker
      ELSE IF u.path[1] = "/" THEN <<DockerPrefix>> \o base \o u.path
      ELSE IF u.path[1] = "~" \/ IsWin(u.path) THEN <<DockerPrefix>> \o base \o <<"/">> \o u.path
      ELSE InvalidDocker
    ELSE <<DockerPrefix>> \o base \o <<":">> \o u.path

\* ---------------------------------------------------------------- url.go EnsureValid
Valid(u) ==
  /\ u.kind \in {"sync", "fwd"}
  /\ u.proto \in {"local", "ssh", "docker"}
  /\ u.proto = "local" => u.user = <<>> /\ u.host = <<>> /\ u.port = 0 /\ u.env = <<>>
  /\ u.proto = "ssh" => u.host # <<>> /\ u.port <= 65535 /\ u.env = <<>> /\ ~Dashed(u.user) /\ ~Dashed(u.host)
  /\ u.proto = "docker" => u.host # <<>> /\ u.port = 0 /\ ~Dashed(u.host)
  /\ u.kind = "sync" =>
       /\ u.path # <<>>
       /\ u.proto = "local" => u.path[1] = "/"                       \* filepath.IsAbs
       /\ u.proto = "docker" => (u.path[1] = "/" \/ u.path[1] = "~" \/ IsWin(u.path))
  /\ u.kind = "fwd" =>
       LET f == FwdParse(u.path) IN
       /\ f.ok
       /\ (u.proto = "local" /\ f.proto = "unix") => f.addr[1] = "/"

\* ---------------------------------------------------------------- the grammar domain
\* Besides all short flat token strings, C38 enumerates structured URLs
\*   [docker://] user-part host-part port-part separator path-part
\* (every combination of the component lists below), which reach the long
\* strings a flat bound cannot ("a@a:0:80:a", "a@unix:88888:unix:~/a", ...).
GUser == << <<>>, <<"@">>, <<"a", "@">>, <<"a", "@", "a", "@">>, <<"-", "a", "@">> >>
GHost == << <<"a">>, <<"unix">>, <<"-", "a">>, <<>> >>
GPort == << <<>>, <<":">>, <<":", "0">>, <<":", "8">>, <<":", "0", "0">>, <<":", "0", "8">>, <<":", "8", "0">>,
            <<":", "8", "8", "8", "8", "8">>, <<":", "a">> >>
GSep  == << <<":">>, <<"/">> >>
GPath == << <<>>, <<"a">>, <<"/", "a">>, <<"/">>, <<"~">>, <<"~", "/", "a">>, <<"/", "~", "a">>, <<"8", ":", "a">>,
            <<"8", "0", ":", "a">>, <<":", "a">>, <<":">>, <<"0", ":">>, <<"unix", ":", "a">>, <<"unix", ":", "/", "a">>,
            <<"unix", ":", "~", "/", "a">>, <<"tcp", ":", ":", "8">>, <<"tcp", ":">>, <<"a", ":", "/", "a">>,
            <<"~", "a", ":", "/">>, <<"/", "/", "a", "/">> >>
GLens == <<Len(GUser), Len(GHost), Len(GPort), Len(GSep), Len(GPath)>>
GramAt(g) == GUser[g[1]] \o GHost[g[2]] \o GPort[g[3]] \o GSep[g[4]] \o GPath[g[5]]
GramTuples == {<<a, b, c, d, e>> : a \in DOMAIN GUser, b \in DOMAIN GHost, c \in DOMAIN GPort, d \in DOMAIN GSep, e \in DOMAIN GPath}
GramSize == Len(GUser) * Len(GHost) * Len(GPort) * Len(GSep) * Len(GPath)

\* The case domain: forwarding-endpoint protocols and the docker:// scheme in lower / UPPER / Mixed case,
\* crossed with relative, absolute, home-relative, ~user, Windows and host:port addresses, behind a local,
\* SSH or Docker head:  head  protocol ":" address   (both URL kinds).
CProto == <<"tcp", "TCP", "Tcp", "tcp4", "TCP4", "Tcp4", "tcp6", "unix", "UNIX", "Unix", "npipe", "NPIPE", "Npipe">>
CAddr == << <<"a">>, <<"/", "a">>, <<"~", "/", "a">>, <<"~", "a", "/", "a">>, <<"a", ":", "/", "a">>, <<"a", ":", "8">>, <<>> >>
CHead == << <<>>, <<"a", ":">>, <<"a", "@", "a", ":">>, <<"a", ":", "8", ":">>, <<"docker://", "a", ":">>, <<"DOCKER://", "a", ":">>,
            <<"Docker://", "a", "@", "a", ":">>, <<"DOCKER://", "a", "/">>, <<"Docker://", "a", "/">> >>
CaseAt(g) == CHead[g[1]] \o <<CProto[g[2]], ":">> \o CAddr[g[3]]
CaseTuples == {<<a, b, c>> : a \in DOMAIN CHead, b \in DOMAIN CProto, c \in DOMAIN CAddr}
CaseSize == Len(CHead) * Len(CProto) * Len(CAddr)
CLens == <<Len(CHead), Len(CProto), Len(CAddr)>>

\* The scheme-word domain: SCP-style texts whose host spells a scheme or protocol word, with and without
\* a (zero) port and with paths that would make the formatted text be dispatched differently by Parse
\* (isDockerURL -> isSCPSSHURL -> local):   user-part host port-part ":" path
SUser == << <<>>, <<"a", "@">> >>
SHost == <<"docker", "DOCKER", "Docker", "ssh", "tcp", "unix">>
SPort == << <<>>, <<":", "0">>, <<":", "0", "0">>, <<":", "8">> >>
SPath == << <<"/", "/", "a", "/", "a">>, <<"/", "/">>, <<"/", "a">>, <<"~">>, <<"8", ":", "a">>, <<"a">>, <<"tcp", ":", "a", ":", "8">> >>
SchemeAt(g) == SUser[g[1]] \o <<SHost[g[2]]>> \o SPort[g[3]] \o <<":">> \o SPath[g[4]]
SchemeTuples == {<<a, b, c, d>> : a \in DOMAIN SUser, b \in DOMAIN SHost, c \in DOMAIN SPort, d \in DOMAIN SPath}
SchemeSize == Len(SUser) * Len(SHost) * Len(SPort) * Len(SPath)
SLens == <<Len(SUser), Len(SHost), Len(SPort), Len(SPath)>>

\* ---------------------------------------------------------------- C38 on the model
RoundTrip(s, kind, H, W, E) ==
  LET p == Parse(s, kind, H, W, E) IN
  p.ok => Parse(Format(p.u), kind, H, W, E) = p
ParsedValid(s, kind, H, W, E) ==
  LET p == Parse(s, kind, H, W, E) IN p.ok => Valid(p.u)

\* ---------------------------------------------------------------- C38 on observations
\* r.p1 / r.p2: what the real url.Parse returned for the input and for the
\* real Format of its first result; r.valid: the real EnsureValid accepted it.
C38_Valid(r) == r.p1.ok => r.valid
C38_RoundTrip(r) == r.p1.ok => (r.p2.ok /\ r.p2.url = r.p1.url)
====
