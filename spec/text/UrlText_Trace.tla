---- MODULE UrlText_Trace ----
(***************************************************************************)
(* Trace validation for C38.  One record = one input string through the     *)
(* real url.Parse -> EnsureValid -> Format -> Parse.  The step relation     *)
(* consumes every record; the verdict is given by C38_Valid/C38_RoundTrip   *)
(* of UrlText on the real results only.  Agreement of the real first parse  *)
(* and format with the token-level transcription is counted as drift.       *)
(* Coverage: the in-domain records must enumerate, in strictly increasing    *)
(* canonical order, all flat token strings up to the longest length seen    *)
(* and then the whole grammar domain (UrlText!GramTuples), each for both    *)
(* kinds, with and without the docker:// prefix.                            *)
(***************************************************************************)
EXTENDS UrlText, TraceKit

CONSTANTS Want, MinLen, MinTok

VARIABLES l, fails, prev, ndom, ngram, ncase, maxlen, maxrank, drift, nok, done
tvars == <<l, fails, prev, ndom, ngram, ncase, maxlen, maxrank, drift, nok, done>>

TokOrder == <<"a", "@", ":", "/", "0", "8", "~", "unix", "tcp">>
Rank(t) == IF \E i \in DOMAIN TokOrder : TokOrder[i] = t THEN CHOOSE i \in DOMAIN TokOrder : TokOrder[i] = t ELSE 0
KindRank(k) == IF k = "sync" THEN 1 ELSE IF k = "fwd" THEN 2 ELSE 0

RawOf(in) == (IF in.pre THEN <<DockerPrefix>> ELSE <<>>) \o in.toks
DomRank(d) == IF d = "flat" THEN 1 ELSE IF d = "gram" THEN 2 ELSE IF d = "case" THEN 3 ELSE IF d = "scheme" THEN 4 ELSE 0
IsDom(in) == DomRank(in.dom) > 0
InDomain(in) == /\ KindRank(in.kind) > 0
                /\ Str(RawOf(in)) = in.s
                /\ in.dom = "flat" => \A i \in DOMAIN in.toks : Rank(in.toks[i]) > 0
                /\ in.dom = "gram" => /\ Len(in.gi) = 5
                                       /\ \A i \in 1..5 : in.gi[i] \in 1..GLens[i]
                                       /\ in.toks = GramAt(in.gi)
                /\ in.dom = "case" => /\ Len(in.gi) = 3 /\ ~in.pre
                                       /\ \A i \in 1..3 : in.gi[i] \in 1..CLens[i]
                                       /\ in.toks = CaseAt(in.gi)
                /\ in.dom = "scheme" => /\ Len(in.gi) = 4 /\ ~in.pre
                                         /\ \A i \in 1..4 : in.gi[i] \in 1..SLens[i]
                                         /\ in.toks = SchemeAt(in.gi)
\* canonical order: kind, prefix, length, then lexicographic by token rank
SeqLess(a, b) == \E d \in DOMAIN a : /\ \A j \in 1..(d - 1) : a[j] = b[j]
                                     /\ Rank(a[d]) < Rank(b[d])
IdxLess(a, b) == \E d \in DOMAIN a : /\ \A j \in 1..(d - 1) : a[j] = b[j]
                                     /\ a[d] < b[d]
InLess(x, y) ==
  IF DomRank(x.dom) # DomRank(y.dom) THEN DomRank(x.dom) < DomRank(y.dom)
  ELSE IF KindRank(x.kind) # KindRank(y.kind) THEN KindRank(x.kind) < KindRank(y.kind)
  ELSE IF x.pre # y.pre THEN y.pre
  ELSE IF x.dom \in {"gram", "case", "scheme"} THEN IdxLess(x.gi, y.gi)
  ELSE IF Len(x.toks) # Len(y.toks) THEN Len(x.toks) < Len(y.toks)
  ELSE SeqLess(x.toks, y.toks)
MaxRankOf(ts) == IF ts = <<>> THEN 0 ELSE CHOOSE m \in {Rank(ts[i]) : i \in DOMAIN ts} : \A i \in DOMAIN ts : Rank(ts[i]) <= m
RECURSIVE Pow(_, _)
Pow(b, e) == IF e = 0 THEN 1 ELSE b * Pow(b, e - 1)
RECURSIVE SumPow(_, _)
SumPow(b, n) == IF n = 0 THEN 1 ELSE Pow(b, n) + SumPow(b, n - 1)
DomainSize(nt, n) == 4 * SumPow(nt, n)

EnvOf(in) == IF in.first THEN [DOCKER_HOST |-> "tcp://dh:1", DOCKER_CONTEXT |-> "actx"] ELSE [DOCKER_HOST |-> "tcp://dh:1"]
\* the transcription's result rendered as the strings the real code returns
Render(u) == [kind |-> u.kind, proto |-> u.proto, user |-> Str(u.user), host |-> Str(u.host), port |-> u.port,
              path |-> Str(u.path), env |-> u.env, params |-> <<>>]
Conforms(r) ==
  LET m == Parse(RawOf(r.in), r.in.kind, <<r.home>>, <<r.cwd>>, EnvOf(r.in))
      \* the same parse with token-level directories, for the validity rule on absolute paths
      mv == IF m.ok /\ m.u.proto = "local" THEN Parse(RawOf(r.in), r.in.kind, <<"/", "h">>, <<"/", "w">>, EnvOf(r.in)) ELSE m
  IN
  /\ m.ok = r.p1.ok
  /\ m.ok => /\ Render(m.u) = r.p1.url
             /\ Str(Format(m.u)) = r.fmt
             /\ Valid(mv.u) = r.valid

WellFormed(r) == /\ r.ev = "Url"
                 /\ {"in", "p1", "p2", "valid", "fmt", "home", "cwd"} \subseteq DOMAIN r
                 /\ {"dom", "kind", "pre", "toks", "gi", "s", "first"} \subseteq DOMAIN r.in
                 /\ (IsDom(r.in) => InDomain(r.in))

RecFails(i, r) ==
  IF ~WellFormed(r) THEN <<Fail(i, "C38_TraceAccepted")>>
  ELSE Chk(Want, i, "C38_Valid", C38_Valid(r))
    \o Chk(Want, i, "C38_RoundTrip", C38_RoundTrip(r))
    \o (IF IsDom(r.in) /\ prev # <<>> /\ ~InLess(prev[1], r.in) THEN <<Fail(i, "C38_DomainCovered")>> ELSE <<>>)

TInit == /\ l = 1 /\ fails = <<>> /\ prev = <<>> /\ ndom = 0 /\ ngram = 0 /\ ncase = 0 /\ maxlen = 0 /\ maxrank = 0
         /\ drift = 0 /\ nok = 0 /\ done = FALSE
Step == /\ l <= NRec
        /\ LET r == Trace[l]
               wf == WellFormed(r)
               dom == wf /\ r.in.dom = "flat"
               gram == wf /\ r.in.dom \in {"gram", "case", "scheme"}
           IN /\ fails' = Cap(fails \o RecFails(l, r))
              /\ prev' = IF dom \/ gram THEN <<[dom |-> r.in.dom, kind |-> r.in.kind, pre |-> r.in.pre, toks |-> r.in.toks, gi |-> r.in.gi]>> ELSE prev
              /\ ndom' = IF dom THEN ndom + 1 ELSE ndom
              /\ ngram' = IF gram /\ r.in.dom = "gram" THEN ngram + 1 ELSE ngram
              /\ ncase' = IF gram /\ r.in.dom \in {"case", "scheme"} THEN ncase + 1 ELSE ncase
              /\ maxlen' = IF dom /\ Len(r.in.toks) > maxlen THEN Len(r.in.toks) ELSE maxlen
              /\ maxrank' = IF dom /\ MaxRankOf(r.in.toks) > maxrank THEN MaxRankOf(r.in.toks) ELSE maxrank
              /\ drift' = IF (dom \/ gram) /\ "Conforms" \in Want /\ ~Conforms(r) THEN drift + 1 ELSE drift
              /\ nok' = IF wf /\ r.p1.ok THEN nok + 1 ELSE nok
        /\ l' = l + 1 /\ UNCHANGED done
\* a full run (more than one in-domain record; a replay has one) must cover the bound
Covered == ndom + ngram + ncase > 1 => /\ maxlen >= MinLen /\ maxrank >= MinTok
                               /\ ndom = DomainSize(maxrank, maxlen)
                               /\ ngram = 4 * GramSize
                               /\ ncase = 2 * CaseSize + 2 * SchemeSize
Finish == /\ l = NRec + 1 /\ ~done
          /\ WriteResult(l - 1,
                         Cap(fails \o (IF "C38_DomainCovered" \in Want /\ ~Covered THEN <<Fail(NRec, "C38_DomainCovered")>> ELSE <<>>)),
                         [stat_drift |-> drift, stat_indomain |-> ndom, stat_grammar |-> ngram, stat_case |-> ncase, stat_parsed |-> nok,
                          stat_maxlen |-> maxlen, stat_tokens |-> maxrank])
          /\ done' = TRUE /\ UNCHANGED <<l, fails, prev, ndom, ngram, ncase, maxlen, maxrank, drift, nok>>
TNext == Step \/ Finish
TSpec == TInit /\ [][TNext]_tvars
====
