---- MODULE Identifier_MC ----
EXTENDS Identifier
VARIABLES kind, a, b, c
vars == <<kind, a, b, c>>
Init == \/ kind = "id" /\ a \in 0..30 /\ b \in DOMAIN Firsts /\ c \in DOMAIN Fills
        \/ kind = "id" /\ a = 31 /\ b \in DOMAIN Firsts /\ c = 1
        \/ kind = "zero" /\ a = 0 /\ b = 0 /\ c = 0
        \/ kind = "name" /\ a \in [1..5 -> 1..4] /\ b = 0 /\ c = 0
Next == UNCHANGED vars
Spec == Init /\ [][Next]_vars
Sync == <<"s", "y", "n", "c">>
Bytes == IF kind = "zero" THEN AllZero ELSE BytesOf(a, b, c)
InvId == kind \in {"id", "zero"} =>
  LET id == NewId(Sync, Bytes) IN
  /\ C39_WellFormed(Sync, id) /\ IsValidId(id) /\ C39_TruncatedPrefix(id, Truncated(id))
\* distinct inputs of the domain give distinct identifiers (checked pairwise against the all-zero and shifted inputs)
InvDistinct == kind = "id" =>
  /\ NewId(Sync, Bytes) # NewId(Sync, AllZero)
  /\ (a < 31 /\ c = 1) => NewId(Sync, Bytes) # NewId(Sync, BytesOf(a + 1, b, c))
InvName == kind = "name" =>
  LET n == NameOf(a) IN C39_NameRule(n, NameValid(n), IsValidId(n))
====
