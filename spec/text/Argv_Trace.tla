---- MODULE Argv_Trace ----
(***************************************************************************)
(* Trace validation for C36.  Record "Bound": the box bounds the driver     *)
(* was given.  Record "Argv": one (user, host) pair, either placed in a URL *)
(* string that goes through the real url.Parse (route "parse") or put       *)
(* directly into a url.URL message (route "raw"), then the real             *)
(* EnsureValid and - if accepted - the real SSH / Docker transports; cmds   *)
(* are the argument vectors observed (the *exec.Cmd the transport returned, *)
(* and what the recording fake ssh/scp/docker executables were started      *)
(* with), every argument also character by character.  The verdict is       *)
(* Argv!CmdOK (the getopt model) on every observed command.                 *)
(***************************************************************************)
EXTENDS Argv, TraceKit

CONSTANTS Want

VARIABLES l, fails, bound, prev, nssh, ndocker, ncmd, nacc, maxrank, drift, done
tvars == <<l, fails, bound, prev, nssh, ndocker, ncmd, nacc, maxrank, drift, done>>

\* quick uses the first MinTok tokens, thorough all of them (the count is taken from the records)
TokOrder == <<"-", "a", "@", "/", " ", "TAB", "LF", "o">>
MinTok == 7
RouteRank(x) == IF x = "parse" THEN 1 ELSE IF x = "raw" THEN 2 ELSE 0
MinSsh == <<1, 3, 3, 1>>
MinDocker == <<1, 1, 0, 2>>
Rank(t) == IF \E i \in DOMAIN TokOrder : TokOrder[i] = t THEN CHOOSE i \in DOMAIN TokOrder : TokOrder[i] = t ELSE 0
FormRank(f) == IF f = "ssh" THEN 1 ELSE IF f = "docker" THEN 2 ELSE 0
InBox(b, u, h) == Len(h) >= 1 /\ ((Len(u) <= b[1] /\ Len(h) <= b[2]) \/ (Len(u) <= b[3] /\ Len(h) <= b[4]))
Min(a, b) == IF a < b THEN a ELSE b
RECURSIVE Pow(_, _)
Pow(b, e) == IF e = 0 THEN 1 ELSE b * Pow(b, e - 1)
RECURSIVE SumPow(_, _)
SumPow(b, n) == IF n = 0 THEN 1 ELSE Pow(b, n) + SumPow(b, n - 1)
NU(nt, a) == SumPow(nt, a)
NH(nt, a) == SumPow(nt, a) - 1
BoxCount(nt, b) == NU(nt, b[1]) * NH(nt, b[2]) + NU(nt, b[3]) * NH(nt, b[4]) - NU(nt, Min(b[1], b[3])) * NH(nt, Min(b[2], b[4]))
MaxRankOf(ts) == IF ts = <<>> THEN 0 ELSE CHOOSE m \in {Rank(ts[i]) : i \in DOMAIN ts} : \A i \in DOMAIN ts : Rank(ts[i]) <= m
Max(a, b) == IF a > b THEN a ELSE b

SeqLess(a, b) == IF Len(a) # Len(b) THEN Len(a) < Len(b)
                 ELSE \E d \in DOMAIN a : /\ \A j \in 1..(d - 1) : a[j] = b[j]
                                          /\ Rank(a[d]) < Rank(b[d])
InLess(x, y) == IF RouteRank(x.route) # RouteRank(y.route) THEN RouteRank(x.route) < RouteRank(y.route)
                ELSE IF FormRank(x.form) # FormRank(y.form) THEN FormRank(x.form) < FormRank(y.form)
                ELSE IF x.user # y.user THEN SeqLess(x.user, y.user)
                ELSE SeqLess(x.host, y.host)

IsDom(in) == in.dom = "box"
InDomain(in) == /\ FormRank(in.form) > 0 /\ RouteRank(in.route) > 0
                /\ \A i \in DOMAIN in.user : Rank(in.user[i]) > 0
                /\ \A i \in DOMAIN in.host : Rank(in.host[i]) > 0
                /\ in.route = "parse" => Str(UrlOf(in.form, in.user, in.host)) = in.s
                /\ bound # <<>> => InBox(IF in.form = "ssh" THEN bound[1].ssh ELSE bound[1].docker, in.user, in.host)

CmdWF(c) == /\ {"prog", "via", "argv", "argvc"} \subseteq DOMAIN c
            /\ Len(c.argv) = Len(c.argvc)
            /\ \A j \in DOMAIN c.argv : Str(c.argvc[j]) = c.argv[j]
WellFormed(r) == /\ {"in", "accepted", "url", "x", "cmds"} \subseteq DOMAIN r
                 /\ {"dom", "route", "form", "user", "host", "s"} \subseteq DOMAIN r.in
                 /\ {"cmd", "words", "src", "remote", "home", "local"} \subseteq DOMAIN r.x
                 \* a raw message carries exactly the components of the case
                 /\ (IsDom(r.in) /\ r.in.route = "raw" /\ r.accepted) => r.url.user = Str(r.in.user) /\ r.url.host = Str(r.in.host)
                 /\ (IsDom(r.in) => InDomain(r.in))
                 /\ \A k \in DOMAIN r.cmds : CmdWF(r.cmds[k])
                 /\ (r.accepted => {"user", "host", "proto"} \subseteq DOMAIN r.url)

XOf(r) == [user |-> r.url.user, host |-> r.url.host, cmd |-> r.x.cmd, words |-> r.x.words, src |-> r.x.src, remote |-> r.x.remote,
           home |-> r.x.home, local |-> r.x.local]
\* C36 on observations: every argument vector that arrived at a program
C36_Operand(r) == r.accepted => \A k \in DOMAIN r.cmds : CmdOperand(r.cmds[k].prog, r.cmds[k].argvc, XOf(r))
C36_ComponentIntact(r) == r.accepted => \A k \in DOMAIN r.cmds : CmdIntact(r.cmds[k].prog, r.cmds[k].argvc, XOf(r))
C36_RejectedBeforeCommand(r) == ~r.accepted => r.cmds = <<>>
Exercised(r) == (r.accepted /\ r.url.proto \in {"ssh", "docker"}) => r.cmds # <<>>

Conforms(r) ==
  LET p == Message(r.in.route, r.in.form, r.in.user, r.in.host, <<"/", "h">>, <<"/", "w">>, <<>>) IN
  /\ (p.ok /\ Valid(p.u)) = r.accepted
  /\ r.accepted => Str(p.u.user) = r.url.user /\ Str(p.u.host) = r.url.host /\ p.u.proto = r.url.proto

ArgvFails(i, r) ==
  IF ~WellFormed(r) THEN <<Fail(i, "C36_TraceAccepted")>>
  ELSE Chk(Want, i, "C36_Operand", C36_Operand(r))
    \o Chk(Want, i, "C36_ComponentIntact", C36_ComponentIntact(r))
    \o Chk(Want, i, "C36_RejectedBeforeCommand", C36_RejectedBeforeCommand(r))
    \o Chk(Want, i, "C36_TraceAccepted", Exercised(r))
    \o (IF IsDom(r.in) /\ prev # <<>> /\ ~InLess(prev[1], r.in) THEN <<Fail(i, "C36_DomainCovered")>> ELSE <<>>)

BoundOK(r) == /\ {"ssh", "docker"} \subseteq DOMAIN r /\ Len(r.ssh) = 4 /\ Len(r.docker) = 4
              /\ \A k \in 1..4 : r.ssh[k] >= MinSsh[k] /\ r.docker[k] >= MinDocker[k]

TInit == /\ l = 1 /\ fails = <<>> /\ bound = <<>> /\ prev = <<>> /\ nssh = 0 /\ ndocker = 0 /\ ncmd = 0 /\ nacc = 0 /\ maxrank = 0
         /\ drift = 0 /\ done = FALSE
Step == /\ l <= NRec
        /\ LET r == Trace[l] IN
           IF r.ev = "Bound" THEN
             /\ bound' = IF BoundOK(r) THEN <<r>> ELSE bound
             /\ fails' = Cap(fails \o (IF BoundOK(r) /\ bound = <<>> THEN <<>> ELSE <<Fail(l, "C36_DomainCovered")>>))
             /\ UNCHANGED <<prev, nssh, ndocker, ncmd, nacc, maxrank, drift>>
           ELSE IF r.ev = "Argv" THEN
             LET wf == WellFormed(r)
                 dom == wf /\ IsDom(r.in)
             IN /\ fails' = Cap(fails \o ArgvFails(l, r))
                /\ prev' = IF dom THEN <<[route |-> r.in.route, form |-> r.in.form, user |-> r.in.user, host |-> r.in.host]>> ELSE prev
                /\ nssh' = IF dom /\ r.in.form = "ssh" THEN nssh + 1 ELSE nssh
                /\ ndocker' = IF dom /\ r.in.form = "docker" THEN ndocker + 1 ELSE ndocker
                /\ ncmd' = IF wf THEN ncmd + Len(r.cmds) ELSE ncmd
                /\ nacc' = IF wf /\ r.accepted THEN nacc + 1 ELSE nacc
                /\ maxrank' = IF dom THEN Max(maxrank, Max(MaxRankOf(r.in.user), MaxRankOf(r.in.host))) ELSE maxrank
                /\ drift' = IF dom /\ "Conforms" \in Want /\ ~Conforms(r) THEN drift + 1 ELSE drift
                /\ UNCHANGED bound
           ELSE /\ fails' = Cap(Append(fails, Fail(l, "C36_TraceAccepted")))
                /\ UNCHANGED <<bound, prev, nssh, ndocker, ncmd, nacc, maxrank, drift>>
        /\ l' = l + 1 /\ UNCHANGED done
Covered == nssh + ndocker > 1 => /\ bound # <<>>
                                 /\ maxrank >= MinTok
                                 /\ nssh = 2 * BoxCount(maxrank, bound[1].ssh)           \* both routes
                                 /\ ndocker = 2 * BoxCount(maxrank, bound[1].docker)
Finish == /\ l = NRec + 1 /\ ~done
          /\ WriteResult(l - 1,
                         Cap(fails \o (IF "C36_DomainCovered" \in Want /\ ~Covered THEN <<Fail(NRec, "C36_DomainCovered")>> ELSE <<>>)),
                         [stat_drift |-> drift, stat_ssh_cases |-> nssh, stat_docker_cases |-> ndocker,
                          stat_commands |-> ncmd, stat_accepted |-> nacc, stat_tokens |-> maxrank])
          /\ done' = TRUE /\ UNCHANGED <<l, fails, bound, prev, nssh, ndocker, ncmd, nacc, maxrank, drift>>
TNext == Step \/ Finish
TSpec == TInit /\ [][TNext]_tvars
====
