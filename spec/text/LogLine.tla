---- MODULE LogLine ----
(***************************************************************************)
(* C44: log output is one neutralized line per record.                      *)
(*                                                                         *)
(* Text is a sequence of characters; the three characters the property      *)
(* speaks about are written "LF", "CR", "ESC", every other element is a     *)
(* one-character string.  Transcribed from the code:                        *)
(*   WriteLine      logging/logger.go Logger.write: truncate at CR, then     *)
(*                  at an inner LF, prefix with time stamp, level, scope,    *)
(*                  neutralize                                               *)
(*   Neutralize     platform/terminal/neutralization.go                     *)
(*   LPWrite        stream/line_processor.go LineProcessor.Write (one action *)
(*                  per Write call: append to the buffer, emit every         *)
(*                  complete line without its LF / CR LF)                    *)
(*   RelayLine      logger.go Writer callback: a line that starts with a     *)
(*                  logger prefix is gated by its own level and re-emitted   *)
(*                  with the scope injected, any other line is logged        *)
(* Levels: 0 disabled, 1 error, 2 warn, 3 info, 4 debug, 5 trace.           *)
(***************************************************************************)
EXTENDS Naturals, Sequences, FiniteSets, TLC

Abbrev == <<"_", "E", "W", "I", "D", "T">>           \* level + 1
AbbrevSet == {Abbrev[i] : i \in DOMAIN Abbrev}
LevelOf(a) == (CHOOSE i \in DOMAIN Abbrev : Abbrev[i] = a) - 1
Digit == {"0", "1", "2", "3", "4", "5", "6", "7", "8", "9"}

First(s, S) == IF \E i \in DOMAIN s : s[i] \in S
               THEN CHOOSE i \in DOMAIN s : s[i] \in S /\ \A j \in 1..(i - 1) : s[j] \notin S
               ELSE 0
From(s, i) == SubSeq(s, i, Len(s))
Upto(s, i) == SubSeq(s, 1, i)
RECURSIVE Str(_)
Str(s) == IF s = <<>> THEN "" ELSE Head(s) \o Str(Tail(s))
CountOf(s, c) == Cardinality({i \in DOMAIN s : s[i] = c})

\* "2006-01-02 15:04:05.000000": the shape of a time stamp in positions 1..26
TsShape(s) == /\ Len(s) >= 26
              /\ \A i \in {1, 2, 3, 4, 6, 7, 9, 10, 12, 13, 15, 16, 18, 19, 21, 22, 23, 24, 25, 26} : s[i] \in Digit
              /\ s[5] = "-" /\ s[8] = "-" /\ s[11] = " " /\ s[14] = ":" /\ s[17] = ":" /\ s[20] = "."
\* linePrefixMatcher: time stamp, space, [level], space
HasLogPrefix(s) == /\ Len(s) >= 31 /\ TsShape(s)
                   /\ s[27] = " " /\ s[28] = "[" /\ s[29] \in AbbrevSet /\ s[30] = "]" /\ s[31] = " "
ModelTs == <<"2", "0", "2", "4", "-", "0", "1", "-", "0", "1", " ", "0", "0", ":", "0", "0", ":", "0", "0", ".",
             "0", "0", "0", "0", "0", "0">>
PrefixFor(lv) == ModelTs \o <<" ", "[", Abbrev[lv + 1], "]", " ">>
Chars3 == <<".", ".", ".">>

\* ---------------------------------------------------------------- neutralization.go
RECURSIVE Neutralize(_)
Neutralize(s) == IF s = <<>> THEN <<>>
                 ELSE IF Head(s) = "ESC" THEN <<"^", "[">> \o Neutralize(Tail(s))
                 ELSE IF Head(s) = "CR" THEN <<"\\", "r">> \o Neutralize(Tail(s))
                 ELSE <<Head(s)>> \o Neutralize(Tail(s))

\* ---------------------------------------------------------------- logger.go write
\* scope as characters (<<>> = root logger); message: formatted text ending in LF
ScopePart(scope) == IF scope = <<>> THEN <<>> ELSE <<"[">> \o scope \o <<"]", " ">>
WriteLine(lv, scope, message) ==
  LET i == First(message, {"CR"})
      m1 == IF i > 0 THEN Upto(message, i - 1) \o Chars3 \o <<"LF">> ELSE message
      j == First(m1, {"LF"})
      m2 == IF j # Len(m1) THEN Upto(m1, j - 1) \o Chars3 \o <<"LF">> ELSE m1
  IN Neutralize(PrefixFor(lv) \o ScopePart(scope) \o m2)
\* Logger.log / logf: the level gate; fmt.Sprintln(msg) and Sprintf("%s\n", msg) both append LF
Log(llevel, lv, scope, msg) == IF llevel >= lv THEN WriteLine(lv, scope, msg \o <<"LF">>) ELSE <<>>

\* ---------------------------------------------------------------- logger.go Writer callback
RelayLine(llevel, wlevel, scope, line) ==
  IF ~HasLogPrefix(line) THEN Log(llevel, wlevel, scope, line)
  ELSE IF llevel < LevelOf(line[29]) THEN <<>>
  ELSE Neutralize(Upto(line, 31) \o ScopePart(scope) \o From(line, 32) \o <<"LF">>)

\* ---------------------------------------------------------------- line_processor.go
TrimCR(b) == IF b # <<>> /\ b[Len(b)] = "CR" THEN Upto(b, Len(b) - 1) ELSE b
\* the complete lines of a buffer and what is left over
RECURSIVE Lines(_)
Lines(b) == LET i == First(b, {"LF"}) IN
            IF i = 0 THEN [lines |-> <<>>, rest |-> b]
            ELSE LET r == Lines(From(b, i + 1)) IN [lines |-> <<TrimCR(Upto(b, i - 1))>> \o r.lines, rest |-> r.rest]
RECURSIVE RelayAll(_, _, _, _)
RelayAll(llevel, wlevel, scope, ls) == IF ls = <<>> THEN <<>>
  ELSE RelayLine(llevel, wlevel, scope, Head(ls)) \o RelayAll(llevel, wlevel, scope, Tail(ls))
\* one Write call: state [buf, out]
LPWrite(st, data, llevel, wlevel, scope) ==
  LET r == Lines(st.buf \o data) IN [buf |-> r.rest, out |-> st.out \o RelayAll(llevel, wlevel, scope, r.lines)]
\* the whole stream in one piece
Relay(llevel, wlevel, scope, stream) == LPWrite([buf |-> <<>>, out |-> <<>>], stream, llevel, wlevel, scope).out

\* ---------------------------------------------------------------- the property on an output
\* the output split at its LFs
OutLines(out) == Lines(out)
LineShape(line, scope) ==
  /\ HasLogPrefix(line)
  /\ scope # <<>> => /\ Len(line) >= 31 + Len(scope) + 3
                     /\ SubSeq(line, 32, 31 + Len(scope) + 3) = ScopePart(scope)
C44_OneLinePerRecord(out, expected) == /\ CountOf(out, "LF") = expected
                                       /\ out # <<>> => out[Len(out)] = "LF"
C44_Neutral(out) == \A i \in DOMAIN out : out[i] \notin {"CR", "ESC"}
C44_Prefixed(out, scope) == LET r == OutLines(out) IN
                            \A k \in DOMAIN r.lines : LineShape(r.lines[k], scope)
\* the level letter of a directly logged record
C44_LevelShown(out, lv) == LET r == OutLines(out) IN \A k \in DOMAIN r.lines : r.lines[k][29] = Abbrev[lv + 1]
\* records of a relayed stream that pass the gates
PassesRelay(llevel, wlevel, line) == IF HasLogPrefix(line) THEN llevel >= LevelOf(line[29]) ELSE llevel >= wlevel
ExpectedRelay(llevel, wlevel, stream) ==
  LET ls == Lines(stream).lines IN Cardinality({k \in DOMAIN ls : PassesRelay(llevel, wlevel, ls[k])})

\* ---------------------------------------------------------------- the bounded domain
\* message / stream tokens: a text character, LF, CR, ESC, a forged error-level prefix, a forged trace-level prefix
TokExpand(t) == IF t = "PE" THEN PrefixFor(1) ELSE IF t = "PT" THEN PrefixFor(5) ELSE <<t>>
RECURSIVE Expand(_)
Expand(ts) == IF ts = <<>> THEN <<>> ELSE TokExpand(Head(ts)) \o Expand(Tail(ts))
====
