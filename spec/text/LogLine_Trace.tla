---- MODULE LogLine_Trace ----
(***************************************************************************)
(* Trace validation for C44.  "Log": one message through one level method   *)
(* of a real logging.Logger (root, sub- or sub-sub-logger) writing to a     *)
(* buffer; "Relay": one byte stream written, under several fragmentations,  *)
(* to the io.Writer returned by Logger.Writer.  Inputs and outputs are      *)
(* recorded character by character (LF, CR, ESC by name).  The verdict is   *)
(* given by the C44_* operators of LogLine on the real output only; the     *)
(* transcription's own output is compared as conformance drift (time stamps *)
(* masked).                                                                 *)
(***************************************************************************)
EXTENDS LogLine, TraceKit

CONSTANTS Want, MinLen
VARIABLES l, fails, prevL, prevR, nlog, nrelay, maxL, maxR, drift, done
tvars == <<l, fails, prevL, prevR, nlog, nrelay, maxL, maxR, drift, done>>

TokOrder == <<"a", "LF", "CR", "ESC", "PE", "PT">>
NTok == Len(TokOrder)
Rank(t) == IF \E i \in DOMAIN TokOrder : TokOrder[i] = t THEN CHOOSE i \in DOMAIN TokOrder : TokOrder[i] = t ELSE 0
Scopes == << <<>>, <<"s">>, <<"s", ".", "t">> >>
RECURSIVE Pow(_, _)
Pow(b, e) == IF e = 0 THEN 1 ELSE b * Pow(b, e - 1)
RECURSIVE SumPow(_, _)
SumPow(b, n) == IF n = 0 THEN 1 ELSE Pow(b, n) + SumPow(b, n - 1)
SeqLess(a, b) == IF Len(a) # Len(b) THEN Len(a) < Len(b)
                 ELSE \E d \in DOMAIN a : /\ \A j \in 1..(d - 1) : a[j] = b[j]
                                          /\ Rank(a[d]) < Rank(b[d])
NumLess(a, b) == \E d \in DOMAIN a : (\A j \in 1..(d - 1) : a[j] = b[j]) /\ a[d] < b[d]
KeyLess(x, y) == IF x.toks # y.toks THEN SeqLess(x.toks, y.toks) ELSE NumLess(x.k, y.k)

IsDom(in) == in.dom = "box"
InWF(in) == /\ {"dom", "toks", "chars", "ll", "sc", "scope"} \subseteq DOMAIN in
            /\ in.sc \in 1..3 /\ in.scope = Scopes[in.sc] /\ in.ll \in 0..5
            /\ IsDom(in) => (\A i \in DOMAIN in.toks : Rank(in.toks[i]) > 0) /\ Expand(in.toks) = in.chars
LogWF(r) == /\ {"in", "out"} \subseteq DOMAIN r /\ InWF(r.in) /\ (IsDom(r.in) => r.in.ll \in {0, 1, 3, 5})
            /\ {"lv", "method"} \subseteq DOMAIN r.in /\ r.in.lv \in 1..5
RelayWF(r) == /\ {"in", "outs"} \subseteq DOMAIN r /\ InWF(r.in)
              /\ "wl" \in DOMAIN r.in /\ r.in.wl \in 1..5 /\ r.outs # <<>>
              /\ IsDom(r.in) => r.in.ll \in {0, 1, 3, 5} /\ r.in.wl \in {1, 3} /\ r.in.sc \in 1..2

\* output without the 26 time stamp characters of every line
RECURSIVE DropTs(_)
DropTs(ls) == IF ls = <<>> THEN <<>> ELSE <<From(Head(ls), 27)>> \o DropTs(Tail(ls))
Masked(out) == LET r == Lines(out) IN [lines |-> DropTs(r.lines), rest |-> r.rest]

LogFails(i, r) ==
  IF ~LogWF(r) THEN <<Fail(i, "C44_TraceAccepted")>>
  ELSE Chk(Want, i, "C44_OneLinePerRecord", C44_OneLinePerRecord(r.out, IF r.in.ll >= r.in.lv THEN 1 ELSE 0))
    \o Chk(Want, i, "C44_Neutral", C44_Neutral(r.out))
    \o Chk(Want, i, "C44_Prefixed", C44_Prefixed(r.out, r.in.scope) /\ C44_LevelShown(r.out, r.in.lv))
    \o (IF IsDom(r.in) /\ prevL # <<>> /\ ~KeyLess(prevL[1], [toks |-> r.in.toks, k |-> <<r.in.ll, r.in.lv, r.in.sc>>])
        THEN <<Fail(i, "C44_DomainCovered")>> ELSE <<>>)
RelayFails(i, r) ==
  IF ~RelayWF(r) THEN <<Fail(i, "C44_TraceAccepted")>>
  ELSE LET exp == ExpectedRelay(r.in.ll, r.in.wl, r.in.chars) IN
       Chk(Want, i, "C44_OneLinePerRecord", \A k \in DOMAIN r.outs : C44_OneLinePerRecord(r.outs[k], exp))
    \o Chk(Want, i, "C44_Neutral", \A k \in DOMAIN r.outs : C44_Neutral(r.outs[k]))
    \o Chk(Want, i, "C44_Prefixed", \A k \in DOMAIN r.outs : C44_Prefixed(r.outs[k], r.in.scope))
    \o Chk(Want, i, "C44_FragmentationIndependent", \A k \in DOMAIN r.outs : Masked(r.outs[k]) = Masked(r.outs[1]))
    \o (IF IsDom(r.in) /\ prevR # <<>> /\ ~KeyLess(prevR[1], [toks |-> r.in.toks, k |-> <<r.in.ll, r.in.wl, r.in.sc>>])
        THEN <<Fail(i, "C44_DomainCovered")>> ELSE <<>>)
LogConforms(r) == Masked(r.out) = Masked(Log(r.in.ll, r.in.lv, r.in.scope, r.in.chars))
RelayConforms(r) == Masked(r.outs[1]) = Masked(Relay(r.in.ll, r.in.wl, r.in.scope, r.in.chars))

Max(a, b) == IF a > b THEN a ELSE b
TInit == /\ l = 1 /\ fails = <<>> /\ prevL = <<>> /\ prevR = <<>> /\ nlog = 0 /\ nrelay = 0 /\ maxL = 0 /\ maxR = 0
         /\ drift = 0 /\ done = FALSE
Step == /\ l <= NRec
        /\ LET r == Trace[l] IN
           IF r.ev = "Log" THEN
             LET dom == LogWF(r) /\ IsDom(r.in) IN
             /\ fails' = Cap(fails \o LogFails(l, r))
             /\ prevL' = IF dom THEN <<[toks |-> r.in.toks, k |-> <<r.in.ll, r.in.lv, r.in.sc>>]>> ELSE prevL
             /\ nlog' = IF dom THEN nlog + 1 ELSE nlog
             /\ maxL' = IF dom THEN Max(maxL, Len(r.in.toks)) ELSE maxL
             /\ drift' = IF LogWF(r) /\ "Conforms" \in Want /\ ~LogConforms(r) THEN drift + 1 ELSE drift
             /\ UNCHANGED <<prevR, nrelay, maxR>>
           ELSE IF r.ev = "Relay" THEN
             LET dom == RelayWF(r) /\ IsDom(r.in) IN
             /\ fails' = Cap(fails \o RelayFails(l, r))
             /\ prevR' = IF dom THEN <<[toks |-> r.in.toks, k |-> <<r.in.ll, r.in.wl, r.in.sc>>]>> ELSE prevR
             /\ nrelay' = IF dom THEN nrelay + 1 ELSE nrelay
             /\ maxR' = IF dom THEN Max(maxR, Len(r.in.toks)) ELSE maxR
             /\ drift' = IF RelayWF(r) /\ "Conforms" \in Want /\ ~RelayConforms(r) THEN drift + 1 ELSE drift
             /\ UNCHANGED <<prevL, nlog, maxL>>
           ELSE /\ fails' = Cap(Append(fails, Fail(l, "C44_TraceAccepted")))
                /\ UNCHANGED <<prevL, prevR, nlog, nrelay, maxL, maxR, drift>>
        /\ l' = l + 1 /\ UNCHANGED done
Covered == NRec > 1 => /\ maxL >= MinLen /\ maxR >= MinLen
                       /\ nlog = SumPow(NTok, maxL) * 60
                       /\ nrelay = SumPow(NTok, maxR) * 16
Finish == /\ l = NRec + 1 /\ ~done
          /\ WriteResult(l - 1,
                         Cap(fails \o (IF "C44_DomainCovered" \in Want /\ ~Covered THEN <<Fail(NRec, "C44_DomainCovered")>> ELSE <<>>)),
                         [stat_drift |-> drift, stat_log_cases |-> nlog, stat_relay_cases |-> nrelay])
          /\ done' = TRUE /\ UNCHANGED <<l, fails, prevL, prevR, nlog, nrelay, maxL, maxR, drift>>
TNext == Step \/ Finish
TSpec == TInit /\ [][TNext]_tvars
====
