---- MODULE Argv_MCdefs ----
EXTENDS Argv_MC
QuickSsh == <<1, 3, 3, 1>>
QuickDocker == <<1, 1, 0, 2>>
ThoroughSsh == <<2, 3, 3, 1>>
ThoroughDocker == <<1, 3, 1, 2>>
====
