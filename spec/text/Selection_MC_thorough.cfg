CONSTANTS MaxPop = 3 MaxDepth = 3
SPECIFICATION Spec
INVARIANTS InvSelect InvDfs InvTrunc
CHECK_DEADLOCK FALSE
