---- MODULE Config_Trace ----
(***************************************************************************)
(* Trace validation for C37.  "Cfg" records: one key of the factored        *)
(* domain; the real configurations must be the ones Config!TripleAt(key)    *)
(* stands for (binding of the abstract values), the keys must enumerate the *)
(* whole domain in increasing order, and the property operators of Config   *)
(* judge the real acceptance / merge / endpoint results.  "Frame" records:  *)
(* one lower configuration merged with several higher ones; every result    *)
(* and operand is read again afterwards and after in-place mutation of the  *)
(* others (C37_MergeFresh).  "Text" records: the text form and re-parse of  *)
(* one enumeration value.                                                   *)
(***************************************************************************)
EXTENDS Config, TraceKit

CONSTANTS Want
VARIABLES l, fails, prev, prevF, ncfg, nframe, nacc, seenText, drift, done
tvars == <<l, fails, prev, prevF, ncfg, nframe, nacc, seenText, drift, done>>

IdxLess(a, b) == IF a[1] # b[1] THEN a[1] < b[1]
                 ELSE \E d \in DOMAIN a : /\ \A j \in 1..(d - 1) : a[j] = b[j]
                                          /\ a[d] < b[d]
CfgFields == {"in", "c", "ca", "cb", "ma", "mb", "accSession", "accCreate", "vma", "vmb", "loca", "locb", "defaults"}
IsCfgMap(m) == DOMAIN m = FieldSet
CfgWF(r) == /\ CfgFields \subseteq DOMAIN r
            /\ "k" \in DOMAIN r.in /\ r.in.k # <<>> /\ KeyOK(r.in.k)
            /\ IsCfgMap(r.c) /\ IsCfgMap(r.ca) /\ IsCfgMap(r.cb) /\ IsCfgMap(r.ma) /\ IsCfgMap(r.mb)
            /\ {"perm", "fmode", "portable"} \subseteq DOMAIN r.defaults
\* the recorded real configurations are the ones the key denotes
Bound(r) == LET t == TripleAt(r.in.k) IN
            r.c = Concrete(t.c) /\ r.ca = Concrete(t.ca) /\ r.cb = Concrete(t.cb)
\* agreement with the transcription (conformance only)
Conforms(r) == LET t == TripleAt(r.in.k) IN
               /\ r.accSession = SessionAccepts(t.c, t.ca, t.cb)
               /\ r.accCreate = SessionAccepts(t.c, t.ca, t.cb)
               /\ r.vma = Valid(Merge(t.c, t.ca), FALSE) /\ r.vmb = Valid(Merge(t.c, t.cb), FALSE)
               /\ r.ma = Concrete(Merge(t.c, t.ca)) /\ r.mb = Concrete(Merge(t.c, t.cb))

CfgFails(i, r) ==
  IF ~CfgWF(r) THEN <<Fail(i, "C37_TraceAccepted")>>
  ELSE Chk(Want, i, "C37_TraceAccepted", Bound(r))
    \o Chk(Want, i, "C37_Override", C37_Override(r))
    \o Chk(Want, i, "C37_EndpointAccepts", C37_EndpointAccepts(r))
    \o Chk(Want, i, "C37_NoExecBits", C37_NoExecBits(r))
    \o (IF prev # <<>> /\ ~IdxLess(prev[1], r.in.k) THEN <<Fail(i, "C37_DomainCovered")>> ELSE <<>>)

\* ---- Frame records (MergeConfigurations yields a fresh value)
FrameFields == {"in", "lower", "highers", "first", "after", "lowerAfter", "highersAfter", "firstB", "resMut", "opMut"}
AllCfg(q) == \A j \in DOMAIN q : IsCfgMap(q[j])
FrameWF(r) == /\ FrameFields \subseteq DOMAIN r /\ "k" \in DOMAIN r.in /\ FrameKeyOK(r.in.k)
              /\ IsCfgMap(r.lower) /\ IsCfgMap(r.lowerAfter) /\ AllCfg(r.highers) /\ AllCfg(r.highersAfter)
              /\ AllCfg(r.first) /\ AllCfg(r.after) /\ AllCfg(r.firstB)
              /\ Len(r.highers) = Len(FrameHighers(r.in.k)) /\ Len(r.first) = Len(r.highers) /\ Len(r.after) = Len(r.first)
              /\ Len(r.firstB) = Len(r.first) /\ Len(r.highersAfter) = Len(r.highers)
              /\ {"lower", "highers", "results"} \subseteq DOMAIN r.resMut /\ "results" \in DOMAIN r.opMut
              /\ Len(r.resMut.results) = Len(r.first) - 1 /\ Len(r.opMut.results) = Len(r.first) - 1
              /\ AllCfg(r.resMut.results) /\ AllCfg(r.opMut.results) /\ IsCfgMap(r.resMut.lower) /\ AllCfg(r.resMut.highers)
\* the operands are the ones the key denotes
FrameBound(r) == /\ r.lower = Concrete(ListCfg(r.in.k[1]))
                 /\ \A j \in DOMAIN r.highers : r.highers[j] = Concrete(ListCfg(FrameHighers(r.in.k)[j]))
FrameConforms(r) == \A j \in DOMAIN r.first : r.first[j] = FrameExpected(r.in.k, j)
FrameFails(i, r) ==
  IF ~FrameWF(r) THEN <<Fail(i, "C37_TraceAccepted")>>
  ELSE Chk(Want, i, "C37_TraceAccepted", FrameBound(r))
    \o Chk(Want, i, "C37_MergeFresh", C37_MergeFresh(r))
    \o (IF prevF # <<>> /\ ~IdxLess(<<0>> \o prevF[1], <<0>> \o r.in.k) THEN <<Fail(i, "C37_DomainCovered")>> ELSE <<>>)

TextWF(r) == {"type", "value", "text", "ok", "back"} \subseteq DOMAIN r /\ (r.type = "fsmode" \/ r.type \in TextTypes)
TextFails(i, r) ==
  IF ~TextWF(r) THEN <<Fail(i, "C37_TraceAccepted")>>
  ELSE Chk(Want, i, "C37_TextRoundTrip", C37_TextRoundTrip(r))
TextConforms(r) == r.type = "fsmode" \/ (HasText(r.type, r.value) => r.text = TextOf(r.type, r.value))
AllText == {<<t, v>> : t \in TextTypes, v \in 0..4} \cap {<<t, v>> \in TextTypes \X (0..5) : v <= Len(TextNames[t])}

TInit == /\ l = 1 /\ fails = <<>> /\ prev = <<>> /\ prevF = <<>> /\ nframe = 0 /\ ncfg = 0 /\ nacc = 0 /\ seenText = {} /\ drift = 0 /\ done = FALSE
Step == /\ l <= NRec
        /\ LET r == Trace[l] IN
           IF r.ev = "Cfg" THEN
             LET wf == CfgWF(r) IN
             /\ fails' = Cap(fails \o CfgFails(l, r))
             /\ prev' = IF wf THEN <<r.in.k>> ELSE prev
             /\ ncfg' = IF wf THEN ncfg + 1 ELSE ncfg
             /\ nacc' = IF wf /\ Accepted(r) THEN nacc + 1 ELSE nacc
             /\ drift' = IF wf /\ "Conforms" \in Want /\ ~Conforms(r) THEN drift + 1 ELSE drift
             /\ UNCHANGED <<seenText, prevF, nframe>>
           ELSE IF r.ev = "Frame" THEN
             LET wf == FrameWF(r) IN
             /\ fails' = Cap(fails \o FrameFails(l, r))
             /\ prevF' = IF wf THEN <<r.in.k>> ELSE prevF
             /\ nframe' = IF wf THEN nframe + 1 ELSE nframe
             /\ drift' = IF wf /\ "Conforms" \in Want /\ ~FrameConforms(r) THEN drift + 1 ELSE drift
             /\ UNCHANGED <<prev, ncfg, nacc, seenText>>
           ELSE IF r.ev = "Text" THEN
             /\ fails' = Cap(fails \o TextFails(l, r))
             /\ seenText' = IF TextWF(r) THEN seenText \cup {<<r.type, r.value>>} ELSE seenText
             /\ drift' = IF TextWF(r) /\ "Conforms" \in Want /\ ~TextConforms(r) THEN drift + 1 ELSE drift
             /\ UNCHANGED <<prev, prevF, ncfg, nframe, nacc>>
           ELSE /\ fails' = Cap(Append(fails, Fail(l, "C37_TraceAccepted")))
                /\ UNCHANGED <<prev, prevF, ncfg, nframe, nacc, seenText, drift>>
        /\ l' = l + 1 /\ UNCHANGED done
\* a full run (a replay has one record) covers every key and every enumeration value
Covered == NRec > 1 => /\ ncfg = NKeys /\ nframe = NFrameKeys
                       /\ AllText \subseteq seenText
                       /\ \E p \in seenText : p[1] = "fsmode"
Finish == /\ l = NRec + 1 /\ ~done
          /\ WriteResult(l - 1,
                         Cap(fails \o (IF "C37_DomainCovered" \in Want /\ ~Covered THEN <<Fail(NRec, "C37_DomainCovered")>> ELSE <<>>)),
                         [stat_drift |-> drift, stat_configurations |-> ncfg, stat_frame_scenarios |-> nframe, stat_accepted |-> nacc,
                          stat_text_values |-> Cardinality(seenText)])
          /\ done' = TRUE /\ UNCHANGED <<l, fails, prev, prevF, ncfg, nframe, nacc, seenText, drift>>
TNext == Step \/ Finish
TSpec == TInit /\ [][TNext]_tvars
====
