CONSTANTS Tokens = {"-", "a", "@", "/", "o", " ", "TAB", "LF"}
  SshBox <- ThoroughSsh
  DockerBox <- ThoroughDocker
SPECIFICATION Spec
INVARIANTS InvC36
CHECK_DEADLOCK FALSE
