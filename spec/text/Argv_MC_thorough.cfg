CONSTANTS Tokens = {"-", "a", "@", ":", "/", "o", "="}
  SshBox <- ThoroughSsh
  DockerBox <- ThoroughDocker
SPECIFICATION Spec
INVARIANTS InvC36
CHECK_DEADLOCK FALSE
