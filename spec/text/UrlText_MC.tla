---- MODULE UrlText_MC ----
(***************************************************************************)
(* Leg D of C38: every token string of the bound (optionally behind the     *)
(* docker:// prefix), for both URL kinds.  The state is the string; Next    *)
(* appends one token, so the reachable states are exactly the domain and    *)
(* the invariants are evaluated once per input.                             *)
(***************************************************************************)
EXTENDS UrlText
CONSTANTS Tokens, MaxLen, Mode     \* Mode = "flat": all token strings up to MaxLen; "gram": the grammar domain
VARIABLES kind, pre, toks
vars == <<kind, pre, toks>>

HomeMC == <<"/", "h">>
CwdMC == <<"/", "w">>
EnvMC == [DOCKER_HOST |-> "tcp://dh:1"]

Raw == (IF pre THEN <<DockerPrefix>> ELSE <<>>) \o toks

Init == /\ kind \in {"sync", "fwd"} /\ pre \in BOOLEAN
        /\ IF Mode = "flat" THEN toks = <<>> ELSE toks \in {GramAt(g) : g \in GramTuples} \cup {CaseAt(g) : g \in CaseTuples} \cup {SchemeAt(g) : g \in SchemeTuples}
Next == /\ Mode = "flat" /\ Len(toks) < MaxLen
        /\ \E t \in Tokens : toks' = Append(toks, t)
        /\ UNCHANGED <<kind, pre>>
Spec == Init /\ [][Next]_vars

\* C38 on the model (ParsedValid /\ RoundTrip of UrlText, one Parse evaluation)
InvC38 == LET p == Parse(Raw, kind, HomeMC, CwdMC, EnvMC) IN
          p.ok => Valid(p.u) /\ Parse(Format(p.u), kind, HomeMC, CwdMC, EnvMC) = p
\* vacuity monitors (checked once with their negation as an invariant)
SomeSSHPort0 == LET p == Parse(Raw, kind, HomeMC, CwdMC, EnvMC) IN p.ok /\ p.u.proto = "ssh" /\ p.u.port = 0 /\ PortLike(p.u.path)
====
