---- MODULE Identifier ----
(***************************************************************************)
(* C39: session identifiers are well formed and distinct; names that look   *)
(* like identifiers or are reserved are rejected.                           *)
(*                                                                         *)
(*   Encode62      encoding/base62.go + eknkc/basex Encode: one "0" per      *)
(*                 leading zero byte (but the last), then the base-62 digits *)
(*                 of the number.  TLC integers are 32-bit, so the 256-bit   *)
(*                 number is divided as a sequence of base-256 digits.       *)
(*   NewId         identifier.go New: prefix, "_", left padding with "0" to  *)
(*                 43 characters, the encoding                               *)
(*   IsValidId, Truncated   identifier.go                                    *)
(*   NameValid     selection/names.go EnsureNameValid                        *)
(* Identifiers and names are sequences of one-character strings.            *)
(***************************************************************************)
EXTENDS Naturals, Sequences, FiniteSets, TLC

Alphabet == <<"0", "1", "2", "3", "4", "5", "6", "7", "8", "9",
              "a", "b", "c", "d", "e", "f", "g", "h", "i", "j", "k", "l", "m", "n", "o", "p", "q", "r", "s", "t", "u", "v", "w", "x", "y", "z",
              "A", "B", "C", "D", "E", "F", "G", "H", "I", "J", "K", "L", "M", "N", "O", "P", "Q", "R", "S", "T", "U", "V", "W", "X", "Y", "Z">>
AlphaSet == {Alphabet[i] : i \in DOMAIN Alphabet}
Lower == {Alphabet[i] : i \in 11..36}
Upper == {Alphabet[i] : i \in 37..62}
Digits == {Alphabet[i] : i \in 1..10}
Hex == Digits \cup {"a", "b", "c", "d", "e", "f", "A", "B", "C", "D", "E", "F"}
LowHex == Digits \cup {"a", "b", "c", "d", "e", "f"}
TargetLen == 43
PrefixLen == 4
IdLen == PrefixLen + 1 + TargetLen
Upto(s, i) == SubSeq(s, 1, i)
From(s, i) == SubSeq(s, i, Len(s))
RECURSIVE Str(_)
Str(s) == IF s = <<>> THEN "" ELSE Head(s) \o Str(Tail(s))

\* ---------------------------------------------------------------- base conversion
\* one long division of a base-256 digit sequence by 62: [q, r]
RECURSIVE DivStep(_, _, _)
DivStep(b, i, rem) == IF i > Len(b) THEN [q |-> <<>>, r |-> rem]
                      ELSE LET cur == rem * 256 + b[i]
                               nx == DivStep(b, i + 1, cur % 62)
                           IN [q |-> <<cur \div 62>> \o nx.q, r |-> nx.r]
IsZero(b) == \A i \in DOMAIN b : b[i] = 0
\* base-62 digits, most significant first ("0" for zero)
RECURSIVE Digits62(_)
Digits62(b) == LET d == DivStep(b, 1, 0) IN
               IF IsZero(d.q) THEN <<Alphabet[d.r + 1]>> ELSE Digits62(d.q) \o <<Alphabet[d.r + 1]>>
RECURSIVE LeadingZeros(_)
LeadingZeros(b) == IF Len(b) > 1 /\ b[1] = 0 THEN 1 + LeadingZeros(Tail(b)) ELSE 0
Zeros(n) == [i \in 1..n |-> "0"]
Encode62(b) == IF b = <<>> THEN <<>> ELSE Zeros(LeadingZeros(b)) \o Digits62(b)
\* identifier.New on the random bytes drawn
NewId(prefix, b) == LET e == Encode62(b) IN prefix \o <<"_">> \o Zeros(TargetLen - Len(e)) \o e
PrefixOK(p) == Len(p) = PrefixLen /\ \A i \in DOMAIN p : p[i] \in Lower

\* ---------------------------------------------------------------- validation
IsNewStyle(id) == /\ Len(id) = IdLen /\ \A i \in 1..PrefixLen : id[i] \in Lower
                  /\ id[PrefixLen + 1] = "_" /\ \A i \in (PrefixLen + 2)..IdLen : id[i] \in AlphaSet
UuidShape(s, hexset) == /\ Len(s) = 36 /\ s[9] = "-" /\ s[14] = "-" /\ s[19] = "-" /\ s[24] = "-"
                        /\ \A i \in (1..36) \ {9, 14, 19, 24} : s[i] \in hexset
IsValidId(id) == IsNewStyle(id) \/ UuidShape(id, LowHex)
Truncated(id) == IF IsNewStyle(id) THEN Upto(id, PrefixLen + 1 + 8) ELSE IF UuidShape(id, LowHex) THEN Upto(id, 8) ELSE <<>>

\* selection.EnsureNameValid restricted to ASCII
Letters == Lower \cup Upper
NameValid(n) == /\ \A i \in DOMAIN n : n[i] \in Letters \/ (i > 1 /\ (n[i] \in Digits \/ n[i] = "-"))
                /\ ~((\E i \in DOMAIN n : n[i] = "-") /\ UuidShape(n, Hex))
                /\ Str(n) # "defaults"

\* ---------------------------------------------------------------- C39 on observations
IsPrefixOf(p, s) == Len(p) <= Len(s) /\ Upto(s, Len(p)) = p
C39_WellFormed(prefix, id) == /\ Len(id) = IdLen /\ Upto(id, PrefixLen) = prefix /\ id[PrefixLen + 1] = "_"
                              /\ \A i \in (PrefixLen + 2)..IdLen : id[i] \in AlphaSet
C39_TruncatedPrefix(id, trunc) == trunc # <<>> /\ IsPrefixOf(trunc, id) /\ Len(trunc) < Len(id)
\* an accepted name is not (and does not look like) an identifier, and is not reserved
C39_NameRule(name, accepted, isIdentifier) ==
  accepted => /\ ~isIdentifier /\ ~UuidShape(name, Hex) /\ Str(name) # "defaults"

\* ---------------------------------------------------------------- the bounded domain
\* 32 random bytes: k leading zero bytes, one boundary byte, a fill pattern
Firsts == <<1, 61, 62, 63, 255>>
Fills == <<0, 255, 1>>
BytesOf(k, f, g) == [i \in 1..32 |-> IF i <= k THEN 0 ELSE IF i = k + 1 THEN Firsts[f] ELSE Fills[g]]
AllZero == [i \in 1..32 |-> 0]
\* names: five groups of 8-4-4-4-12 characters, each drawn from four variants, joined by dashes
GroupLen == <<8, 4, 4, 4, 12>>
Rep(c, n) == [i \in 1..n |-> c]
Variant(v, n) == IF v = 1 THEN Rep("a", n) ELSE IF v = 2 THEN Rep("1", n) ELSE IF v = 3 THEN Rep("F", n) ELSE Rep("b", n - 1)
NameOf(vs) == Variant(vs[1], 8) \o <<"-">> \o Variant(vs[2], 4) \o <<"-">> \o Variant(vs[3], 4) \o <<"-">>
              \o Variant(vs[4], 4) \o <<"-">> \o Variant(vs[5], 12)
====
