---- MODULE LogLine_MC ----
(***************************************************************************)
(* Leg D of C44.  Mode "log": every message of the bound through every      *)
(* (logger level, method level, scope) combination.  Mode "relay": the line *)
(* processor as a state machine - the stream is written in arbitrary        *)
(* fragments (one action per Write call); when everything has been written  *)
(* the output must be what the unfragmented stream gives and satisfy the    *)
(* line properties.                                                         *)
(***************************************************************************)
EXTENDS LogLine
CONSTANTS Tokens, MaxLen, Mode
VARIABLES toks, phase, cfg, pos, st
vars == <<toks, phase, cfg, pos, st>>

Scopes == << <<>>, <<"s">>, <<"s", ".", "t">> >>
LogCfgs == {[ll |-> a, lv |-> b, sc |-> c] : a \in {0, 1, 3, 5}, b \in 1..5, c \in 1..3}
RelayCfgs == {[ll |-> a, wl |-> b, sc |-> c] : a \in {0, 1, 3, 5}, b \in {1, 3}, c \in 1..2}
NoCfg == [ll |-> 0]
Empty == [buf |-> <<>>, out |-> <<>>]

Init == toks = <<>> /\ phase = "grow" /\ cfg = NoCfg /\ pos = 0 /\ st = Empty
Grow == /\ phase = "grow" /\ Len(toks) < MaxLen
        /\ \E t \in Tokens : toks' = Append(toks, t)
        /\ UNCHANGED <<phase, cfg, pos, st>>
\* log mode: pick the configuration and log the message
DoLog == /\ Mode = "log" /\ phase = "grow"
         /\ \E c \in LogCfgs : cfg' = c /\ st' = [buf |-> <<>>, out |-> Log(c.ll, c.lv, Scopes[c.sc], Expand(toks))]
         /\ phase' = "done" /\ pos' = Len(toks) /\ UNCHANGED toks
\* relay mode: pick the configuration, then write the stream in fragments
Start == /\ Mode = "relay" /\ phase = "grow"
         /\ \E c \in RelayCfgs : cfg' = c
         /\ phase' = "write" /\ UNCHANGED <<toks, pos, st>>
Write == /\ phase = "write" /\ pos < Len(toks)
         /\ \E k \in 1..(Len(toks) - pos) :
              /\ st' = LPWrite(st, Expand(SubSeq(toks, pos + 1, pos + k)), cfg.ll, cfg.wl, Scopes[cfg.sc])
              /\ pos' = pos + k
         /\ UNCHANGED <<toks, phase, cfg>>
Next == Grow \/ DoLog \/ Start \/ Write
Spec == Init /\ [][Next]_vars

InvLog == (Mode = "log" /\ phase = "done") =>
  /\ C44_OneLinePerRecord(st.out, IF cfg.ll >= cfg.lv THEN 1 ELSE 0)
  /\ C44_Neutral(st.out) /\ C44_Prefixed(st.out, Scopes[cfg.sc]) /\ C44_LevelShown(st.out, cfg.lv)
InvRelay == (phase = "write" /\ pos = Len(toks)) =>
  /\ st.out = Relay(cfg.ll, cfg.wl, Scopes[cfg.sc], Expand(toks))           \* fragmentation does not matter
  /\ C44_OneLinePerRecord(st.out, ExpectedRelay(cfg.ll, cfg.wl, Expand(toks)))
  /\ C44_Neutral(st.out) /\ C44_Prefixed(st.out, Scopes[cfg.sc])
====
