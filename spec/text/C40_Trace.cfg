CONSTANTS Want = {"C40_SelectExact", "C40_ExactSelection", "C40_CreationOrder", "C40_DfsOrder", "C40_Truncation", "C40_DomainCovered", "C40_TraceAccepted"} MinPop = 2 MinDepth = 2 MinHistories = 20
SPECIFICATION TSpec
CHECK_DEADLOCK FALSE
