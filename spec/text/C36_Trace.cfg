CONSTANTS Want = {"C36_Operand", "C36_ComponentIntact", "C36_RejectedBeforeCommand", "C36_TraceAccepted", "C36_DomainCovered", "Conforms"}
SPECIFICATION TSpec
CHECK_DEADLOCK FALSE
