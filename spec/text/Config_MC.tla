---- MODULE Config_MC ----
(***************************************************************************)
(* Leg D of C37: the factored configuration domain (every field alone over  *)
(* all (session, alpha, beta) value triples; the coupled permission fields; *)
(* every ordered pair of different fields) and the text forms of all mode   *)
(* enumerations.                                                            *)
(***************************************************************************)
EXTENDS Config
VARIABLES key
Init == key \in Keys1 \cup Keys2 \cup Keys3
Next == UNCHANGED key
Spec == Init /\ [][Next]_key
InvC37 == key[1] \in 1..3 => LET t == TripleAt(key) IN ModelOK(t.c, t.ca, t.cb)
InvOverride == key[1] \in 1..3 =>
  LET t == TripleAt(key)  m == Merge(t.c, t.ca) IN
  \A f \in FieldSet : IF f \in Lists THEN m[f] = t.c[f] \o t.ca[f]
                      ELSE m[f] = IF IsSet(t.ca, f) THEN t.ca[f] ELSE t.c[f]
InvText == \A t \in TextTypes : \A v \in 0..Len(TextNames[t]) : TextModelOK(t, v)
InvKeys == key[1] \in 1..3 => KeyOK(key)
\* vacuity: some accepted triple has an endpoint-specific file mode
SomeAcceptedEndpointMode == key[1] \in 1..3 /\ LET t == TripleAt(key) IN SessionAccepts(t.c, t.ca, t.cb) /\ t.ca["fmode"] # "d"
====
