CONSTANTS Fresh = TRUE MaxMerges = 3 MaxMutations = 2
SPECIFICATION Spec
INVARIANT MergeFresh
CHECK_DEADLOCK FALSE
