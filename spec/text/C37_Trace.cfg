CONSTANTS Want = {"C37_EndpointAccepts", "C37_NoExecBits", "C37_Override", "C37_MergeFresh", "C37_TextRoundTrip", "C37_DomainCovered", "C37_TraceAccepted", "Conforms"}
SPECIFICATION TSpec
CHECK_DEADLOCK FALSE
