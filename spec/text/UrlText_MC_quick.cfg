CONSTANTS Tokens = {"a", "@", ":", "/", "0", "8", "~", "unix"} MaxLen = 4 Mode = "flat"
SPECIFICATION Spec
INVARIANTS InvC38
CHECK_DEADLOCK FALSE
