CONSTANTS Tokens = {"a", "LF", "CR", "ESC", "PE", "PT"} MaxLen = 4 Mode = "log"
SPECIFICATION Spec
INVARIANTS InvLog InvRelay
CHECK_DEADLOCK FALSE
