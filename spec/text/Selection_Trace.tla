---- MODULE Selection_Trace ----
(***************************************************************************)
(* Trace validation for C40.                                                *)
(*  "Select"  one query against a real synchronization.Manager holding the  *)
(*            paused sessions of one population (scratch data directory);   *)
(*            sessions = what List(all) reports, out = what List(query)     *)
(*            returned                                                      *)
(*  "Less"    fastpath.Less on one ordered pair of paths                     *)
(*  "Sort"    core.SortConflicts / core.SortProblems on one list             *)
(*  "Listing" Manager.List of a real running session between two local      *)
(*            directories prepared with n conflicting files and n invalid   *)
(*            symbolic links per side                                       *)
(*  "History" a population, a sequence of Terminate / Pause calls (some    *)
(*            with a session file removed beforehand, so that the call     *)
(*            fails partway), then List(all), every label selector and     *)
(*            the identifier and name of every session ever created        *)
(***************************************************************************)
EXTENDS Selection, TraceKit
CONSTANTS Want, MinPop, MinDepth, MinHistories
VARIABLES l, fails, prevS, prevL, nsel, nless, nsort, maxpop, maxdepth, lists, hists, nlimbo, drift, done
tvars == <<l, fails, prevS, prevL, nsel, nless, nsort, maxpop, maxdepth, lists, hists, nlimbo, drift, done>>

NQueries == 1 + Len(Selectors) + Len(SpecSyms) + Len(SpecSyms) * Len(SpecSyms)
RECURSIVE Pow(_, _)
Pow(b, e) == IF e = 0 THEN 1 ELSE b * Pow(b, e - 1)
RECURSIVE SumPow(_, _)
SumPow(b, n) == IF n = 0 THEN 1 ELSE Pow(b, n) + SumPow(b, n - 1)
NumLess(a, b) == \E d \in DOMAIN a \cap DOMAIN b : (\A j \in 1..(d - 1) : a[j] = b[j]) /\ a[d] < b[d]
\* populations: by length, then by (name index, label index) pairs
Flat(p) == [i \in 1..(2 * Len(p)) |-> p[(i + 1) \div 2][2 - (i % 2)]]
PopLess(a, b) == IF Len(a) # Len(b) THEN Len(a) < Len(b) ELSE NumLess(Flat(a), Flat(b))
\* query index: 1 all, then the selectors, then specification lists by length and symbol index
QIndex(q) == IF q.kind = "all" THEN 1
             ELSE IF q.kind = "labels" THEN 1 + q.sel
             ELSE IF Len(q.syms) = 1 THEN 1 + Len(Selectors) + q.syms[1]
             ELSE 1 + Len(Selectors) + Len(SpecSyms) + (q.syms[1] - 1) * Len(SpecSyms) + q.syms[2]
PathLess(a, b) == IF Len(a) # Len(b) THEN Len(a) < Len(b)
                  ELSE \E d \in DOMAIN a : (\A j \in 1..(d - 1) : a[j] = b[j]) /\ NameRank(a[d]) < NameRank(b[d])

\* ---- Select
QWF(q) == /\ "kind" \in DOMAIN q
          /\ q.kind = "labels" => "sel" \in DOMAIN q /\ q.sel \in DOMAIN Selectors
          /\ q.kind = "specs" => "syms" \in DOMAIN q /\ Len(q.syms) \in 1..2 /\ \A k \in DOMAIN q.syms : q.syms[k] \in DOMAIN SpecSyms
          /\ q.kind \in {"all", "labels", "specs"}
\* the real specification string stands for the symbol
SpecBound(sym, str, sessions) ==
  IF sym \in {"id1", "id2", "id3"} THEN
    LET i == IF sym = "id1" THEN 1 ELSE IF sym = "id2" THEN 2 ELSE 3 IN
    IF i <= Len(sessions) THEN str = sessions[i].id ELSE \A j \in DOMAIN sessions : ~MatchesSpec(sessions[j], str)
  ELSE IF sym = "pre1" THEN \A j \in DOMAIN sessions : ~MatchesSpec(sessions[j], str)
  ELSE str = sym
SelectWF(r) ==
  /\ {"in", "sessions", "specs", "err", "out"} \subseteq DOMAIN r /\ {"pop", "q"} \subseteq DOMAIN r.in /\ QWF(r.in.q)
  /\ Len(r.sessions) = Len(r.in.pop)
  /\ \A i \in DOMAIN r.in.pop : /\ r.in.pop[i][1] \in 1..3 /\ r.in.pop[i][2] \in 1..4
                                /\ r.sessions[i].name = NameOf(r.in.pop[i][1])
                                /\ r.sessions[i].labels = LabelsOf(r.in.pop[i][2])
  /\ \A i, j \in DOMAIN r.sessions : i # j => r.sessions[i].id # r.sessions[j].id
  /\ r.in.q.kind = "specs" => /\ Len(r.specs) = Len(r.in.q.syms)
                              /\ \A k \in DOMAIN r.specs : SpecBound(SpecSyms[r.in.q.syms[k]], r.specs[k], r.sessions)
QOf(r) == IF r.in.q.kind = "labels" THEN [kind |-> "labels", reqs |-> Selectors[r.in.q.sel]] ELSE [kind |-> r.in.q.kind]
SelectFails(i, r) ==
  IF ~SelectWF(r) THEN <<Fail(i, "C40_TraceAccepted")>>
  ELSE Chk(Want, i, "C40_SelectExact", C40_SelectExact(r.sessions, QOf(r), r.specs, r.err, r.out))
    \o Chk(Want, i, "C40_CreationOrder", /\ C40_CreationOrder(r.out)
                                         /\ \A k \in DOMAIN r.out : \E j \in DOMAIN r.sessions :
                                              r.sessions[j].id = r.out[k].id /\ r.sessions[j].csec = r.out[k].csec /\ r.sessions[j].cnano = r.out[k].cnano)
    \o (IF prevS # <<>> /\ ~(PopLess(prevS[1].pop, r.in.pop) \/ (prevS[1].pop = r.in.pop /\ prevS[1].qi < QIndex(r.in.q)))
        THEN <<Fail(i, "C40_DomainCovered")>> ELSE <<>>)

\* ---- Less / Sort
PathWF(p, s) == IsPath(p) /\ Join(p) = s
LessWF(r) == {"a", "b", "as", "bs", "less"} \subseteq DOMAIN r /\ PathWF(r.a, r.as) /\ PathWF(r.b, r.bs)
LessFails(i, r) ==
  IF ~LessWF(r) THEN <<Fail(i, "C40_TraceAccepted")>>
  ELSE Chk(Want, i, "C40_DfsOrder", r.less = DfsLess(r.a, r.b))
    \o (IF prevL # <<>> /\ ~(PathLess(prevL[1].a, r.a) \/ (prevL[1].a = r.a /\ PathLess(prevL[1].b, r.b)))
        THEN <<Fail(i, "C40_DomainCovered")>> ELSE <<>>)
SortWF(r) == /\ {"input", "out", "kind"} \subseteq DOMAIN r
             /\ \A k \in DOMAIN r.input : IsPath(r.input[k])
             /\ \A k \in DOMAIN r.out : IsPath(r.out[k])
SortFails(i, r) == IF ~SortWF(r) THEN <<Fail(i, "C40_TraceAccepted")>>
                   ELSE Chk(Want, i, "C40_DfsOrder", C40_Sorted(r.input, r.out))

\* ---- Listing
ListingWF(r) == /\ {"in", "out", "timeout"} \subseteq DOMAIN r /\ {"conf", "probA", "probB"} \subseteq DOMAIN r.in
                /\ {"conf", "exConf", "probA", "exA", "probB", "exB"} \subseteq DOMAIN r.out
                /\ \A f \in {"conf", "probA", "probB"} : (\A k \in DOMAIN r.in[f] : IsPath(r.in[f][k])) /\ (\A k \in DOMAIN r.out[f] : IsPath(r.out[f][k]))
SetOf(s) == {s[k] : k \in DOMAIN s}
ListingFails(i, r) ==
  IF ~ListingWF(r) THEN <<Fail(i, "C40_TraceAccepted")>>
  ELSE Chk(Want, i, "C40_Truncation", /\ ~r.timeout
                                      /\ C40_Truncation(SetOf(r.in.conf), r.out.conf, r.out.exConf)
                                      /\ C40_Truncation(SetOf(r.in.probA), r.out.probA, r.out.exA)
                                      /\ C40_Truncation(SetOf(r.in.probB), r.out.probB, r.out.exB))

\* ---- History: a population, a sequence of lifecycle operations, then queries about every session ever created
HistoryWF(r) ==
  /\ {"in", "sessions", "ops", "queries"} \subseteq DOMAIN r /\ "h" \in DOMAIN r.in
  /\ \A i \in DOMAIN r.sessions : {"id", "name", "labels", "csec", "cnano", "file", "archive", "sabotaged"} \subseteq DOMAIN r.sessions[i]
  /\ \A k \in DOMAIN r.queries : {"q", "specs", "err", "out"} \subseteq DOMAIN r.queries[k] /\ QWF(r.queries[k].q)
  /\ \A k \in DOMAIN r.ops : {"op", "err"} \subseteq DOMAIN r.ops[k]
HQ(qr) == [q |-> IF qr.q.kind = "labels" THEN [kind |-> "labels", reqs |-> Selectors[qr.q.sel]] ELSE [kind |-> qr.q.kind],
           specs |-> qr.specs, err |-> qr.err, out |-> qr.out]
HistoryFails(i, r) ==
  IF ~HistoryWF(r) THEN <<Fail(i, "C40_TraceAccepted")>>
  ELSE Chk(Want, i, "C40_ExactSelection", C40_ExactSelection(r.sessions, [k \in DOMAIN r.queries |-> HQ(r.queries[k])]))
HistErrors(r) == Cardinality({k \in DOMAIN r.ops : r.ops[k].err # ""})
HistLimbo(r) == Cardinality(LimboIdx(r.sessions))

Max(a, b) == IF a > b THEN a ELSE b
PathDepth(r) == Max(Len(r.a), Len(r.b))
TInit == /\ l = 1 /\ fails = <<>> /\ prevS = <<>> /\ prevL = <<>> /\ nsel = 0 /\ nless = 0 /\ nsort = 0 /\ maxpop = 0 /\ maxdepth = 0
         /\ lists = {} /\ hists = {} /\ nlimbo = 0 /\ drift = 0 /\ done = FALSE
Step == /\ l <= NRec
        /\ LET r == Trace[l] IN
           IF r.ev = "Select" THEN
             LET wf == SelectWF(r) IN
             /\ fails' = Cap(fails \o SelectFails(l, r))
             /\ prevS' = IF wf THEN <<[pop |-> r.in.pop, qi |-> QIndex(r.in.q)]>> ELSE prevS
             /\ nsel' = IF wf THEN nsel + 1 ELSE nsel
             /\ maxpop' = IF wf THEN Max(maxpop, Len(r.in.pop)) ELSE maxpop
             /\ UNCHANGED <<prevL, nless, nsort, maxdepth, lists, hists, nlimbo, drift>>
           ELSE IF r.ev = "Less" THEN
             LET wf == LessWF(r) IN
             /\ fails' = Cap(fails \o LessFails(l, r))
             /\ prevL' = IF wf THEN <<[a |-> r.a, b |-> r.b]>> ELSE prevL
             /\ nless' = IF wf THEN nless + 1 ELSE nless
             /\ maxdepth' = IF wf THEN Max(maxdepth, PathDepth(r)) ELSE maxdepth
             /\ UNCHANGED <<prevS, nsel, nsort, maxpop, lists, hists, nlimbo, drift>>
           ELSE IF r.ev = "Sort" THEN
             /\ fails' = Cap(fails \o SortFails(l, r))
             /\ nsort' = nsort + 1
             /\ UNCHANGED <<prevS, prevL, nsel, nless, maxpop, maxdepth, lists, hists, nlimbo, drift>>
           ELSE IF r.ev = "Listing" THEN
             /\ fails' = Cap(fails \o ListingFails(l, r))
             /\ lists' = IF ListingWF(r) THEN lists \cup {<<Len(r.in.conf), Len(r.in.probA), Len(r.in.probB)>>} ELSE lists
             /\ UNCHANGED <<prevS, prevL, nsel, nless, nsort, maxpop, maxdepth, hists, nlimbo, drift>>
           ELSE IF r.ev = "History" THEN
             /\ fails' = Cap(fails \o HistoryFails(l, r))
             /\ hists' = IF HistoryWF(r) THEN hists \cup {r.in.h} ELSE hists
             /\ drift' = IF HistoryWF(r) THEN drift + HistErrors(r) ELSE drift      \* operations whose error return makes the outcome ambiguous
             /\ nlimbo' = IF HistoryWF(r) THEN nlimbo + HistLimbo(r) ELSE nlimbo
             /\ UNCHANGED <<prevS, prevL, nsel, nless, nsort, maxpop, maxdepth, lists>>
           ELSE /\ fails' = Cap(Append(fails, Fail(l, "C40_TraceAccepted")))
                /\ UNCHANGED <<prevS, prevL, nsel, nless, nsort, maxpop, maxdepth, lists, hists, nlimbo, drift>>
        /\ l' = l + 1 /\ UNCHANGED done
\* a full run: every population and query, every ordered pair of paths, and listings below, at and above the limit
Covered == NRec > 1 =>
  /\ maxpop >= MinPop /\ nsel = SumPow(12, maxpop) * NQueries
  /\ maxdepth >= MinDepth /\ nless = SumPow(5, maxdepth) * SumPow(5, maxdepth)
  /\ nsort >= 100
  /\ Cardinality(hists) >= MinHistories
  /\ \A f \in 1..3 : (\E t \in lists : t[f] > MaxList) /\ (\E t \in lists : t[f] = MaxList) /\ (\E t \in lists : t[f] < MaxList /\ t[f] > 0)
                     /\ (\E t \in lists : t[f] = 0)
Finish == /\ l = NRec + 1 /\ ~done
          /\ WriteResult(l - 1,
                         Cap(fails \o (IF "C40_DomainCovered" \in Want /\ ~Covered THEN <<Fail(NRec, "C40_DomainCovered")>> ELSE <<>>)),
                         [stat_select_cases |-> nsel, stat_less_pairs |-> nless, stat_sort_cases |-> nsort,
                          stat_listings |-> Cardinality(lists), stat_histories |-> Cardinality(hists), stat_history_errors |-> drift, stat_limbo_sessions |-> nlimbo])
          /\ done' = TRUE /\ UNCHANGED <<l, fails, prevS, prevL, nsel, nless, nsort, maxpop, maxdepth, lists, hists, nlimbo, drift>>
TNext == Step \/ Finish
TSpec == TInit /\ [][TNext]_tvars
====
