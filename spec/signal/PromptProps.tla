---- MODULE PromptProps ----
(***************************************************************************)
(* C32 - the properties of the prompter registry and of the response-mode   *)
(* rule as constant operators.  PromptRegistry.tla evaluates them on the    *)
(* model; PromptRegistry_Trace.tla on recorded observations.                *)
(***************************************************************************)
EXTENDS Naturals, Sequences

\* "A registered prompter is never invoked concurrently with itself":
\* n = number of invocations in progress.
C32_Exclusive(n) == n <= 1

\* "... and is never invoked after its unregistration has returned":
\* n = invocations in progress or begun once UnregisterPrompter has returned.
C32_NoUseAfterUnregister(unregisterReturned, n) == unregisterReturned => n = 0

\* no send on a closed holder, no double close, no other panic
C32_NoPanic(panics) == panics = 0

\* pkg/prompting/response_mode.go: the OpenSSH yes/no host-key confirmations
EchoSuffixes == <<"(yes/no)? ",
                  "(yes/no): ",
                  "(yes/no/[fingerprint])? ",
                  "Please type 'yes', 'no' or the fingerprint: ">>
\* TLC treats strings as sequences of characters (Len, SubSeq, \o)
EndsWith(p, suffix) == Len(p) >= Len(suffix) /\ SubSeq(p, Len(p) - Len(suffix) + 1, Len(p)) = suffix
IsConfirmation(prompt) == \E k \in DOMAIN EchoSuffixes : EndsWith(prompt, EchoSuffixes[k])
ResponseMode(prompt) == IF IsConfirmation(prompt) THEN "echo" ELSE "secret"

\* "Responses to prompts are read without echo unless the prompt is one of the
\* known yes/no host-key confirmations" (an exactness statement: echo iff)
C32_EchoIffConfirmation(prompt, mode) == mode = ResponseMode(prompt)
====
