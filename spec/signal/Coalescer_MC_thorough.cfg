CONSTANTS Windows = {0, 1, 2, 5} MaxStrobes = 7 MaxTicks = 22 Cap = 1 WithConsumer = TRUE WithTerminate = TRUE
SPECIFICATION Spec
INVARIANTS TypeOK InvC31_AtMostOne InvC31_NoLoss InvTimerPays InvDelivered InvC31_Coalesces InvC31_DeliveredSurvivesTerminate
PROPERTIES LiveTerminateReturns LiveStrobeReturns OnlyConsumeTakes
CHECK_DEADLOCK FALSE
