---- MODULE CoalescerProps ----
(***************************************************************************)
(* C31 - the properties of state.Coalescer as constant operators over time  *)
(* quantities.  Coalescer.tla evaluates them in discrete model time (ticks, *)
(* eps = slack = 0); Coalescer_Trace.tla evaluates the same operators on    *)
(* microsecond stamps recorded around the real calls (eps = stamp and timer *)
(* granularity, slack = the multi-second watchdog).                         *)
(***************************************************************************)
EXTENDS Naturals

\* "At most one signal is ever buffered."
C31_AtMostOne(buffered) == buffered <= 1

\* "Bursts of strobes within the window produce a single signal": a signal is
\* produced only by a timer that ran for a whole window after the last strobe
\* that (re)armed it; quiet = the longest time that can have passed between
\* that strobe and the signal without another strobe in between.
C31_Coalesces(quiet, window, eps) == quiet + eps >= window

\* "Every strobe is followed by a delivered signal once strobes have stopped
\* for the window, unless terminated first": owedFor = for how long a strobe
\* has been waiting for its signal with no other strobe since (0 if nothing is
\* owed, or the coalescer was terminated).
C31_NoLoss(owedFor, window, slack) == owedFor <= window + slack

\* "... unless the coalescer was terminated FIRST": a signal that was emitted
\* before termination stays obtainable - terminating never removes anything from
\* the delivery buffer (before/after = signals buffered before and after it).
C31_TerminateKeepsBuffered(before, after) == after >= before
====
