---- MODULE PromptRegistry_MC ----
EXTENDS PromptRegistry
\* a confirmation, three near-misses and an ordinary secret prompt
MCPrompts == {"Are you sure you want to continue connecting (yes/no)? ",
              "Are you sure you want to continue connecting (yes/no)?",
              "(yes/no): x",
              "Password: "}
====
