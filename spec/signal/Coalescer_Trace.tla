---- MODULE Coalescer_Trace ----
(***************************************************************************)
(* C31 - validation of recorded behaviours of the real state.Coalescer.     *)
(* One record = one case on one coalescer with window r.w (the effective     *)
(* window in whole microseconds: 0 for a zero or negative duration, a        *)
(* fraction of a microsecond dropped - so r.w <= real window < r.w + 1):      *)
(*   strobes[i] = [t0, t1, ret]   Strobe() calls, issued one after another   *)
(*   recvs[j]   = [t0, t1, got]   receive attempts on Signals() by the single*)
(*                                consumer, in order; got = FALSE: nothing   *)
(*                                could be received up to t1                 *)
(*   term[k]    = [t0, t1, ret]   Terminate() calls                          *)
(* All stamps are monotonic microseconds, t0 taken before the call and t1   *)
(* after it returned.                                                       *)
(*                                                                         *)
(* What the stamps prove about the run loop: strobe i re-armed the timer    *)
(* not before a(i) = t0, so its timer fired not before Earliest(i) =        *)
(* a(i) + w - Eps; the loop accepted every later strobe k (a(k) > b(i))      *)
(* before b(k) = t1 and that disarms timer i, so it fired not after         *)
(* Latest(i) (also bounded by the return of Terminate).  A timer whose      *)
(* Earliest exceeds its Latest cannot have fired.  Slowness of the machine  *)
(* For r.w = 0 every strobe's timer can fire at once: Coalesces only counts   *)
(* (no more signals than strobes), AtMostOne and NoLoss are unchanged - a     *)
(* signal is demanded Slack after any strobe.  Slowness of the machine        *)
(* only moves Latest up and receipts later: it can make the check more      *)
(* lenient, never stricter.  A signal is demanded only Slack (2 s) after    *)
(* the window.                                                              *)
(***************************************************************************)
EXTENDS CoalescerProps, Integers, FiniteSets, Sequences, TraceKit

CONSTANT Want

VARIABLES l, fails, nsig, ndemand, npost, done
tvars == <<l, fails, nsig, ndemand, npost, done>>

Inf == 2000000000
Eps == 1000              \* stamp truncation and timer granularity, microseconds
Slack == 2000000         \* a signal is only demanded this long after the window
CallLimit == 5000000     \* a Strobe/Terminate call not back after this long is a verdict

SetMin(S) == CHOOSE x \in S : \A y \in S : x <= y
SetMax(S) == CHOOSE x \in S : \A y \in S : x >= y
MinOf(a, b) == IF a < b THEN a ELSE b

Ctx(r) ==
  LET S == r.strobes
      NS == Len(S)
      R == r.recvs
      SigIdx == {j \in DOMAIN R : R[j].got}
      SigSeq == SelectSeq(R, LAMBDA x : x.got)        \* the received signals (recvs are in time order)
      NSig == Len(SigSeq)
      Sig(j) == SigSeq[j]
      TermStart == SetMin({r.term[k].t0 : k \in DOMAIN r.term} \cup {Inf})
      TermEnd == SetMin({r.term[k].t1 : k \in {x \in DOMAIN r.term : r.term[x].ret}} \cup {Inf})
      Ear == [i \in 1..NS |-> S[i].t0 + r.w - Eps]
      Lat == [i \in 1..NS |->
                SetMin({S[k].t1 : k \in {x \in 1..NS : S[x].ret /\ S[i].ret /\ S[x].t0 > S[i].t1}} \cup {TermEnd})]
      Earliest(i) == Ear[i]
      Latest(i) == Lat[i]
      CanFire(i) == Earliest(i) <= Latest(i)
      \* strobe i's timer can be the origin of the j-th signal; strict: it fired after the (j-1)-th was taken
      Ok(i, j, strict) == /\ CanFire(i) /\ Earliest(i) <= Sig(j).t1
                          /\ (strict /\ j > 1) => Latest(i) >= Sig(j - 1).t0
      RECURSIVE Greedy(_, _, _)
      Greedy(j, last, strict) ==
        IF j > NSig THEN TRUE
        ELSE LET cand == {i \in (last + 1)..NS : Ok(i, j, strict)} IN
             IF cand = {} THEN FALSE ELSE Greedy(j + 1, SetMin(cand), strict)
      \* the longest strobe-free time that can have preceded the j-th signal
      BestQuiet(j) == SetMax({MinOf(Sig(j).t1, Latest(i)) - S[i].t0 : i \in 1..NS} \cup {0})
      \* a failed receive attempt k: for how long had the last strobe been owed its signal, up to the
      \* attempt's end or - if that came first - the beginning of Terminate (after which no timer need
      \* fire any more, but what was emitted before must still be in the buffer: nobody but the consumer
      \* takes signals out)
      OwedFor(k) ==
        LET cut == MinOf(R[k].t1, TermStart)
            before == {i \in 1..NS : S[i].t0 <= cut} IN
        IF before = {} \/ (\E i \in before : ~S[i].ret) THEN 0
        ELSE LET last == CHOOSE i \in before : \A x \in before : S[x].t0 <= S[i].t0 IN
             IF \E j \in SigIdx : R[j].t1 >= S[last].t0 /\ R[j].t0 <= R[k].t1 THEN 0
             ELSE IF cut > S[last].t1 THEN cut - S[last].t1 ELSE 0
      Failed == {k \in DOMAIN R : ~R[k].got}
  IN [nsig |-> NSig,
      coalesces |-> /\ \A j \in 1..NSig : C31_Coalesces(BestQuiet(j), r.w, Eps)
                    /\ Greedy(1, 0, FALSE),
      buffered |-> IF Greedy(1, 0, FALSE) /\ ~Greedy(1, 0, TRUE) THEN 2 ELSE 1,
      \* attempts that ended before Terminate began: the timer must have fired
      noloss |-> \A k \in {x \in Failed : R[x].t1 < TermStart} : C31_NoLoss(OwedFor(k), r.w + 1, Slack),
      \* attempts that ended after Terminate began: a signal that had to be emitted before (quiet period >=
      \* window + slack before Terminate, nothing consumed since the strobe) must have survived termination
      keeps |-> \A k \in {x \in Failed : R[x].t1 >= TermStart} :
                  C31_TerminateKeepsBuffered(IF C31_NoLoss(OwedFor(k), r.w + 1, Slack) THEN 0 ELSE 1, 0),
      postterm |-> Cardinality({k \in DOMAIN R : R[k].got /\ R[k].t0 >= TermEnd}),
      demands |-> Cardinality({k \in DOMAIN R : R[k].got /\ R[k].t1 - R[k].t0 > r.w \div 2})]

\* Strobe (a rendezvous with a loop that never blocks for long) and Terminate come back
CallsReturn(r) ==
  /\ \A k \in DOMAIN r.strobes : r.strobes[k].ret \/ r.strobes[k].t1 - r.strobes[k].t0 < CallLimit
  /\ \A k \in DOMAIN r.term : r.term[k].ret \/ r.term[k].t1 - r.term[k].t0 < CallLimit

CaseFails(i, r, c) ==
       Chk(Want, i, "C31_CallsReturn", CallsReturn(r))
    \o Chk(Want, i, "C31_Coalesces", c.coalesces)
    \o Chk(Want, i, "C31_AtMostOne", C31_AtMostOne(c.buffered))
    \o Chk(Want, i, "C31_NoLoss", c.noloss)
    \o Chk(Want, i, "C31_TerminateKeepsBuffered", c.keeps)

WellFormed(r) ==
  /\ Has(r, "ev") /\ r.ev = "CoalescerCase" /\ Has(r, "strobes") /\ Has(r, "recvs") /\ Has(r, "term") /\ Has(r, "w")
  /\ \A k \in DOMAIN r.strobes : r.strobes[k].t0 <= r.strobes[k].t1
  /\ \A k \in DOMAIN r.recvs : r.recvs[k].t0 <= r.recvs[k].t1
  /\ \A k \in DOMAIN r.recvs : k > 1 => r.recvs[k - 1].t1 <= r.recvs[k].t0
  /\ \A k \in DOMAIN r.strobes : k > 1 => r.strobes[k - 1].t0 <= r.strobes[k].t0

TInit == l = 1 /\ fails = <<>> /\ nsig = 0 /\ ndemand = 0 /\ npost = 0 /\ done = FALSE
Step == /\ l <= NRec
        /\ LET r == Trace[l] IN
           IF WellFormed(r)
           THEN LET c == Ctx(r) IN
                /\ fails' = Cap(fails \o CaseFails(l, r, c))
                /\ nsig' = nsig + c.nsig
                /\ ndemand' = ndemand + c.demands
                /\ npost' = npost + c.postterm
           ELSE /\ fails' = Cap(fails \o <<Fail(l, "C31_TraceAccepted")>>)
                /\ UNCHANGED <<nsig, ndemand, npost>>
        /\ l' = l + 1 /\ UNCHANGED done
Finish == /\ l = NRec + 1 /\ ~done
          /\ WriteResult(l - 1, fails, [stat_signals |-> nsig, stat_awaited_signals |-> ndemand,
                                        stat_signals_received_after_terminate |-> npost])
          /\ done' = TRUE /\ UNCHANGED <<l, fails, nsig, ndemand, npost>>
TSpec == TInit /\ [][Step \/ Finish]_tvars
====
