CONSTANTS Callers = {c1, c2, c3, c4, c5} MaxCalls = 2
CONSTANT Prompts <- MCPrompts
SPECIFICATION Spec
INVARIANTS InvC32_Exclusive InvC32_NoUseAfterUnregister InvC32_NoPanic InvMonitors InvHolder InvTokenOnce
SYMMETRY Symm
CHECK_DEADLOCK FALSE
