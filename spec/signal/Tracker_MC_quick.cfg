CONSTANTS Waiters = {w1, w2} MaxCalls = 1 MaxNotify = 3 Unlockers = {} WithCancel = TRUE WithTerminate = TRUE
SPECIFICATION Spec
INVARIANTS TypeOK InvC30_NoMiss InvNoBlockedSend InvC30_Returns
SYMMETRY Symm
CHECK_DEADLOCK FALSE
