---- MODULE Tracker ----
(***************************************************************************)
(* C30 - pkg/state/tracker.go and pkg/state/lock.go.                        *)
(*                                                                         *)
(* One action per critical section of the tracker's mutex (change.L): all   *)
(* shared fields (index, terminated, pollRequests) are only touched under   *)
(* it, so a critical section is atomic with respect to the others.  What    *)
(* is NOT atomic, and is modelled step by step, is the bridge between the   *)
(* condition variable and the response channels:                            *)
(*                                                                         *)
(*   trk = "start"    track() has not yet taken the mutex for the first time *)
(*   trk = "waiting"  track() is parked in change.Wait() (mutex released)    *)
(*   trk = "woken"    a Signal() removed it from the wait queue; it still    *)
(*                    has to reacquire the mutex and run the loop body       *)
(*   trk = "done"     the loop returned (trackDone closed)                   *)
(*                                                                         *)
(* change.Signal() wakes the goroutine only if it is parked at that moment  *)
(* (a Signal with nobody waiting is lost - the classic lost-wakeup hazard). *)
(* TrackRun is the loop body from the wake-up to the next Wait().           *)
(*                                                                         *)
(* WaitForChange(ctx, prev): WEnter (first critical section: immediate read *)
(* for prev = 0, abort if terminated, else register + Signal), then the     *)
(* select: WRecv (response channel, capacity 1) or WCtxDone followed by the *)
(* deregistering critical section WCancelCS.  TrackingLock.Unlock is        *)
(* ULock / URelease (lock.Unlock()) / UNotify (tracker.NotifyOfChange()).   *)
(*                                                                         *)
(* The whole state is one record s.  Per-call bookkeeping is cleared when   *)
(* the call returns; the property operators of TrackerProps are evaluated   *)
(* at the return step and their failures collected in the monitor s.bad.    *)
(***************************************************************************)
EXTENDS TrackerProps, FiniteSets, Sequences, TLC

CONSTANTS Waiters,      \* waiter goroutines
          MaxCalls,     \* WaitForChange calls per waiter
          MaxNotify,    \* total notifications (direct NotifyOfChange + Unlock)
          Unlockers,    \* goroutines using the TrackingLock
          WithCancel,   \* contexts may be cancelled
          WithTerminate \* Terminate may be called

VARIABLE s
(* fields of s:
   index, terminated, reqs (registered waiters = pollRequests), trk,
   resp[w] (response channel, capacity 1),
   wpc[w] in idle/enter/select/cancelling, prev[w], cancelled[w] (ctx), calls[w],
   nleft (notification budget), lk (TrackingLock owner), upc[u], ubefore[u],
   tpc (Terminate caller: idle/waitdone/returned),
   monitors: startIdx[w] (index when the call began), floor[w] (largest index
   returned by calls finished before it began), maxRet, bad                   *)

None == "none"
Max(a, b) == IF a > b THEN a ELSE b

Init ==
  s = [index |-> 1, terminated |-> FALSE, reqs |-> {}, trk |-> "start",
       resp |-> [w \in Waiters |-> <<>>],
       wpc |-> [w \in Waiters |-> "idle"], prev |-> [w \in Waiters |-> 0],
       cancelled |-> [w \in Waiters |-> FALSE], calls |-> [w \in Waiters |-> 0],
       nleft |-> MaxNotify,
       lk |-> None, upc |-> [u \in Unlockers |-> "idle"], ubefore |-> [u \in Unlockers |-> 0],
       tpc |-> "idle",
       startIdx |-> [w \in Waiters |-> 0], floor |-> [w \in Waiters |-> 0], maxRet |-> 0,
       bad |-> {}]

\* change.Signal(): effective only on a parked goroutine
Signalled(t) == IF t = "waiting" THEN "woken" ELSE t

Violated(name, ok) == IF ok THEN {} ELSE {name}

------------------------------------------------------------------------------
\* the tracking goroutine: loop body from wake-up to the next change.Wait()

TrackRun ==
  /\ s.trk \in {"start", "woken"}
  /\ IF s.terminated
     THEN s' = [s EXCEPT !.resp = [w \in Waiters |-> IF w \in s.reqs
                                                     THEN Append(s.resp[w], [idx |-> s.index, term |-> TRUE])
                                                     ELSE s.resp[w]],
                         !.reqs = {}, !.trk = "done"]
     ELSE LET ready == {w \in s.reqs : s.prev[w] # s.index} IN
          s' = [s EXCEPT !.resp = [w \in Waiters |-> IF w \in ready
                                                     THEN Append(s.resp[w], [idx |-> s.index, term |-> FALSE])
                                                     ELSE s.resp[w]],
                         !.reqs = s.reqs \ ready, !.trk = "waiting"]

------------------------------------------------------------------------------
\* NotifyOfChange: one critical section

AfterNotify(t) == IF t.terminated THEN t
                  ELSE [t EXCEPT !.index = t.index + 1, !.trk = Signalled(t.trk)]

Notify ==
  /\ s.nleft > 0
  /\ s' = AfterNotify([s EXCEPT !.nleft = s.nleft - 1])

------------------------------------------------------------------------------
\* TrackingLock

ULock(u) ==
  /\ s.upc[u] = "idle" /\ s.lk = None /\ s.nleft > 0
  /\ s' = [s EXCEPT !.lk = u, !.upc[u] = "locked", !.nleft = s.nleft - 1,
                    !.ubefore[u] = s.index]       \* the index the holder reads while holding the lock

URelease(u) ==                                    \* l.lock.Unlock()
  /\ s.upc[u] = "locked" /\ s.lk = u
  /\ s' = [s EXCEPT !.lk = None, !.upc[u] = "released"]

UNotify(u) ==                                     \* l.tracker.NotifyOfChange(); Unlock returns
  /\ s.upc[u] = "released"
  /\ LET t == AfterNotify(s) IN
     s' = [t EXCEPT !.upc[u] = "idle", !.ubefore[u] = 0,
                    !.bad = t.bad \cup Violated("C30_EveryUnlockAdvances",
                                                C30_EveryUnlockAdvances(s.ubefore[u], t.index, s.terminated))]

------------------------------------------------------------------------------
\* WaitForChange

\* the caller chooses the previous index: zero (immediate read), current,
\* stale, or one the tracker has not reached yet
PrevChoices == {0, s.index, s.index + 1} \cup (IF s.index > 1 THEN {s.index - 1} ELSE {})

WBegin(w) ==
  /\ s.wpc[w] = "idle" /\ s.calls[w] < MaxCalls
  /\ \E p \in PrevChoices :
       s' = [s EXCEPT !.prev[w] = p, !.wpc[w] = "enter", !.calls[w] = @ + 1,
                      !.startIdx[w] = s.index, !.floor[w] = s.maxRet]

\* the call returns (i, e): judge it, then forget the per-call bookkeeping
Return(t, w, i, e) ==
  [t EXCEPT !.wpc[w] = "idle", !.prev[w] = 0, !.cancelled[w] = FALSE, !.resp[w] = <<>>,
            !.startIdx[w] = 0, !.floor[w] = 0, !.maxRet = Max(t.maxRet, i),
            !.bad = t.bad
               \cup Violated("C30_Within", C30_Within(t.startIdx[w], t.index, i))
               \cup Violated("C30_MonotoneReturns", C30_MonotoneReturns(t.floor[w], i))
               \cup Violated("C30_ReturnsOnChangeOnly",
                             C30_ReturnsOnChangeOnly(t.prev[w], i, e, t.tpc # "idle", t.cancelled[w]))]

WEnter(w) ==                                      \* first critical section
  /\ s.wpc[w] = "enter"
  /\ IF s.prev[w] = 0
     THEN s' = Return(s, w, s.index, IF s.terminated THEN "terminated" ELSE "ok")
     ELSE IF s.terminated
     THEN s' = Return(s, w, s.index, "terminated")
     ELSE s' = [s EXCEPT !.reqs = s.reqs \cup {w}, !.trk = Signalled(s.trk), !.wpc[w] = "select"]

WRecv(w) ==                                       \* case response := <-responses
  /\ s.wpc[w] = "select" /\ s.resp[w] # <<>>
  /\ s' = Return(s, w, Head(s.resp[w]).idx, IF Head(s.resp[w]).term THEN "terminated" ELSE "ok")

WCtxDone(w) ==                                    \* case <-ctx.Done()
  /\ s.wpc[w] = "select" /\ s.cancelled[w]
  /\ s' = [s EXCEPT !.wpc[w] = "cancelling"]

WCancelCS(w) ==                                   \* deregistering critical section
  /\ s.wpc[w] = "cancelling"
  /\ s' = Return([s EXCEPT !.reqs = s.reqs \ {w}], w, s.index, "canceled")

Cancel(w) ==                                      \* somebody cancels the waiter's context
  /\ WithCancel /\ s.wpc[w] \in {"enter", "select"} /\ ~s.cancelled[w]
  /\ s' = [s EXCEPT !.cancelled[w] = TRUE]

------------------------------------------------------------------------------
\* Terminate

TermCS ==
  /\ WithTerminate /\ s.tpc = "idle"
  /\ s' = [s EXCEPT !.terminated = TRUE, !.trk = Signalled(s.trk), !.tpc = "waitdone"]

TermJoin ==                                       \* <-t.trackDone
  /\ s.tpc = "waitdone" /\ s.trk = "done"
  /\ s' = [s EXCEPT !.tpc = "returned"]

------------------------------------------------------------------------------
WaiterSteps(w) == WEnter(w) \/ WRecv(w) \/ WCtxDone(w) \/ WCancelCS(w)
Next ==
  \/ TrackRun \/ Notify \/ TermCS \/ TermJoin
  \/ \E u \in Unlockers : ULock(u) \/ URelease(u) \/ UNotify(u)
  \/ \E w \in Waiters : WBegin(w) \/ WaiterSteps(w) \/ Cancel(w)

\* fairness: the goroutines of the implementation keep running; callers'
\* decisions (to notify, to cancel, to terminate, to call again) are free
Fairness ==
  /\ WF_s(TrackRun) /\ WF_s(TermJoin)
  /\ \A w \in Waiters : WF_s(WaiterSteps(w))

Spec == Init /\ [][Next]_s /\ Fairness

------------------------------------------------------------------------------
\* Properties

\* obligations nobody is going to discharge: a registered request that is
\* stale (or orphaned by termination) while the bridge goroutine sleeps
\* without a pending wake-up, or has exited
Orphans == IF s.trk \in {"waiting", "done"}
           THEN {w \in s.reqs : s.prev[w] # s.index \/ s.terminated}
           ELSE {}
InvC30_NoMiss == C30_NoMiss(Cardinality(Orphans), 1)

\* a response can always be delivered without blocking the bridge goroutine
InvNoBlockedSend == \A w \in Waiters : Len(s.resp[w]) <= 1 /\ (w \in s.reqs => s.resp[w] = <<>>)

\* C30_Within, C30_MonotoneReturns, C30_ReturnsOnChangeOnly, C30_EveryUnlockAdvances
InvC30_Returns == s.bad = {}

\* liveness form of NoMiss: no call stays forever in flight although the
\* index differs from its previous index, tracking was terminated or its
\* context was cancelled
Stuck(w) == /\ s.wpc[w] \in {"enter", "select", "cancelling"}
            /\ (s.prev[w] # s.index \/ s.terminated \/ s.cancelled[w])
LiveC30_NoMiss == \A w \in Waiters : []<>(~Stuck(w))
LiveTerminateReturns == (s.tpc = "waitdone") ~> (s.tpc = "returned")

TypeOK ==
  /\ s.index \in 1..(MaxNotify + 1) /\ s.reqs \subseteq Waiters
  /\ s.trk \in {"start", "waiting", "woken", "done"}
  /\ \A w \in Waiters : s.wpc[w] \in {"idle", "enter", "select", "cancelling"}

Symm == Permutations(Waiters)
====
