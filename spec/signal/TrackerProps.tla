---- MODULE TrackerProps ----
(***************************************************************************)
(* C30 - the properties of state.Tracker / state.TrackingLock as constant   *)
(* operators.  Tracker.tla evaluates them on the model's own bookkeeping    *)
(* (exact values); Tracker_Trace.tla evaluates the same operators on        *)
(* bounds derived from recorded call intervals of the real code.            *)
(*                                                                         *)
(* Error vocabulary of a WaitForChange result:                              *)
(*   "ok" (nil), "terminated" (ErrTrackingTerminated), "canceled"           *)
(*   (context.Canceled).                                                    *)
(***************************************************************************)
EXTENDS Naturals

\* The index a call returns is a value the tracker's index had at some moment
\* of the call: not below the index when the call began (lo), not above the
\* index when it returned (hi).  (Linearizability of a monotone counter.)
C30_Within(lo, hi, idx) == lo <= idx /\ idx <= hi

\* "Returned indices never move backwards": floor = the largest index returned
\* by any call that had finished before this call began.
C30_MonotoneReturns(floor, idx) == idx >= floor

\* A wait returns only because of a change, a termination or a cancellation
\* (prev = 0 is the immediate-read request).
C30_ReturnsOnChangeOnly(prev, idx, err, termStarted, cancelIssued) ==
  \/ prev = 0 /\ err \in {"ok", "terminated"} /\ (err = "terminated" => termStarted)
  \/ prev # 0 /\ err = "ok" /\ idx # prev
  \/ prev # 0 /\ err = "terminated" /\ termStarted
  \/ prev # 0 /\ err = "canceled" /\ cancelIssued

\* "Every state change made through the tracking lock advances the index"
\* (NotifyOfChange is a no-op once tracking was terminated).
C30_EveryUnlockAdvances(before, after, term) == term \/ after > before

\* "Returns promptly / after the next change, termination or cancellation":
\* dueFor = for how long the call has been obliged to return without having
\* returned.  In the model: number of obligations outstanding in a state in
\* which no enabled step of the tracker can discharge them (limit 1); on
\* recorded observations: microseconds (limit = the multi-second watchdog).
C30_NoMiss(dueFor, limit) == dueFor < limit
====
