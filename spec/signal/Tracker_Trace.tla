---- MODULE Tracker_Trace ----
(***************************************************************************)
(* C30 - validation of recorded behaviours of the real state.Tracker /      *)
(* state.TrackingLock.  One record = one case: every call the driver made   *)
(* on one tracker, as an interval [t0, t1] of monotonic microseconds        *)
(* (t0 stamped before the call, t1 after it returned) with what it          *)
(* returned.  Nothing else is known about the schedule, so the tracker's    *)
(* index is only allowed to move inside the recorded notification           *)
(* intervals: at time t it lies in Lo(t)..Hi(t) where Lo counts the         *)
(* notifications that had certainly taken effect and Hi those that may      *)
(* have.  The TrackerProps operators are evaluated on these bounds, so a    *)
(* slow machine widens the intervals and can only make the check more       *)
(* lenient.  Timing enters only through Limit (5 s).                        *)
(*                                                                         *)
(* call records:                                                            *)
(*  [op |-> "wait", w, prev, t0, t1, ret, idx, err, c0, c1]                  *)
(*      c0/c1 = stamps around the cancellation of its context (-1: none),   *)
(*      ret = FALSE: it had not returned when the driver gave up at t1      *)
(*  [op |-> "notify", t0, t1, ret]     tracker.NotifyOfChange()             *)
(*  [op |-> "unlock", t0, t1, ret, before, after]  TrackingLock.Unlock(),   *)
(*      with the index read while holding the lock and right after Unlock   *)
(*  [op |-> "unlockq", t0, t1, ret]    Lock + UnlockWithoutNotify: not a    *)
(*      notification, so the index must not move because of it              *)
(* Every call runs under a watchdog; ret = FALSE: not back at t1.           *)
(*  [op |-> "terminate", t0, t1, ret]                                       *)
(***************************************************************************)
EXTENDS TrackerProps, Integers, FiniteSets, Sequences, TraceKit

CONSTANT Want

VARIABLES l, fails, nwaits, nblocked, done
tvars == <<l, fails, nwaits, nblocked, done>>

Inf == 2000000000
Limit == 5000000          \* microseconds a call may be overdue before that is a verdict

SetMin(S) == CHOOSE x \in S : \A y \in S : x <= y
SetMax(S) == CHOOSE x \in S : \A y \in S : x >= y
MaxOf(a, b) == IF a > b THEN a ELSE b

CaseFails(i, r) ==
  LET C == r.calls
      K == DOMAIN C
      Notifs == {k \in K : C[k].op \in {"notify", "unlock"}}
      Terms == {k \in K : C[k].op = "terminate"}
      Waits == {k \in K : C[k].op = "wait"}
      TermStart == SetMin({C[k].t0 : k \in Terms} \cup {Inf})
      TermEnd == SetMin({C[k].t1 : k \in {x \in Terms : C[x].ret}} \cup {Inf})
      Def == {k \in Notifs : C[k].ret /\ C[k].t1 < TermStart}   \* certainly took effect
      Poss == {k \in Notifs : C[k].t0 <= TermEnd}        \* may have taken effect
      Lo(t) == 1 + Cardinality({k \in Def : C[k].t1 < t})
      LoAfter(t) == 1 + Cardinality({k \in Def : C[k].t1 <= t})
      Hi(t) == 1 + Cardinality({k \in Poss : C[k].t0 <= t})
      Returned == {k \in Waits : C[k].ret}
      Floor(k) == SetMax({C[j].idx : j \in {x \in Returned : C[x].t1 < C[k].t0}} \cup {0})
      DueTimes(k) ==
        LET c == C[k] IN
             (IF c.prev = 0 \/ Lo(c.t0) > c.prev \/ Hi(c.t1) < c.prev THEN {c.t0} ELSE {})
        \cup {MaxOf(C[n].t1, c.t0) : n \in {x \in Def : LoAfter(C[x].t1) > c.prev}}
        \cup (IF c.c1 >= 0 THEN {MaxOf(c.c1, c.t0)} ELSE {})
        \cup (IF TermEnd < Inf THEN {MaxOf(TermEnd, c.t0)} ELSE {})
      DueFor(k) == IF DueTimes(k) = {} THEN 0
                   ELSE IF C[k].t1 > SetMin(DueTimes(k)) THEN C[k].t1 - SetMin(DueTimes(k)) ELSE 0
  IN   Chk(Want, i, "C30_NoMiss", \A k \in Waits : C30_NoMiss(DueFor(k), Limit))
    \o Chk(Want, i, "C30_TerminateReturns", \A k \in Terms : C[k].ret \/ C30_NoMiss(C[k].t1 - C[k].t0, Limit))
    \o Chk(Want, i, "C30_NotifyReturns", \A k \in Notifs : C[k].ret \/ C30_NoMiss(C[k].t1 - C[k].t0, Limit))
    \o Chk(Want, i, "C30_Within", \A k \in Returned : C30_Within(Lo(C[k].t0), Hi(C[k].t1), C[k].idx))
    \o Chk(Want, i, "C30_MonotoneReturns", \A k \in Returned : C30_MonotoneReturns(Floor(k), C[k].idx))
    \o Chk(Want, i, "C30_ReturnsOnChangeOnly",
           \A k \in Returned : C30_ReturnsOnChangeOnly(C[k].prev, C[k].idx, C[k].err, TermStart <= C[k].t1,
                                                       C[k].c0 >= 0 /\ C[k].c0 <= C[k].t1))
    \o Chk(Want, i, "C30_EveryUnlockAdvances",
           \A k \in K : (C[k].op = "unlock" /\ C[k].ret) => C30_EveryUnlockAdvances(C[k].before, C[k].after, TermStart <= C[k].t1))

WellFormed(r) ==
  /\ Has(r, "ev") /\ r.ev = "TrackerCase" /\ Has(r, "calls")
  /\ \A k \in DOMAIN r.calls :
       /\ r.calls[k].op \in {"wait", "notify", "unlock", "unlockq", "terminate"}
       /\ r.calls[k].t0 <= r.calls[k].t1

TInit == l = 1 /\ fails = <<>> /\ nwaits = 0 /\ nblocked = 0 /\ done = FALSE
Step == /\ l <= NRec
        /\ LET r == Trace[l] IN
           IF WellFormed(r)
           THEN /\ fails' = Cap(fails \o CaseFails(l, r))
                /\ nwaits' = nwaits + Cardinality({k \in DOMAIN r.calls : r.calls[k].op = "wait"})
                /\ nblocked' = nblocked + Cardinality({k \in DOMAIN r.calls :
                                   r.calls[k].op = "wait" /\ r.calls[k].prev # 0 /\ r.calls[k].t1 - r.calls[k].t0 > 200})
           ELSE /\ fails' = Cap(fails \o <<Fail(l, "C30_TraceAccepted")>>)
                /\ UNCHANGED <<nwaits, nblocked>>
        /\ l' = l + 1 /\ UNCHANGED done
Finish == /\ l = NRec + 1 /\ ~done
          /\ WriteResult(l - 1, fails, [stat_waits |-> nwaits, stat_waits_over_200us |-> nblocked])
          /\ done' = TRUE /\ UNCHANGED <<l, fails, nwaits, nblocked>>
TSpec == TInit /\ [][Step \/ Finish]_tvars
====
