CONSTANT Want = {"C30_NoMiss", "C30_TerminateReturns", "C30_NotifyReturns", "C30_Within", "C30_MonotoneReturns", "C30_ReturnsOnChangeOnly", "C30_EveryUnlockAdvances"}
SPECIFICATION TSpec
CHECK_DEADLOCK FALSE
