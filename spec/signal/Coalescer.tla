---- MODULE Coalescer ----
(***************************************************************************)
(* C31 - pkg/state/coalescer.go in discrete time.                           *)
(*                                                                         *)
(* The run loop is one goroutine executing a three-armed select; each arm   *)
(* is one action:                                                           *)
(*   LoopCtxDone  case <-ctx.Done():  timer.Stop(); close(done); return     *)
(*   LoopStrobe   case <-c.strobes:   Stop, drain, timer.Reset(window)      *)
(*   LoopTimer    case <-timer.C:     non-blocking send on signals (cap 1)  *)
(* Strobe() is a rendezvous on the unbuffered strobes channel (or returns   *)
(* once done is closed); Terminate() = cancel() then <-done.                *)
(*                                                                         *)
(* Time: timer = -1 (stopped) or the ticks remaining until it expires       *)
(* (0 = expired, the value sits in timer.C).  Tick lets one unit pass and   *)
(* is disabled while the loop has something it would do immediately         *)
(* (an expired timer, a blocked strober, a cancelled context): the loop is  *)
(* assumed to be fast relative to the window - the trace module does not    *)
(* make that assumption, it only uses recorded stamps.                      *)
(* No clock is kept in the state: `quiet` (ticks since the loop last        *)
(* accepted a strobe, capped) and `owed` are monitors.                      *)
(***************************************************************************)
EXTENDS CoalescerProps, Integers, FiniteSets, TLC

CONSTANTS Windows,      \* coalescing windows in ticks to explore (chosen in Init); 0 = NewCoalescer(0) or a
                        \* negative duration (treated as zero): the timer is due the moment it is re-armed
          MaxStrobes,   \* strobe budget
          MaxTicks,     \* time budget
          Cap,          \* capacity of the signals channel (1 in the code)
          WithConsumer, WithTerminate

VARIABLE s
(* window, timer, buffered, ctxCancelled, loopDone,
   strobers (callers blocked in Strobe()), nstrobes, ticks, tpc,
   monitors: owed, quiet (capped at Window + 1), fired, got, bad *)

Init == \E w \in Windows :
        s = [window |-> w, timer |-> -1, buffered |-> 0, ctxCancelled |-> FALSE, loopDone |-> FALSE,
             strobers |-> 0, nstrobes |-> 0, ticks |-> 0, tpc |-> "idle",
             owed |-> FALSE, quiet |-> 0, fired |-> 0, got |-> FALSE, bad |-> {}]
Window == s.window

Violated(name, ok) == IF ok THEN {} ELSE {name}
Min(a, b) == IF a < b THEN a ELSE b

\* --- callers -------------------------------------------------------------
StrobeCall ==                                   \* a caller enters Strobe() and blocks in its select
  /\ s.nstrobes < MaxStrobes
  /\ s' = [s EXCEPT !.nstrobes = @ + 1, !.strobers = @ + 1]

StrobeAbort ==                                  \* case <-c.done: no effect
  /\ s.strobers > 0 /\ s.loopDone
  /\ s' = [s EXCEPT !.strobers = @ - 1]

Consume ==                                      \* <-c.Signals()
  /\ WithConsumer /\ s.buffered > 0
  /\ s' = [s EXCEPT !.buffered = @ - 1, !.got = TRUE]

\* every step of termination is judged: it must leave the delivery buffer alone
KeepsBuffered(t) == [t EXCEPT !.bad = @ \cup Violated("C31_TerminateKeepsBuffered",
                                                      C31_TerminateKeepsBuffered(s.buffered, t.buffered))]

TerminateCall ==                                \* c.cancel()
  /\ WithTerminate /\ s.tpc = "idle"
  /\ s' = KeepsBuffered([s EXCEPT !.ctxCancelled = TRUE, !.tpc = "waitdone"])

TerminateReturn ==                              \* <-c.done
  /\ s.tpc = "waitdone" /\ s.loopDone
  /\ s' = KeepsBuffered([s EXCEPT !.tpc = "returned"])

\* --- the run loop --------------------------------------------------------
LoopCtxDone ==
  /\ ~s.loopDone /\ s.ctxCancelled
  /\ s' = KeepsBuffered([s EXCEPT !.timer = -1, !.loopDone = TRUE])   \* stops the TIMER; signals is not touched

LoopStrobe ==                                   \* may be chosen even if the context is already cancelled
  /\ ~s.loopDone /\ s.strobers > 0
  /\ s' = [s EXCEPT !.strobers = @ - 1,
                    !.timer = Window,           \* Stop; drain a stale expiry; Reset(window)
                    !.owed = TRUE, !.quiet = 0, !.got = FALSE]

LoopTimer ==
  /\ ~s.loopDone /\ s.timer = 0
  /\ s' = [s EXCEPT !.timer = -1,
                    !.buffered = IF @ < Cap THEN @ + 1 ELSE @,      \* select { case signals <- x: default: }
                    !.owed = FALSE, !.fired = @ + 1,
                    !.bad = @ \cup Violated("C31_Coalesces", s.owed /\ C31_Coalesces(s.quiet, Window, 0))]

\* --- time ----------------------------------------------------------------
LoopBusy == ~s.loopDone /\ (s.timer = 0 \/ s.strobers > 0 \/ s.ctxCancelled)
Tick ==
  /\ s.ticks < MaxTicks /\ ~LoopBusy
  /\ s' = [s EXCEPT !.ticks = @ + 1,
                    !.timer = IF @ > 0 THEN @ - 1 ELSE @,
                    !.quiet = Min(@ + 1, Window + 1)]

Next == StrobeCall \/ StrobeAbort \/ Consume \/ TerminateCall \/ TerminateReturn
        \/ LoopCtxDone \/ LoopStrobe \/ LoopTimer \/ Tick
Spec == Init /\ [][Next]_s
        /\ WF_s(LoopCtxDone) /\ WF_s(LoopStrobe) /\ WF_s(LoopTimer) /\ WF_s(StrobeAbort) /\ WF_s(TerminateReturn)

\* --- properties ------------------------------------------------------------
InvC31_AtMostOne == C31_AtMostOne(s.buffered)
OwedFor == IF s.owed /\ ~s.ctxCancelled THEN s.quiet ELSE 0
InvC31_NoLoss == C31_NoLoss(OwedFor, Window, 0)
\* the armed timer is what pays the debt: it expires exactly one window after the last accepted strobe
InvTimerPays == (s.owed /\ ~s.loopDone) => s.timer = Window - s.quiet
\* once paid, the signal is in the channel or was consumed after the strobe
InvDelivered == (s.nstrobes > 0 /\ s.fired > 0 /\ ~s.owed) => (s.buffered > 0 \/ s.got)
InvC31_Coalesces == s.bad = {}       \* also C31_TerminateKeepsBuffered (monitor)
\* only the consumer ever takes a signal out of the buffer (action property)
OnlyConsumeTakes == [][s'.buffered < s.buffered => (s'.got /\ s'.buffered = s.buffered - 1)]_s
\* a signal that was emitted and not consumed is still there - before, during and after termination
InvC31_DeliveredSurvivesTerminate == (s.fired > 0 /\ ~s.got /\ ~s.owed) => s.buffered > 0
\* strobes never block for good, Terminate returns
LiveStrobeReturns == (s.strobers > 0) ~> (s.strobers = 0 \/ s.ticks = MaxTicks)
LiveTerminateReturns == (s.tpc = "waitdone") ~> (s.tpc = "returned")
TypeOK == s.timer \in -1..Window /\ s.buffered \in 0..Cap /\ s.quiet \in 0..(Window + 1)
====
