CONSTANTS Waiters = {w1} MaxCalls = 2 MaxNotify = 3 Unlockers = {u1, u2} WithCancel = TRUE WithTerminate = TRUE
SPECIFICATION Spec
INVARIANTS TypeOK InvC30_NoMiss InvNoBlockedSend InvC30_Returns
CHECK_DEADLOCK FALSE
