CONSTANT Want = {"C31_CallsReturn", "C31_Coalesces", "C31_AtMostOne", "C31_NoLoss", "C31_TerminateKeepsBuffered"}
SPECIFICATION TSpec
CHECK_DEADLOCK FALSE
