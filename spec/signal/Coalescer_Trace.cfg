CONSTANT Want = {"C31_CallsReturn", "C31_Coalesces", "C31_AtMostOne", "C31_NoLoss"}
SPECIFICATION TSpec
CHECK_DEADLOCK FALSE
