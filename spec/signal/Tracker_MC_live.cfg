CONSTANTS Waiters = {w1, w2} MaxCalls = 1 MaxNotify = 2 Unlockers = {} WithCancel = TRUE WithTerminate = TRUE
SPECIFICATION Spec
INVARIANTS TypeOK InvC30_NoMiss InvNoBlockedSend InvC30_Returns
PROPERTIES LiveC30_NoMiss LiveTerminateReturns
CHECK_DEADLOCK FALSE
