CONSTANT Want = {"C32_Exclusive", "C32_NoUseAfterUnregister", "C32_NoPanic", "C32_NoConcurrentInvocation", "C32_UnregisterWaitsForInFlight", "C32_UnregisteredNeverInvoked", "C32_CallsReturn", "C32_EchoIffConfirmation"}
SPECIFICATION TSpec
CHECK_DEADLOCK FALSE
