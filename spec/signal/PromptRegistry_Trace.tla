---- MODULE PromptRegistry_Trace ----
(***************************************************************************)
(* C32 - validation of recorded behaviours of the real prompter registry    *)
(* and of the real response-mode function.                                  *)
(*                                                                         *)
(* RegistryCase: concurrent prompting.Message / prompting.Prompt calls      *)
(* against 1-3 registered identifiers, each with an instrumented prompter,  *)
(* while they are unregistered (and possibly registered again under the     *)
(* same identifier with a new prompter).                                    *)
(* The prompter draws a ticket from one atomic counter when it is entered   *)
(* (tin) and when it is left (tout), and reports how many invocations were  *)
(* in flight at entry (conc); the driver draws a ticket from the same       *)
(* counter right after UnregisterPrompter returned (unreg.ticket, -1 if it  *)
(* was not called or did not return).  Tickets order the events exactly, so *)
(* no verdict depends on time.                                              *)
(* Each registration ("gen") carries its invocations [tin, tout, conc, fail,  *)
(* gated] and maxin = the largest number of invocations the prompter itself  *)
(* counted inside at once (under its own mutex).  Invocations may return an  *)
(* error (fail); in gated scenarios the failing invocation stayed inside     *)
(* until r.gate.parked other calls were parked on the same identifier.       *)
(* Mode: one prompt text and the mode the real determineResponseMode gave.  *)
(***************************************************************************)
EXTENDS PromptProps, Integers, FiniteSets, TraceKit

CONSTANT Want

VARIABLES l, fails, ninv, nafter, necho, nfail, ngated, done
tvars == <<l, fails, ninv, nafter, necho, nfail, ngated, done>>

SetMax(S) == CHOOSE x \in S : \A y \in S : x >= y
RECURSIVE SumLen(_, _)
SumLen(gs, n) == IF n = 0 THEN 0 ELSE Len(gs[n].invs) + SumLen(gs, n - 1)

\* invocations in progress when invocation k was entered (itself included)
Overlap(I, k) == 1 + Cardinality({j \in DOMAIN I : j # k /\ I[j].tin < I[k].tin /\ I[k].tin < I[j].tout})
MaxConc(I) == SetMax({Overlap(I, k) : k \in DOMAIN I} \cup {I[k].conc : k \in DOMAIN I} \cup {0})
UsedAfter(I, u) == Cardinality({k \in DOMAIN I : I[k].tout > u})
InsideAt(I, u) == Cardinality({k \in DOMAIN I : I[k].tin < u /\ u < I[k].tout})     \* inside when Unregister returned
StartedAfter(I, u) == Cardinality({k \in DOMAIN I : I[k].tin > u})                  \* entered after it returned
RECURSIVE SumFail(_, _)
SumFail(gs, n) == IF n = 0 THEN 0
                  ELSE Cardinality({k \in DOMAIN gs[n].invs : gs[n].invs[k].fail}) + SumFail(gs, n - 1)

\* r.gens: one entry per registration (identifier p, generation gen: the same identifier registered
\* again after its unregistration is a new registration with a new prompter)
RegistryFails(i, r) ==
       Chk(Want, i, "C32_Exclusive", \A g \in DOMAIN r.gens : C32_Exclusive(MaxConc(r.gens[g].invs)))
    \o Chk(Want, i, "C32_NoUseAfterUnregister",
           \A g \in DOMAIN r.gens :
              C32_NoUseAfterUnregister(r.gens[g].unreg.ticket >= 0, UsedAfter(r.gens[g].invs, r.gens[g].unreg.ticket)))
    \* the same three questions asked of the prompter's own bookkeeping, one by one
    \o Chk(Want, i, "C32_NoConcurrentInvocation", \A g \in DOMAIN r.gens : C32_Exclusive(r.gens[g].maxin))
    \o Chk(Want, i, "C32_UnregisterWaitsForInFlight",
           \A g \in DOMAIN r.gens :
              C32_NoUseAfterUnregister(r.gens[g].unreg.ticket >= 0, InsideAt(r.gens[g].invs, r.gens[g].unreg.ticket)))
    \o Chk(Want, i, "C32_UnregisteredNeverInvoked",
           \A g \in DOMAIN r.gens :
              C32_NoUseAfterUnregister(r.gens[g].unreg.ticket >= 0, StartedAfter(r.gens[g].invs, r.gens[g].unreg.ticket)))
    \o Chk(Want, i, "C32_NoPanic", C32_NoPanic(Len(r.panics)))
    \* registration, every Message/Prompt and the unregistrations came back (10 s watchdog in the driver)
    \o Chk(Want, i, "C32_CallsReturn", ~r.hung \/ r.elapsed < 5000000)

ModeFails(i, r) == Chk(Want, i, "C32_EchoIffConfirmation", C32_EchoIffConfirmation(r.prompt, r.mode))

RecFails(i, r) ==
  IF ~Has(r, "ev") THEN <<Fail(i, "C32_TraceAccepted")>>
  ELSE IF r.ev = "RegistryCase" /\ Has(r, "gens") /\ Has(r, "panics") /\ Has(r, "hung") /\ Has(r, "elapsed") THEN RegistryFails(i, r)
  ELSE IF r.ev = "Mode" /\ Has(r, "prompt") /\ Has(r, "mode") THEN ModeFails(i, r)
  ELSE <<Fail(i, "C32_TraceAccepted")>>

TInit == l = 1 /\ fails = <<>> /\ ninv = 0 /\ nafter = 0 /\ necho = 0 /\ nfail = 0 /\ ngated = 0 /\ done = FALSE
Step == /\ l <= NRec
        /\ LET r == Trace[l] IN
           /\ fails' = Cap(fails \o RecFails(l, r))
           /\ ninv' = ninv + (IF Has(r, "gens") THEN SumLen(r.gens, Len(r.gens)) ELSE 0)
           /\ nafter' = nafter + (IF Has(r, "gens")
                                  THEN Cardinality({g \in DOMAIN r.gens : r.gens[g].unreg.ticket >= 0}) ELSE 0)
           /\ necho' = necho + (IF Has(r, "mode") /\ r.mode = "echo" THEN 1 ELSE 0)
           /\ nfail' = nfail + (IF Has(r, "gens") THEN SumFail(r.gens, Len(r.gens)) ELSE 0)
           /\ ngated' = ngated + (IF Has(r, "gate") /\ r.gate.reached /\ r.gate.parked >= r.gate.want THEN 1 ELSE 0)
        /\ l' = l + 1 /\ UNCHANGED done
Finish == /\ l = NRec + 1 /\ ~done
          /\ WriteResult(l - 1, fails, [stat_invocations |-> ninv, stat_unregistrations_returned |-> nafter, stat_echo |-> necho,
                                        stat_failed_invocations |-> nfail, stat_gated_failures_all_parked |-> ngated])
          /\ done' = TRUE /\ UNCHANGED <<l, fails, ninv, nafter, necho, nfail, ngated>>
TSpec == TInit /\ [][Step \/ Finish]_tvars
====
