---- MODULE PromptRegistry ----
(***************************************************************************)
(* C32 - pkg/prompting/registry.go.                                         *)
(*                                                                         *)
(* One prompter identifier.  registered = the identifier is in the registry *)
(* map (only touched under registryLock, so every map access is one atomic  *)
(* step).  The holder is a channel of capacity 1 that contains the prompter *)
(* when nobody uses it: tok = number of prompters buffered in it, closed.   *)
(*                                                                         *)
(* Message / Prompt (same shape):                                           *)
(*   CLookup   RLock; holder, ok := registry[id]; RUnlock                   *)
(*   CAcquire  prompter, ok := <-holder      (blocks while empty and open)  *)
(*   InvokeOK / InvokeFails  prompter.Message / prompter.Prompt returns nil  *)
(*             or an error                                                  *)
(*   CPutBack  holder <- prompter            (panics if the holder is closed)*)
(* UnregisterPrompter:                                                      *)
(*   URemove   Lock; delete(registry, id); Unlock                           *)
(*   UTake     <-holder                      (waits for whoever uses it)    *)
(*   UClose    close(holder)                 (panics if closed already)     *)
(* The Prompt callers pick a prompt text; the instrumented prompter answers *)
(* in the mode ResponseMode(prompt) gives (command_line.go).                *)
(***************************************************************************)
EXTENDS PromptProps, FiniteSets, TLC

CONSTANTS Callers, MaxCalls, Prompts

VARIABLE s
(* registered, tok, closed, cpc[c] in idle/have/in/putback, calls[c], text[c], failed[c],
   upc in idle/removed/got/returned, panics, lastMode, bad *)

Init == s = [registered |-> TRUE, tok |-> 1, closed |-> FALSE,
             cpc |-> [c \in Callers |-> "idle"], calls |-> [c \in Callers |-> 0],
             text |-> [c \in Callers |-> ""], failed |-> [c \in Callers |-> FALSE],
             upc |-> "idle", panics |-> 0, bad |-> {}]

InPrompter == {c \in Callers : s.cpc[c] = "in"}
Violated(name, ok) == IF ok THEN {} ELSE {name}

CLookup(c) ==
  /\ s.cpc[c] = "idle" /\ s.calls[c] < MaxCalls
  /\ \E p \in Prompts :
       IF s.registered
       THEN s' = [s EXCEPT !.cpc[c] = "have", !.calls[c] = @ + 1, !.text[c] = p]
       ELSE s' = [s EXCEPT !.calls[c] = @ + 1]            \* "prompter not found"

CAcquire(c) ==
  /\ s.cpc[c] = "have"
  /\ \/ /\ s.tok > 0                                      \* a buffered value is delivered even if closed
        /\ s' = [s EXCEPT !.tok = @ - 1, !.cpc[c] = "in",
                          !.bad = @ \cup Violated("C32_Exclusive", C32_Exclusive(Cardinality(InPrompter) + 1))
                                    \cup Violated("C32_NoUseAfterUnregister",
                                                  C32_NoUseAfterUnregister(s.upc = "returned", 1))
                                    \cup Violated("C32_EchoIffConfirmation",
                                                  C32_EchoIffConfirmation(s.text[c], ResponseMode(s.text[c])))]
     \/ /\ s.tok = 0 /\ s.closed                          \* "unable to acquire prompter"
        /\ s' = [s EXCEPT !.cpc[c] = "idle", !.text[c] = ""]

\* the prompter's method returns: successfully, or with an error (Message/Prompt then wrap the
\* error - but only AFTER the prompter went back into the holder: both outcomes take the same
\* CPutBack step, exactly once)
InvokeOK(c) ==
  /\ s.cpc[c] = "in"
  /\ s' = [s EXCEPT !.cpc[c] = "putback"]

InvokeFails(c) ==
  /\ s.cpc[c] = "in"
  /\ s' = [s EXCEPT !.cpc[c] = "putback", !.failed[c] = TRUE]

CPutBack(c) ==
  /\ s.cpc[c] = "putback"
  /\ \/ /\ s.closed                                       \* send on closed channel
        /\ s' = [s EXCEPT !.cpc[c] = "idle", !.text[c] = "", !.panics = 1, !.failed[c] = FALSE]
     \/ /\ ~s.closed /\ s.tok = 0
        /\ s' = [s EXCEPT !.cpc[c] = "idle", !.text[c] = "", !.tok = 1, !.failed[c] = FALSE]

URemove ==
  /\ s.upc = "idle" /\ s.registered
  /\ s' = [s EXCEPT !.registered = FALSE, !.upc = "removed"]

UTake ==
  /\ s.upc = "removed" /\ s.tok > 0
  /\ s' = [s EXCEPT !.tok = @ - 1, !.upc = "got"]

UClose ==
  /\ s.upc = "got"
  /\ s' = [s EXCEPT !.upc = "returned", !.closed = TRUE, !.panics = IF s.closed THEN 1 ELSE @]

Next == URemove \/ UTake \/ UClose
        \/ \E c \in Callers : CLookup(c) \/ CAcquire(c) \/ InvokeOK(c) \/ InvokeFails(c) \/ CPutBack(c)
Steps(c) == CAcquire(c) \/ InvokeOK(c) \/ InvokeFails(c) \/ CPutBack(c)
Spec == Init /\ [][Next]_s /\ WF_s(UTake) /\ WF_s(UClose) /\ \A c \in Callers : WF_s(Steps(c))

InvC32_Exclusive == C32_Exclusive(Cardinality(InPrompter))
InvC32_NoUseAfterUnregister == C32_NoUseAfterUnregister(s.upc = "returned", Cardinality(InPrompter))
InvC32_NoPanic == C32_NoPanic(s.panics)
InvMonitors == s.bad = {}
\* the holder never holds more than the one prompter; a send never blocks
InvHolder == s.tok \in 0..1 /\ (s.tok = 1 => \A c \in Callers : s.cpc[c] \notin {"in", "putback"})
\* there is exactly one prompter: in the holder, with the caller that invokes it / is about to put it
\* back (after success or failure alike), or with the unregistration that took it for good
Holders == Cardinality({c \in Callers : s.cpc[c] \in {"in", "putback"}}) + (IF s.upc \in {"got", "returned"} THEN 1 ELSE 0)
InvTokenOnce == s.panics = 0 => s.tok + Holders = 1
\* nobody is left blocked: unregistration returns, every call returns
LiveUnregisterReturns == (s.upc = "removed") ~> (s.upc = "returned")
LiveCallsReturn == \A c \in Callers : (s.cpc[c] = "have") ~> (s.cpc[c] = "idle")
Symm == Permutations(Callers)
====
