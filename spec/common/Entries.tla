---- MODULE Entries ----
(***************************************************************************)
(* Shared vocabulary of filesystem trees ("entries"), mirroring             *)
(* pkg/synchronization/core: Entry, Change, diff, Apply, the                *)
(* synchronizable filter, Count, validity.  JSON trees recorded by the Go   *)
(* drivers deserialise 1:1 onto these records.                              *)
(***************************************************************************)
EXTENDS Naturals, FiniteSets, Sequences, TLC

Nil == [k |-> "nil"]
F(d, x) == [k |-> "file", d |-> d, x |-> x]
L(t) == [k |-> "link", t |-> t]
U == [k |-> "untracked"]
P(p) == [k |-> "problem", p |-> p]
D(c) == [k |-> "dir", c |-> c]
Ph(c) == [k |-> "phantom", c |-> c]

PartialFns(S, T) == UNION {[X -> T] : X \in SUBSET S}

\* leaves plus directories over `names` nested up to depth d
RECURSIVE TreesOf(_, _, _)
TreesOf(leaves, names, d) ==
  IF d = 0 THEN leaves
  ELSE leaves \cup {D(c) : c \in PartialFns(names, TreesOf(leaves, names, d - 1))}

HasContents(e) == e.k \in {"dir", "phantom"}
Child(e, n) == IF HasContents(e) /\ n \in DOMAIN e.c THEN e.c[n] ELSE Nil
ChildNames(e) == IF HasContents(e) THEN DOMAIN e.c ELSE {}

\* Entry.Equal(other, deep=false)
ShallowEq(x, y) ==
  /\ x.k = y.k
  /\ (x.k = "file" => x.d = y.d /\ x.x = y.x)
  /\ (x.k = "link" => x.t = y.t)
  /\ (x.k = "problem" => x.p = y.p)

IsSyncKind(e) == e.k \in {"dir", "file", "link"}
IsUnsyncKind(e) == e.k \in {"untracked", "problem", "phantom"}

\* Entry.synchronizable(): drop untracked, problematic and phantom sub-trees
RECURSIVE Sync(_)
Sync(e) ==
  IF ~IsSyncKind(e) THEN Nil
  ELSE IF e.k # "dir" THEN e
  ELSE LET keep == {n \in DOMAIN e.c : IsSyncKind(e.c[n])}
       IN D([n \in keep |-> Sync(e.c[n])])

RECURSIVE At(_, _)
At(e, path) == IF path = <<>> THEN e ELSE At(Child(e, Head(path)), Tail(path))

\* relative paths of all non-nil nodes of e
RECURSIVE Nodes(_)
Nodes(e) == IF e = Nil THEN {}
            ELSE {<<>>} \cup UNION {{<<n>> \o q : q \in Nodes(e.c[n])} : n \in ChildNames(e)}

IsPrefix(p, q) == Len(p) <= Len(q) /\ SubSeq(q, 1, Len(p)) = p
ProperPrefixes(p) == {SubSeq(p, 1, i) : i \in 0..(Len(p) - 1)}

Chg(p, o, n) == [path |-> p, old |-> o, new |-> n]

\* diff(path, base, target) as a set of changes (the code's list order is unspecified)
RECURSIVE Diff(_, _, _)
Diff(path, base, target) ==
  IF ~ShallowEq(target, base) THEN {Chg(path, base, target)}
  ELSE UNION {Diff(Append(path, n), Child(base, n), Child(target, n)) : n \in ChildNames(base) \cup ChildNames(target)}

NonDel(cs) == {c \in cs : c.new # Nil}
Slim(e) == IF HasContents(e) THEN [k |-> e.k, c |-> <<>>] ELSE e

\* Apply: set the node at path; "ERR" when a parent does not resolve to a directory
Err == [k |-> "ERR"]
RECURSIVE SetAt(_, _, _)
SetAt(e, path, new) ==
  IF path = <<>> THEN new
  ELSE IF ~HasContents(e) THEN Err
  ELSE LET n == Head(path)
           W(c) == [k |-> e.k, c |-> c]
       IN
       IF Len(path) = 1 THEN
          IF new = Nil THEN W([m \in DOMAIN e.c \ {n} |-> e.c[m]])
          ELSE W([m \in DOMAIN e.c \cup {n} |-> IF m = n THEN new ELSE e.c[m]])
       ELSE IF n \notin DOMAIN e.c THEN Err
       ELSE LET sub == SetAt(e.c[n], Tail(path), new) IN
            IF sub = Err THEN Err ELSE W([m \in DOMAIN e.c |-> IF m = n THEN sub ELSE e.c[m]])

RECURSIVE ApplySeq(_, _)
ApplySeq(base, cs) == IF cs = <<>> THEN base
                      ELSE LET r == SetAt(base, Head(cs).path, Head(cs).new) IN
                           IF r = Err THEN Err ELSE ApplySeq(r, Tail(cs))

RECURSIVE SetToSeq(_)
SetToSeq(S) == IF S = {} THEN <<>> ELSE LET x == CHOOSE y \in S : TRUE IN <<x>> \o SetToSeq(S \ {x})
Rng(q) == {q[i] : i \in DOMAIN q}

\* Entry.EnsureValid(synchronizable=TRUE) at the structural level captured by the encoding
RECURSIVE ValidSync(_)
ValidSync(e) == e = Nil \/ e.k \in {"file", "link"}
                \/ (e.k = "dir" /\ \A n \in DOMAIN e.c : e.c[n] # Nil /\ ValidSync(e.c[n]))
RECURSIVE ValidAny(_)
ValidAny(e) == e = Nil \/ e.k \in {"file", "link", "untracked", "problem"}
               \/ (HasContents(e) /\ \A n \in DOMAIN e.c : e.c[n] # Nil /\ ValidAny(e.c[n]))

\* Entry.Count(): synchronizable entries reachable through synchronizable directories
RECURSIVE Count(_)
RECURSIVE SumCounts(_, _)
SumCounts(e, S) == IF S = {} THEN 0 ELSE LET n == CHOOSE x \in S : TRUE IN Count(e.c[n]) + SumCounts(e, S \ {n})
Count(e) == IF ~IsSyncKind(e) THEN 0
            ELSE IF e.k # "dir" THEN 1
            ELSE 1 + SumCounts(e, DOMAIN e.c)

\* all prefix-closed sub-trees of e (what a partial creation/removal can leave behind)
RECURSIVE SubTrees(_)
SubTrees(e) ==
  IF e = Nil THEN {Nil}
  ELSE IF e.k # "dir" THEN {Nil, e}
  ELSE {Nil} \cup
       {D(c) : c \in UNION {{f \in [X -> UNION {SubTrees(e.c[n]) : n \in X}] :
                                \A n \in X : f[n] \in SubTrees(e.c[n]) /\ f[n] # Nil} : X \in SUBSET DOMAIN e.c}}
\* membership test for SubTrees(e) without building the set
RECURSIVE IsSubTree(_, _)
IsSubTree(s, e) ==
  \/ s = Nil
  \/ (e # Nil /\ e.k # "dir" /\ s = e)
  \/ (e.k = "dir" /\ s.k = "dir" /\ DOMAIN s.c \subseteq DOMAIN e.c
      /\ \A n \in DOMAIN s.c : s.c[n] # Nil /\ IsSubTree(s.c[n], e.c[n]))
====
