---- MODULE TraceKit ----
(***************************************************************************)
(* Plumbing shared by every *_Trace module: the recorded trace, failure     *)
(* accumulation (all failing records are collected in one pass instead of   *)
(* stopping at the first), and the result file read by bin/check.           *)
(***************************************************************************)
EXTENDS Naturals, Sequences, TLC, Json

Trace == ndJsonDeserialize("trace.ndjson")
NRec == Len(Trace)
MaxFails == 60
Fail(i, name) == [i |-> i, inv |-> name]
\* evaluate cond only when the invariant is wanted by this check
Chk(want, i, name, cond) == IF name \in want THEN (IF cond THEN <<>> ELSE <<Fail(i, name)>>) ELSE <<>>
Cap(fs) == IF Len(fs) > MaxFails THEN SubSeq(fs, 1, MaxFails) ELSE fs
WriteResult(consumed, fails, stats) ==
  JsonSerialize("result.json", <<[total |-> NRec, consumed |-> consumed, fails |-> fails] @@ stats>>)
Has(r, f) == f \in DOMAIN r
====
