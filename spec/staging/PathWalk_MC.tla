---- MODULE PathWalk_MC ----
(***************************************************************************)
(* Leg D for C17: every scenario of the matrix runs through the resolution  *)
(* model; Contained and CrossingFails must hold. Each completed scenario is *)
(* printed as a BEHAVIOUR line: the driver executes exactly this set on     *)
(* real directories (and the trace module checks that it did).              *)
(***************************************************************************)
EXTENDS PathWalk, Json
Export == phase = "done" => PrintT(<<"BEHAVIOUR", ToJson(sc)>>)
====
