CONSTANTS
  Want = {"C41_ScanLimit", "C41_StageRefusal", "C41_TransRefusal", "C41_StageSubseq", "C41_OmittedAvailable",
          "C41_RequestedNeeded", "C41_StageLeavesRoot", "C41_TransLimit", "C41_TransWithin", "C41_ReadOnlyRefuses", "C41_ControllerSubsetCheck",
          "C10_StoreContentAddressed", "Conforms"}
  WhatIf = "none"
SPECIFICATION TSpec
CHECK_DEADLOCK FALSE
