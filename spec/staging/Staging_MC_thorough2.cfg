CONSTANTS
  Names = {"a", "b"}
  Conts = {"c1", "c2"}
  Limits = {3}
  MaxReq = 2
  MaxChg = 2
  MaxStore = 2
  KindSet = {"exact", "corrupt", "truncated", "abort"}
  ROs = {FALSE, TRUE}
  ExtNames = {"a"}
  MaxFiles = {0, 2, 1000000}
  FaultSet <- FaultsAll
  Restarts = {"keep"}
  WhatIf = "none"
SPECIFICATION Spec
INVARIANT NoViolation
CHECK_DEADLOCK FALSE
