---- MODULE PathWalkProps ----
(***************************************************************************)
(* C17 - no escape from the synchronization root through in-root symbolic   *)
(* links.                                                                   *)
(*   pkg/filesystem/directory_posix.go  Directory.open (openat O_NOFOLLOW), *)
(*        ReadContentMetadata (fstatat AT_SYMLINK_NOFOLLOW), *at primitives *)
(*   pkg/filesystem/open.go             Opener.OpenFile (handle stack)      *)
(*   pkg/filesystem/open_posix.go       Open(root, allowSymbolicLinkLeaf)   *)
(*   pkg/synchronization/core/transition.go walkToParentAndComputeLeafName  *)
(*   pkg/synchronization/rsync/transmit.go, receive.go  (Opener users)      *)
(*   pkg/synchronization/core/scan.go   (lstat listing, readlink only)      *)
(*                                                                          *)
(* The world: a root with the chain  root / a / b / f  (f a file, siblings  *)
(* g, h, top) and, outside the root, a canary directory holding mirrors of  *)
(* every level (same names, same contents) so that a followed link would    *)
(* find exactly what the operation is looking for. A scenario puts a        *)
(* symbolic link at one component of the chain - before the scan ("static") *)
(* or replacing the real thing after the scan ("swap", for stage_base also  *)
(* "mid": between Stage and the reception) - and runs one operation whose   *)
(* path goes through that component.                                        *)
(*                                                                          *)
(* Part 1: the property operators over observations (tree of the root as    *)
(*   the walker saw it just before the operation, the operation's paths and *)
(*   raw outputs, canary listing before/after, inotify events).             *)
(* Part 2: the scenario matrix (the set Scenarios is the contract between   *)
(*   the model, the driver and the trace module).                           *)
(* (Part 3, the resolution mechanism per operation kind with the what-if    *)
(*   constant Follow, is module PathWalk.)                                  *)
(***************************************************************************)
EXTENDS Entries, Integers

(***************************************************************************)
(* Part 1. Properties                                                       *)
(***************************************************************************)
\* the walker saw a link at the root or at some non-empty prefix (the leaf included) of a target path
RootIsLink(disk) == disk.k = "link"
PathCrosses(disk, t) == RootIsLink(disk) \/ \E k \in 1..Len(t) : At(disk, SubSeq(t, 1, k)).k = "link"
Crosses(disk, targets) == \E t \in targets : PathCrosses(disk, t)

\* nothing outside the root was opened, read, created, modified or deleted
C17_CanaryUntouched(events, canary0, canary1) == events = <<>> /\ canary0 = canary1

\* paths a change makes the transition walk
ChangeTargets(c) == {c.path \o q : q \in Nodes(c.old) \cup Nodes(c.new)}

\* scanning never descends through a link: no snapshot node lies below a link
\* of the disk, and a link root is refused
C17_ScanStaysInside(disk, err, snap) ==
  /\ RootIsLink(disk) => err # ""
  /\ \A p \in Nodes(snap) : \A k \in 0..(Len(p) - 1) : At(disk, SubSeq(p, 1, k)).k # "link"

\* an operation whose path crosses a link fails
C17_TransitionCrossingFails(disk, chg, results, problems) ==
  \A i \in DOMAIN chg : Crosses(disk, ChangeTargets(chg[i])) =>
     (Len(results) >= i => results[i] # chg[i].new \/ chg[i].new = chg[i].old) /\ Len(problems) >= 1
\* Supply / rsync.Transmit: the file is reported as unopenable, no data leaves
C17_SupplyCrossingFails(disk, path, tx) ==
  PathCrosses(disk, path) => /\ \A j \in DOMAIN tx : tx[j].ndata = 0 /\ tx[j].nblocks = 0
                             /\ \E j \in DOMAIN tx : tx[j].done /\ tx[j].err # ""
\* Stage: the base of a crossing path is not read (empty signature) ...
C17_StageBaseCrossingFails(disk, path, nblocks) == PathCrosses(disk, path) => nblocks = 0
\* ... the receiver does not patch against it (nothing gets staged for it) ...
C17_ReceiveCrossingFails(disk, path, sigblocks, staged) == (PathCrosses(disk, path) /\ sigblocks > 0) => ~staged
\* ... and a root file behind a link is not used as a copy source (the request still needs data)
C17_CopyCrossingFails(disk, src, reqpath, ret) == PathCrosses(disk, src) => ret = <<reqpath>>

\* The staging root itself (in internal staging mode it lives inside the
\* synchronization root, in neighboring mode next to it): whatever already sits at
\* its path when a store is first used - a symbolic link (to a directory outside or
\* inside the root, to a file, to nothing), a regular file, or a real directory
\* whose two-hex-digit prefix entries are links - is never followed: Stage fails
\* unless it is a real directory of real prefix directories (or absent).
\* srootKind: what the walker (lstat) found at the staging root path before the first
\* Stage: "none" | "dir" | "link" | "file" | "other"; prefixLink: a prefix entry inside
\* it is a symbolic link.
C17_StagingRootNotFollowed(srootKind, prefixLink, stageErr) ==
  (srootKind \in {"link", "file", "other"} \/ prefixLink) => stageErr # ""

(***************************************************************************)
(* Part 2. The scenario matrix                                              *)
(***************************************************************************)
Ops == {"scan", "supply", "stage_base", "stage_copy", "tr_create_file", "tr_create_dir", "tr_create_link",
        "tr_remove_file", "tr_remove_dir", "tr_swap"}
Positions == {-1, 0, 1, 2, 3}          \* -1 none (control); 0 root; 1 a; 2 a/b; 3 the leaf
TargetKinds == {"mirror", "file", "dangling"}
Moments == {"static", "swap", "mid"}
Forms == {"abs", "rel"}

Applicable(s) ==
  /\ s.pos = -1 => (s.kind = "mirror" /\ s.moment = "static" /\ s.form = "abs")
  /\ s.op = "scan" => s.moment = "static"
  /\ s.moment = "mid" => (s.op = "stage_base" /\ s.pos >= 0)
  /\ s.pos = 0 => (s.kind = "mirror" /\ (s.moment # "static" \/ s.op \in {"scan", "supply"}))
  /\ (s.pos = 3 /\ s.kind = "file") => FALSE
Scenarios == {s \in [op : Ops, pos : Positions, kind : TargetKinds, moment : Moments, form : Forms] : Applicable(s)}


\* second matrix: the staging root. StageInit = a Stage call that needs data,
\* StageWrite = + reception of the file, StageFinalize = + Transition and Shutdown.
StagingOps == {"stage_init", "stage_write", "stage_finalize"}
StagingModes == {"mutagen", "neighboring", "internal"}
StagingPre == {"absent", "dir", "link_out", "link_in", "link_file", "dangling", "file", "prefix_link"}
StagingScenarios == [op : StagingOps, smode : StagingModes, pre : StagingPre]
IsStaging(s) == "smode" \in DOMAIN s
====
