CONSTANTS
  Want = {"C17_CanaryUntouched", "C17_ScanStaysInside", "C17_SupplyCrossingFails", "C17_StageBaseCrossingFails",
          "C17_ReceiveCrossingFails", "C17_CopyCrossingFails", "C17_TransitionCrossingFails", "C17_StagingRootNotFollowed",
          "DriverInMatrix", "DriverLinkPlaced", "DriverControlSucceeds"}
SPECIFICATION TSpec
CHECK_DEADLOCK FALSE
