---- MODULE Staging_MC ----
(***************************************************************************)
(* Leg D for C10 / C41: the endpoint + store + receiver + transition        *)
(* mechanism of Staging.tla as a state machine over a small universe        *)
(* (files Names directly below the root, contents Conts), with every call   *)
(* order, every request, every per-file transfer outcome, external writes / *)
(* removals / copies at any moment, every entry limit in Limits, every      *)
(* staging file size limit in MaxFiles (in write units), read-only or not.   *)
(* Every call evaluates the property operators of Staging.tla on (state     *)
(* before, arguments, outputs, state after) and stores the name of the      *)
(* first one that fails in the monitor variable `bad`; the invariant is     *)
(* bad = "". (Keeping the last call itself in the state would multiply the  *)
(* state space by the number of distinct calls.)                            *)
(***************************************************************************)
EXTENDS Staging

CONSTANTS Names, Conts, Limits, MaxReq, MaxChg, MaxStore, KindSet, ROs, ExtNames, MaxFiles, FaultSet, Restarts

VARIABLES m,      \* call-protocol state (Staging!NewProto)
          root,   \* the disk below the synchronization root
          rcache, \* lastReturnedScanCache, as the tree the returned scan saw
          store,  \* staging store: set of slots
          recv,   \* what the receiver returned by the last Stage still expects: Seq([path, d])
          obst,   \* the staging root path is occupied by a leftover FILE
          bad     \* monitor: name of the first property operator the last call violated ("" = none)
vars == <<m, root, rcache, store, recv, obst, bad>>

\* fault menus for the configurations (a cfg file cannot hold records)
FaultsNone == {NoFault}
FaultsQuick == {NoFault, [step |-> "final", how |-> "short"]}
FaultsAll == AllFaults

Roots == {D(c) : c \in PartialFns(Names, {F(x, FALSE) : x \in Conts})}

Init == /\ \E ro \in ROs, mx \in Limits, mf \in MaxFiles : m = NewProto(ro, mx, mf)
        /\ root \in Roots /\ rcache = Nil /\ store = {} /\ recv = <<>> /\ obst = FALSE /\ bad = ""

\* ---- arguments ----------------------------------------------------------
RECURSIVE SeqsOver(_, _)
SeqsOver(S, n) == IF n = 0 THEN {<<>>} ELSE LET shorter == SeqsOver(S, n - 1) IN
                  shorter \cup {Append(q, x) : q \in {y \in shorter : Len(y) = n - 1}, x \in S}
Reqs == {q \in SeqsOver({[path |-> <<n>>, d |-> c] : n \in Names, c \in Conts}, MaxReq) : NoDup(ReqPaths(q))}
FileOrNil == {Nil} \cup {F(c, FALSE) : c \in Conts}
Plans == {q \in SeqsOver({Chg(<<n>>, o, w) : n \in Names, o \in FileOrNil, w \in FileOrNil}, MaxChg) :
             /\ NoDup([i \in DOMAIN q |-> q[i].path]) /\ \A i \in DOMAIN q : q[i].old # q[i].new}

\* ---- judging a call ------------------------------------------------------
\* checks: sequence of <<name, condition>>; the name of the first failing one
FirstBad(checks) == IF \A i \in DOMAIN checks : checks[i][2] THEN ""
                    ELSE checks[CHOOSE i \in DOMAIN checks : ~checks[i][2] /\ \A j \in 1..(i - 1) : checks[j][2]][1]

JudgeScan(err) == FirstBad(<< <<"C41_ScanLimit", C41_ScanLimit(m, root, err)>> >>)
HitOf(items, fault) == {[path |-> items[j].path, d |-> items[j].d] : j \in {i \in DOMAIN items : Fires(fault, UnitsOf(items[i].d))}}
JudgeStage(req, err, ret, store1, fault) ==
  FirstBad(<< <<"C10_WriteFaultsSurface", C10_WriteFaultsSurface(HitOf(req, fault), store, store1)>>, <<"C41_StageRefusal", C41_StageRefusal(m, req, obst, err)>>,
              <<"C41_ReadOnlyRefuses", C41_ReadOnlyRefuses(m, err, root, root, store, store1)>>,
              <<"C41_StageSubseq", err = "" => C41_StageSubseq(req, ret)>>,
              <<"C41_OmittedAvailable", err = "" => C41_OmittedAvailable(root, store, req, ret, store1)>>,
              <<"C41_RequestedNeeded", err = "" => C41_RequestedNeeded(m, {x.path : x \in HitOf(req, fault)}, root, store, req, ret)>>,
              <<"C10_StoreContentAddressed", C10_StoreContentAddressed(store1)>> >>)
JudgeRecv(kinds, store1, fault) ==
  FirstBad(<< <<"C10_WriteFaultsSurface",
                C10_WriteFaultsSurface(HitOf(SelectSeq(recv, LAMBDA x : \E j \in DOMAIN recv : recv[j] = x /\ kinds[j] = "exact"), fault), store, store1)>>, <<"C10_StoreContentAddressed", C10_StoreContentAddressed(store1)>>,
              <<"C10_FittingTransferStaged",
                C10_FittingTransferStaged(m.init /\ fault = NoFault /\ \A j \in DOMAIN kinds : kinds[j] \notin {"abort", "abort0"}, m.maxfile,
                   [j \in DOMAIN recv |-> [path |-> recv[j].path, d |-> recv[j].d, kind |-> kinds[j], sz |-> UnitsOf(recv[j].d)]],
                   store1)>> >>)
JudgeTrans(chg, err, results, nprob, missing, root1, store1) ==
  FirstBad(<< <<"C41_TransRefusal", C41_TransRefusal(m, chg, err)>>,
              <<"C41_ReadOnlyRefuses", C41_ReadOnlyRefuses(m, err, root, root1, store, store1)>>,
              <<"C41_TransLimit", err = "" => C41_TransLimit(m, chg, root, root1, results, nprob)>>,
              <<"C41_TransWithin", err = "" => C41_TransWithin(m, chg, root, store, root1, results)>>,
              <<"C10_PlannedContent", C10_PlannedContent(root, chg, root1)>>,
              <<"C10_BadTransferNeverLands", C10_BadTransferNeverLands(root, store, chg, root1)>>,
              <<"C10_MissingReported", (err = "" /\ ~OverTrans(m, chg)) => C10_MissingReported(~m.dirty, m.init, root, store, chg, missing)>> >>)

\* ---- calls --------------------------------------------------------------
DoScan ==
  /\ m' = ScanUpd(m, root)
  /\ rcache' = IF ScanOver(m, root) THEN rcache ELSE root
  /\ bad' = JudgeScan(IF ScanOver(m, root) THEN "over" ELSE "")
  /\ UNCHANGED <<root, store, recv, obst>>

DoStage(req, fault) ==
  /\ m' = StageUpd(m, Len(req), obst)
  /\ IF StageRefused(m, Len(req), obst) THEN
        /\ bad' = JudgeStage(req, "refused", <<>>, store, NoFault)
        /\ UNCHANGED <<store, recv>>
     ELSE \* Store.Initialize over a leftover root rescans it: everything staged is visible
          LET vis == IF WhatIf = "no_rescan" /\ m.fresh THEN {} ELSE store IN
          \E o \in StageWalk(m, root, req, vis, <<>>, fault) :
        /\ store' = o.store \cup (store \ vis)
        /\ recv' = SelectSeq(req, LAMBDA r : \E j \in DOMAIN o.ret : o.ret[j] = r.path)
        /\ bad' = JudgeStage(req, "", o.ret, o.store \cup (store \ vis), fault)
  /\ Cardinality(store') <= MaxStore
  /\ UNCHANGED <<root, rcache, obst>>

\* (a receiver that outlives the transition of its cycle finds the store finalized -
\* Allocate fails, every file is burnt - so the model forgets it there)
DoRecv(kinds, fault) ==
  /\ recv # <<>>
  /\ store' = RecvWalk(recv, kinds, store, m.maxfile, fault)
  /\ bad' = JudgeRecv(kinds, store', fault)
  /\ Cardinality(store') <= MaxStore
  /\ recv' = <<>>
  /\ UNCHANGED <<m, root, rcache, obst>>

DoTrans(chg) ==
  /\ m' = TransUpd(m, chg)
  /\ IF TransRefused(m, chg) THEN
        /\ bad' = JudgeTrans(chg, "refused", <<>>, 0, FALSE, root, store)
        /\ UNCHANGED <<root, store>>
     ELSE IF OverTrans(m, chg) THEN     \* returns before stager.Finalize: the store is kept
        /\ bad' = JudgeTrans(chg, "", Olds(chg), 1, FALSE, root, store)
        /\ UNCHANGED <<root, store>>
     ELSE LET acc == ApplyAll([root |-> root, store |-> store, results |-> <<>>, nprob |-> 0, missing |-> FALSE, init |-> m.init], chg, rcache) IN
        /\ root' = acc.root
        /\ store' = {}                  \* stager.Finalize
        /\ bad' = JudgeTrans(chg, "", acc.results, acc.nprob, acc.missing, acc.root, {})
  /\ recv' = IF TransRefused(m, chg) \/ OverTrans(m, chg) THEN recv ELSE <<>>
  /\ obst' = IF TransRefused(m, chg) \/ OverTrans(m, chg) THEN obst ELSE FALSE    \* Finalize removes whatever is there
  /\ UNCHANGED rcache

\* an external process writes (also: copies / restores) or removes a file
DoExt(n, v) ==
  /\ At(root, <<n>>) # v
  /\ root' = SetAt(root, <<n>>, v)
  /\ m' = ExtUpd(m)
  /\ bad' = ""
  /\ UNCHANGED <<rcache, store, recv, obst>>

\* the endpoint object is replaced (crash, restart, reconnection); optionally the
\* leftover staging root has meanwhile been replaced by a file or emptied
DoRestart(plant) ==
  /\ m' = RestartUpd(m)
  /\ recv' = <<>>
  /\ store' = IF plant = "keep" THEN store ELSE {}
  /\ obst' = IF plant = "file" THEN TRUE ELSE IF plant = "empty" THEN FALSE ELSE obst
  /\ bad' = ""
  /\ UNCHANGED <<root, rcache>>

Next == \/ \E plant \in Restarts : DoRestart(plant)
        \/ DoScan
        \/ \E req \in Reqs, fault \in FaultSet : DoStage(req, fault)
        \/ \E kinds \in [DOMAIN recv -> KindSet], fault \in FaultSet : DoRecv(kinds, fault)
        \/ \E chg \in Plans : DoTrans(chg)
        \/ \E n \in ExtNames, v \in FileOrNil : DoExt(n, v)
Spec == Init /\ [][Next]_vars

NoViolation == bad = ""
====
