---- MODULE Staging ----
(***************************************************************************)
(* The local endpoint's staging protocol                                    *)
(*   pkg/synchronization/endpoint/local/endpoint.go  Scan / Stage /         *)
(*        stageFromRoot / Transition                                        *)
(*   .../staging/store/store.go   Contains / Allocate / Commit / Path /     *)
(*        Finalize   (content-addressed store)                              *)
(*   pkg/synchronization/rsync/receive.go   receiver (one Sink per file)    *)
(*   pkg/synchronization/core/transition.go findAndMoveStagedFileIntoPlace  *)
(*                                                                          *)
(* Part 1: vocabulary and the PROPERTY operators of C10 and C41 (and the    *)
(*   endpoint half of C02). They take plain observations (trees, store      *)
(*   listings, requests, returned values) so that the same operator is      *)
(*   evaluated on the model's states (Staging_MC) and on records of the     *)
(*   real endpoint (Staging_Trace).                                         *)
(* Part 2: the endpoint's call protocol state (flags, last scan count,      *)
(*   cache) and its update per call - shared by model and trace.            *)
(* Part 3: the mechanism, one operator per code section, used by the model. *)
(*                                                                          *)
(* Digests: a file node carries its digest d; in the model a content IS its *)
(* digest. A store slot is [p, nd, cd]: addressed to path p, NAMED by       *)
(* digest nd, holding content whose digest is cd.                           *)
(***************************************************************************)
EXTENDS Entries, Integers

Unlimited == 1000000      \* "no maximum entry count configured" (the code uses 2^64-1)

(***************************************************************************)
(* Part 1a. Vocabulary                                                      *)
(***************************************************************************)
FilePaths(t) == {p \in Nodes(t) : At(t, p).k = "file"}
IsFileWith(t, p, d) == At(t, p).k = "file" /\ At(t, p).d = d
HasSlot(store, p, d) == \E x \in store : x.p = p /\ x.nd = d                 \* Store.Contains: a file of that NAME exists
GoodSlot(store, p, d) == \E x \in store : x.p = p /\ x.nd = d /\ x.cd = d    \* ... and really holds that content
ReqPaths(req) == [i \in DOMAIN req |-> req[i].path]
NoDup(q) == \A i, j \in DOMAIN q : i # j => q[i] # q[j]

\* a is an in-order subsequence of b (safety.go filteredPathsAreSubset)
RECURSIVE IsSubseq(_, _)
IsSubseq(a, b) == IF a = <<>> THEN TRUE
                  ELSE IF b = <<>> THEN FALSE
                  ELSE IF Head(a) = Head(b) THEN IsSubseq(Tail(a), Tail(b))
                  ELSE IsSubseq(a, Tail(b))

\* files a change list plans to put on disk: [path, d]
PlannedFilesOf(c) == {[path |-> c.path \o q, d |-> At(c.new, q).d] : q \in FilePaths(c.new)}
\* file -> file with equal digest only changes permissions: nothing is staged for it
NeedsData(c) == ~(c.old.k = "file" /\ c.new.k = "file" /\ c.old.d = c.new.d)
PlannedFiles(chg) == UNION {PlannedFilesOf(chg[i]) : i \in DOMAIN chg}
DataFiles(chg) == UNION {IF NeedsData(chg[i]) THEN PlannedFilesOf(chg[i]) ELSE {} : i \in DOMAIN chg}

ParentIsDir(t, path) == path # <<>> /\ At(t, SubSeq(path, 1, Len(path) - 1)).k = "dir"
\* a change the transition can carry out on this disk without running into a
\* pre-existing obstacle (used only to delimit where completeness is claimed)
Applicable(disk, c) ==
  IF c.old = Nil THEN ParentIsDir(disk, c.path) /\ At(disk, c.path) = Nil /\ c.new.k \in {"file", "dir"}
  ELSE IF c.old.k = "file" /\ c.new.k \in {"file", "nil"} THEN ParentIsDir(disk, c.path) /\ IsFileWith(disk, c.path, c.old.d)
  ELSE FALSE
DisjointPaths(chg) == \A i, j \in DOMAIN chg : i # j => ~IsPrefix(chg[i].path, chg[j].path)
AllApplicable(disk, chg) == DisjointPaths(chg) /\ \A i \in DOMAIN chg : Applicable(disk, chg[i])

(***************************************************************************)
(* Part 1b. C10 - files written into a root carry the planned content       *)
(***************************************************************************)
\* mechanism-level: the store names every slot by the digest of what was written
C10_StoreContentAddressed(store) == \A x \in store : x.nd # "" => x.nd = x.cd

\* after a transition, every planned file path holds either what it held before
\* or a file with exactly the planned digest
C10_PlannedContent(disk0, chg, disk1) ==
  \A f \in PlannedFiles(chg) :
     LET a == At(disk1, f.path)  b == At(disk0, f.path)
     IN a = b \/ (a.k = "file" /\ a.d = f.d)

\* a planned file whose data is not in the store with the right content never
\* reaches the root ...
C10_BadTransferNeverLands(disk0, store0, chg, disk1) ==
  \A f \in DataFiles(chg) : ~GoodSlot(store0, f.path, f.d) => At(disk1, f.path) = At(disk0, f.path)

\* ... and is reported as "missing files": the flag is raised only for absent
\* slots, and (where nothing else prevents the attempt) always for them.
\* `staged`: a staging phase preceded this transition (the store is initialized);
\* a transition of a plan that needs data without any staging call only reports
\* problems ("store uninitialized") - the controller never does that.
C10_MissingReported(clean, staged, disk0, store0, chg, missing) ==
  LET absent == {f \in DataFiles(chg) : ~HasSlot(store0, f.path, f.d)} IN
  /\ missing => absent # {}
  /\ (clean /\ staged /\ AllApplicable(disk0, chg) /\ absent # {}) => missing

\* the staging file size limit: nothing larger is ever committed (real store
\* listings carry the byte size sz of every staged file) ...
C10_StagedWithinSizeLimit(store, maxfile) == \A x \in store : "sz" \in DOMAIN x => x.sz <= maxfile
\* ... and a complete, unmodified transfer of a file that fits is staged under
\* its planned digest (no spurious "missing files"). plan: what was sent per
\* pending file [path, d, kind, sz]; undisturbed: the store is initialized, the
\* stream ended without error and no external edit touched the bases since Stage.
C10_FittingTransferStaged(undisturbed, maxfile, plan, store1) ==
  undisturbed => \A j \in DOMAIN plan :
     (plan[j].kind \in {"exact", "split"} /\ plan[j].sz <= maxfile) => GoodSlot(store1, plan[j].path, plan[j].d)

\* I/O faults while staging (short write + error or plain error at an
\* intermediate flush, at the final flush inside Commit, at close, at the rename
\* into the store): a file whose transfer suffered one is never reported as
\* staged - no slot bearing its planned digest appears. hit: the set of
\* [path, d] the fault struck.
C10_WriteFaultsSurface(hit, store0, store1) ==
  \A f \in hit : ~HasSlot(store0, f.path, f.d) => ~HasSlot(store1, f.path, f.d)

(***************************************************************************)
(* Part 2. Call-protocol state of one endpoint and its update per call      *)
(*   m = [ro, max, maxfile, sSt, sTr, count, cache, dirty, sdirty, init,    *)
(*        fresh]                                                            *)
(*   sSt / sTr   scannedSinceLastStageCall / ...TransitionCall              *)
(*   count       lastScanEntryCount        cache   what the last scan saw   *)
(*   dirty       an external edit happened since the last accepted scan     *)
(*   sdirty      an external edit happened since the last accepted Stage    *)
(*               (the base files its signatures describe may have changed)  *)
(*   maxfile     maximum staging file size (Store.maximumFileSize)          *)
(*   fresh       the endpoint object was replaced (crash / restart /         *)
(*               reconnection: same session, same data directory, the       *)
(*               on-disk staging root survives) and its store has not been  *)
(*               initialized yet; Store.Initialize then finds the leftover  *)
(*               root and must rescan its prefix directories                *)
(*   init        the staging store is initialized: a Stage call got as far  *)
(*               as stager.Initialize and no transition has finalized it    *)
(***************************************************************************)
NewProto(ro, max, maxfile) == [ro |-> ro, max |-> max, maxfile |-> maxfile, sSt |-> FALSE, sTr |-> FALSE, count |-> 0, cache |-> Nil, dirty |-> FALSE, sdirty |-> FALSE, init |-> FALSE, fresh |-> FALSE]

ScanOver(m, disk) == Count(disk) > m.max
\* endpoint.scan stores cache and count before Scan compares with the maximum
ScanUpd(m, disk) ==
  IF ScanOver(m, disk) THEN [m EXCEPT !.cache = disk, !.count = Count(disk)]
  ELSE [m EXCEPT !.cache = disk, !.count = Count(disk), !.sSt = TRUE, !.sTr = TRUE, !.dirty = FALSE]

\* Stage: "staging would exceed allowed entry count"
OverStage(m, n) == m.count + n > m.max
\* obstructed: the staging root path is occupied by something that is not a
\* directory - Store.Initialize (run by the first Stage of a store object) fails
StageRefused(m, n, obstructed) == m.ro \/ (n > 0 /\ (~m.sSt \/ OverStage(m, n) \/ (obstructed /\ ~m.init)))
\* the flag is consumed as soon as the no-scan test has been passed
StageUpd(m, n, obstructed) ==
  IF m.ro \/ n = 0 \/ ~m.sSt THEN m
  ELSE IF OverStage(m, n) \/ (obstructed /\ ~m.init) THEN [m EXCEPT !.sSt = FALSE]
  ELSE [m EXCEPT !.sSt = FALSE, !.init = TRUE, !.sdirty = FALSE, !.fresh = FALSE]

\* the endpoint object is replaced: everything in memory is gone (flags, counts, the
\* store object, the receiver), the disk - root and staging root - is not
RestartUpd(m) == [m EXCEPT !.sSt = FALSE, !.sTr = FALSE, !.count = 0, !.init = FALSE, !.sdirty = TRUE, !.fresh = TRUE]

\* Transition: resulting entry count, "NEG" if a removal exceeds what exists
RECURSIVE Resulting(_, _)
Resulting(cur, chg) ==
  IF chg = <<>> THEN cur
  ELSE IF Count(Head(chg).old) > cur THEN -1
  ELSE Resulting(cur - Count(Head(chg).old) + Count(Head(chg).new), Tail(chg))
Negative(m, chg) == Resulting(m.count, chg) < 0
TransRefused(m, chg) == m.ro \/ ~m.sTr \/ Negative(m, chg)
OverTrans(m, chg) == ~Negative(m, chg) /\ m.max < Resulting(m.count, chg)
\* an applied transition ends with stager.Finalize; the over-limit answer returns before it
TransUpd(m, chg) == IF m.ro \/ ~m.sTr THEN m
                    ELSE [m EXCEPT !.sTr = FALSE, !.init = IF Negative(m, chg) \/ OverTrans(m, chg) THEN @ ELSE FALSE]

ExtUpd(m) == [m EXCEPT !.dirty = TRUE, !.sdirty = TRUE]

(***************************************************************************)
(* Part 1c. C41 - staging requests only what is missing, limits, ordering   *)
(***************************************************************************)
C41_ScanLimit(m, disk0, err) == (err # "") <=> ScanOver(m, disk0)
C41_StageRefusal(m, req, obstructed, err) == (err # "") <=> StageRefused(m, Len(req), obstructed)
C41_TransRefusal(m, chg, err) == (err # "") <=> TransRefused(m, chg)

\* does content of this request fit into one staging file? (real records carry the
\* byte size sz of the planned content; the model measures in write units)
SizeOfReq(r) == IF "sz" \in DOMAIN r THEN r.sz
                ELSE CASE r.d = "c1" -> 2 [] r.d = "c2" -> 3 [] r.d = "empty" -> 0 [] OTHER -> 1
Fits(m, r) == SizeOfReq(r) <= m.maxfile
\* returned paths: in request order, no inventions, no duplicates
C41_StageSubseq(req, ret) == IsSubseq(ret, ReqPaths(req)) /\ NoDup(ret)

\* a request is dropped ONLY IF its content was already staged or some file in
\* the root has that digest - and then the content really is in the store
C41_OmittedAvailable(disk0, store0, req, ret, store1) ==
  \A i \in DOMAIN req : (\A j \in DOMAIN ret : ret[j] # req[i].path) =>
     /\ GoodSlot(store1, req[i].path, req[i].d)
     /\ \/ HasSlot(store0, req[i].path, req[i].d)
        \/ \E q \in FilePaths(disk0) : At(disk0, q).d = req[i].d
        \/ SizeOfReq(req[i]) = 0     \* empty content needs no data: a from-root copy cut off by the
                                     \* size limit at its first write leaves exactly the empty file

\* a request is kept only if it still needs data: not already staged, and not
\* (every file the last scan saw with that digest is still intact and small
\* enough to be copied into the store, and no I/O fault struck the copy -
\* struck: the request paths hit by one)
C41_RequestedNeeded(m, struck, disk0, store0, req, ret) ==
  \A i \in DOMAIN req : (\E j \in DOMAIN ret : ret[j] = req[i].path) =>
     /\ ~GoodSlot(store0, req[i].path, req[i].d)
     /\ LET cand == {q \in FilePaths(m.cache) : At(m.cache, q).d = req[i].d}
        IN ~(cand # {} /\ Fits(m, req[i]) /\ req[i].path \notin struck /\ \A q \in cand : IsFileWith(disk0, q, req[i].d))

\* the controller's own check of Stage's answer (safety.go filteredPathsAreSubset)
\* accepts exactly the in-order subsequences
C41_ControllerSubsetCheck(filtered, original, out) == out = IsSubseq(filtered, original)

\* staging never touches the root
C41_StageLeavesRoot(disk0, disk1) == disk1 = disk0

Olds(chg) == [i \in DOMAIN chg |-> chg[i].old]
News(chg) == [i \in DOMAIN chg |-> chg[i].new]
\* over the limit: nothing happens, every result is the old entry, one problem
C41_TransLimit(m, chg, disk0, disk1, results, nproblems) ==
  OverTrans(m, chg) => results = Olds(chg) /\ nproblems = 1 /\ disk1 = disk0
\* within the limit the transition is carried out (completeness where nothing
\* else stands in the way) and the disk stays within the limit
C41_TransWithin(m, chg, disk0, store0, disk1, results) ==
  (~OverTrans(m, chg) /\ ~m.dirty /\ AllApplicable(disk0, chg)
     /\ (m.init \/ DataFiles(chg) = {})      \* a store object that never staged cannot provide: "store uninitialized"
     /\ \A f \in DataFiles(chg) : GoodSlot(store0, f.path, f.d))
  => results = News(chg) /\ Count(disk1) <= m.max

\* C02, endpoint half: a read-only endpoint refuses and leaves everything alone
C41_ReadOnlyRefuses(m, err, disk0, disk1, store0, store1) ==
  m.ro => err # "" /\ disk1 = disk0 /\ store1 = store0

(***************************************************************************)
(* Part 3. Mechanism (model only). WhatIf selects deliberately broken       *)
(* variants used once to show that the invariants are not vacuous:          *)
(*   "none"            the code as it is                                    *)
(*   "name_by_expected" Commit names the slot by the digest that was asked  *)
(*   "no_reverify"     stageFromRoot trusts the reverse lookup              *)
(*   "no_rescan"       Store.Initialize does not rescan a leftover staging  *)
(*                     root (e.g. MkdirAll hiding the "exists" answer)      *)
(*   "offered_hash_and_merge" the hashed writer hashes the bytes OFFERED     *)
(*                     instead of those accepted AND Commit lets a later   *)
(*                     nil close error overwrite the flush error            *)
(*   "hash_before_limit" Storage.Write feeds the hasher before the size     *)
(*                     check: a rejected write is hashed but not written    *)
(***************************************************************************)
CONSTANT WhatIf

\* Storage.Commit: rename onto the target name (digest of the HASHER + path hash),
\* replacing a previous file of that name. nd = what the hasher saw, cd = what is in the file.
SlotOf(p, nd, cd, expected) == [p |-> p, nd |-> IF WhatIf = "name_by_expected" THEN expected ELSE nd, cd |-> cd]
PutSlot(store, p, nd, cd, expected) ==
  LET x == SlotOf(p, nd, cd, expected) IN {y \in store : ~(y.p = p /\ y.nd = x.nd)} \cup {x}

\* Sizes. Contents are measured in write units (one rsync operation = one unit;
\* the from-root copy writes a whole small file in one io.Copy chunk).
UnitsOf(d) == SizeOfReq([d |-> d])
TruncName(k) == CASE k = 0 -> "empty" [] k = 1 -> "trunc1" [] k = 2 -> "trunc2" [] OTHER -> "truncN"
Prefix(w, n, k) == IF k >= n THEN w ELSE TruncName(k)      \* digest of the first k of the n units of content w
\* Storage.Write, one call per unit: size check ((max - current) < len => error, nothing
\* written), buffered write, and - through the hashed writer underneath - hashing of the
\* accepted bytes only. The first rejected write ends the file (Patch fails, the sink is
\* closed = committed, the rest of the stream is burnt).
\*   outcome: "fits" | "limit_last" (the crossing write is the file's last) | "limit_earlier"
StoreUnits(w, n, lim) ==
  IF n <= lim THEN [nd |-> w, cd |-> w, outcome |-> "fits"]
  ELSE [cd |-> Prefix(w, n, lim),
        nd |-> IF WhatIf = "hash_before_limit" THEN Prefix(w, n, lim + 1) ELSE Prefix(w, n, lim),
        outcome |-> IF lim + 1 = n THEN "limit_last" ELSE "limit_earlier"]
\* stageFromRoot's io.Copy hands the whole (small) file to ONE Write call
StoreWhole(w, n, lim) ==
  IF n <= lim THEN [nd |-> w, cd |-> w, outcome |-> "fits"]
  ELSE [cd |-> "empty", nd |-> IF WhatIf = "hash_before_limit" THEN w ELSE "empty", outcome |-> "limit_last"]

\* The sink as the code layers it: Storage.Write -> bufio.Writer (BufCap units) ->
\* hashed writer (hashes what the file accepted) -> temporary file; Commit = final
\* Flush, Close, digest, Rename onto the slot name - and succeeds only if every step
\* did. A fault strikes one step: "flush1" (the intermediate flush when the buffer
\* fills: only files larger than the buffer have one), "final" (the flush inside
\* Commit), "close", "rename"; how = "short" (part of the data reaches the disk, then
\* the error) or "error" (nothing of that step does).
BufCap == 2
NoFault == [step |-> "none", how |-> "none"]
AllFaults == {NoFault} \cup [step : {"flush1", "final", "close", "rename"}, how : {"short", "error"}]
Fires(fault, n) == CASE fault.step = "none" -> FALSE
                     [] fault.step = "flush1" -> n > BufCap
                     [] fault.step = "final" -> n > 0
                     [] OTHER -> TRUE
\* [committed, nd, cd]: whether a slot appears, named by what the hasher saw, holding what is on disk
SinkRun(w, n, fault) ==
  LET pre == IF n > BufCap THEN BufCap ELSE 0          \* units on disk before the final flush
      broken == WhatIf = "offered_hash_and_merge"
  IN
  IF ~Fires(fault, n) THEN [committed |-> TRUE, nd |-> w, cd |-> w]
  ELSE IF fault.step = "flush1" THEN
       \* Write returns the error: Patch fails, the sink is closed; Commit's Flush returns the
       \* sticky error. Broken: the error is lost, the file is committed under what was OFFERED so far.
       LET disk == IF fault.how = "short" THEN BufCap - 1 ELSE 0 IN
       [committed |-> broken, nd |-> Prefix(w, n, BufCap), cd |-> Prefix(w, n, disk)]
  ELSE IF fault.step = "final" THEN
       \* every operation was accepted into the buffer; only Commit can notice
       LET disk == IF fault.how = "short" /\ n - 1 > pre THEN n - 1 ELSE pre IN
       [committed |-> broken, nd |-> w, cd |-> Prefix(w, n, disk)]
  ELSE [committed |-> FALSE, nd |-> w, cd |-> w]         \* close / rename fail: Commit returns the error

\* Cache.GenerateReverseLookupMap keeps ONE path per digest (map order): any of them
Candidates(m, d) == {q \in FilePaths(m.cache) : At(m.cache, q).d = d}

\* endpoint.Stage's filter loop: Contains -> stageFromRoot -> (copy, Commit, Contains)
\* returns the set of possible [store, ret]
RECURSIVE StageWalk(_, _, _, _, _, _)
StageWalk(m, root, req, store, ret, fault) ==
  IF req = <<>> THEN {[store |-> store, ret |-> ret]}
  ELSE
    LET r == Head(req)  rest == Tail(req) IN
    IF HasSlot(store, r.path, r.d) THEN StageWalk(m, root, rest, store, ret, fault)
    ELSE IF Candidates(m, r.d) = {} THEN StageWalk(m, root, rest, store, Append(ret, r.path), fault)
    ELSE UNION {
           LET src == At(root, q) IN
           IF src.k # "file" THEN StageWalk(m, root, rest, store, Append(ret, r.path), fault)   \* opener.OpenFile fails
           ELSE LET w == StoreWhole(src.d, UnitsOf(src.d), m.maxfile)
                    k == IF w.outcome = "fits" THEN SinkRun(src.d, UnitsOf(src.d), fault)
                         ELSE [committed |-> fault.step \notin {"close", "rename"}, nd |-> w.nd, cd |-> w.cd]   \* nothing was buffered
                    st2 == IF k.committed THEN PutSlot(store, r.path, k.nd, k.cd, r.d) ELSE store IN   \* io.Copy + sink.Close
                IF WhatIf = "no_reverify" \/ HasSlot(st2, r.path, r.d)                   \* final stager.Contains
                THEN StageWalk(m, root, rest, st2, ret, fault)
                ELSE StageWalk(m, root, rest, st2, Append(ret, r.path), fault)
         : q \in Candidates(m, r.d)}

\* one file through the rsync receiver: what ends up committed for it
Kinds == {"exact", "corrupt", "truncated", "absent", "abort", "abort0"}
Written(kind, d) ==
  CASE kind = "exact" -> d
    [] kind = "corrupt" -> "bad"
    [] kind = "truncated" -> "trunc"
    [] kind = "absent" -> "empty"       \* Done without operations: an empty sink is committed
    [] kind = "abort" -> "trunc"        \* finalize() closes the open sink: the partial file is committed
    [] OTHER -> "none"
\* size of what the transfer tries to write: exact and corrupt carry the planned size
TriedUnits(kind, d) == IF kind \in {"exact", "corrupt"} THEN UnitsOf(d) ELSE UnitsOf(Written(kind, d))
RECURSIVE RecvWalk(_, _, _, _, _)
RecvWalk(pending, kinds, store, lim, fault) ==
  IF pending = <<>> THEN store
  ELSE LET p == Head(pending)  k == Head(kinds) IN
       IF k = "abort0" THEN store
       ELSE LET w == StoreUnits(Written(k, p.d), TriedUnits(k, p.d), lim)
                \* I/O faults are modelled for complete transfers that pass the size check
                f == IF k = "exact" /\ w.outcome = "fits" THEN SinkRun(p.d, UnitsOf(p.d), fault)
                     ELSE [committed |-> fault.step \notin {"close", "rename"}, nd |-> w.nd, cd |-> w.cd]
                st2 == IF f.committed THEN PutSlot(store, p.path, f.nd, f.cd, p.d) ELSE store IN
            IF k = "abort" THEN st2 ELSE RecvWalk(Tail(pending), Tail(kinds), st2, lim, fault)

\* core.Transition restricted to file changes directly below the root
\* acc = [root, store, results, nprob, missing, init]
MoveStaged(acc, c, rcache) ==
  IF ~acc.init THEN      \* Provide: "store uninitialized" - a problem, not a missing file
     [acc EXCEPT !.results = Append(acc.results, c.old), !.nprob = acc.nprob + 1]
  ELSE IF HasSlot(acc.store, c.path, c.new.d) THEN
     LET x == CHOOSE y \in acc.store : y.p = c.path /\ y.nd = c.new.d IN
     [acc EXCEPT !.root = SetAt(acc.root, c.path, F(x.cd, c.new.x)),
                 !.store = acc.store \ {x},
                 !.results = Append(acc.results, c.new)]
  ELSE [acc EXCEPT !.results = Append(acc.results, c.old), !.nprob = acc.nprob + 1, !.missing = TRUE]
Fails(acc, c) == [acc EXCEPT !.results = Append(acc.results, c.old), !.nprob = acc.nprob + 1]
\* ensureExpectedFile: metadata equals the cache of the returned scan, cached digest equals the expected one
Expected(acc, c, rcache) == At(acc.root, c.path).k = "file" /\ At(acc.root, c.path) = At(rcache, c.path)
                            /\ At(rcache, c.path).d = c.old.d
ApplyOne(acc, c, rcache) ==
  IF c.old.k = "file" /\ c.new.k = "file" THEN                  \* swapFile
     IF ~Expected(acc, c, rcache) THEN Fails(acc, c)
     ELSE IF c.old.d = c.new.d THEN [acc EXCEPT !.root = SetAt(acc.root, c.path, c.new), !.results = Append(acc.results, c.new)]
     ELSE MoveStaged(acc, c, rcache)
  ELSE IF c.old.k = "file" THEN                                 \* remove
     IF ~Expected(acc, c, rcache) THEN Fails(acc, c)
     ELSE [acc EXCEPT !.root = SetAt(acc.root, c.path, Nil), !.results = Append(acc.results, Nil)]
  ELSE                                                          \* create (old = nil)
     IF c.new = Nil THEN [acc EXCEPT !.results = Append(acc.results, Nil)]
     ELSE IF ~acc.init \/ ~HasSlot(acc.store, c.path, c.new.d) THEN MoveStaged(acc, c, rcache)   \* Provide / chmod of the staged path fail first
     ELSE IF At(acc.root, c.path) # Nil THEN                     \* rename without replace: EEXIST
          [acc EXCEPT !.results = Append(acc.results, Nil), !.nprob = acc.nprob + 1]
     ELSE MoveStaged(acc, c, rcache)
RECURSIVE ApplyAll(_, _, _)
ApplyAll(acc, chg, rcache) == IF chg = <<>> THEN acc ELSE ApplyAll(ApplyOne(acc, Head(chg), rcache), Tail(chg), rcache)
====
