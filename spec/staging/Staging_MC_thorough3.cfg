CONSTANTS
  Names = {"a", "b"}
  Conts = {"c2", "empty"}
  Limits = {3}
  MaxReq = 2
  MaxChg = 1
  MaxStore = 2
  KindSet = {"exact", "absent"}
  ROs = {FALSE}
  ExtNames = {"a", "b"}
  MaxFiles = {2, 1000000}
  FaultSet <- FaultsAll
  Restarts = {"keep", "file", "empty"}
  WhatIf = "none"
SPECIFICATION Spec
INVARIANT NoViolation
CHECK_DEADLOCK FALSE
