---- MODULE Staging_Sim ----
(***************************************************************************)
(* Behaviour export for the replay leg of C10 / C41: TLC -simulate walks    *)
(* the model of Staging_MC and every walk of NOps calls is printed as one   *)
(* BEHAVIOUR line (initial root, limit, the calls with their arguments).    *)
(* The driver executes each on a real endpoint. A call is chosen in two     *)
(* steps (kind from Menu, then arguments) so that kinds with many possible  *)
(* arguments do not crowd out Scan. "TransG" plans the changes a controller *)
(* would derive from the last staging request and the last scan (create or  *)
(* swap per requested path, optionally one removal); "TransW" is any single *)
(* change, consistent or not.                                               *)
(***************************************************************************)
EXTENDS Staging_MC, Json

CONSTANTS NOps
VARIABLES hist, pc, start, lastReq
svars == <<m, root, rcache, store, recv, obst, bad, hist, pc, start, lastReq>>
\* what tends to follow what (repetition = weight): mostly the controller's cycle
\* Scan -> Stage -> Recv -> Trans, with every deviation possible
LastOp == IF hist = <<>> THEN "none" ELSE hist[Len(hist)].op
Menu == CASE LastOp = "Scan" -> <<"Stage", "Stage", "Stage", "Stage", "Ext", "TransG", "Scan", "Recv">>
          [] LastOp = "Stage" -> <<"Recv", "Recv", "Recv", "Recv", "TransG", "Ext", "Stage", "Scan", "Restart">>
          [] LastOp = "Recv" -> <<"TransG", "TransG", "TransG", "TransG", "TransW", "Ext", "Scan", "Recv", "Stage", "Restart", "Restart">>
          [] LastOp = "Restart" -> <<"Scan", "Scan", "Scan", "Scan", "Stage", "TransG", "Ext">>
          [] LastOp = "Trans" -> <<"Scan", "Scan", "Scan", "Scan", "Ext", "Stage", "TransG", "Recv">>
          [] LastOp \in {"ExtWrite", "ExtRemove", "Noop"} -> <<"Scan", "Scan", "Stage", "TransG", "Ext", "Recv">>
          [] OTHER -> <<"Scan", "Scan", "Scan", "Scan", "Ext", "Stage", "TransG", "TransW">>

NameOf(e) == IF e = Nil THEN "" ELSE e.d
InitOf(r) == [n \in DOMAIN r.c |-> r.c[n].d]

SInit == /\ Init /\ hist = <<>> /\ pc = "pick" /\ lastReq = <<>>
         /\ start = [init |-> InitOf(root), max |-> m.max, maxfile |-> m.maxfile]

Pick == /\ pc = "pick" /\ Len(hist) < NOps
        /\ \E i \in DOMAIN Menu : pc' = Menu[i]
        /\ UNCHANGED <<m, root, rcache, store, recv, obst, bad, hist, start, lastReq>>

Log(e) == hist' = Append(hist, e) /\ pc' = "pick" /\ UNCHANGED start
ReqJson(req) == [i \in DOMAIN req |-> [path |-> req[i].path, c |-> req[i].d]]
ChgJson(chg) == [i \in DOMAIN chg |-> [path |-> chg[i].path, old |-> NameOf(chg[i].old), new |-> NameOf(chg[i].new)]]
Idle == UNCHANGED <<m, root, rcache, store, recv, obst, bad>>

\* the plan a controller derives from the request and the snapshot of the last scan
SeenAt(p) == IF At(m.cache, p).k = "file" THEN At(m.cache, p) ELSE Nil
BasePlan == SelectSeq([i \in DOMAIN lastReq |-> Chg(lastReq[i].path, SeenAt(lastReq[i].path), F(lastReq[i].d, FALSE))],
                      LAMBDA c : c.old # c.new)
Removals == {<<Chg(<<n>>, SeenAt(<<n>>), Nil)>> : n \in {x \in Names : SeenAt(<<x>>) # Nil /\ \A i \in DOMAIN lastReq : lastReq[i].path # <<x>>}}
GuidedPlans == {BasePlan} \cup {BasePlan \o r : r \in Removals}
WildPlans == {q \in Plans : Len(q) = 1}

SScan == pc = "Scan" /\ DoScan /\ Log([op |-> "Scan"]) /\ UNCHANGED lastReq
SStage == pc = "Stage" /\ \E req \in Reqs, fault \in FaultSet : DoStage(req, fault) /\ Log([op |-> "Stage", req |-> ReqJson(req), fault |-> fault]) /\ lastReq' = req
SRecv == /\ pc = "Recv" /\ UNCHANGED lastReq
         /\ IF recv = <<>> THEN Idle /\ Log([op |-> "Recv", kinds |-> <<>>])
            ELSE \E kinds \in [DOMAIN recv -> KindSet], fault \in FaultSet : DoRecv(kinds, fault) /\ Log([op |-> "Recv", kinds |-> kinds, fault |-> fault])
STransG == pc = "TransG" /\ \E chg \in GuidedPlans : DoTrans(chg) /\ Log([op |-> "Trans", chg |-> ChgJson(chg)]) /\ UNCHANGED lastReq
STransW == pc = "TransW" /\ \E chg \in WildPlans : DoTrans(chg) /\ Log([op |-> "Trans", chg |-> ChgJson(chg)]) /\ UNCHANGED lastReq
SRestart == pc = "Restart" /\ \E plant \in Restarts : DoRestart(plant) /\ Log([op |-> "Restart", plant |-> plant]) /\ UNCHANGED lastReq
SExt == /\ pc = "Ext" /\ UNCHANGED lastReq
        /\ \E n \in ExtNames, v \in FileOrNil :
             IF At(root, <<n>>) = v THEN Idle /\ Log([op |-> "Noop"])
             ELSE DoExt(n, v) /\ Log(IF v = Nil THEN [op |-> "ExtRemove", path |-> <<n>>]
                                     ELSE [op |-> "ExtWrite", path |-> <<n>>, c |-> v.d])
\* the walk is complete: print it (evaluated once per walk, when this is the only enabled step)
Done == /\ pc = "pick" /\ Len(hist) = NOps
        /\ PrintT(<<"BEHAVIOUR", ToJson([init |-> start.init, max |-> start.max, maxfile |-> start.maxfile, ops |-> hist])>>)
        /\ pc' = "done" /\ UNCHANGED <<m, root, rcache, store, recv, obst, bad, hist, start, lastReq>>
Stop == pc = "done" /\ UNCHANGED svars

SNext == Pick \/ SRestart \/ SScan \/ SStage \/ SRecv \/ STransG \/ STransW \/ SExt \/ Done \/ Stop
SSpec == SInit /\ [][SNext]_svars
SNoViolation == bad = ""
====
