CONSTANT Follow = FALSE
SPECIFICATION Spec
INVARIANTS Contained CrossingFails StagingRootRefused Export
CHECK_DEADLOCK FALSE
