CONSTANT Follow = FALSE
SPECIFICATION Spec
INVARIANTS Contained CrossingFails Export
CHECK_DEADLOCK FALSE
