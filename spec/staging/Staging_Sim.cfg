CONSTANTS
  Names = {"a", "b", "c"}
  Conts = {"c1", "c2", "empty"}
  Limits = {3, 4, 1000000}
  MaxReq = 2
  MaxChg = 1
  MaxStore = 6
  KindSet = {"exact", "corrupt", "truncated", "absent", "abort", "abort0"}
  ROs = {FALSE}
  ExtNames = {"a", "b", "c"}
  MaxFiles = {1, 2, 1000000, 1000001}
  FaultSet <- FaultsQuick
  Restarts = {"keep", "file", "empty"}
  WhatIf = "none"
  NOps = 9
SPECIFICATION SSpec
INVARIANT SNoViolation
CHECK_DEADLOCK FALSE
