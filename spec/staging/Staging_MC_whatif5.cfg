CONSTANTS
  Names = {"a", "b"}
  Conts = {"c1", "c2"}
  Limits = {3}
  MaxReq = 2
  MaxChg = 1
  MaxStore = 2
  KindSet = {"exact", "corrupt"}
  ROs = {FALSE, TRUE}
  ExtNames = {"a"}
  MaxFiles = {2, 1000000}
  FaultSet <- FaultsQuick
  Restarts = {"keep"}
  WhatIf = "no_rescan"
SPECIFICATION Spec
INVARIANT NoViolation
CHECK_DEADLOCK FALSE
