---- MODULE PathWalk_Trace ----
(***************************************************************************)
(* Trace validation for C17. Every record of trace.ndjson is one            *)
(* independent case on real directories:                                    *)
(*   in        the scenario (a member of PathWalkProps!Scenarios, or a random    *)
(*             root identified by its seed)                                 *)
(*   scanDisk, scanErr, snap   the root as the walker saw it before the     *)
(*             scan, the scan's error and snapshot                          *)
(*   disk0     the root as the walker saw it just before the operation(s)   *)
(*   supply    {paths, tx}  what Supply / rsync.Transmit sent per path      *)
(*   stage     {ret, sigs, staged}  base signatures and what got staged     *)
(*   copy      {src, reqpath, ret}  from-root copy attempt                  *)
(*   trans     {chg, results, problems}                                     *)
(*   events, canary0, canary1  inotify events on, and listings of, the      *)
(*             canary directory outside the root                            *)
(* The property operators of PathWalkProps.tla judge each record; the module     *)
(* also checks that the scenarios executed are exactly the model's matrix.  *)
(***************************************************************************)
EXTENDS PathWalkProps, TraceKit

CONSTANT Want
VARIABLES l, fails, seen, nrand, done
tvars == <<l, fails, seen, nrand, done>>

IsMatrix(r) == ~Has(r.in, "rand")
IsStagingRec(r) == IsStaging(r.in)

Checks(i, r) ==
     Chk(Want, i, "C17_CanaryUntouched", C17_CanaryUntouched(r.events, r.canary0, r.canary1))
  \o Chk(Want, i, "C17_ScanStaysInside", C17_ScanStaysInside(r.scanDisk, r.scanErr, r.snap))
  \o (IF Has(r, "supply") THEN
        Chk(Want, i, "C17_SupplyCrossingFails",
            \A j \in DOMAIN r.supply.paths : C17_SupplyCrossingFails(r.disk0, r.supply.paths[j], r.supply.tx[j]))
      ELSE <<>>)
  \o (IF Has(r, "stage") THEN
        Chk(Want, i, "C17_StageBaseCrossingFails",
            (IsMatrix(r) /\ ~IsStagingRec(r) /\ r.in.moment = "mid") \/
            \A j \in DOMAIN r.stage.ret : C17_StageBaseCrossingFails(r.disk0, r.stage.ret[j], r.stage.sigs[j]))
        \o Chk(Want, i, "C17_ReceiveCrossingFails",
            \A j \in DOMAIN r.stage.ret : C17_ReceiveCrossingFails(r.disk0, r.stage.ret[j], r.stage.sigs[j], r.stage.staged[j]))
      ELSE <<>>)
  \o (IF Has(r, "copy") THEN
        Chk(Want, i, "C17_CopyCrossingFails", r.copy.err = "" => C17_CopyCrossingFails(r.disk0, r.copy.src, r.copy.reqpath, r.copy.ret))
      ELSE <<>>)
  \o (IF Has(r, "trans") THEN
        Chk(Want, i, "C17_TransitionCrossingFails",
            r.trans.err = "" => C17_TransitionCrossingFails(r.disk0, r.trans.chg, r.trans.results, r.trans.problems))
      ELSE <<>>)
  \o (IF r.hang THEN <<Fail(i, "TraceAccepted")>> ELSE <<>>)
  \* the driver's scenario is one of the model's, and the link really is where the scenario says
  \o (IF IsStagingRec(r) THEN
        Chk(Want, i, "C17_StagingRootNotFollowed",
            C17_StagingRootNotFollowed(r.sroot0.kind, r.sroot0.prefixLink, r.stage.err))
        \o Chk(Want, i, "DriverInMatrix", r.in \in StagingScenarios)
        \* what was planted is what the walker saw
        \o Chk(Want, i, "DriverLinkPlaced",
               r.sroot0.kind = (CASE r.in.pre = "absent" -> "none"
                                  [] r.in.pre \in {"dir", "prefix_link"} -> "dir"
                                  [] r.in.pre = "file" -> "file"
                                  [] OTHER -> "link")
               /\ (r.sroot0.prefixLink <=> r.in.pre = "prefix_link"))
        \* with nothing or a real directory there, everything works
        \o Chk(Want, i, "DriverControlSucceeds",
               r.in.pre \in {"absent", "dir"} =>
                 /\ r.stage.err = "" /\ r.stage.ret = r.stage.req
                 /\ (r.in.op # "stage_init" => r.stage.staged = <<TRUE>>)
                 /\ (Has(r, "trans") => r.trans.results = [j \in DOMAIN r.trans.chg |-> r.trans.chg[j].new]))
      ELSE IF IsMatrix(r) THEN
        Chk(Want, i, "DriverInMatrix", r.in \in Scenarios)
        \o Chk(Want, i, "DriverLinkPlaced",
               r.in.pos >= 0 => \/ RootIsLink(r.disk0)
                                \/ \E p \in Nodes(r.disk0) : At(r.disk0, p).k = "link")
        \* the control scenarios (no link) must succeed, otherwise the failures above prove nothing
        \o Chk(Want, i, "DriverControlSucceeds",
               r.in.pos = -1 =>
                 /\ (Has(r, "trans") => r.trans.results = [j \in DOMAIN r.trans.chg |-> r.trans.chg[j].new])
                 /\ (Has(r, "supply") => \E j \in DOMAIN r.supply.tx[1] : r.supply.tx[1][j].ndata > 0)
                 /\ (Has(r, "stage") => r.stage.sigs[1] > 0 /\ r.stage.staged[1])
                 /\ (Has(r, "copy") => r.copy.ret = <<>>))
      ELSE <<>>)

TInit == l = 1 /\ fails = <<>> /\ seen = {} /\ nrand = 0 /\ done = FALSE
Step == /\ l <= NRec
        /\ LET r == Trace[l] IN
           /\ fails' = Cap(fails \o (IF r.ev = "Escape" THEN Checks(l, r) ELSE <<Fail(l, "TraceAccepted")>>))
           /\ seen' = IF r.ev = "Escape" /\ IsMatrix(r) THEN seen \cup {r.in} ELSE seen
           /\ nrand' = IF r.ev = "Escape" /\ ~IsMatrix(r) THEN nrand + 1 ELSE nrand
        /\ l' = l + 1 /\ UNCHANGED done
Finish == /\ l = NRec + 1 /\ ~done
          /\ WriteResult(l - 1, fails,
                [stat_matrix_seen |-> Cardinality(seen \cap (Scenarios \cup StagingScenarios)), stat_matrix_size |-> Cardinality(Scenarios) + Cardinality(StagingScenarios),
                 stat_random_roots |-> nrand])
          /\ done' = TRUE /\ UNCHANGED <<l, fails, seen, nrand>>
TNext == Step \/ Finish
TSpec == TInit /\ [][TNext]_tvars
====
