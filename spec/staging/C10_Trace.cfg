CONSTANTS
  Want = {"C10_StoreContentAddressed", "C10_PlannedContent", "C10_BadTransferNeverLands", "C10_MissingReported", "C10_StagedWithinSizeLimit", "C10_FittingTransferStaged", "C10_WriteFaultsSurface",
          "C41_StageLeavesRoot"}
  WhatIf = "none"
SPECIFICATION TSpec
CHECK_DEADLOCK FALSE
