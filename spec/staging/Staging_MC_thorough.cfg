CONSTANTS
  Names = {"a", "b"}
  Conts = {"c1", "c2"}
  Limits = {2, 3, 1000000}
  MaxReq = 2
  MaxChg = 1
  MaxStore = 2
  KindSet = {"exact", "corrupt", "absent", "abort0"}
  ROs = {FALSE, TRUE}
  ExtNames = {"a", "b"}
  MaxFiles = {1, 2, 1000000}
  FaultSet <- FaultsNone
  Restarts = {}
  WhatIf = "none"
SPECIFICATION Spec
INVARIANT NoViolation
CHECK_DEADLOCK FALSE
