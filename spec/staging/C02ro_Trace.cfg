CONSTANTS
  Want = {"C41_ReadOnlyRefuses"}
  WhatIf = "none"
SPECIFICATION TSpec
CHECK_DEADLOCK FALSE
