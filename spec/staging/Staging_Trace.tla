---- MODULE Staging_Trace ----
(***************************************************************************)
(* Trace validation for C10 / C41 (and the endpoint half of C02).           *)
(* trace.ndjson holds cases; a case is one real local endpoint driven       *)
(* through Scan / Stage / Recv / Trans calls and external edits:            *)
(*   New   begin:true, max, ro                    endpoint constructed      *)
(*   Ext   an external edit happened                                        *)
(*   Scan  disk0, err                                                       *)
(*   Stage req, disk0, store0, err, ret, disk1, store1                      *)
(*   Recv  plan, store0, store1       the receiver was fed                  *)
(*   Trans chg, disk0, store0, err, results, problems, missing, disk1,      *)
(*         store1                                                           *)
(*   Restart how, plant   the endpoint object was replaced by a new one for  *)
(*         the same session (the on-disk staging root survives, or was      *)
(*         emptied / replaced by a file)                                    *)
(*   Subset filtered, original, out   one call of the controller's check of *)
(*         Stage's answer (safety.go filteredPathsAreSubset)                *)
(* disk* / store* come from the independent walker. The module drives the   *)
(* call-protocol state of Staging.tla (flags, last scan count, cache) with  *)
(* the observed calls - the spec's own update functions, not the code's     *)
(* answers - and evaluates the property operators of Staging.tla on every   *)
(* record. Agreement of Stage's answer with the mechanism model is counted  *)
(* as drift only.                                                           *)
(***************************************************************************)
EXTENDS Staging, TraceKit

CONSTANT Want

VARIABLES l, fails, st, stats, done
tvars == <<l, fails, st, stats, done>>

StoreSet(q) == {q[i] : i \in DOMAIN q}
\* the walker found something that is not a directory at the staging root path
Obstructed(r) == Has(r, "sroot") /\ r.sroot \in {"file", "link", "other"}

\* the I/O fault the driver arranged around a Stage or Recv call:
\*   [kind |-> "none"] | [kind |-> "fsize", limit |-> bytes]  RLIMIT_FSIZE: genuine short write + EFBIG
\*   | [kind |-> "rename"]  the rename of the temporary file into the store fails
FaultOf(r) == IF Has(r, "fault") THEN r.fault ELSE [kind |-> "none"]
\* does the fault strike a file of sz bytes written in full?
Strikes(f, sz) == CASE f.kind = "fsize" -> sz > f.limit [] f.kind = "rename" -> TRUE [] OTHER -> FALSE
\* size cap in force for this call
CapOf(m, f) == IF f.kind = "fsize" /\ f.limit < m.maxfile THEN f.limit ELSE m.maxfile
StruckReq(r) == {j \in DOMAIN r.req : Strikes(FaultOf(r), r.req[j].sz)}
StruckPlan(r) == {j \in DOMAIN r.plan : r.plan[j].kind \in {"exact", "split", "corrupt"} /\ Strikes(FaultOf(r), r.plan[j].sz)}
Stats0 == [restarts |-> 0, resumed |-> 0, struck |-> 0, drift |-> 0, stage_ok |-> 0, omitted |-> 0, requested |-> 0, trans_ok |-> 0, bad_transfer |-> 0,
           over_limit |-> 0, refused |-> 0, readonly |-> 0, landed |-> 0]

ScanChecks(i, m, r) ==
  Chk(Want, i, "C41_ScanLimit", C41_ScanLimit(m, r.disk0, r.err))

StageChecks(i, m, r) ==
  LET s0 == StoreSet(r.store0)  s1 == StoreSet(r.store1) IN
     Chk(Want, i, "C41_StageRefusal", C41_StageRefusal(m, r.req, Obstructed(r), r.err))
  \o Chk(Want, i, "C41_ReadOnlyRefuses", C41_ReadOnlyRefuses(m, r.err, r.disk0, r.disk1, s0, s1))
  \o Chk(Want, i, "C41_StageSubseq", r.err = "" => C41_StageSubseq(r.req, r.ret))
  \o Chk(Want, i, "C41_OmittedAvailable", r.err = "" => C41_OmittedAvailable(r.disk0, s0, r.req, r.ret, s1))
  \o Chk(Want, i, "C41_RequestedNeeded",
         r.err = "" => C41_RequestedNeeded(m, {r.req[j].path : j \in StruckReq(r)}, r.disk0, s0, r.req, r.ret))
  \o Chk(Want, i, "C10_WriteFaultsSurface",
         C10_WriteFaultsSurface({[path |-> r.req[j].path, d |-> r.req[j].d] : j \in StruckReq(r)}, s0, s1))
  \o Chk(Want, i, "C10_StagedWithinSizeLimit", C10_StagedWithinSizeLimit(s1, m.maxfile))
  \o Chk(Want, i, "C41_StageLeavesRoot", C41_StageLeavesRoot(r.disk0, r.disk1))
  \o Chk(Want, i, "C10_StoreContentAddressed", C10_StoreContentAddressed(s1))
  \o Chk(Want, i, "C10_StagedWithinSizeLimit", C10_StagedWithinSizeLimit(s1, m.maxfile))

RecvChecks(i, m, r) ==
     Chk(Want, i, "C10_StoreContentAddressed", C10_StoreContentAddressed(StoreSet(r.store1)))
  \o Chk(Want, i, "C10_StagedWithinSizeLimit", C10_StagedWithinSizeLimit(StoreSet(r.store1), m.maxfile))
  \o Chk(Want, i, "C10_FittingTransferStaged",
         C10_FittingTransferStaged(m.init /\ ~m.sdirty /\ r.err = "" /\ FaultOf(r).kind # "rename", CapOf(m, FaultOf(r)),
                                   r.plan, StoreSet(r.store1)))
  \o Chk(Want, i, "C10_WriteFaultsSurface",
         C10_WriteFaultsSurface({[path |-> r.plan[j].path, d |-> r.plan[j].d] : j \in StruckPlan(r)},
                                StoreSet(r.store0), StoreSet(r.store1)))
  \o Chk(Want, i, "C41_StageLeavesRoot", C41_StageLeavesRoot(r.disk0, r.disk1))

TransChecks(i, m, r) ==
  LET s0 == StoreSet(r.store0)  s1 == StoreSet(r.store1) IN
     Chk(Want, i, "C41_TransRefusal", C41_TransRefusal(m, r.chg, r.err))
  \o Chk(Want, i, "C41_ReadOnlyRefuses", C41_ReadOnlyRefuses(m, r.err, r.disk0, r.disk1, s0, s1))
  \o Chk(Want, i, "C41_TransLimit", r.err = "" => C41_TransLimit(m, r.chg, r.disk0, r.disk1, r.results, Len(r.problems)))
  \o Chk(Want, i, "C41_TransWithin", r.err = "" => C41_TransWithin(m, r.chg, r.disk0, s0, r.disk1, r.results))
  \o Chk(Want, i, "C10_PlannedContent", C10_PlannedContent(r.disk0, r.chg, r.disk1))
  \o Chk(Want, i, "C10_BadTransferNeverLands", C10_BadTransferNeverLands(r.disk0, s0, r.chg, r.disk1))
  \o Chk(Want, i, "C10_MissingReported",
         (r.err = "" /\ ~OverTrans(m, r.chg)) => C10_MissingReported(~m.dirty, m.init, r.disk0, s0, r.chg, r.missing))
  \o Chk(Want, i, "C10_StoreContentAddressed", C10_StoreContentAddressed(s0))

Known == {"New", "Ext", "Scan", "Stage", "Recv", "Trans", "Subset", "Restart"}
Checks(i, m, r) ==
  IF r.ev \notin Known THEN <<Fail(i, "TraceAccepted")>>
  ELSE IF Has(r, "hang") /\ r.hang THEN <<Fail(i, "TraceAccepted")>>
  ELSE CASE r.ev = "Scan" -> ScanChecks(i, m, r)
         [] r.ev = "Stage" -> StageChecks(i, m, r)
         [] r.ev = "Recv" -> RecvChecks(i, m, r)
         [] r.ev = "Trans" -> TransChecks(i, m, r)
         [] r.ev = "Subset" -> Chk(Want, i, "C41_ControllerSubsetCheck", C41_ControllerSubsetCheck(r.filtered, r.original, r.out))
         [] OTHER -> <<>>

\* the spec's own protocol update for the observed call
Apply(m, r) ==
  CASE r.ev = "New" -> NewProto(r.ro, r.max, r.maxfile)
    [] r.ev = "Ext" -> ExtUpd(m)
    [] r.ev = "Scan" -> ScanUpd(m, r.disk0)
    [] r.ev = "Stage" -> StageUpd(m, Len(r.req), Obstructed(r))
    [] r.ev = "Restart" -> RestartUpd(m)
    [] r.ev = "Trans" -> TransUpd(m, r.chg)
    [] OTHER -> m

\* vacuity counters and conformance drift
Bump(sx, m, r) ==
  CASE r.ev = "Stage" ->
         LET ok == r.err = ""
             nom == Cardinality({j \in DOMAIN r.req : \A k \in DOMAIN r.ret : r.ret[k] # r.req[j].path})
             \* (the mechanism model measures sizes in write units: compared only without a byte limit)
             conf == ~ok \/ m.maxfile # Unlimited \/ FaultOf(r).kind # "none" \/ r.ret \in {o.ret : o \in StageWalk(m, r.disk0, r.req, StoreSet(r.store0), <<>>, NoFault)}
         IN [sx EXCEPT !.stage_ok = @ + (IF ok /\ Len(r.req) > 0 THEN 1 ELSE 0),
                       !.omitted = @ + (IF ok THEN nom ELSE 0),
                       !.requested = @ + (IF ok THEN Len(r.ret) ELSE 0),
                       !.refused = @ + (IF ok THEN 0 ELSE 1),
                       !.readonly = @ + (IF m.ro THEN 1 ELSE 0),
                       !.struck = @ + Cardinality(StruckReq(r)),
                       \* requests answered from a store this endpoint object did not fill itself
                       !.resumed = @ + (IF ok /\ m.fresh THEN Cardinality({j \in DOMAIN r.req : HasSlot(StoreSet(r.store0), r.req[j].path, r.req[j].d)}) ELSE 0),
                       !.drift = @ + (IF "Conforms" \in Want /\ ~conf THEN 1 ELSE 0)]
    [] r.ev = "Restart" -> [sx EXCEPT !.restarts = @ + 1]
    [] r.ev = "Recv" -> [sx EXCEPT !.struck = @ + Cardinality(StruckPlan(r))]
    [] r.ev = "Trans" ->
         LET ok == r.err = ""
             s0 == StoreSet(r.store0)
             nbad == Cardinality({f \in DataFiles(r.chg) : ~GoodSlot(s0, f.path, f.d)})
             nland == Cardinality({f \in DataFiles(r.chg) : At(r.disk1, f.path) # At(r.disk0, f.path)})
         IN [sx EXCEPT !.trans_ok = @ + (IF ok THEN 1 ELSE 0),
                       !.bad_transfer = @ + (IF ok /\ ~OverTrans(m, r.chg) THEN nbad ELSE 0),
                       !.landed = @ + nland,
                       !.over_limit = @ + (IF ok /\ OverTrans(m, r.chg) THEN 1 ELSE 0),
                       !.refused = @ + (IF ok THEN 0 ELSE 1),
                       !.readonly = @ + (IF m.ro THEN 1 ELSE 0)]
    [] OTHER -> sx

TInit == l = 1 /\ fails = <<>> /\ st = NewProto(FALSE, Unlimited, Unlimited) /\ stats = Stats0 /\ done = FALSE
Step == /\ l <= NRec
        /\ LET r == Trace[l] IN
           /\ fails' = Cap(fails \o Checks(l, st, r))
           /\ st' = IF r.ev \in Known THEN Apply(st, r) ELSE st
           /\ stats' = IF r.ev \in Known THEN Bump(stats, st, r) ELSE stats
        /\ l' = l + 1 /\ UNCHANGED done
Finish == /\ l = NRec + 1 /\ ~done
          /\ WriteResult(l - 1, fails,
                [stat_restarts |-> stats.restarts, stat_resumed_from_leftover_store |-> stats.resumed, stat_io_fault_struck |-> stats.struck, stat_drift |-> stats.drift, stat_stage_ok |-> stats.stage_ok, stat_omitted |-> stats.omitted,
                 stat_requested |-> stats.requested, stat_trans_ok |-> stats.trans_ok,
                 stat_bad_transfer |-> stats.bad_transfer, stat_over_limit |-> stats.over_limit,
                 stat_refused |-> stats.refused, stat_readonly_calls |-> stats.readonly, stat_landed |-> stats.landed])
          /\ done' = TRUE /\ UNCHANGED <<l, fails, st, stats>>
TNext == Step \/ Finish
TSpec == TInit /\ [][TNext]_tvars
====
