---- MODULE PathWalk ----
(***************************************************************************)
(* C17, part 3: the resolution mechanism per operation kind, component by   *)
(* component, over the scenario matrix of PathWalkProps (see there for the  *)
(* world, the property operators and the matrix).                           *)
(***************************************************************************)
EXTENDS PathWalkProps

(***************************************************************************)
(* Part 3. Mechanism                                                        *)
(***************************************************************************)
CONSTANT Follow        \* FALSE: the code as it is. TRUE: what if links were followed

\* how each operation treats the components of its path (0 root, 1..2 parents, 3 leaf)
\*   "opendir"  openat(O_NOFOLLOW|O_DIRECTORY)          dereferences when followed
\*   "openfile" openat(O_NOFOLLOW) + fstat regular       dereferences when followed
\*   "lstat"    fstatat(AT_SYMLINK_NOFOLLOW) vs cache    dereferences when followed (stat)
\*   "excl"     renameat2(NOREPLACE)/mkdirat/symlinkat   fails on any existing name, never dereferences
\*   "list"     the scan's lstat-driven listing: a link is recorded, not entered
LeafAction(op) ==
  CASE op \in {"supply", "stage_base", "stage_copy"} -> "openfile"
    [] op \in {"tr_remove_file", "tr_swap"} -> "lstat"
    [] op = "tr_remove_dir" -> "lstat"            \* pos 3 = a child of the removed directory
    [] op \in {"tr_create_file", "tr_create_dir", "tr_create_link"} -> "excl"
    [] OTHER -> "list"
ParentAction(op) == IF op = "scan" THEN "list" ELSE "opendir"

\* does the operation reach component k at all (earlier components resolved)?
\* with a link at pos: components < pos are real.
\* result of visiting the link component under the given action
Visit(action, kind) ==
  IF action = "list" THEN [fail |-> FALSE, escaped |-> Follow /\ kind = "mirror", stop |-> ~Follow]
  ELSE IF action = "excl" THEN [fail |-> TRUE, escaped |-> FALSE, stop |-> TRUE]
  ELSE IF ~Follow THEN [fail |-> TRUE, escaped |-> FALSE, stop |-> TRUE]
  ELSE \* followed: a mirror serves the request from outside; a wrong-typed or missing target fails there
       [fail |-> kind # "mirror", escaped |-> kind # "dangling", stop |-> kind # "mirror"]

\* the scan is refused at a link root (Open(root, false)); other scan positions are listings
ActionAt(op, k) == IF k = 3 THEN LeafAction(op)
                   ELSE IF k = 0 THEN "opendir"
                   ELSE ParentAction(op)

VARIABLES sc, phase, linkOnDisk, scanSawLink, failed, escaped
vars == <<sc, phase, linkOnDisk, scanSawLink, failed, escaped>>

\* Store.Initialize on first use: Mkdir(root); on EEXIST lstat it (no follow) and
\* require a directory, then list it and require every prefix-named entry to be a
\* directory (the listing's entry type, never followed). Allocate / Commit / Finalize
\* then work below that path. Follow: what if the existing root were stat'ed.
StagingInit(pre) ==
  CASE pre = "absent" -> [fail |-> FALSE, escaped |-> FALSE]
    [] pre = "dir" -> [fail |-> FALSE, escaped |-> FALSE]
    [] pre = "prefix_link" -> [fail |-> TRUE, escaped |-> FALSE]
    [] pre = "file" -> [fail |-> TRUE, escaped |-> FALSE]
    [] pre = "link_out" -> [fail |-> ~Follow, escaped |-> Follow]       \* followed: lists, creates and renames outside
    [] pre = "link_in" -> [fail |-> ~Follow, escaped |-> FALSE]         \* followed: stages into some in-root directory
    [] OTHER -> [fail |-> TRUE, escaped |-> FALSE]                      \* link to a file, dangling link

Init == /\ sc \in Scenarios \cup StagingScenarios /\ phase = "new" /\ linkOnDisk = FALSE /\ scanSawLink = FALSE
        /\ failed = FALSE /\ escaped = FALSE

PlaceStatic == /\ phase = "new"
               /\ linkOnDisk' = IF IsStaging(sc) THEN sc.pre \notin {"absent", "dir"}
                                 ELSE (sc.pos >= 0 /\ sc.moment = "static")
               /\ phase' = "placed" /\ UNCHANGED <<sc, scanSawLink, failed, escaped>>
\* every case scans first (the endpoint insists); the scan of a static link is itself a visit
ScanFirst == /\ phase = "placed"
             /\ scanSawLink' = linkOnDisk
             /\ escaped' = IF IsStaging(sc) THEN FALSE    \* scans skip the staging root by its temporary-name prefix
                           ELSE (linkOnDisk /\ sc.op # "scan" /\ Visit(IF sc.pos = 0 THEN "opendir" ELSE "list", sc.kind).escaped)
             /\ phase' = "scanned" /\ UNCHANGED <<sc, linkOnDisk, failed>>
ReplaceByLink == /\ phase = "scanned"
                 /\ linkOnDisk' = IF IsStaging(sc) THEN linkOnDisk
                                   ELSE (linkOnDisk \/ (sc.pos >= 0 /\ sc.moment \in {"swap", "mid"}))
                 /\ phase' = "ready" /\ UNCHANGED <<sc, scanSawLink, failed, escaped>>
RunOp == /\ phase = "ready"
         /\ IF IsStaging(sc)
            THEN LET v == StagingInit(sc.pre) IN failed' = v.fail /\ escaped' = (escaped \/ v.escaped)
            ELSE IF linkOnDisk
            THEN LET v == Visit(ActionAt(sc.op, sc.pos), sc.kind) IN
                 /\ failed' = v.fail
                 /\ escaped' = (escaped \/ v.escaped)
            ELSE failed' = FALSE /\ UNCHANGED escaped
         /\ phase' = "done" /\ UNCHANGED <<sc, linkOnDisk, scanSawLink>>
Finished == phase = "done" /\ UNCHANGED vars
Next == PlaceStatic \/ ScanFirst \/ ReplaceByLink \/ RunOp \/ Finished
Spec == Init /\ [][Next]_vars

\* the model-level statement of C17
Contained == ~escaped
CrossingFails == (phase = "done" /\ linkOnDisk /\ sc.op # "scan") => failed
StagingRootRefused == (phase = "done" /\ IsStaging(sc)) => (failed <=> sc.pre \notin {"absent", "dir"})
\* which scenarios would escape if links were followed (reported with Follow = TRUE)
Teeth == phase = "done" => ~escaped
====
