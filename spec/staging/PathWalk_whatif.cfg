CONSTANT Follow = TRUE
SPECIFICATION Spec
INVARIANTS Teeth StagingRootRefused
CHECK_DEADLOCK FALSE
