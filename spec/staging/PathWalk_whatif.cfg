CONSTANT Follow = TRUE
SPECIFICATION Spec
INVARIANTS Teeth
CHECK_DEADLOCK FALSE
