---- MODULE Handshake_Trace ----
(***************************************************************************)
(* C34 - validation of handshakes executed on the real code.  One record =  *)
(* one case:                                                                *)
(*   in       the case (layer, constants of both sides, perturbation p) and *)
(*            which sides are the real code: "both" (real ClientHandshake/  *)
(*            ClientVersionHandshake against real ServerHandshake/          *)
(*            ServerVersionHandshake through the mangling carrier),         *)
(*            "client" / "server" (the other side is a crafted peer running *)
(*            the same protocol with the case's constants)                  *)
(*   cOK,sOK  the handshake calls returned nil      cDone,sDone  they       *)
(*            returned at all within the watchdog                           *)
(*   cNext,sNext  next I/O of a side that accepted, performed once the      *)
(*            other side was done (and, having failed, had closed): "live"  *)
(*            (a byte came through) | "dead" | "hang" | "none"              *)
(*   s2cSent/s2cSeen, c2sSent/c2sSeen   the carrier's tap: bytes written    *)
(*            and bytes offered to the reader                               *)
(* The HandshakeProps operators decide; the set of executed cases is        *)
(* compared with the model's BoundCases.                                    *)
(***************************************************************************)
EXTENDS HandshakeCases, HandshakeConsts, Integers, TraceKit

CONSTANT Want

VARIABLES l, fails, seen, nperturbed, naccepted, ndrift, done
tvars == <<l, fails, seen, nperturbed, naccepted, ndrift, done>>

CaseOf(r) == [layer |-> r.in.layer, smagic |-> r.in.smagic, cmagic |-> r.in.cmagic,
              sver |-> r.in.sver, cver |-> r.in.cver,
              p |-> [kind |-> r.in.p.kind, dir |-> r.in.p.dir, off |-> r.in.p.off,
                     delta |-> r.in.p.delta, bytes |-> r.in.p.bytes]]

WellFormed(r) ==
  /\ Has(r, "ev") /\ r.ev = "Handshake" /\ Has(r, "in")
  /\ \A f \in {"layer", "smagic", "cmagic", "sver", "cver", "p", "real"} : Has(r.in, f)
  /\ \A f \in {"kind", "dir", "off", "delta", "bytes"} : Has(r.in.p, f)
  /\ \A f \in {"cOK", "sOK", "cDone", "sDone", "cNext", "sNext", "s2cSent", "s2cSeen", "c2sSent", "c2sSeen"} : Has(r, f)
  /\ r.in.layer \in {"magic", "version", "full"}
  /\ r.in.real \in {"both", "client", "server"}
  /\ r.in.p.kind \in {"none", "corrupt", "trunc", "rewrite"} /\ r.in.p.dir \in Dirs
  /\ Len(r.in.smagic) = 3 /\ Len(r.in.cmagic) = 3 /\ Len(r.in.sver) = 3 /\ Len(r.in.cver) = 3
  /\ r.in.p.kind = "corrupt" => (r.in.p.delta \in 1..255 /\ r.in.p.off \in 0..(StreamLen(r.in.layer) - 1))
  /\ r.in.p.kind = "trunc" => r.in.p.off \in 0..(StreamLen(r.in.layer) - 1)
  /\ r.in.p.kind = "rewrite" => (HasVersion(r.in.layer) /\ r.in.p.off \in 1..3 /\ Len(r.in.p.bytes) = 4)
  \* a real side runs the genuine constants; a crafted peer is used on a clean carrier only
  /\ r.in.real # "server" => (r.in.cmagic = CM)
  /\ r.in.real # "client" => (r.in.smagic = SM)
  /\ r.in.real = "both" => r.in.sver = r.in.cver
  /\ r.in.real # "both" => r.in.p.kind = "none"
  \* the carrier did to the bytes what the case says
  /\ r.s2cSeen = MangleP(r.in.p, r.in.layer, "s2c", r.s2cSent)
  /\ r.c2sSeen = MangleP(r.in.p, r.in.layer, "c2s", r.c2sSent)

\* the bytes a side would send if it got through all its steps
FullStream(layer, magic, ver) == (IF HasMagic(layer) THEN magic ELSE <<>>) \o (IF HasVersion(layer) THEN EncVer(ver) ELSE <<>>)
IsPrefixOf(p, s) == Len(p) <= Len(s) /\ SubSeq(s, 1, Len(p)) = p
\* the documented wire format (reported as drift, not judged)
WireAsDocumented(r) ==
  /\ IsPrefixOf(r.s2cSent, FullStream(r.in.layer, r.in.smagic, r.in.sver))
  /\ IsPrefixOf(r.c2sSent, FullStream(r.in.layer, r.in.cmagic, r.in.cver))

CaseFails(i, r) ==
  LET c == CaseOf(r)
      clean == Clean(c)
  IN   Chk(Want, i, "C34_Terminates", r.cDone /\ r.sDone)
    \o Chk(Want, i, "C34_AgreeIffEqual",
           (r.cDone /\ r.sDone) =>
             CASE r.in.real = "both" -> C34_AgreeIffEqual(clean, r.cOK, r.sOK)
               [] r.in.real = "client" -> C34_OneSide(clean, r.cOK)
               [] r.in.real = "server" -> C34_OneSide(clean, r.sOK))
    \o Chk(Want, i, "C34_NoOneSidedProceed",
           (r.cDone /\ r.sDone) =>
             /\ r.in.real # "server" => C34_NoOneSidedProceed(r.cOK, r.sOK, r.cNext)
             /\ r.in.real # "client" => C34_NoOneSidedProceed(r.sOK, r.cOK, r.sNext))

TInit == l = 1 /\ fails = <<>> /\ seen = {} /\ nperturbed = 0 /\ naccepted = 0 /\ ndrift = 0 /\ done = FALSE

Step ==
  /\ l <= NRec
  /\ LET r == Trace[l] IN
     IF WellFormed(r)
     THEN /\ fails' = Cap(fails \o CaseFails(l, r))
          /\ seen' = IF InBoundCases(CaseOf(r)) THEN seen \cup {CaseOf(r)} ELSE seen
          /\ nperturbed' = nperturbed + (IF Clean(CaseOf(r)) THEN 0 ELSE 1)
          /\ naccepted' = naccepted + (IF r.cOK /\ r.sOK THEN 1 ELSE 0)
          /\ ndrift' = ndrift + (IF WireAsDocumented(r) THEN 0 ELSE 1)
     ELSE /\ fails' = Cap(fails \o <<Fail(l, "C34_TraceAccepted")>>)
          /\ UNCHANGED <<seen, nperturbed, naccepted, ndrift>>
  /\ l' = l + 1 /\ UNCHANGED done

Finish ==
  /\ l = NRec + 1 /\ ~done
  /\ WriteResult(l - 1, fails, [stat_cases_in_model |-> Cardinality(BoundCases),
                                stat_model_cases_executed |-> Cardinality(seen),
                                stat_model_cases_missing |-> Cardinality(BoundCases \ seen),
                                stat_perturbed_or_mismatched |-> nperturbed,
                                stat_accepted_by_both |-> naccepted,
                                stat_wire_format_drift |-> ndrift])
  /\ done' = TRUE /\ UNCHANGED <<l, fails, seen, nperturbed, naccepted, ndrift>>

TSpec == TInit /\ [][Step \/ Finish]_tvars
====
