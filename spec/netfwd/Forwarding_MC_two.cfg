\* two connections through the accept loop, no payload (half-closes only), accept-loop stop and dial
\* failure at every step: the counters under concurrency and session-wide cancellation
CONSTANTS
  NConn = 2
  MaxLen = 0
  MaxChunk = 1
  Faults = {"stop", "dialfail"}
SPECIFICATION Spec
INVARIANTS TypeOK C33_Relay C33_Closed C33_NoStuck C33_Counters
CHECK_DEADLOCK FALSE
