---- MODULE ForwardingProps ----
(***************************************************************************)
(* C33 - the property operators of connection forwarding.  They take plain  *)
(* values (byte sequences - TLA+ sequences in the model, hex strings in the *)
(* recorded traces; Len/SubSeq/= work on both -, booleans, counters) so that *)
(* the very same operators are evaluated on the states of Forwarding.tla    *)
(* (leg D) and on what was observed around the real forwarding.ForwardAndClose *)
(* and the real forwarding session (leg B).                                 *)
(*                                                                         *)
(* Vocabulary.  A forwarded connection is a pair of connections: `first'    *)
(* faces peer A (the accepted, source-side connection), `second' faces peer *)
(* B (the dialled, destination-side connection).  For the direction X -> Y: *)
(*   sent       bytes the X-side connection accepted from peer X            *)
(*   delivered  bytes the forwarder wrote to the connection facing Y        *)
(*   half       the forwarder half-closed (CloseWrite) the connection       *)
(*              facing Y while that connection was still open               *)
(*   ended      peer X ended its sending side cleanly (CloseWrite or Close) *)
(***************************************************************************)
EXTENDS Naturals, Sequences

IsPrefix(p, s) == Len(p) <= Len(s) /\ SubSeq(s, 1, Len(p)) = p

\* delivered is, at every moment, a prefix of what the other side sent
C33_RelayPrefix(sent, delivered) == IsPrefix(delivered, sent)

\* a half-close is forwarded only after everything, and only if the sender ended its sending side
C33_RelayHalf(half, ended, sent, delivered) == half => (ended /\ delivered = sent)

\* a connection on which nothing went wrong (no failure, no cancellation, both peers
\* sent what they wanted and then half-closed) relays everything followed by the half-close,
\* and refuses none of the peers' writes (it is not torn down early)
C33_RelayComplete(clean, returned, refused, sent, delivered, half) ==
  (clean /\ returned) => (~refused /\ delivered = sent /\ half)

\* both connections are closed once both directions finish, either direction fails or
\* forwarding is cancelled (triggered = one of those events was observed), and
\* ForwardAndClose does not return with a connection left open
C33_BothClosed(triggered, returned, closedFirst, closedSecond) ==
  /\ triggered => returned
  /\ returned => (closedFirst /\ closedSecond)

\* session statistics, ctr = [open, total, inb, outb], against a ledger kept outside the
\* forwarder: accepted = connections accepted and dialled, toFirst/toSecond = number of
\* bytes the forwarder wrote to source-side / destination-side connections
C33_CountersBound(ctr, accepted, toFirst, toSecond) ==
  /\ ctr.total <= accepted /\ ctr.open <= ctr.total
  /\ ctr.inb <= toFirst /\ ctr.outb <= toSecond
\* when nothing is moving (no goroutine between a Write and its audit, none between returning
\* and the decrement): exact; stillOpen = accepted connections the forwarder has not closed yet.
\* "The open-connection count returns to zero" is the case stillOpen = 0.
C33_CountersRest(ctr, accepted, toFirst, toSecond, stillOpen) ==
  /\ ctr.total = accepted
  /\ ctr.inb + ctr.outb = toFirst + toSecond
  /\ ctr.open = stillOpen
\* the open-connection count returns to zero: once no forwarded connection is left (all are over,
\* or the forwarding loop that carried them is gone) the session reports no open connection
C33_OpenReturnsToZero(ctr) == ctr.open = 0
\* state.proto: outbound = source -> destination, inbound = destination -> source
C33_CountersDirection(ctr, toFirst, toSecond) == ctr.inb = toFirst /\ ctr.outb = toSecond
====
