\* one connection, payloads <= 2 bytes per direction, reads of 1..2 bytes, all half-close orders, cancellation at every step
CONSTANTS
  NConn = 1
  MaxLen = 2
  MaxChunk = 2
  Faults = {"cancel"}
SPECIFICATION Spec
INVARIANTS TypeOK C33_Relay C33_Closed C33_NoStuck C33_Counters
CHECK_DEADLOCK FALSE
