\* one connection, payloads <= 3 bytes per direction, reads of 1..3 bytes, all half-close orders, no failure
CONSTANTS
  NConn = 1
  MaxLen = 3
  MaxChunk = 3
  Faults = {}
SPECIFICATION Spec
INVARIANTS TypeOK C33_Relay C33_Closed C33_NoStuck C33_Counters
CHECK_DEADLOCK FALSE
