---- MODULE Handshake_MC ----
EXTENDS Handshake, HandshakeConsts
====
