---- MODULE Handshake ----
(***************************************************************************)
(* C34 - the handshake of an agent connection as the code performs it.      *)
(*                                                                         *)
(*  server (cmd/mutagen-agent): agent.ServerHandshake = send SM; ReadFull 3, *)
(*    compare with CM.  mutagen.ServerVersionHandshake = send version;       *)
(*    ReadFull 12; compare.  Any error: the process exits (stream closed).   *)
(*  client (pkg/agent/dial.go): agent.ClientHandshake = ReadFull 3, compare  *)
(*    with SM; send CM.  mutagen.ClientVersionHandshake = ReadFull 12; send  *)
(*    version; compare.  Any error: stream.Close().                          *)
(*  carrier: two byte streams (s2c, c2s); what the receiver sees is          *)
(*    Mangle(sent): one corrupted byte, a cut after off bytes, or a          *)
(*    rewritten version field.                                              *)
(*                                                                         *)
(* One case (layer, constants of both sides, perturbation) is chosen in     *)
(* Init; all interleavings of the two sides are explored.                   *)
(***************************************************************************)
EXTENDS HandshakeCases, TLC

VARIABLES c,      \* the case
          srv,    \* [pc, res: "run"|"ok"|"fail", closed, next: "none"|"live"|"dead", gotv]
          cli,
          w,      \* w[d]: bytes the sender of direction d has written
          r       \* r[d]: bytes the receiver of direction d has consumed
vars == <<c, srv, cli, w, r>>

\* what the receiver of direction d can see of the sent bytes s
Mangle(d, s) == MangleP(c.p, c.layer, d, s)
\* no more bytes will arrive on direction d than are visible now
Ended(d, senderClosed) == senderClosed \/ (c.p.kind = "trunc" /\ c.p.dir = d /\ Len(w[d]) >= c.p.off)

FirstPc(side, layer) ==
  IF side = "srv" THEN (IF HasMagic(layer) THEN "sendM" ELSE "sendV")
  ELSE (IF HasMagic(layer) THEN "recvM" ELSE "recvV")

Init ==
  /\ c \in Cases
  /\ srv = [pc |-> FirstPc("srv", c.layer), res |-> "run", closed |-> FALSE, next |-> "none", gotv |-> <<>>]
  /\ cli = [pc |-> FirstPc("cli", c.layer), res |-> "run", closed |-> FALSE, next |-> "none", gotv |-> <<>>]
  /\ w = [d \in Dirs |-> <<>>]
  /\ r = [d \in Dirs |-> 0]

Failed(p) == [p EXCEPT !.res = "fail", !.closed = TRUE, !.pc = "end"]
Accepted(p) == [p EXCEPT !.res = "ok", !.pc = "end"]

---------------------------------------------------------------------------
(* server side *)

\* pc after the magic exchange / after the version exchange
SrvAfterMagic == IF HasVersion(c.layer) THEN [srv EXCEPT !.pc = "sendV"] ELSE Accepted(srv)

SrvSend(pc, bytes, nextpc) ==
  /\ srv.pc = pc
  /\ \/ /\ w' = [w EXCEPT !["s2c"] = @ \o bytes]
        /\ srv' = [srv EXCEPT !.pc = nextpc]
     \/ /\ cli.closed                           \* writing to a closed stream may fail
        /\ srv' = Failed(srv) /\ UNCHANGED w
  /\ UNCHANGED <<c, cli, r>>

SrvSendMagic == SrvSend("sendM", c.smagic, "recvM")           \* sendMagicNumber(stream, serverMagicNumber)
SrvSendVersion == SrvSend("sendV", EncVer(c.sver), "recvV")   \* sendVersion(stream)

SrvRecvMagic ==          \* receiveAndCompareMagicNumber(stream, clientMagicNumber)
  /\ srv.pc = "recvM"
  /\ LET v == Mangle("c2s", w["c2s"]) IN
     IF Len(v) - r["c2s"] >= 3
     THEN /\ r' = [r EXCEPT !["c2s"] = @ + 3]
          /\ srv' = IF SubSeq(v, r["c2s"] + 1, r["c2s"] + 3) = CM THEN SrvAfterMagic ELSE Failed(srv)
     ELSE /\ Ended("c2s", cli.closed)             \* io.ReadFull: EOF / unexpected EOF
          /\ srv' = Failed(srv) /\ UNCHANGED r
  /\ UNCHANGED <<c, cli, w>>

SrvRecvVersion ==        \* receiveVersion(stream) and the comparison with the own version
  /\ srv.pc = "recvV"
  /\ LET v == Mangle("c2s", w["c2s"]) IN
     IF Len(v) - r["c2s"] >= 12
     THEN /\ r' = [r EXCEPT !["c2s"] = @ + 12]
          /\ srv' = IF SubSeq(v, r["c2s"] + 1, r["c2s"] + 12) = EncVer(c.sver) THEN Accepted(srv) ELSE Failed(srv)
     ELSE /\ Ended("c2s", cli.closed)
          /\ srv' = Failed(srv) /\ UNCHANGED r
  /\ UNCHANGED <<c, cli, w>>

---------------------------------------------------------------------------
(* client side *)

CliAfterMagic == IF HasVersion(c.layer) THEN [cli EXCEPT !.pc = "recvV"] ELSE Accepted(cli)

CliRecvMagic ==          \* receiveAndCompareMagicNumber(stream, serverMagicNumber)
  /\ cli.pc = "recvM"
  /\ LET v == Mangle("s2c", w["s2c"]) IN
     IF Len(v) - r["s2c"] >= 3
     THEN /\ r' = [r EXCEPT !["s2c"] = @ + 3]
          /\ cli' = IF SubSeq(v, r["s2c"] + 1, r["s2c"] + 3) = SM THEN [cli EXCEPT !.pc = "sendM"] ELSE Failed(cli)
     ELSE /\ Ended("s2c", srv.closed)
          /\ cli' = Failed(cli) /\ UNCHANGED r
  /\ UNCHANGED <<c, srv, w>>

CliSend(pc, bytes, next) ==
  /\ cli.pc = pc
  /\ \/ /\ w' = [w EXCEPT !["c2s"] = @ \o bytes]
        /\ cli' = next
     \/ /\ srv.closed
        /\ cli' = Failed(cli) /\ UNCHANGED w
  /\ UNCHANGED <<c, srv, r>>

CliSendMagic == CliSend("sendM", c.cmagic, CliAfterMagic)             \* sendMagicNumber(stream, clientMagicNumber)

CliRecvVersion ==        \* receiveVersion(stream)
  /\ cli.pc = "recvV"
  /\ LET v == Mangle("s2c", w["s2c"]) IN
     IF Len(v) - r["s2c"] >= 12
     THEN /\ r' = [r EXCEPT !["s2c"] = @ + 12]
          /\ cli' = [cli EXCEPT !.pc = "sendV", !.gotv = SubSeq(v, r["s2c"] + 1, r["s2c"] + 12)]
     ELSE /\ Ended("s2c", srv.closed)
          /\ cli' = Failed(cli) /\ UNCHANGED r
  /\ UNCHANGED <<c, srv, w>>

CliSendVersion == CliSend("sendV", EncVer(c.cver), [cli EXCEPT !.pc = "cmp"])   \* sendVersion(stream)

CliCompare ==            \* versionMatch, after the own version has been sent
  /\ cli.pc = "cmp"
  /\ cli' = IF cli.gotv = EncVer(c.cver) THEN Accepted(cli) ELSE Failed(cli)
  /\ UNCHANGED <<c, srv, w, r>>

---------------------------------------------------------------------------
(* after the handshake: a side that accepted performs its next I/O once the other side is done *)

SrvNextIO ==
  /\ srv.res = "ok" /\ srv.next = "none" /\ cli.res # "run"
  /\ srv' = [srv EXCEPT !.next = IF cli.closed THEN "dead" ELSE "live"]
  /\ UNCHANGED <<c, cli, w, r>>
CliNextIO ==
  /\ cli.res = "ok" /\ cli.next = "none" /\ srv.res # "run"
  /\ cli' = [cli EXCEPT !.next = IF srv.closed THEN "dead" ELSE "live"]
  /\ UNCHANGED <<c, srv, w, r>>

Terminated == /\ srv.res # "run" /\ cli.res # "run"
              /\ srv.res = "ok" => srv.next # "none"
              /\ cli.res = "ok" => cli.next # "none"
Done == Terminated /\ UNCHANGED vars      \* so that TLC's deadlock check reports only handshakes that hang

Next == \/ SrvSendMagic \/ SrvRecvMagic \/ SrvSendVersion \/ SrvRecvVersion
        \/ CliRecvMagic \/ CliSendMagic \/ CliRecvVersion \/ CliSendVersion \/ CliCompare
        \/ SrvNextIO \/ CliNextIO \/ Done
Spec == Init /\ [][Next]_vars
FairSpec == Spec /\ WF_vars(Next)

---------------------------------------------------------------------------
(* properties *)

C34_Agree == (srv.res # "run" /\ cli.res # "run") => C34_AgreeIffEqual(Clean(c), cli.res = "ok", srv.res = "ok")
\* each genuine side alone, on a clean carrier (what is evaluated when the other side is a crafted peer)
GenuineS == c.smagic = SM /\ c.sver = Base
GenuineC == c.cmagic = CM /\ c.cver = Base
C34_RealSide == (srv.res # "run" /\ cli.res # "run" /\ c.p.kind = "none") =>
                  /\ GenuineC => C34_OneSide(Clean(c), cli.res = "ok")
                  /\ GenuineS => C34_OneSide(Clean(c), srv.res = "ok")
C34_NoOneSided ==
  /\ (srv.next # "none" /\ cli.res # "run") => C34_NoOneSidedProceed(srv.res = "ok", cli.res = "ok", srv.next)
  /\ (cli.next # "none" /\ srv.res # "run") => C34_NoOneSidedProceed(cli.res = "ok", srv.res = "ok", cli.next)
\* a good connection stays usable
C34_LiveWhenBothOK == (Terminated /\ srv.res = "ok" /\ cli.res = "ok") => (srv.next = "live" /\ cli.next = "live")
C34_Terminates == <>Terminated

TypeOK == /\ (c \in BoundCases) = InBoundCases(c)
          /\ srv.res \in {"run", "ok", "fail"} /\ cli.res \in {"run", "ok", "fail"}
          /\ Len(w["s2c"]) <= StreamLen(c.layer) /\ Len(w["c2s"]) <= StreamLen(c.layer)
====
