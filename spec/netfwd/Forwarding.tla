---- MODULE Forwarding ----
(***************************************************************************)
(* C33 - connection forwarding, structured like pkg/forwarding/forwarding.go *)
(* (ForwardAndClose) and pkg/forwarding/controller.go (forward).             *)
(*                                                                         *)
(* controller.forward      acc: source.Open -> destination.Open -> count    *)
(*                         (OpenConnections++, TotalConnections++) -> go    *)
(*                         ForwardAndClose; a failing Open ends the loop and *)
(*                         the deferred cancel() cancels every connection.  *)
(* ForwardAndClose(k)      two copiers cp[k][X] (X = the side they read     *)
(*                         from): io.Copy = Read | Write | audit, on clean  *)
(*                         EOF CloseWrite(destination), then the result is  *)
(*                         sent on the buffered channel ch[k]; supervisor   *)
(*                         sup[k]: two nil results | one error | ctx done   *)
(*                         -> first.Close(); second.Close(); return; the    *)
(*                         controller goroutine then decrements             *)
(*                         OpenConnections.                                 *)
(* environment             peers A (behind `first') and B (behind `second') *)
(*                         write bytes, half-close, close, reset at any     *)
(*                         moment; cancellation at any moment; writes that  *)
(*                         fail after a partial transfer.                   *)
(*                                                                         *)
(* Connection semantics (those of TCP and of the harness connections): a    *)
(* peer's CloseWrite or Close is seen by the reader as EOF after the        *)
(* pending data; a reset makes reads and writes fail; writing to a closed   *)
(* or reset peer fails; after the local Close every operation fails; the    *)
(* local Close unblocks a blocked Read.                                     *)
(***************************************************************************)
EXTENDS ForwardingProps, FiniteSets, TLC

CONSTANTS NConn,     \* connections the accept loop may take
          MaxLen,    \* bytes a peer may send in one direction
          MaxChunk,  \* bytes one Read may return
          Faults     \* subset of {"cancel","reset","close","partial","stop","dialfail"}

Conns == 1..NConn
Sides == {"A", "B"}
Other(X) == IF X = "A" THEN "B" ELSE "A"
Byte(X, i) == IF X = "A" THEN i ELSE 10 + i      \* the i-th byte peer X sends
Min(a, b) == IF a < b THEN a ELSE b

VARIABLES
  acc,      \* controller.forward's accept loop: [pc, next]
  peer,     \* peer[k][X] = [ws: "open"|"half"|"closed"|"reset", ended, refused]
  sent,     \* sent[k][X]: bytes the connection facing X accepted from peer X
  rd,       \* rd[k][X]: how many of them the forwarder has read
  wr,       \* wr[k][X]: bytes the forwarder wrote to the connection facing X
  cw,       \* cw[k][X]: the forwarder half-closed the connection facing X while it was open
  cl,       \* cl[k][X]: the forwarder closed the connection facing X
  cp,       \* cp[k][X]: copier reading from the connection facing X: [pc, buf, n, bad]
  ch,       \* ch[k]: copyErrors
  sup,      \* sup[k]: [pc: "idle"|"wait"|"close1"|"close2"|"ret"|"fin", n]
  cancel,   \* cancel[k]: the context given to ForwardAndClose(k) is done
  ioerr,    \* ioerr[k]: a Read/Write of the forwarder failed for a reason other than its own Close (history)
  ctr       \* session statistics [open, total, inb, outb]
vars == <<acc, peer, sent, rd, wr, cw, cl, cp, ch, sup, cancel, ioerr, ctr>>

PerSide(v) == [k \in Conns |-> [X \in Sides |-> v]]

Init ==
  /\ acc = [pc |-> "src", next |-> 1]
  /\ peer = PerSide([ws |-> "open", ended |-> FALSE, refused |-> FALSE])
  /\ sent = PerSide(<<>>) /\ rd = PerSide(0) /\ wr = PerSide(<<>>)
  /\ cw = PerSide(FALSE) /\ cl = PerSide(FALSE)
  /\ cp = PerSide([pc |-> "idle", buf |-> <<>>, n |-> 0, bad |-> FALSE])
  /\ ch = [k \in Conns |-> <<>>]
  /\ sup = [k \in Conns |-> [pc |-> "idle", n |-> 0]]
  /\ cancel = [k \in Conns |-> FALSE]
  /\ ioerr = [k \in Conns |-> FALSE]
  /\ ctr = [open |-> 0, total |-> 0, inb |-> 0, outb |-> 0]

Live(k) == sup[k].pc # "idle"
Returned(k) == sup[k].pc \in {"ret", "fin"}

---------------------------------------------------------------------------
(* controller.forward: the accept loop *)

AccSrcOpen ==       \* incoming, err := source.Open()
  /\ acc.pc = "src" /\ acc.next <= NConn
  /\ acc' = [acc EXCEPT !.pc = "dst"]
  /\ UNCHANGED <<peer, sent, rd, wr, cw, cl, cp, ch, sup, cancel, ioerr, ctr>>

AccSrcFail ==       \* source.Open fails (endpoint shut down): return -> deferred cancel()
  /\ "stop" \in Faults /\ acc.pc = "src"
  /\ acc' = [acc EXCEPT !.pc = "stopped"]
  /\ cancel' = [k \in Conns |-> TRUE]
  /\ UNCHANGED <<peer, sent, rd, wr, cw, cl, cp, ch, sup, ioerr, ctr>>

AccDstFail ==       \* destination.Open fails: incoming.Close(); return -> deferred cancel()
  /\ "dialfail" \in Faults /\ acc.pc = "dst"
  /\ acc' = [acc EXCEPT !.pc = "stopped"]
  /\ cancel' = [k \in Conns |-> TRUE]
  /\ UNCHANGED <<peer, sent, rd, wr, cw, cl, cp, ch, sup, ioerr, ctr>>

AccDstOpen ==       \* destination.Open succeeds; counts under the state lock; go ForwardAndClose
  /\ acc.pc = "dst"
  /\ LET k == acc.next IN
     /\ ctr' = [ctr EXCEPT !.open = @ + 1, !.total = @ + 1]
     /\ sup' = [sup EXCEPT ![k].pc = "wait"]
     /\ cp' = [cp EXCEPT ![k] = [X \in Sides |-> [cp[k][X] EXCEPT !.pc = "read"]]]
     /\ acc' = [pc |-> "src", next |-> k + 1]
  /\ UNCHANGED <<peer, sent, rd, wr, cw, cl, ch, cancel, ioerr>>

---------------------------------------------------------------------------
(* environment: the two peers and the canceller *)

PeerWrite(k, X) ==
  /\ Live(k) /\ peer[k][X].ws = "open" /\ Len(sent[k][X]) < MaxLen
  /\ IF cl[k][X]
     THEN /\ peer' = [peer EXCEPT ![k][X].refused = TRUE]      \* the forwarder has gone: the write is refused
          /\ UNCHANGED sent
     ELSE /\ sent' = [sent EXCEPT ![k][X] = Append(@, Byte(X, Len(@) + 1))]
          /\ UNCHANGED peer
  /\ UNCHANGED <<acc, rd, wr, cw, cl, cp, ch, sup, cancel, ioerr, ctr>>

PeerHalf(k, X) ==
  /\ Live(k) /\ peer[k][X].ws = "open"
  /\ peer' = [peer EXCEPT ![k][X].ws = "half", ![k][X].ended = TRUE]
  /\ UNCHANGED <<acc, sent, rd, wr, cw, cl, cp, ch, sup, cancel, ioerr, ctr>>

PeerClose(k, X) ==
  /\ "close" \in Faults /\ Live(k) /\ peer[k][X].ws \in {"open", "half"}
  /\ peer' = [peer EXCEPT ![k][X].ws = "closed", ![k][X].ended = TRUE]
  /\ UNCHANGED <<acc, sent, rd, wr, cw, cl, cp, ch, sup, cancel, ioerr, ctr>>

PeerReset(k, X) ==
  /\ "reset" \in Faults /\ Live(k) /\ peer[k][X].ws # "reset"
  /\ peer' = [peer EXCEPT ![k][X].ws = "reset"]
  /\ UNCHANGED <<acc, sent, rd, wr, cw, cl, cp, ch, sup, cancel, ioerr, ctr>>

Cancel(k) ==
  /\ "cancel" \in Faults /\ Live(k) /\ ~cancel[k]
  /\ cancel' = [cancel EXCEPT ![k] = TRUE]
  /\ UNCHANGED <<acc, peer, sent, rd, wr, cw, cl, cp, ch, sup, ioerr, ctr>>

---------------------------------------------------------------------------
(* ForwardAndClose: copier X -> Other(X) *)

CopyRead(k, X) ==
  /\ cp[k][X].pc = "read"
  /\ IF cl[k][X]
     THEN /\ cp' = [cp EXCEPT ![k][X].pc = "send", ![k][X].bad = TRUE]     \* use of closed connection
          /\ UNCHANGED <<rd, ioerr>>
     ELSE IF peer[k][X].ws = "reset"
     THEN /\ cp' = [cp EXCEPT ![k][X].pc = "send", ![k][X].bad = TRUE]
          /\ ioerr' = [ioerr EXCEPT ![k] = TRUE]
          /\ UNCHANGED rd
     ELSE IF rd[k][X] < Len(sent[k][X])
     THEN /\ \E n \in 1..Min(MaxChunk, Len(sent[k][X]) - rd[k][X]) :
               /\ cp' = [cp EXCEPT ![k][X].pc = "write",
                                   ![k][X].buf = SubSeq(sent[k][X], rd[k][X] + 1, rd[k][X] + n)]
               /\ rd' = [rd EXCEPT ![k][X] = @ + n]
          /\ UNCHANGED ioerr
     ELSE /\ peer[k][X].ws \in {"half", "closed"}                          \* otherwise the Read blocks
          /\ cp' = [cp EXCEPT ![k][X].pc = "eof"]
          /\ UNCHANGED <<rd, ioerr>>
  /\ UNCHANGED <<acc, peer, sent, wr, cw, cl, ch, sup, cancel, ctr>>

CopyWrite(k, X) ==
  LET Y == Other(X)
      b == cp[k][X].buf
      Fails(n) == /\ wr' = [wr EXCEPT ![k][Y] = @ \o SubSeq(b, 1, n)]
                  /\ cp' = [cp EXCEPT ![k][X].pc = "audit", ![k][X].n = n, ![k][X].bad = TRUE, ![k][X].buf = <<>>]
  IN
  /\ cp[k][X].pc = "write"
  /\ IF cl[k][Y]
     THEN Fails(0) /\ UNCHANGED ioerr
     ELSE IF peer[k][Y].ws \in {"closed", "reset"}
     THEN /\ \E n \in (IF "partial" \in Faults THEN 0..(Len(b) - 1) ELSE {0}) : Fails(n)
          /\ ioerr' = [ioerr EXCEPT ![k] = TRUE]
     ELSE \/ /\ wr' = [wr EXCEPT ![k][Y] = @ \o b]
             /\ cp' = [cp EXCEPT ![k][X].pc = "audit", ![k][X].n = Len(b), ![k][X].buf = <<>>]
             /\ UNCHANGED ioerr
          \/ /\ "partial" \in Faults                                       \* spurious I/O error after n bytes
             /\ \E n \in 0..(Len(b) - 1) : Fails(n)
             /\ ioerr' = [ioerr EXCEPT ![k] = TRUE]
  /\ UNCHANGED <<acc, peer, sent, rd, cw, cl, ch, sup, cancel, ctr>>

CopyAudit(k, X) ==      \* auditWriter: the auditor is called with the written count, error or not
  /\ cp[k][X].pc = "audit"
  /\ ctr' = IF X = "A" THEN [ctr EXCEPT !.outb = @ + cp[k][X].n] ELSE [ctr EXCEPT !.inb = @ + cp[k][X].n]
  /\ cp' = [cp EXCEPT ![k][X].pc = IF cp[k][X].bad THEN "send" ELSE "read", ![k][X].n = 0]
  /\ UNCHANGED <<acc, peer, sent, rd, wr, cw, cl, ch, sup, cancel, ioerr>>

CopyCloseWrite(k, X) ==  \* err == nil: forward the EOF
  /\ cp[k][X].pc = "eof"
  /\ cw' = IF cl[k][Other(X)] THEN cw ELSE [cw EXCEPT ![k][Other(X)] = TRUE]
  /\ cp' = [cp EXCEPT ![k][X].pc = "send"]
  /\ UNCHANGED <<acc, peer, sent, rd, wr, cl, ch, sup, cancel, ioerr, ctr>>

CopySend(k, X) ==        \* copyErrors <- err
  /\ cp[k][X].pc = "send"
  /\ ch' = [ch EXCEPT ![k] = Append(@, IF cp[k][X].bad THEN "err" ELSE "nil")]
  /\ cp' = [cp EXCEPT ![k][X].pc = "done"]
  /\ UNCHANGED <<acc, peer, sent, rd, wr, cw, cl, sup, cancel, ioerr, ctr>>

(* ForwardAndClose: the waiting loop and the deferred closes *)

SupRecv(k) ==
  /\ sup[k].pc = "wait" /\ ch[k] # <<>>
  /\ ch' = [ch EXCEPT ![k] = Tail(@)]
  /\ sup' = IF Head(ch[k]) = "err" \/ sup[k].n = 1
            THEN [sup EXCEPT ![k].pc = "close1", ![k].n = @ + 1]
            ELSE [sup EXCEPT ![k].n = @ + 1]
  /\ UNCHANGED <<acc, peer, sent, rd, wr, cw, cl, cp, cancel, ioerr, ctr>>

SupCancel(k) ==
  /\ sup[k].pc = "wait" /\ cancel[k]
  /\ sup' = [sup EXCEPT ![k].pc = "close1"]
  /\ UNCHANGED <<acc, peer, sent, rd, wr, cw, cl, cp, ch, cancel, ioerr, ctr>>

SupClose1(k) ==
  /\ sup[k].pc = "close1"
  /\ cl' = [cl EXCEPT ![k]["A"] = TRUE]
  /\ sup' = [sup EXCEPT ![k].pc = "close2"]
  /\ UNCHANGED <<acc, peer, sent, rd, wr, cw, cp, ch, cancel, ioerr, ctr>>

SupClose2(k) ==
  /\ sup[k].pc = "close2"
  /\ cl' = [cl EXCEPT ![k]["B"] = TRUE]
  /\ sup' = [sup EXCEPT ![k].pc = "ret"]
  /\ UNCHANGED <<acc, peer, sent, rd, wr, cw, cp, ch, cancel, ioerr, ctr>>

CtlFinish(k) ==          \* controller goroutine after ForwardAndClose returned: OpenConnections--
  /\ sup[k].pc = "ret"
  /\ sup' = [sup EXCEPT ![k].pc = "fin"]
  /\ ctr' = [ctr EXCEPT !.open = @ - 1]
  /\ UNCHANGED <<acc, peer, sent, rd, wr, cw, cl, cp, ch, cancel, ioerr>>

FwdNext(k) ==
  \/ \E X \in Sides : CopyRead(k, X) \/ CopyWrite(k, X) \/ CopyAudit(k, X) \/ CopyCloseWrite(k, X) \/ CopySend(k, X)
  \/ SupRecv(k) \/ SupCancel(k) \/ SupClose1(k) \/ SupClose2(k) \/ CtlFinish(k)
EnvNext(k) ==
  \/ \E X \in Sides : PeerWrite(k, X) \/ PeerHalf(k, X) \/ PeerClose(k, X) \/ PeerReset(k, X)
  \/ Cancel(k)
AccNext == AccSrcOpen \/ AccSrcFail \/ AccDstFail \/ AccDstOpen

Next == AccNext \/ \E k \in Conns : FwdNext(k) \/ EnvNext(k)
Spec == Init /\ [][Next]_vars
\* fairness only for the forwarder's own steps: the environment need not do anything
FairSpec == Spec /\ \A k \in Conns : WF_vars(FwdNext(k))

---------------------------------------------------------------------------
(* properties *)

\* nothing was done to connection k from outside that could make it fail
Clean(k) == ~cancel[k] /\ ~ioerr[k] /\ \A X \in Sides : peer[k][X].ws \in {"open", "half"}
\* an event after which ForwardAndClose(k) must return
Triggered(k) == Live(k) /\ (cancel[k] \/ ioerr[k] \/ \A X \in Sides : peer[k][X].ended)

C33_Relay ==
  \A k \in Conns : \A X \in Sides :
    LET Y == Other(X) IN
    /\ C33_RelayPrefix(sent[k][X], wr[k][Y])
    /\ C33_RelayHalf(cw[k][Y], peer[k][X].ended, sent[k][X], wr[k][Y])
    /\ C33_RelayComplete(Clean(k), Returned(k), peer[k][X].refused, sent[k][X], wr[k][Y], cw[k][Y])

\* safety half of BothClosed; (triggered => returned) is C33_Returns / C33_NoStuck below
C33_Closed == \A k \in Conns : C33_BothClosed(FALSE, Returned(k), cl[k]["A"], cl[k]["B"])
\* a triggered connection cannot sit in a state where the forwarder has nothing left to do
C33_NoStuck == \A k \in Conns : (Triggered(k) /\ ~ENABLED FwdNext(k)) => sup[k].pc = "fin"
\* liveness under fairness of the forwarder's steps
C33_Returns == \A k \in Conns : Triggered(k) ~> (sup[k].pc = "fin")

RECURSIVE SumLen(_, _, _)
SumLen(f, X, S) == IF S = {} THEN 0 ELSE LET k == CHOOSE x \in S : TRUE IN Len(f[k][X]) + SumLen(f, X, S \ {k})
Accepted == Cardinality({k \in Conns : Live(k)})
\* nothing is moving: every copier is blocked in Read or has ended (none between a Write and
\* its audit), no supervisor between its wake-up and the decrement of OpenConnections
Quiet == \A k \in Conns : Live(k) => (sup[k].pc \in {"wait", "fin"} /\ \A X \in Sides : cp[k][X].pc \in {"read", "done"})
StillOpen == Cardinality({k \in Conns : Live(k) /\ ~(cl[k]["A"] /\ cl[k]["B"])})
C33_Counters ==
  LET toFirst == SumLen(wr, "A", Conns)
      toSecond == SumLen(wr, "B", Conns)
  IN /\ C33_CountersBound(ctr, Accepted, toFirst, toSecond)
     /\ ctr.open = Cardinality({k \in Conns : Live(k) /\ sup[k].pc # "fin"})
     /\ (\A k \in Conns : Live(k) => sup[k].pc = "fin") => C33_OpenReturnsToZero(ctr)
     /\ Quiet => (C33_CountersRest(ctr, Accepted, toFirst, toSecond, StillOpen) /\ C33_CountersDirection(ctr, toFirst, toSecond))

\* deliberately too strong (used once to show why the binding waits for a stable reading):
\* "open = 0 already implies every forwarded byte has been counted"
TooStrong_OpenZeroMeansAudited ==
  (Accepted > 0 /\ ctr.open = 0) => ctr.inb + ctr.outb = SumLen(wr, "A", Conns) + SumLen(wr, "B", Conns)

TypeOK ==
  /\ acc.pc \in {"src", "dst", "stopped"} /\ acc.next \in 1..(NConn + 1)
  /\ \A k \in Conns : /\ sup[k].pc \in {"idle", "wait", "close1", "close2", "ret", "fin"}
                      /\ Len(ch[k]) <= 2
                      /\ \A X \in Sides : /\ cp[k][X].pc \in {"idle", "read", "write", "audit", "eof", "send", "done"}
                                          /\ peer[k][X].ws \in {"open", "half", "closed", "reset"}
                                          /\ rd[k][X] <= Len(sent[k][X]) /\ Len(sent[k][X]) <= MaxLen
====
