\* two connections, payloads <= 1 byte per direction, no failure: byte counters summed over concurrent connections
CONSTANTS
  NConn = 2
  MaxLen = 1
  MaxChunk = 1
  Faults = {}
SPECIFICATION Spec
INVARIANTS TypeOK C33_Relay C33_Closed C33_NoStuck C33_Counters
CHECK_DEADLOCK FALSE
