\* as Handshake_MC.cfg with every corruption value 1..255 at every byte position
CONSTANTS
  Layers <- MC_Layers
  Base <- MC_Base
  OtherVers <- MC_OtherVers
  BadMagics <- MC_BadMagics
  Deltas <- MC_DeltasAll
  RewriteVals <- MC_RewriteVals
SPECIFICATION Spec
INVARIANTS TypeOK C34_Agree C34_RealSide C34_NoOneSided C34_LiveWhenBothOK
