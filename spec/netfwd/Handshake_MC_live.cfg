\* every handshake terminates (both sides return) under weak fairness
CONSTANTS
  Layers <- MC_Layers
  Base <- MC_Base
  OtherVers <- MC_OtherVers
  BadMagics <- MC_BadMagics
  Deltas <- MC_Deltas
  RewriteVals <- MC_RewriteVals
SPECIFICATION FairSpec
PROPERTIES C34_Terminates
