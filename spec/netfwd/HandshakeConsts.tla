---- MODULE HandshakeConsts ----
(* constants of the C34 configurations (tuples cannot be written in a .cfg file); shared by the
   model-checking and the trace-validation configurations so that both speak of the same case space *)
EXTENDS Naturals
MC_Base == <<0, 19, 0>>
MC_OtherVers == {<<1, 19, 0>>, <<0, 20, 0>>, <<0, 19, 1>>, <<0, 18, 0>>, <<0, 16777235, 0>>, <<19, 0, 0>>, <<0, 0, 19>>}
MC_BadMagics == {<<135, 39, 5>>, <<5, 39, 135>>, <<5, 39, 134>>, <<4, 39, 135>>, <<5, 38, 135>>, <<0, 0, 0>>}
MC_Deltas == {1, 128}
MC_DeltasAll == 1..255
MC_RewriteVals == {<<0, 0, 0, 0>>, <<0, 0, 0, 1>>, <<0, 0, 0, 18>>, <<0, 0, 0, 19>>, <<0, 0, 0, 20>>,
                   <<255, 255, 255, 255>>, <<19, 0, 0, 0>>, <<0, 0, 1, 19>>}
MC_Layers == {"magic", "version", "full"}
====
