CONSTANT Want = {"C33_Relay", "C33_BothClosed", "C33_Counters", "C33_TraceAccepted"}
SPECIFICATION TSpec
CHECK_DEADLOCK FALSE
