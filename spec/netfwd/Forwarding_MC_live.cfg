\* liveness: a triggered connection (cancelled, I/O error, both peers ended) is eventually closed and
\* accounted for, under weak fairness of the forwarder's own steps only
CONSTANTS
  NConn = 1
  MaxLen = 1
  MaxChunk = 1
  Faults = {"cancel", "reset", "close"}
SPECIFICATION FairSpec
PROPERTIES C33_Returns
CHECK_DEADLOCK FALSE
