\* one connection, payloads <= 2 bytes, every failure kind at every step
CONSTANTS
  NConn = 1
  MaxLen = 2
  MaxChunk = 2
  Faults = {"cancel", "reset", "close", "partial", "stop", "dialfail"}
SPECIFICATION Spec
INVARIANTS TypeOK C33_Relay C33_Closed C33_NoStuck C33_Counters
CHECK_DEADLOCK FALSE
