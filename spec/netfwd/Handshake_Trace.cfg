CONSTANTS
  Want = {"C34_AgreeIffEqual", "C34_NoOneSidedProceed", "C34_Terminates", "C34_TraceAccepted"}
  Layers <- MC_Layers
  Base <- MC_Base
  OtherVers <- MC_OtherVers
  BadMagics <- MC_BadMagics
  Deltas <- MC_Deltas
  RewriteVals <- MC_RewriteVals
SPECIFICATION TSpec
CHECK_DEADLOCK FALSE
