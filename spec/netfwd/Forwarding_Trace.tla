---- MODULE Forwarding_Trace ----
(***************************************************************************)
(* C33 - validation of what was observed around the real                    *)
(* forwarding.ForwardAndClose ("Conn" records) and the real forwarding       *)
(* session ("Session" records).  One record = one case.  The operators of   *)
(* ForwardingProps - the ones TLC checks on Forwarding.tla - are evaluated   *)
(* on the journals of the harness connections:                              *)
(*                                                                         *)
(*   in.conn / in.conns[k]   the script: steps [op, side, n], fault offsets *)
(*   intendedX  bytes peer X tried to send        sentX  bytes accepted     *)
(*   endedX     peer X's CloseWrite/Close succeeded   refusedX  a write of  *)
(*              peer X was refused or cut                                   *)
(*   wrFirst/wrSecond  bytes the forwarder wrote to first / second          *)
(*   cwFirst/cwSecond  it half-closed them while open                       *)
(*   clFirst/clSecond  it closed them       ioErr  one of its Reads/Writes  *)
(*              failed for a reason other than its own Close                *)
(*   gotX/eofX  what peer X's reader received, and whether it ended in EOF   *)
(*   cancel     the context was cancelled    returned  ForwardAndClose came  *)
(*              back within the watchdog     audFirst/audSecond  auditor     *)
(*              totals                                                      *)
(* Session: final (stable List reading), accepted/toFirst/toSecond/          *)
(* stillOpen (the ledger at that reading), snaps (readings in flight with    *)
(* the ledger taken after them), halted/haltClosed/orphan, afterHalt (stable *)
(* reading after the halt, when the session still exists).                   *)
(*                                                                         *)
(* The step relation is total; the schedule is not recorded, and none is     *)
(* needed: every operator holds in every reachable state of the model that   *)
(* agrees with the record on the observed values.                            *)
(***************************************************************************)
EXTENDS ForwardingProps, Integers, FiniteSets, TraceKit

CONSTANT Want

VARIABLES l, fails, nconn, nclean, ntrig, nsess, nunstable, done
tvars == <<l, fails, nconn, nclean, ntrig, nsess, nunstable, done>>

Bytes(h) == Len(h) \div 2          \* byte strings are recorded in hex

HasOp(ci, ops) == \E i \in DOMAIN ci.steps : ci.steps[i].op \in ops
HalfBy(ci, X) == \E i \in DOMAIN ci.steps : ci.steps[i].op = "half" /\ ci.steps[i].side = X
NoFaults(ci) == ci.failWFirst = -1 /\ ci.failWSecond = -1 /\ ci.failRFirst = -1 /\ ci.failRSecond = -1
\* nothing is done to the connection that could make it fail, and both peers half-close
CleanScript(ci) == ~HasOp(ci, {"cancel", "reset", "close"}) /\ NoFaults(ci) /\ HalfBy(ci, "A") /\ HalfBy(ci, "B")
\* an event after which the forwarder must close both connections
Trig(o) == o.cancel \/ o.ioErr \/ (o.endedA /\ o.endedB)

Relay(ci, o, returned) ==
  LET clean == CleanScript(ci) IN
  /\ C33_RelayPrefix(o.intendedA, o.sentA) /\ C33_RelayPrefix(o.intendedB, o.sentB)
  /\ C33_RelayPrefix(o.sentA, o.wrSecond) /\ C33_RelayPrefix(o.sentB, o.wrFirst)
  /\ C33_RelayPrefix(o.wrSecond, o.gotB) /\ C33_RelayPrefix(o.wrFirst, o.gotA)
  /\ C33_RelayHalf(o.cwSecond, o.endedA, o.sentA, o.wrSecond)
  /\ C33_RelayHalf(o.cwFirst, o.endedB, o.sentB, o.wrFirst)
  /\ C33_RelayComplete(clean, returned, o.refusedA \/ o.sentA # o.intendedA, o.sentA, o.wrSecond, o.cwSecond)
  /\ C33_RelayComplete(clean, returned, o.refusedB \/ o.sentB # o.intendedB, o.sentB, o.wrFirst, o.cwFirst)
  \* ... and the peers' readers received it: everything, then EOF
  /\ C33_RelayComplete(clean, returned, FALSE, o.sentA, o.gotB, o.eofB)
  /\ C33_RelayComplete(clean, returned, FALSE, o.sentB, o.gotA, o.eofA)

ConnWellFormed(ci, o) ==
  /\ \A f \in {"steps", "failWFirst", "failWSecond", "failRFirst", "failRSecond"} : Has(ci, f)
  /\ \A f \in {"intendedA", "intendedB", "sentA", "sentB", "refusedA", "refusedB", "endedA", "endedB",
               "wrFirst", "wrSecond", "cwFirst", "cwSecond", "clFirst", "clSecond", "ioErr",
               "gotA", "gotB", "eofA", "eofB", "cancel"} : Has(o, f)

---------------------------------------------------------------------------
(* "Conn": one script around ForwardAndClose itself *)

ConnFails(i, r) ==
  LET ci == r.in.conn
      aud == [open |-> 0, total |-> 1, inb |-> r.audFirst, outb |-> r.audSecond]
  IN   Chk(Want, i, "C33_Relay", Relay(ci, r, r.returned))
    \o Chk(Want, i, "C33_BothClosed", ~r.panicked /\ C33_BothClosed(Trig(r), r.returned, r.clFirst, r.clSecond))
    \* auditor totals: never ahead of what was written; exact once a clean connection is over
    \o Chk(Want, i, "C33_Counters",
           /\ C33_CountersBound(aud, 1, Bytes(r.wrFirst), Bytes(r.wrSecond))
           /\ (CleanScript(ci) /\ r.returned) => C33_CountersDirection(aud, Bytes(r.wrFirst), Bytes(r.wrSecond)))

---------------------------------------------------------------------------
(* "Session": many connections through Manager / controller *)

RECURSIVE Sum(_, _)
Sum(f, n) == IF n = 0 THEN 0 ELSE f[n] + Sum(f, n - 1)

SessionWellFormed(r) ==
  /\ \A f \in {"final", "stable", "settled", "accepted", "toFirst", "toSecond", "stillOpen", "halted",
               "haltClosed", "conns", "snaps", "orphan", "afterHalt"} : Has(r, f)
  /\ Has(r.in, "conns") /\ Has(r.in, "open") /\ Has(r.in, "halt")
  /\ Len(r.conns) = Len(r.in.conns) /\ Len(r.in.open) = Len(r.in.conns)
  /\ \A k \in DOMAIN r.conns : ConnWellFormed(r.in.conns[k], r.conns[k])

SessionFails(i, r) ==
  LET K == DOMAIN r.conns
      Closed(k) == r.conns[k].clFirst /\ r.conns[k].clSecond
      \* the ledger of the journals agrees with the ledger taken at the stable reading
      Coherent == /\ Sum([k \in K |-> Bytes(r.conns[k].wrFirst)], Len(r.conns)) = r.toFirst
                  /\ Sum([k \in K |-> Bytes(r.conns[k].wrSecond)], Len(r.conns)) = r.toSecond
                  /\ r.accepted <= Len(r.conns)
  IN   Chk(Want, i, "C33_Relay", \A k \in K : Relay(r.in.conns[k], r.conns[k], Closed(k)))
    \o Chk(Want, i, "C33_BothClosed",
           \* halting the session cancels every connection in flight
           /\ \A k \in K : C33_BothClosed(Trig(r.conns[k]) \/ r.halted, Closed(k), r.conns[k].clFirst, r.conns[k].clSecond)
           \* connections that were due before the halt were closed before it
           /\ r.settled \/ ~(\A k \in K : ~r.in.open[k] => Trig(r.conns[k]))
           \* forward closes the accepted connection whose dial failed
           /\ (r.in.halt = "dialfail" /\ r.halted) => r.orphan.closed)
    \o Chk(Want, i, "C33_Counters",
           /\ r.stable => /\ C33_CountersRest(r.final, r.accepted, r.toFirst, r.toSecond, r.stillOpen)
                          /\ C33_CountersDirection(r.final, r.toFirst, r.toSecond)
           \* the open-connection count returns to zero: when every connection is over ...
           /\ (r.stable /\ r.settled /\ \A k \in K : ~r.in.open[k]) => C33_OpenReturnsToZero(r.final)
           \* ... and when the forwarding loop that carried them is gone (paused, or replaced after a failure)
           /\ (r.halted /\ r.haltClosed /\ Has(r.afterHalt, "open")) => C33_OpenReturnsToZero(r.afterHalt)
           /\ \A s \in DOMAIN r.snaps :
                C33_CountersBound(r.snaps[s], r.snaps[s].accAfter, r.snaps[s].toFirstAfter, r.snaps[s].toSecondAfter))
    \o Chk(Want, i, "C33_TraceAccepted", Coherent)

---------------------------------------------------------------------------
WellFormed(r) ==
  /\ Has(r, "ev") /\ Has(r, "in")
  /\ \/ r.ev = "Conn" /\ Has(r.in, "conn") /\ ConnWellFormed(r.in.conn, r)
                      /\ \A f \in {"returned", "audFirst", "audSecond", "panicked"} : Has(r, f)
     \/ r.ev = "Session" /\ SessionWellFormed(r)

TInit == l = 1 /\ fails = <<>> /\ nconn = 0 /\ nclean = 0 /\ ntrig = 0 /\ nsess = 0 /\ nunstable = 0 /\ done = FALSE

Step ==
  /\ l <= NRec
  /\ LET r == Trace[l] IN
     IF ~WellFormed(r)
     THEN /\ fails' = Cap(fails \o <<Fail(l, "C33_TraceAccepted")>>)
          /\ UNCHANGED <<nconn, nclean, ntrig, nsess, nunstable>>
     ELSE IF r.ev = "Conn"
     THEN /\ fails' = Cap(fails \o ConnFails(l, r))
          /\ nconn' = nconn + 1
          /\ nclean' = nclean + (IF CleanScript(r.in.conn) /\ r.returned THEN 1 ELSE 0)
          /\ ntrig' = ntrig + (IF Trig(r) THEN 1 ELSE 0)
          /\ UNCHANGED <<nsess, nunstable>>
     ELSE /\ fails' = Cap(fails \o SessionFails(l, r))
          /\ nconn' = nconn + Len(r.conns)
          /\ nclean' = nclean + Cardinality({k \in DOMAIN r.conns :
                                   CleanScript(r.in.conns[k]) /\ r.conns[k].clFirst /\ r.conns[k].clSecond})
          /\ ntrig' = ntrig + Cardinality({k \in DOMAIN r.conns : Trig(r.conns[k]) \/ r.halted})
          /\ nsess' = nsess + 1
          /\ nunstable' = nunstable + (IF r.stable THEN 0 ELSE 1)
  /\ l' = l + 1 /\ UNCHANGED done

Finish ==
  /\ l = NRec + 1 /\ ~done
  /\ WriteResult(l - 1, fails, [stat_connections |-> nconn, stat_clean_completed |-> nclean,
                                stat_triggered |-> ntrig, stat_sessions |-> nsess,
                                stat_unstable_readings |-> nunstable])
  /\ done' = TRUE /\ UNCHANGED <<l, fails, nconn, nclean, ntrig, nsess, nunstable>>

TSpec == TInit /\ [][Step \/ Finish]_tvars
====
