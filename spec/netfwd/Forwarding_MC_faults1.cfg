\* one connection, payloads <= 1 byte, every failure kind (cancel, reset, close, partial write, accept-loop stop, dial failure) at every step
CONSTANTS
  NConn = 1
  MaxLen = 1
  MaxChunk = 1
  Faults = {"cancel", "reset", "close", "partial", "stop", "dialfail"}
SPECIFICATION Spec
INVARIANTS TypeOK C33_Relay C33_Closed C33_NoStuck C33_Counters
CHECK_DEADLOCK FALSE
