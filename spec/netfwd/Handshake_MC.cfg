\* every single-byte corruption position (two deltas), every truncation point, both directions,
\* version-field rewrites, crafted peers with other magic numbers / versions; three layers
CONSTANTS
  Layers <- MC_Layers
  Base <- MC_Base
  OtherVers <- MC_OtherVers
  BadMagics <- MC_BadMagics
  Deltas <- MC_Deltas
  RewriteVals <- MC_RewriteVals
SPECIFICATION Spec
INVARIANTS TypeOK C34_Agree C34_RealSide C34_NoOneSided C34_LiveWhenBothOK
