---- MODULE HandshakeCases ----
(***************************************************************************)
(* C34 - the space of handshake cases: which layer, which constants each    *)
(* side runs, what the carrier does.  Shared by the model (Handshake.tla,   *)
(* which picks one case in Init) and by the trace module (which checks that *)
(* the driver executed every bindable case of this space on the real code). *)
(***************************************************************************)
EXTENDS HandshakeProps, FiniteSets

CONSTANTS Layers,       \* subset of {"magic","version","full"}
          Base,         \* the version both sides really run, e.g. <<0,19,0>>
          OtherVers,    \* versions a crafted peer may run instead
          BadMagics,    \* magic numbers a crafted peer may send instead
          Deltas,       \* corruption offsets added to a byte (mod 256)
          RewriteVals   \* 4-byte values a version field may be rewritten to

Dirs == {"s2c", "c2s"}
NoP == [kind |-> "none", dir |-> "s2c", off |-> 0, delta |-> 0, bytes |-> <<>>]
Perturbs(layer) ==
       {[kind |-> "corrupt", dir |-> d, off |-> o, delta |-> x, bytes |-> <<>>] :
            d \in Dirs, o \in 0..(StreamLen(layer) - 1), x \in Deltas}
  \cup {[kind |-> "trunc", dir |-> d, off |-> o, delta |-> 0, bytes |-> <<>>] : d \in Dirs, o \in 0..(StreamLen(layer) - 1)}
  \cup (IF HasVersion(layer)
        THEN UNION {{[kind |-> "rewrite", dir |-> d, off |-> f, delta |-> 0, bytes |-> x] :
                        d \in Dirs, x \in {y \in RewriteVals : y # Enc32(Base[f])}} : f \in 1..3}
        ELSE {})
Case(layer, sm, cm, sv, cv, p) == [layer |-> layer, smagic |-> sm, cmagic |-> cm, sver |-> sv, cver |-> cv, p |-> p]
\* both sides genuine, the carrier perturbs (or not)
CarrierCases == UNION {{Case(l, SM, CM, Base, Base, p) : p \in {NoP} \cup Perturbs(l)} : l \in Layers}
\* one side replaced by a peer with other constants, clean carrier
CraftedCases ==
       {Case(l, m, CM, Base, Base, NoP) : l \in {x \in Layers : HasMagic(x)}, m \in BadMagics}
  \cup {Case(l, SM, m, Base, Base, NoP) : l \in {x \in Layers : HasMagic(x)}, m \in BadMagics}
  \cup {Case(l, SM, CM, v, Base, NoP) : l \in {x \in Layers : HasVersion(x)}, v \in OtherVers}
  \cup {Case(l, SM, CM, Base, v, NoP) : l \in {x \in Layers : HasVersion(x)}, v \in OtherVers}
\* both sides at the same other version (cannot be bound to the code, whose constants are fixed; model only)
SkewCases == {Case(l, SM, CM, v, v, NoP) : l \in {x \in Layers : HasVersion(x)}, v \in OtherVers}
BoundCases == CarrierCases \cup CraftedCases
\* membership in BoundCases as a predicate (cheap enough to evaluate per trace record)
InPerturbs(layer, p) ==
  \/ p.kind = "corrupt" /\ p.dir \in Dirs /\ p.off \in 0..(StreamLen(layer) - 1) /\ p.delta \in Deltas /\ p.bytes = <<>>
  \/ p.kind = "trunc" /\ p.dir \in Dirs /\ p.off \in 0..(StreamLen(layer) - 1) /\ p.delta = 0 /\ p.bytes = <<>>
  \/ /\ p.kind = "rewrite" /\ HasVersion(layer) /\ p.dir \in Dirs /\ p.off \in 1..3 /\ p.delta = 0
     /\ p.bytes \in RewriteVals /\ p.bytes # Enc32(Base[p.off])
InBoundCases(c) ==
  /\ c.layer \in Layers
  /\ \/ c.smagic = SM /\ c.cmagic = CM /\ c.sver = Base /\ c.cver = Base /\ (c.p = NoP \/ InPerturbs(c.layer, c.p))
     \/ /\ c.p = NoP
        /\ \/ HasMagic(c.layer) /\ c.smagic \in BadMagics /\ c.cmagic = CM /\ c.sver = Base /\ c.cver = Base
           \/ HasMagic(c.layer) /\ c.smagic = SM /\ c.cmagic \in BadMagics /\ c.sver = Base /\ c.cver = Base
           \/ HasVersion(c.layer) /\ c.smagic = SM /\ c.cmagic = CM /\ c.sver \in OtherVers /\ c.cver = Base
           \/ HasVersion(c.layer) /\ c.smagic = SM /\ c.cmagic = CM /\ c.sver = Base /\ c.cver \in OtherVers
Cases == BoundCases \cup SkewCases
====
