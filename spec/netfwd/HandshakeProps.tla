---- MODULE HandshakeProps ----
(***************************************************************************)
(* C34 - the property operators of the agent connection handshake           *)
(* (pkg/agent/handshake.go: 3-byte magic numbers; pkg/mutagen/version.go:   *)
(* 12-byte big-endian major/minor/patch), over plain values so that the     *)
(* same operators judge the states of Handshake.tla and the results         *)
(* returned by the real ClientHandshake/ServerHandshake/                     *)
(* ClientVersionHandshake/ServerVersionHandshake.                           *)
(***************************************************************************)
EXTENDS Naturals, Sequences

SM == <<5, 39, 135>>       \* serverMagicNumber 0x05 0x27 0x87
CM == <<135, 39, 5>>       \* clientMagicNumber 0x87 0x27 0x05
Enc32(n) == <<(n \div 16777216) % 256, (n \div 65536) % 256, (n \div 256) % 256, n % 256>>
EncVer(v) == Enc32(v[1]) \o Enc32(v[2]) \o Enc32(v[3])

\* A case c = [layer, smagic, cmagic, sver, cver, p]:
\*   layer   "magic" (agent handshake only) | "version" (version handshake only) | "full" (one after the other)
\*   smagic  the magic number the server side sends, cmagic the one the client side sends
\*   sver    the version the server side runs (sends, and demands), cver the client's
\*   p       what the carrier does to the exchange: [kind, dir, off, delta, bytes]
\*           "none" | "corrupt" byte off of direction dir gets +delta mod 256 (delta in 1..255)
\*           | "trunc" direction dir ends after off bytes | "rewrite" version field off (1..3) of
\*           direction dir is replaced by the four bytes p.bytes (different from the original)
\*           (TLC integers are 32-bit signed: versions are kept below 2^31, rewrites are given as bytes)
HasMagic(layer) == layer \in {"magic", "full"}
HasVersion(layer) == layer \in {"version", "full"}
StreamLen(layer) == (IF HasMagic(layer) THEN 3 ELSE 0) + (IF HasVersion(layer) THEN 12 ELSE 0)

Min(a, b) == IF a < b THEN a ELSE b
VerBase(layer) == IF HasMagic(layer) THEN 3 ELSE 0      \* offset of the version in a direction's stream
\* what the carrier with perturbation p lets the receiver of direction d see of the sent bytes s
MangleP(p, layer, d, s) ==
  IF p.kind = "none" \/ p.dir # d THEN s
  ELSE IF p.kind = "trunc" THEN SubSeq(s, 1, Min(p.off, Len(s)))
  ELSE IF p.kind = "corrupt"
       THEN (IF Len(s) > p.off THEN [s EXCEPT ![p.off + 1] = (@ + p.delta) % 256] ELSE s)
  ELSE LET b == VerBase(layer) + 4 * (p.off - 1)
       IN [i \in 1..Len(s) |-> IF i > b /\ i <= b + 4 THEN p.bytes[i - b] ELSE s[i]]

\* "both sides send the expected magic numbers and identical versions, and nothing was corrupted or truncated"
Clean(c) == /\ c.p.kind = "none"
            /\ HasMagic(c.layer) => (c.smagic = SM /\ c.cmagic = CM)
            /\ HasVersion(c.layer) => (c.sver = c.cver)

\* accepted by both exactly when clean
C34_AgreeIffEqual(clean, clientOK, serverOK) == (clientOK /\ serverOK) <=> clean
\* one real side against a crafted peer that speaks the protocol with other constants: it accepts exactly when clean
C34_OneSide(clean, ok) == ok <=> clean
\* a side that accepted although its peer failed cannot proceed: its next I/O, once the peer has closed, fails
C34_NoOneSidedProceed(okHere, okThere, nextHere) == (okHere /\ ~okThere) => nextHere = "dead"
====
