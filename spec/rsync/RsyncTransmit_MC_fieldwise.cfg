\* NOT registered: the re-used Transmission updated field by field. TLC must report InvStreamValid / InvCleanDelivers violated
\* (a file that cannot be opened followed by a non-empty file: the stale Error reaches the receiver).
CONSTANTS Alphabet = {97, 98} MaxLen = 2 MaxDatas = {1} WeakM = 65536
          SwallowSendBlockError = FALSE Faults = TRUE OpReset = "whole" MaxLenT = 1 NFiles = 2 MissingFiles = TRUE TmReset = "fieldwise"
SPECIFICATION TSpecT
INVARIANTS InvCleanDelivers InvStreamValid
CHECK_DEADLOCK FALSE
