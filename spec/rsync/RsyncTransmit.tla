---- MODULE RsyncTransmit ----
(***************************************************************************)
(* pkg/synchronization/rsync/transmit.go: Transmit(root, paths, signatures, *)
(* receiver) as a state machine around the Deltify machine of Rsync.tla.    *)
(*                                                                          *)
(* Per file: open it, run Engine.Deltify with a transmit closure that wraps *)
(* each operation in a Transmission, hands it to receiver.Receive and       *)
(* stores the result in transmitError (overwritten by every call - the code *)
(* relies on Deltify stopping at the first failed call), then: a non-nil    *)
(* transmitError is terminal, otherwise a Done transmission is sent (its    *)
(* failure is terminal too).  After the last file the receiver is           *)
(* finalized and nil is returned.  The receiver is an encoding receiver     *)
(* over a transport that may fail once or persistently; `wire` is what got  *)
(* through, i.e. the remote receiver's view.  Deltify runs with             *)
(* maxDataOpSize = 0 (the default size), as in the code.                    *)
(* A file that cannot be opened is not terminal: the receiver is told with  *)
(* a Done transmission carrying the error, and the loop continues.          *)
(* Transmit re-uses ONE Transmission object (tm) for everything it hands to *)
(* the receiver; the code overwrites it wholesale before each use           *)
(* (TmReset = "whole").  TmReset = "fieldwise" (not registered) updates     *)
(* only the fields a message needs: a stale Error / Done then reaches the   *)
(* receiver, whose DecodeToReceiver rejects the stream (EnsureValid).       *)
(***************************************************************************)
EXTENDS RsyncEngine

CONSTANTS MaxLenT,      \* bytes per base/target and block sizes at this level
          NFiles,       \* files per Transmit call
          MissingFiles, \* may a path fail to open?
          TmReset       \* "whole" | "fieldwise": how the re-used Transmission is set up

VARIABLE t

FileSet == {[base |-> b, target |-> g, bs |-> z, missing |-> FALSE] :
              b \in Seqs(MaxLenT), g \in Seqs(MaxLenT), z \in 1..MaxLenT}
           \cup (IF MissingFiles THEN {[base |-> <<>>, target |-> <<>>, bs |-> 1, missing |-> TRUE]} ELSE {})
DoneMarker == ZeroOp                                      \* a Done transmission carries no operation
ZeroTm == [done |-> FALSE, op |-> ZeroOp, err |-> ""]
\* the re-used Transmission as handed to the receiver for an operation / a done message / an open error
TmOp(tm, o) == IF TmReset = "whole" THEN [done |-> FALSE, op |-> o, err |-> ""]
               ELSE [tm EXCEPT !.done = FALSE, !.op = o]
TmDone(tm, e) == IF TmReset = "whole" THEN [done |-> TRUE, op |-> ZeroOp, err |-> e]
                 ELSE IF e # "" THEN [tm EXCEPT !.done = TRUE, !.op = ZeroOp, !.err = e]
                 ELSE [tm EXCEPT !.done = TRUE, !.op = ZeroOp]

\* Deltify state for file k, continuing the transport's failure bookkeeping
OpenFile(files, k, prev) ==
  [InitState(files[k].base, files[k].target, files[k].bs, 0, AnyPlan)
     EXCEPT !.calls = prev.calls, !.nfailed = prev.nfailed, !.fmode = prev.fmode, !.failedAt = prev.failedAt]
NoTransport == [calls |-> 0, nfailed |-> 0, fmode |-> "none", failedAt |-> 0]

TInit == \E fs \in [1..NFiles -> FileSet] :
           t = [files |-> fs, i |-> 1, phase |-> "open", d |-> OpenFile(fs, 1, NoTransport),
                txErr |-> "", wire |-> <<>>, ret |-> "", tm |-> ZeroTm]

\* for i, p := range paths: OpenFile, transmitError := nil
TOpen == /\ t.phase = "open" /\ (t.i <= Len(t.files) => ~t.files[t.i].missing)
         /\ t' = IF t.i > Len(t.files) THEN [t EXCEPT !.phase = "finalize"]
                 ELSE [t EXCEPT !.d = OpenFile(t.files, t.i, t.d), !.txErr = "", !.phase = "deltify"]
\* opener.OpenFile failed: Transmission{Done: true, Error: ...}; only a failure to send it is terminal
TOpenFails ==
  /\ t.phase = "open" /\ t.i <= Len(t.files) /\ t.files[t.i].missing
  /\ LET m == TmDone(t.tm, "unable to open file") IN
     t' \in WithTx(t.d, DoneMarker,
                   LAMBDA u : [t EXCEPT !.d = u, !.tm = m, !.wire = Append(@, m), !.i = @ + 1],
                   LAMBDA u : [t EXCEPT !.d = u, !.tm = m, !.phase = "returned", !.ret = "unable to send error transmission"])
\* one step of engine.Deltify(file, signatures[i], 0, transmit); a transmit call overwrites transmitError
TDeltify == /\ t.phase = "deltify" /\ t.d.pc \notin {"done", "panic"}
            /\ \E u \in Steps(t.d) :
                 t' = [t EXCEPT !.d = u,
                                !.txErr = IF u.calls > t.d.calls THEN (IF u.nfailed > t.d.nfailed THEN "receive failed" ELSE "")
                                          ELSE @,
                                !.tm = IF u.calls > t.d.calls THEN TmOp(@, u.eop) ELSE @,
                                !.wire = IF Len(u.delivered) > Len(t.d.delivered)
                                         THEN Append(@, TmOp(t.tm, u.delivered[Len(u.delivered)])) ELSE @]
\* if transmitError != nil { receiver.finalize(); return ... }
TAfterDeltify == /\ t.phase = "deltify" /\ t.d.pc = "done"
                 /\ t' = IF t.txErr # "" THEN [t EXCEPT !.phase = "returned", !.ret = "unable to transmit delta"]
                         ELSE [t EXCEPT !.phase = "donemsg"]
\* receiver.Receive(&Transmission{Done: true, Error: engine error if any})
TDoneMsg == /\ t.phase = "donemsg"
            /\ LET m == TmDone(t.tm, "") IN
               t' \in WithTx(t.d, DoneMarker,
                             LAMBDA u : [t EXCEPT !.d = u, !.tm = m, !.wire = Append(@, m), !.i = @ + 1, !.phase = "open"],
                             LAMBDA u : [t EXCEPT !.d = u, !.tm = m, !.phase = "returned", !.ret = "unable to send done message"])
\* receiver.finalize(); return nil
TFinalize == /\ t.phase = "finalize" /\ t' = [t EXCEPT !.phase = "returned"]

TNext == TOpen \/ TOpenFails \/ TDeltify \/ TAfterDeltify \/ TDoneMsg \/ TFinalize
TSpecT == TInit /\ [][TNext]_t

InvC20Transmit == t.phase = "returned" => C20_TransmitReported(t.d.nfailed, t.ret, t.files, t.wire)
InvCleanDelivers == t.phase = "returned" => C20_CleanTransmitDelivers(t.d.nfailed, t.ret, t.files, t.wire)
\* the assumption the transmit closure's comment states: once a call failed, transmit is not called again
InvNoCallAfterFailure == t.d.nfailed <= 1
\* whatever happened to earlier files of the batch, the receiver is never handed an invalid transmission
InvStreamValid == StreamValid(t.wire)
====
