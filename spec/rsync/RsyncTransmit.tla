---- MODULE RsyncTransmit ----
(***************************************************************************)
(* pkg/synchronization/rsync/transmit.go: Transmit(root, paths, signatures, *)
(* receiver) as a state machine around the Deltify machine of Rsync.tla.    *)
(*                                                                          *)
(* Per file: open it, run Engine.Deltify with a transmit closure that wraps *)
(* each operation in a Transmission, hands it to receiver.Receive and       *)
(* stores the result in transmitError (overwritten by every call - the code *)
(* relies on Deltify stopping at the first failed call), then: a non-nil    *)
(* transmitError is terminal, otherwise a Done transmission is sent (its    *)
(* failure is terminal too).  After the last file the receiver is           *)
(* finalized and nil is returned.  The receiver is an encoding receiver     *)
(* over a transport that may fail once or persistently; `wire` is what got  *)
(* through, i.e. the remote receiver's view.  Deltify runs with             *)
(* maxDataOpSize = 0 (the default size), as in the code.                    *)
(* Not modelled: files that cannot be opened (error transmission).          *)
(***************************************************************************)
EXTENDS RsyncEngine

CONSTANTS MaxLenT,      \* bytes per base/target and block sizes at this level
          NFiles        \* files per Transmit call

VARIABLE t

FileSet == {[base |-> b, target |-> g, bs |-> z] : b \in Seqs(MaxLenT), g \in Seqs(MaxLenT), z \in 1..MaxLenT}
DoneMarker == [data |-> <<>>, start |-> 0, count |-> 0]   \* placeholder operation of a Done transmission

\* Deltify state for file k, continuing the transport's failure bookkeeping
OpenFile(files, k, prev) ==
  [InitState(files[k].base, files[k].target, files[k].bs, 0, AnyPlan)
     EXCEPT !.calls = prev.calls, !.nfailed = prev.nfailed, !.fmode = prev.fmode, !.failedAt = prev.failedAt]
NoTransport == [calls |-> 0, nfailed |-> 0, fmode |-> "none", failedAt |-> 0]

TInit == \E fs \in [1..NFiles -> FileSet] :
           t = [files |-> fs, i |-> 1, phase |-> "open", d |-> OpenFile(fs, 1, NoTransport),
                txErr |-> "", wire |-> <<>>, ret |-> ""]

\* for i, p := range paths: OpenFile, transmitError := nil
TOpen == /\ t.phase = "open"
         /\ t' = IF t.i > Len(t.files) THEN [t EXCEPT !.phase = "finalize"]
                 ELSE [t EXCEPT !.d = OpenFile(t.files, t.i, t.d), !.txErr = "", !.phase = "deltify"]
\* one step of engine.Deltify(file, signatures[i], 0, transmit); a transmit call overwrites transmitError
TDeltify == /\ t.phase = "deltify" /\ t.d.pc \notin {"done", "panic"}
            /\ \E u \in Steps(t.d) :
                 t' = [t EXCEPT !.d = u,
                                !.txErr = IF u.calls > t.d.calls THEN (IF u.nfailed > t.d.nfailed THEN "receive failed" ELSE "")
                                          ELSE @,
                                !.wire = IF Len(u.delivered) > Len(t.d.delivered)
                                         THEN Append(@, [done |-> FALSE, op |-> u.delivered[Len(u.delivered)]]) ELSE @]
\* if transmitError != nil { receiver.finalize(); return ... }
TAfterDeltify == /\ t.phase = "deltify" /\ t.d.pc = "done"
                 /\ t' = IF t.txErr # "" THEN [t EXCEPT !.phase = "returned", !.ret = "unable to transmit delta"]
                         ELSE [t EXCEPT !.phase = "donemsg"]
\* receiver.Receive(&Transmission{Done: true, Error: engine error if any})
TDoneMsg == /\ t.phase = "donemsg"
            /\ t' \in WithTx(t.d, DoneMarker,
                              LAMBDA u : [t EXCEPT !.d = u, !.wire = Append(@, [done |-> TRUE, op |-> DoneMarker]),
                                                   !.i = @ + 1, !.phase = "open"],
                              LAMBDA u : [t EXCEPT !.d = u, !.phase = "returned", !.ret = "unable to send done message"])
\* receiver.finalize(); return nil
TFinalize == /\ t.phase = "finalize" /\ t' = [t EXCEPT !.phase = "returned"]

TNext == TOpen \/ TDeltify \/ TAfterDeltify \/ TDoneMsg \/ TFinalize
TSpecT == TInit /\ [][TNext]_t

Files3(fs) == [k \in DOMAIN fs |-> [base |-> fs[k].base, target |-> fs[k].target, bs |-> fs[k].bs]]
InvC20Transmit == t.phase = "returned" => C20_TransmitReported(t.d.nfailed, t.ret, t.files, t.wire)
InvCleanDelivers == (t.phase = "returned" /\ t.d.nfailed = 0) => t.ret = "" /\ AllObtained(t.files, t.wire)
\* the assumption the transmit closure's comment states: once a call failed, transmit is not called again
InvNoCallAfterFailure == t.d.nfailed <= 1
====
