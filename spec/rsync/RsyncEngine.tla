---- MODULE RsyncEngine ----
(***************************************************************************)
(* pkg/synchronization/rsync/engine.go as a state machine.                  *)
(*                                                                          *)
(* Signature is the block-reading loop of Engine.Signature.  Deltify is     *)
(* Engine.Deltify with the code's own variables: the search buffer (buf,    *)
(* occupancy = Len(buf)), the rolling weak hash (r = <<r1, r2>>), the read   *)
(* position in the target, the pending coalesced block run                   *)
(* (cstart/ccount = coalescedStart/coalescedCount), the sendData and        *)
(* sendBlock closures (one action per transmit call they make), the short   *)
(* last block epilogue, the final data and final block sends, and the       *)
(* chunkAndTransmitAll fast path for an empty base.  Every operation leaves *)
(* through Transmit, which may fail (once, or from then on persistently).   *)
(*                                                                          *)
(* The whole state is one record; every code section is an operator from a  *)
(* state to the set of its successors, so that the same definitions give    *)
(* the TLC actions of Rsync.tla (s' \in Section(s)), the embedded Deltify   *)
(* of RsyncTransmit.tla, and a functional run (ModelRun) used by the trace  *)
(* module to measure conformance drift.                                     *)
(*                                                                          *)
(* SwallowSendBlockError = TRUE is the behaviour of the code before the     *)
(* repair (sendBlock returned nil when transmitBlock failed); the           *)
(* registered configurations use FALSE, Rsync_MC_swallow.cfg shows that     *)
(* C20 then fails on the model.                                             *)
(***************************************************************************)
EXTENDS RsyncProps, TLC

CONSTANTS Alphabet,               \* byte values data are made of
          MaxLen,                 \* base and target have at most this many bytes; block sizes 1..MaxLen
          MaxDatas,               \* set of maximum data operation sizes
          WeakM,                  \* modulus of the weak hash (65536 in the code)
          SwallowSendBlockError,  \* TRUE = unrepaired sendBlock
          Faults,                 \* may transmit calls fail?
          OpReset                 \* how transmitData/transmitBlock set up the engine's shared Operation:
                                  \* "whole" (the code: *e.operation = Operation{...}) or "fieldwise"
                                  \* (own fields set, cleared afterwards, data NOT cleared on an error return)

Seqs(n) == UNION {[1..k -> Alphabet] : k \in 0..n}
MinOf(S) == CHOOSE x \in S : \A y \in S : x <= y

(***************************************************************************)
(* weakHash / rollWeakHash (rsync thesis p.55).  The Go result r1 + m*r2    *)
(* is represented by the pair <<r1, r2>> (both are < m).                    *)
(***************************************************************************)
RECURSIVE WSum(_, _, _, _)
WSum(d, bs, i, acc) ==
  IF i > Len(d) THEN acc
  ELSE WSum(d, bs, i + 1, <<acc[1] + d[i], acc[2] + (bs - (i - 1)) * d[i]>>)
Weak(d, bs) == LET w == WSum(d, bs, 1, <<0, 0>>) IN <<w[1] % WeakM, w[2] % WeakM>>
Roll(r, out, in, bs) ==
  LET r1 == (r[1] - out + in) % WeakM IN <<r1, (r[2] - bs * out + r1) % WeakM>>

(***************************************************************************)
(* Engine.Signature: read blocks until EOF.  io.EOF (nothing read) after a  *)
(* full block => LastBlockSize = blockSize; io.ErrUnexpectedEOF => a short  *)
(* last block that is still hashed, with the full block size as the weak    *)
(* hash's length parameter.  The strong hash is the block content itself.   *)
(***************************************************************************)
HashOf(blk, bs) == [weak |-> Weak(blk, bs), strong |-> blk]
RECURSIVE SigLoop(_, _, _, _)
SigLoop(base, bs, pos, hs) ==
  LET rem == Len(base) - pos IN
  IF rem = 0 THEN [bs |-> bs, lbs |-> bs, hashes |-> hs]
  ELSE IF rem < bs THEN [bs |-> bs, lbs |-> rem,
                         hashes |-> Append(hs, HashOf(SubSeq(base, pos + 1, Len(base)), bs))]
  ELSE SigLoop(base, bs, pos + bs, Append(hs, HashOf(SubSeq(base, pos + 1, pos + bs), bs)))
Signature(base, bs) ==
  LET g == SigLoop(base, bs, 0, <<>>) IN
  IF Len(g.hashes) = 0 THEN [bs |-> 0, lbs |-> 0, n |-> 0, hashes |-> <<>>]
  ELSE [bs |-> g.bs, lbs |-> g.lbs, n |-> Len(g.hashes), hashes |-> g.hashes]

(***************************************************************************)
(* State.  plan.at = -1: transmit failures are chosen nondeterministically  *)
(* (model checking); plan.at = k >= 0: the k-th transmit call fails (0 =    *)
(* none), once or persistently (functional runs).                           *)
(***************************************************************************)
\* eop is the engine's re-used Operation object (Engine.operation): it outlives a Deltify call, so a
\* sequence of calls on one engine starts each call with whatever the previous one left in it
ZeroOp == [data |-> <<>>, start |-> 0, count |-> 0]
InitState(base, target, bs, md, plan) ==
  [base |-> base, target |-> target, bs |-> bs, md |-> md, sig |-> Signature(base, bs),
   pc |-> "start", pos |-> 0, buf |-> <<>>, r |-> <<0, 0>>, cstart |-> 0, ccount |-> 0,
   sd |-> <<>>, after |-> "", midx |-> 0,
   calls |-> 0, nfailed |-> 0, fmode |-> "none", failedAt |-> 0, plan |-> plan,
   delivered |-> <<>>, err |-> "", eop |-> ZeroOp]
AnyPlan == [at |-> -1, mode |-> "any"]

DataOp(d) == [data |-> d, start |-> 0, count |-> 0]
BlockOp(st, c) == [data |-> <<>>, start |-> st, count |-> c]
Return(t, e) == [t EXCEPT !.pc = "done", !.err = e]

(***************************************************************************)
(* Transmit: one call of the OperationTransmitter.                          *)
(***************************************************************************)
MustFail(t) ==
  \/ t.plan.at > 0 /\ (t.calls + 1 = t.plan.at \/ (t.plan.mode = "persistent" /\ t.calls + 1 > t.plan.at))
  \/ t.plan.at = -1 /\ t.fmode = "persistent"
MayFail(t) == MustFail(t) \/ (t.plan.at = -1 /\ Faults /\ t.failedAt = 0)
FailModes(t) == IF t.plan.at = -1 THEN (IF t.fmode = "none" THEN {"once", "persistent"} ELSE {t.fmode})
                ELSE {t.plan.mode}
\* transmitData / transmitBlock: the shared object as handed to the transmitter, and as left behind
Staged(t, op) == IF OpReset = "whole" THEN op
                 ELSE IF IsData(op) THEN [t.eop EXCEPT !.data = op.data]
                 ELSE [t.eop EXCEPT !.start = op.start, !.count = op.count]
LeftBehind(t, op, ok) ==
  IF OpReset = "whole" THEN op
  ELSE IF IsData(op) THEN (IF ok THEN [Staged(t, op) EXCEPT !.data = <<>>] ELSE Staged(t, op))
  ELSE [Staged(t, op) EXCEPT !.start = 0, !.count = 0]
TxFail(t, op, mode) == [t EXCEPT !.calls = @ + 1, !.nfailed = @ + 1,
                                 !.failedAt = IF @ = 0 THEN t.calls + 1 ELSE @, !.fmode = mode,
                                 !.eop = LeftBehind(t, op, FALSE)]
TxOk(t, op) == [t EXCEPT !.calls = @ + 1, !.delivered = Append(@, Staged(t, op)), !.eop = LeftBehind(t, op, TRUE)]
\* successors of a code section that makes one transmit call
WithTx(t, op, Ok(_), Fl(_)) ==
  (IF ~MustFail(t) THEN {Ok(TxOk(t, op))} ELSE {})
  \cup (IF MayFail(t) THEN {Fl(TxFail(t, op, m)) : m \in FailModes(t)} ELSE {})

(***************************************************************************)
(* Deltify, section by section.                                             *)
(***************************************************************************)
\* entry: an empty base takes the chunkAndTransmitAll fast path
Start(t) == IF t.sig.n = 0 THEN {[t EXCEPT !.pc = "chunkall"]} ELSE {[t EXCEPT !.pc = "loop"]}

\* chunkAndTransmitAll: one iteration of its loop
ChunkAll(t) ==
  LET rem == Len(t.target) - t.pos   m == EffMax(t.md) IN
  IF rem = 0 THEN {Return(t, "")}
  ELSE IF rem < m
  THEN WithTx(t, DataOp(SubSeq(t.target, t.pos + 1, Len(t.target))),
              LAMBDA u : Return([u EXCEPT !.pos = Len(t.target)], ""),
              LAMBDA u : Return(u, "unable to transmit data operation"))
  ELSE WithTx(t, DataOp(SubSeq(t.target, t.pos + 1, t.pos + m)),
              LAMBDA u : [u EXCEPT !.pos = t.pos + m],
              LAMBDA u : Return(u, "unable to transmit data operation"))

HaveShort(t) == t.sig.lbs # t.sig.bs
NFull(t) == IF HaveShort(t) THEN t.sig.n - 1 ELSE t.sig.n     \* blocks in weakToBlockHashes
BufTail(t, k) == SubSeq(t.buf, Len(t.buf) - k + 1, Len(t.buf))

\* loop head, occupancy = 0: io.ReadFull of one block
LoopFill(t) ==
  LET rem == Len(t.target) - t.pos   b == t.sig.bs IN
  IF rem < b
  THEN {[t EXCEPT !.buf = SubSeq(t.target, t.pos + 1, Len(t.target)), !.pos = Len(t.target), !.pc = "epilogue"]}
  ELSE LET blk == SubSeq(t.target, t.pos + 1, t.pos + b) IN
       {[t EXCEPT !.buf = blk, !.pos = t.pos + b, !.r = Weak(blk, b), !.pc = "search"]}
\* loop head, occupancy >= block size: ReadByte and roll the hash
LoopRoll(t) ==
  IF t.pos = Len(t.target) THEN {[t EXCEPT !.pc = "epilogue"]}
  ELSE LET in == t.target[t.pos + 1]   out == t.buf[Len(t.buf) - t.sig.bs + 1] IN
       {[t EXCEPT !.r = Roll(t.r, out, in, t.sig.bs), !.buf = Append(t.buf, in), !.pos = t.pos + 1, !.pc = "search"]}
LoopPanic(t) == {[t EXCEPT !.pc = "panic"]}     \* "buffer contains less than a block worth of data"

\* match search for the block at the end of the buffer: weak hash table, then strong hashes in index order
Potentials(t) == {p \in 0..(NFull(t) - 1) : t.sig.hashes[p + 1].weak = t.r}
Matches(t) == {p \in Potentials(t) : t.sig.hashes[p + 1].strong = BufTail(t, t.sig.bs)}
Search(t) ==
  LET occ == Len(t.buf)   b == t.sig.bs IN
  IF Matches(t) # {}
  THEN {[t EXCEPT !.sd = SubSeq(t.buf, 1, occ - b), !.after = "block", !.midx = MinOf(Matches(t)), !.pc = "senddata"]}
  ELSE IF occ = EffMax(t.md) + b
  THEN {[t EXCEPT !.sd = SubSeq(t.buf, 1, occ - b), !.after = "truncate", !.pc = "senddata"]}
  ELSE {[t EXCEPT !.pc = "loop"]}

\* the error Deltify wraps a sendData failure in, by call site
SdErr(a) == CASE a = "block" -> "unable to transmit data preceding match"
              [] a = "truncate" -> "unable to transmit data before truncation"
              [] a = "lastblock" -> "unable to transmit data"
              [] OTHER -> "unable to send final data operation"

\* sendData closure: first flush the pending coalesced run (only if there is data), ...
SendDataFlushBlock(t) ==
  WithTx(t, BlockOp(t.cstart, t.ccount),
         LAMBDA u : [u EXCEPT !.cstart = 0, !.ccount = 0],
         LAMBDA u : Return(u, SdErr(t.after)))
\* ... then one data operation of at most maxDataOpSize per iteration, ...
SendDataChunk(t) ==
  LET n == Min(Len(t.sd), EffMax(t.md)) IN
  WithTx(t, DataOp(SubSeq(t.sd, 1, n)),
         LAMBDA u : [u EXCEPT !.sd = SubSeq(t.sd, n + 1, Len(t.sd))],
         LAMBDA u : Return(u, SdErr(t.after)))
\* ... then return nil to the call site
SendDataReturn(t) ==
  {CASE t.after = "block" -> [t EXCEPT !.pc = "sendblock"]
     [] t.after = "lastblock" -> [t EXCEPT !.pc = "sendblock"]
     [] t.after = "truncate" -> [t EXCEPT !.buf = BufTail(t, t.sig.bs), !.pc = "loop"]
     [] OTHER -> [t EXCEPT !.pc = "finalblock"]}

\* sendBlock closure and the "occupancy = 0" that follows it at both call sites
AfterBlock(t) == IF t.after = "block" THEN [t EXCEPT !.buf = <<>>, !.pc = "loop"]
                 ELSE [t EXCEPT !.buf = <<>>, !.pc = "finaldata"]
SendBlockCoalesce(t) == {AfterBlock([t EXCEPT !.ccount = @ + 1])}
SendBlockStartRun(t) == {AfterBlock([t EXCEPT !.cstart = t.midx, !.ccount = 1])}
SendBlockFlush(t) ==
  WithTx(t, BlockOp(t.cstart, t.ccount),
         LAMBDA u : AfterBlock([u EXCEPT !.cstart = t.midx, !.ccount = 1]),
         LAMBDA u : IF SwallowSendBlockError
                    THEN AfterBlock(u)       \* unrepaired: "return nil" - run not restarted, match forgotten
                    ELSE Return(u, IF t.after = "block" THEN "unable to transmit match"
                                   ELSE "unable to transmit operation"))

\* after the loop: a short last block of the base may match the end of the buffer
Epilogue(t) ==
  LET occ == Len(t.buf)   lbs == t.sig.lbs   last == t.sig.hashes[t.sig.n] IN
  IF HaveShort(t) /\ occ >= lbs /\ Weak(BufTail(t, lbs), t.sig.bs) = last.weak /\ BufTail(t, lbs) = last.strong
  THEN {[t EXCEPT !.sd = SubSeq(t.buf, 1, occ - lbs), !.after = "lastblock", !.midx = t.sig.n - 1, !.pc = "senddata"]}
  ELSE {[t EXCEPT !.pc = "finaldata"]}
\* "send any data remaining in the buffer"
FinalData(t) == {[t EXCEPT !.sd = t.buf, !.after = "final", !.pc = "senddata"]}
\* "send any final pending coalesced operation"
FinalBlock(t) ==
  IF t.ccount > 0
  THEN WithTx(t, BlockOp(t.cstart, t.ccount),
              LAMBDA u : Return(u, ""),
              LAMBDA u : Return(u, "unable to send final block operation"))
  ELSE {Return(t, "")}

Steps(t) ==
  CASE t.pc = "start" -> Start(t)
    [] t.pc = "chunkall" -> ChunkAll(t)
    [] t.pc = "loop" -> (IF Len(t.buf) = 0 THEN LoopFill(t)
                         ELSE IF Len(t.buf) < t.sig.bs THEN LoopPanic(t) ELSE LoopRoll(t))
    [] t.pc = "search" -> Search(t)
    [] t.pc = "senddata" -> (IF t.sd = <<>> THEN SendDataReturn(t)
                             ELSE IF t.ccount > 0 THEN SendDataFlushBlock(t) ELSE SendDataChunk(t))
    [] t.pc = "sendblock" -> (IF t.ccount > 0 /\ t.cstart + t.ccount = t.midx THEN SendBlockCoalesce(t)
                              ELSE IF t.ccount > 0 THEN SendBlockFlush(t) ELSE SendBlockStartRun(t))
    [] t.pc = "epilogue" -> Epilogue(t)
    [] t.pc = "finaldata" -> FinalData(t)
    [] t.pc = "finalblock" -> FinalBlock(t)
    [] OTHER -> {}

\* functional run under a deterministic failure plan (Steps is then a singleton)
RECURSIVE RunFrom(_)
RunFrom(t) == IF t.pc \in {"done", "panic"} THEN t ELSE RunFrom(CHOOSE u \in Steps(t) : TRUE)
ModelRun(base, target, bs, md, failAt, mode) ==
  RunFrom(InitState(base, target, bs, md, [at |-> failAt, mode |-> mode]))
====
