CONSTANTS Alphabet = {97, 98} MaxLen = 5 MaxDatas = {1, 2, 3} WeakM = 65536
          SwallowSendBlockError = FALSE Faults = FALSE OpReset = "whole"
CONSTANT Want = {"C20_FailureReported", "C20_TransmitReported", "C20_ReceiverObtained", "C20_CleanTransmitDelivers", "Conforms"}
SPECIFICATION TSpec
CHECK_DEADLOCK FALSE
