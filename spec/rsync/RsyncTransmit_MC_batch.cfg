\* a batch of two paths, either of which may fail to open: the re-used Transmission across files
CONSTANTS Alphabet = {97, 98} MaxLen = 1 MaxDatas = {1} WeakM = 65536
          SwallowSendBlockError = FALSE Faults = TRUE OpReset = "whole" MaxLenT = 1 NFiles = 2 MissingFiles = TRUE TmReset = "whole"
SPECIFICATION TSpecT
INVARIANTS InvC20Transmit InvCleanDelivers InvNoCallAfterFailure InvStreamValid
CHECK_DEADLOCK FALSE
