---- MODULE RsyncReuse ----
(***************************************************************************)
(* One rsync.Engine re-used for a sequence of Deltify calls.                *)
(*                                                                          *)
(* An Engine is "designed to be re-used": its Operation object              *)
(* (Engine.operation, eng.op here) and its buffer (Engine.buffer,           *)
(* eng.buffer) outlive a call.  Each call of the sequence takes any input   *)
(* of the bound, starts from what the previous call left in the engine -    *)
(* whatever that call's outcome, including an error return in the middle    *)
(* of a transmission - and its transmitter may fail at any call index.      *)
(* Deltify's occupancy is a local that starts at 0, so the stale buffer     *)
(* content is carried but never read (it is hidden from the VIEW).          *)
(*                                                                          *)
(* Property: what a call emits depends only on that call's inputs (and on   *)
(* its own transmitter's failures), never on earlier calls.                 *)
(* OpReset = "fieldwise" (RsyncReuse_MC_fieldwise.cfg, not registered) is   *)
(* an engine that sets only the fields an operation needs and forgets to    *)
(* clear the data on an error return: the invariants then fail.             *)
(***************************************************************************)
EXTENDS RsyncEngine

CONSTANTS MaxLenR,     \* bytes per base/target and block sizes
          MdsR,        \* maximum data operation sizes
          MaxCalls     \* calls per engine

VARIABLE q
Inputs == {[base |-> b, target |-> g, bs |-> z, md |-> m] :
             b \in Seqs(MaxLenR), g \in Seqs(MaxLenR), z \in 1..MaxLenR, m \in MdsR}
Idle == InitState(<<>>, <<>>, 1, 1, AnyPlan)          \* placeholder between calls

RInit == q = [eng |-> [op |-> ZeroOp, buffer |-> <<>>], k |-> 0, phase |-> "idle", d |-> Idle]     \* NewEngine()
\* e.Deltify(target, signature, md, transmit) on the same engine
RCall == /\ q.phase = "idle" /\ q.k < MaxCalls
         /\ \E in \in Inputs :
              q' = [q EXCEPT !.k = @ + 1, !.phase = "running",
                             !.d = [InitState(in.base, in.target, in.bs, in.md, AnyPlan) EXCEPT !.eop = q.eng.op]]
RStep == /\ q.phase = "running" /\ q.d.pc \notin {"done", "panic"}
         /\ \E u \in Steps(q.d) : q' = [q EXCEPT !.d = u]
\* the call returns (nil or an error); the engine keeps its objects
RReturn == /\ q.phase = "running" /\ q.d.pc = "done"
           /\ q' = [q EXCEPT !.phase = "idle", !.eng = [op |-> q.d.eop, buffer |-> q.d.buf], !.d = Idle]
RNext == RCall \/ RStep \/ RReturn
RSpec == RInit /\ [][RNext]_q
rview == [q EXCEPT !.eng.buffer = <<>>]

Returned == q.phase = "running" /\ q.d.pc = "done"
InvReuseC19 == (Returned /\ q.d.nfailed = 0) =>
                 /\ q.d.err = ""
                 /\ C19_Reconstructs(q.d.base, q.d.target, q.d.bs, q.d.delivered)
                 /\ C19_WellFormed(q.d.base, q.d.bs, q.d.md, q.d.delivered)
                 /\ C19_UnchangedNoLiterals(q.d.base, q.d.target, q.d.delivered)
InvReuseC20 == Returned => C20_FailureReported(q.d.nfailed, q.d.err, q.d.base, q.d.target, q.d.bs, q.d.delivered)
\* the same call on a fresh engine, with the same transmitter failures, emits the same operations
InvReuseIndependent ==
  Returned =>
    LET f == ModelRun(q.d.base, q.d.target, q.d.bs, q.d.md, q.d.failedAt,
                      IF q.d.fmode = "none" THEN "once" ELSE q.d.fmode) IN
    q.d.delivered = f.delivered /\ q.d.err = f.err /\ q.d.calls = f.calls
====
