CONSTANTS Alphabet = {97, 98} MaxLen = 5 MaxDatas = {1, 2, 3} WeakM = 65536
          SwallowSendBlockError = FALSE Faults = FALSE OpReset = "whole"
CONSTANT Want = {"C19_Reconstructs", "C19_RealPatchExact", "C19_WellFormed", "C19_UnchangedNoLiterals", "Conforms"}
SPECIFICATION TSpec
CHECK_DEADLOCK FALSE
