\* NOT registered: the unrepaired sendBlock (error of transmitBlock swallowed).
\* TLC must report that InvC20 is violated (DESIGN section 5 item 1).
CONSTANTS Alphabet = {97, 98} MaxLen = 3 MaxDatas = {1, 2, 3} WeakM = 65536
          SwallowSendBlockError = TRUE Faults = TRUE OpReset = "whole"
SPECIFICATION Spec
INVARIANTS InvC19 InvC20
CHECK_DEADLOCK FALSE
