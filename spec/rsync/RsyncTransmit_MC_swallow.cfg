\* NOT registered: unrepaired sendBlock under rsync.Transmit. TLC must report InvC20Transmit violated:
\* a transport failing once at a swallowed block flush, later calls overwrite transmitError with nil.
CONSTANTS Alphabet = {97, 98} MaxLen = 2 MaxDatas = {1} WeakM = 65536
          SwallowSendBlockError = TRUE Faults = TRUE OpReset = "whole" MaxLenT = 2 NFiles = 1 MissingFiles = TRUE TmReset = "whole"
SPECIFICATION TSpecT
INVARIANTS InvC20Transmit
CHECK_DEADLOCK FALSE
