\* every weak hash collides (modulus 1): the strong comparison alone selects the block
CONSTANTS Alphabet = {97, 98} MaxLen = 4 MaxDatas = {1, 2, 3} WeakM = 1
          SwallowSendBlockError = FALSE Faults = TRUE OpReset = "whole"
SPECIFICATION Spec
INVARIANTS InvC19 InvC20 InvRollExact InvProgress InvBuffer InvSigShape InvErrOnlyOnFailure
CHECK_DEADLOCK FALSE
