CONSTANTS Alphabet = {97, 98} MaxLen = 5 MaxDatas = {1, 2, 3} WeakM = 65536
          SwallowSendBlockError = FALSE Faults = TRUE OpReset = "whole"
SPECIFICATION Spec
INVARIANTS InvC19 InvC20 InvRollExact InvProgress InvBuffer InvSigShape InvErrOnlyOnFailure
CHECK_DEADLOCK FALSE
