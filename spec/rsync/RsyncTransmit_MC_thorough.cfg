CONSTANTS Alphabet = {97, 98} MaxLen = 2 MaxDatas = {1} WeakM = 65536
          SwallowSendBlockError = FALSE Faults = TRUE MaxLenT = 2 NFiles = 2
SPECIFICATION TSpecT
INVARIANTS InvC20Transmit InvCleanDelivers InvNoCallAfterFailure
CHECK_DEADLOCK FALSE
