---- MODULE Rsync_Trace ----
(***************************************************************************)
(* Trace validation for the rsync engine.  Every record of trace.ndjson is  *)
(* one call sequence on the real pkg/synchronization/rsync code:            *)
(*                                                                          *)
(*  Delta    in = {base,target,bs,md}: Engine.BytesSignature, DeltifyBytes, *)
(*           PatchBytes; sig = shape of the real signature, ops = the real  *)
(*           operations, patched/patchErr = what the real PatchBytes gave.  *)
(*  Fault    in = {base,target,bs,md,failAt,mode}: Engine.Deltify with a    *)
(*           transmitter whose failAt-th call fails (once / from then on);  *)
(*           calls, nfailed, err = what Deltify returned, delivered = the   *)
(*           operations whose transmit call succeeded.                      *)
(*  Transmit in = {files:[{base,target,bs}],failAt,mode}: rsync.Transmit    *)
(*           into NewEncodingReceiver over an Encoder whose failAt-th       *)
(*           Encode fails; wire = transmissions that got through, sunk =    *)
(*           what a real receiver (DecodeToReceiver + NewReceiver) fed with *)
(*           exactly those transmissions stored per file, recvErr its       *)
(*           result.                                                        *)
(*           files[k].missing = the sender cannot open that path.  wire     *)
(*           entries are [done, op, err] as an independent ProtobufDecoder  *)
(*           reads them from the byte stream a real ProtobufEncoder wrote.  *)
(*  Seq      in = {calls:[{base,target,bs,md,kind,failAt,mode}]}: the calls *)
(*           run one after the other on ONE rsync.Engine (BytesSignature,   *)
(*           Deltify or DeltifyBytes, PatchBytes); outs[k] = what call k    *)
(*           returned and delivered.  Every call is judged like a Delta /   *)
(*           Fault record of its own: what happened before must not matter. *)
(*  Begin/End  the driver's claim to enumerate the bounded domain of length *)
(*           L completely; checked here (membership, strict order, count).  *)
(*                                                                          *)
(* The step relation is permissive: any output is consumed, the operators   *)
(* of RsyncProps judge it.  Agreement with the model's own run (ModelRun)   *)
(* and with its signature shape is only counted (stat_drift).               *)
(***************************************************************************)
EXTENDS RsyncEngine, TraceKit

CONSTANT Want

VARIABLES l, fails, prev, nex, sawBegin, drift, nexAll, done
tvars == <<l, fails, prev, nex, sawBegin, drift, nexAll, done>>

\* ---- bounded domain of the exhaustive part -------------------------------
InAlpha(d, L) == Len(d) <= L /\ \A i \in DOMAIN d : d[i] \in Alphabet
RECURSIVE LexLess(_, _, _)
LexLess(a, b, i) ==                      \* sequences of integers, from position i
  IF i > Len(a) THEN i <= Len(b)
  ELSE IF i > Len(b) THEN FALSE
  ELSE IF a[i] < b[i] THEN TRUE
  ELSE IF a[i] > b[i] THEN FALSE
  ELSE LexLess(a, b, i + 1)
ModeNo(m) == CASE m = "none" -> 0 [] m = "once" -> 1 [] m = "persistent" -> 2 [] OTHER -> 3
KeyOf(r) == <<Len(r.in.base)>> \o r.in.base \o <<Len(r.in.target)>> \o r.in.target \o <<r.in.bs, r.in.md>>
            \o (IF r.ev = "Fault" THEN <<r.in.failAt, ModeNo(r.in.mode)>> ELSE <<>>)
InDomain(r) ==
  /\ InAlpha(r.in.base, r.L) /\ InAlpha(r.in.target, r.L)
  /\ r.in.bs \in 1..r.L /\ r.in.md \in MaxDatas
  /\ r.ev = "Fault" => r.in.failAt \in 1..(r.calls0) /\ r.in.mode \in {"once", "persistent"}
RECURSIVE Pow2(_)
Pow2(n) == IF n = 0 THEN 1 ELSE 2 * Pow2(n - 1)
ExpectedDeltas(L) == (Pow2(L + 1) - 1) * (Pow2(L + 1) - 1) * L * Cardinality(MaxDatas)

\* ---- judging one record ---------------------------------------------------
\* a requested block size of 0 lets the engine choose; the signature then states the size it chose
Bs(r) == IF r.in.bs = 0 THEN r.sig.bs ELSE r.in.bs
DeltaFails(i, r) ==
  LET b == r.in.base  g == r.in.target IN
       Chk(Want, i, "C19_Reconstructs", C19_Reconstructs(b, g, Bs(r), r.ops))
    \o Chk(Want, i, "C19_RealPatchExact", r.patchErr = "" /\ r.patched = g)
    \o Chk(Want, i, "C19_WellFormed", C19_WellFormed(b, Bs(r), r.in.md, r.ops))
    \o Chk(Want, i, "C19_UnchangedNoLiterals", C19_UnchangedNoLiterals(b, g, r.ops))
FaultFails(i, r) ==
  Chk(Want, i, "C20_FailureReported",
      C20_FailureReported(r.nfailed, r.err, r.in.base, r.in.target, Bs(r), r.delivered))
TransmitFails(i, r) ==
       Chk(Want, i, "C20_TransmitReported", C20_TransmitReported(r.nfailed, r.err, r.in.files, r.wire))
    \o Chk(Want, i, "C20_CleanTransmitDelivers", C20_CleanTransmitDelivers(r.nfailed, r.err, r.in.files, r.wire))
    \o Chk(Want, i, "C20_ReceiverObtained",       \* the real receiver's view, whenever the sender reports success
           r.err = "" =>
              /\ r.recvErr = "" /\ Len(r.sunk) = Len(r.in.files)
              /\ \A k \in DOMAIN r.in.files : r.in.files[k].missing \/ r.sunk[k] = r.in.files[k].target)

\* a sequence of calls on one engine: call k alone decides what call k may emit
CallBs(cin, out) == IF cin.bs = 0 THEN out.sig.bs ELSE cin.bs
Clean(out) == out.nfailed = 0
SeqFails(i, r) ==
  LET K == DOMAIN r.in.calls IN
       Chk(Want, i, "C19_Reconstructs", \A k \in K : Clean(r.outs[k]) =>
             C19_Reconstructs(r.in.calls[k].base, r.in.calls[k].target, CallBs(r.in.calls[k], r.outs[k]), r.outs[k].ops))
    \o Chk(Want, i, "C19_RealPatchExact", \A k \in K : Clean(r.outs[k]) =>
             r.outs[k].err = "" /\ r.outs[k].patchErr = "" /\ r.outs[k].patched = r.in.calls[k].target)
    \o Chk(Want, i, "C19_WellFormed", \A k \in K : Clean(r.outs[k]) =>
             C19_WellFormed(r.in.calls[k].base, CallBs(r.in.calls[k], r.outs[k]), r.in.calls[k].md, r.outs[k].ops))
    \o Chk(Want, i, "C19_UnchangedNoLiterals", \A k \in K : Clean(r.outs[k]) =>
             C19_UnchangedNoLiterals(r.in.calls[k].base, r.in.calls[k].target, r.outs[k].ops))
    \o Chk(Want, i, "C20_FailureReported", \A k \in K :
             C20_FailureReported(r.outs[k].nfailed, r.outs[k].err, r.in.calls[k].base, r.in.calls[k].target,
                                 CallBs(r.in.calls[k], r.outs[k]), r.outs[k].ops))

IsCase(r) == r.ev \in {"Delta", "Fault", "Transmit"}
IsEx(r) == IsCase(r) /\ r.shape = "ex"
RecFails(i, r) ==
  CASE r.ev = "Delta" -> DeltaFails(i, r)
    [] r.ev = "Fault" -> FaultFails(i, r)
    [] r.ev = "Transmit" -> TransmitFails(i, r)
    [] r.ev = "Seq" -> SeqFails(i, r)
    [] r.ev = "Begin" -> <<>>
    [] r.ev = "End" -> (IF sawBegin /\ r.what = "Delta" /\ nex # ExpectedDeltas(r.L)
                        THEN <<Fail(i, "DriverDomainComplete")>> ELSE <<>>)
    [] OTHER -> <<Fail(i, "TraceAccepted")>>
DomainFails(i, r) ==
  IF ~IsEx(r) THEN <<>>
  ELSE (IF InDomain(r) THEN <<>> ELSE <<Fail(i, "DriverInDomain")>>)
    \o (IF prev = <<>> \/ LexLess(prev, KeyOf(r), 1) THEN <<>> ELSE <<Fail(i, "DriverDomainOrdered")>>)

\* ---- conformance with the model's own run (never a verdict) ---------------
Conf == "Conforms" \in Want
Drift(r) ==
  IF ~Conf \/ ~(IsEx(r) \/ r.ev = "Seq") THEN 0
  ELSE IF r.ev = "Delta"
  THEN (IF r.sig = SigShape(r.in.base, r.in.bs)
           /\ r.ops = ModelRun(r.in.base, r.in.target, r.in.bs, r.in.md, 0, "none").delivered THEN 0 ELSE 1)
  ELSE IF r.ev = "Fault"
  THEN LET m == ModelRun(r.in.base, r.in.target, r.in.bs, r.in.md, r.in.failAt, r.in.mode) IN
       (IF r.delivered = m.delivered /\ r.calls = m.calls /\ r.nfailed = m.nfailed /\ ((r.err = "") <=> (m.err = ""))
        THEN 0 ELSE 1)
  ELSE IF r.ev = "Seq" /\ r.shape = "small"      \* every call = the model's run of that call on a fresh engine
  THEN (IF \A k \in DOMAIN r.in.calls :
             LET cin == r.in.calls[k]
                 m == ModelRun(cin.base, cin.target, cin.bs, cin.md, cin.failAt,
                               IF cin.mode = "none" THEN "once" ELSE cin.mode) IN
             r.outs[k].ops = m.delivered /\ r.outs[k].nfailed = m.nfailed /\ ((r.outs[k].err = "") <=> (m.err = ""))
        THEN 0 ELSE 1)
  ELSE 0

TInit == l = 1 /\ fails = <<>> /\ prev = <<>> /\ nex = 0 /\ sawBegin = FALSE /\ drift = 0 /\ nexAll = 0 /\ done = FALSE
Step == /\ l <= NRec
        /\ LET r == Trace[l] IN
           /\ fails' = Cap(fails \o RecFails(l, r) \o DomainFails(l, r))
           /\ prev' = IF IsEx(r) /\ r.ev # "Transmit" THEN KeyOf(r) ELSE IF r.ev \in {"Begin", "End"} THEN <<>> ELSE prev
           /\ nex' = IF r.ev = "Begin" THEN 0 ELSE IF IsEx(r) THEN nex + 1 ELSE nex
           /\ sawBegin' = IF r.ev = "Begin" THEN TRUE ELSE IF r.ev = "End" THEN FALSE ELSE sawBegin
           /\ drift' = drift + Drift(r)
           /\ nexAll' = nexAll + (IF IsEx(r) THEN 1 ELSE 0)
        /\ l' = l + 1 /\ UNCHANGED done
Finish == /\ l = NRec + 1 /\ ~done
          /\ WriteResult(l - 1, fails, [stat_drift |-> drift, stat_in_bounded_domain |-> nexAll])
          /\ done' = TRUE /\ UNCHANGED <<l, fails, prev, nex, sawBegin, drift, nexAll>>
TNext == Step \/ Finish
TSpec == TInit /\ [][TNext]_tvars
====
