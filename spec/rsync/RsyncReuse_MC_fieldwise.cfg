\* NOT registered: an engine whose transmitData/transmitBlock set and clear single fields of the shared Operation and
\* return early, before clearing Data, when the transmitter fails. TLC must report InvReuseC19 / InvReuseIndependent violated.
CONSTANTS Alphabet = {97, 98} MaxLen = 2 MaxDatas = {1} WeakM = 65536
          SwallowSendBlockError = FALSE Faults = TRUE OpReset = "fieldwise" MaxLenR = 2 MdsR = {1, 2} MaxCalls = 2
SPECIFICATION RSpec
VIEW rview
INVARIANTS InvReuseC19 InvReuseC20 InvReuseIndependent
CHECK_DEADLOCK FALSE
