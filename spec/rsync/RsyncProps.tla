---- MODULE RsyncProps ----
(***************************************************************************)
(* What the rsync properties C19 and C20 mean.  Everything here is defined  *)
(* independently of the Go code: blocks of a base, the shape of its         *)
(* signature, what a delta operation denotes (Patch), when an operation is  *)
(* well formed, and what "a transmission failure was reported" means.       *)
(* The same operators are evaluated by TLC on the states of the model       *)
(* (Rsync.tla, RsyncTransmit.tla) and on records of what the real           *)
(* pkg/synchronization/rsync code returned (Rsync_Trace.tla).               *)
(*                                                                          *)
(* Data are sequences of byte values.  An operation is a record             *)
(*   [data |-> <<bytes>>, start |-> n, count |-> n]                         *)
(* exactly like rsync.Operation.                                            *)
(***************************************************************************)
EXTENDS Integers, Sequences, FiniteSets

Min(a, b) == IF a < b THEN a ELSE b

\* the value Deltify substitutes for a zero maximum data operation size
DefaultMaxData == 65536
EffMax(md) == IF md = 0 THEN DefaultMaxData ELSE md

(***************************************************************************)
(* Blocks and signature shape.  Block i (0-based) of a base covers the      *)
(* bytes i*bs+1 .. min((i+1)*bs, Len(base)); the last block may be short.   *)
(* An empty base has no blocks and (as in the Go code) block size 0.        *)
(***************************************************************************)
NBlocks(len, bs) == IF len = 0 \/ bs = 0 THEN 0 ELSE (len + bs - 1) \div bs
SigShape(base, bs) ==
  LET n == NBlocks(Len(base), bs) IN
  IF n = 0 THEN [bs |-> 0, lbs |-> 0, n |-> 0]
  ELSE [bs |-> bs, lbs |-> Len(base) - (n - 1) * bs, n |-> n]
Block(base, bs, i) == SubSeq(base, i * bs + 1, Min((i + 1) * bs, Len(base)))

(***************************************************************************)
(* Patch: what a sequence of operations denotes against a base.             *)
(***************************************************************************)
IsData(o) == o.data # <<>>
OpOut(base, sg, o) ==
  IF IsData(o) THEN o.data
  ELSE SubSeq(base, o.start * sg.bs + 1, Min((o.start + o.count) * sg.bs, Len(base)))

RECURSIVE PatchFrom(_, _, _, _, _)
PatchFrom(base, sg, ops, i, acc) ==
  IF i > Len(ops) THEN acc ELSE PatchFrom(base, sg, ops, i + 1, acc \o OpOut(base, sg, ops[i]))
Patch(base, sg, ops) == PatchFrom(base, sg, ops, 1, <<>>)

(***************************************************************************)
(* Well-formedness and bounds of one operation.                             *)
(***************************************************************************)
OpWF(o, sg, md) ==
  IF IsData(o) THEN o.start = 0 /\ o.count = 0 /\ Len(o.data) <= EffMax(md)
  ELSE o.count > 0 /\ o.start >= 0 /\ o.start + o.count <= sg.n
AllWF(ops, sg, md) == \A i \in DOMAIN ops : OpWF(ops[i], sg, md)

(***************************************************************************)
(* C19                                                                      *)
(***************************************************************************)
C19_WellFormed(base, bs, md, ops) == AllWF(ops, SigShape(base, bs), md)
\* Patch is total (an out-of-range block operation denotes the part of it that
\* exists), so no guard is needed here; bounds are C19_WellFormed's subject.
C19_Reconstructs(base, target, bs, ops) == Patch(base, SigShape(base, bs), ops) = target
C19_UnchangedNoLiterals(base, target, ops) ==
  (target = base /\ base # <<>>) => \A i \in DOMAIN ops : ~IsData(ops[i])

(***************************************************************************)
(* C20.  nfailed = number of transmit calls that returned an error; err =   *)
(* what the sender returned ("" = nil); delivered = the operations whose    *)
(* transmit call succeeded, in order (the receiver's view).                 *)
(***************************************************************************)
Obtained(base, target, bs, delivered) ==
  Patch(base, SigShape(base, bs), delivered) = target
C20_FailureReported(nfailed, err, base, target, bs, delivered) ==
  nfailed > 0 => (err # "" \/ Obtained(base, target, bs, delivered))

(***************************************************************************)
(* C20 at the level of rsync.Transmit: the receiver sees a sequence of      *)
(* transmissions [done |-> BOOLEAN, op |-> operation]; the operations of    *)
(* file k (1-based) are those between the (k-1)-th and the k-th done        *)
(* marker.  A file whose done marker never arrived was not obtained.        *)
(***************************************************************************)
RECURSIVE SplitFrom(_, _, _, _)
SplitFrom(wire, i, cur, acc) ==
  IF i > Len(wire) THEN acc
  ELSE IF wire[i].done THEN SplitFrom(wire, i + 1, <<>>, Append(acc, cur))
  ELSE SplitFrom(wire, i + 1, Append(cur, wire[i].op), acc)
FilesOnWire(wire) == SplitFrom(wire, 1, <<>>, <<>>)     \* sequence of completed files' operation lists

\* what Transmission.EnsureValid demands (DecodeToReceiver aborts the whole stream otherwise): no error
\* and no missing / ill-formed operation in the middle of a file, no operation on a done message
ZeroOperation(o) == o.data = <<>> /\ o.start = 0 /\ o.count = 0
TransmissionValid(m) == IF m.done THEN ZeroOperation(m.op)
                        ELSE m.err = "" /\ (IF IsData(m.op) THEN m.op.start = 0 /\ m.op.count = 0 ELSE m.op.count > 0)
StreamValid(wire) == \A i \in DOMAIN wire : TransmissionValid(wire[i])

\* a file the sender could not open (files[k].missing) has no target to obtain
AllObtained(files, wire) ==
  LET got == FilesOnWire(wire) IN
  /\ StreamValid(wire)
  /\ Len(got) = Len(files)
  /\ \A k \in DOMAIN files : files[k].missing \/ Obtained(files[k].base, files[k].target, files[k].bs, got[k])
C20_TransmitReported(nfailed, err, files, wire) ==
  nfailed > 0 => (err # "" \/ AllObtained(files, wire))
\* no transport failure at all: success is reported and every file that could be opened is obtained -
\* in particular nothing stale from an earlier file of the batch (error, done flag) reaches the receiver
C20_CleanTransmitDelivers(nfailed, err, files, wire) ==
  nfailed = 0 => (err = "" /\ AllObtained(files, wire))
====
