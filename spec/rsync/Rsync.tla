---- MODULE Rsync ----
(***************************************************************************)
(* The Deltify state machine of RsyncEngine.tla as a TLC specification:     *)
(* every base, target, block size and maximum data operation size of the    *)
(* bound, every transmit call failing or not (once / persistently), and     *)
(* the invariants of C19 and C20 together with the invariants that say how  *)
(* the code achieves them.                                                  *)
(***************************************************************************)
EXTENDS RsyncEngine

VARIABLE s

(***************************************************************************)
(* TLC actions                                                              *)
(***************************************************************************)
Init == \E base \in Seqs(MaxLen), target \in Seqs(MaxLen), bs \in 1..MaxLen, md \in MaxDatas :
          s = InitState(base, target, bs, md, AnyPlan)

AStart == s.pc = "start" /\ s' \in Start(s)
AChunkAll == s.pc = "chunkall" /\ s' \in ChunkAll(s)
ALoopFill == s.pc = "loop" /\ Len(s.buf) = 0 /\ s' \in LoopFill(s)
ALoopRoll == s.pc = "loop" /\ Len(s.buf) >= s.sig.bs /\ s' \in LoopRoll(s)
ALoopPanic == s.pc = "loop" /\ Len(s.buf) > 0 /\ Len(s.buf) < s.sig.bs /\ s' \in LoopPanic(s)
ASearch == s.pc = "search" /\ s' \in Search(s)
ASendDataFlushBlock == s.pc = "senddata" /\ s.sd # <<>> /\ s.ccount > 0 /\ s' \in SendDataFlushBlock(s)
ASendDataChunk == s.pc = "senddata" /\ s.sd # <<>> /\ s.ccount = 0 /\ s' \in SendDataChunk(s)
ASendDataReturn == s.pc = "senddata" /\ s.sd = <<>> /\ s' \in SendDataReturn(s)
ASendBlockCoalesce == s.pc = "sendblock" /\ s.ccount > 0 /\ s.cstart + s.ccount = s.midx /\ s' \in SendBlockCoalesce(s)
ASendBlockFlush == s.pc = "sendblock" /\ s.ccount > 0 /\ s.cstart + s.ccount # s.midx /\ s' \in SendBlockFlush(s)
ASendBlockStartRun == s.pc = "sendblock" /\ s.ccount = 0 /\ s' \in SendBlockStartRun(s)
AEpilogue == s.pc = "epilogue" /\ s' \in Epilogue(s)
AFinalData == s.pc = "finaldata" /\ s' \in FinalData(s)
AFinalBlock == s.pc = "finalblock" /\ s' \in FinalBlock(s)

Next == \/ AStart \/ AChunkAll \/ ALoopFill \/ ALoopRoll \/ ALoopPanic \/ ASearch
        \/ ASendDataFlushBlock \/ ASendDataChunk \/ ASendDataReturn
        \/ ASendBlockCoalesce \/ ASendBlockFlush \/ ASendBlockStartRun
        \/ AEpilogue \/ AFinalData \/ AFinalBlock
Spec == Init /\ [][Next]_s

(***************************************************************************)
(* Invariants.  The C19_/C20_ operators are those of RsyncProps, applied to *)
(* what the model's receiver obtained.                                      *)
(***************************************************************************)
Done == s.pc = "done"
Pending == IF s.ccount > 0 THEN <<BlockOp(s.cstart, s.ccount)>> ELSE <<>>

InvC19 == (Done /\ s.nfailed = 0) =>
            /\ s.err = ""
            /\ C19_Reconstructs(s.base, s.target, s.bs, s.delivered)
            /\ C19_WellFormed(s.base, s.bs, s.md, s.delivered)
            /\ C19_UnchangedNoLiterals(s.base, s.target, s.delivered)
InvC20 == Done => C20_FailureReported(s.nfailed, s.err, s.base, s.target, s.bs, s.delivered)

\* how the code achieves C19: the rolled hash is the hash of the block at the end of the buffer, ...
InvRollExact == s.pc = "search" => s.r = Weak(BufTail(s, s.sig.bs), s.sig.bs)
\* ... what has been sent, what is pending and what is buffered are always exactly the target read so far, ...
InvProgress == (s.pc = "loop" /\ s.nfailed = 0) =>
                 Patch(s.base, SigShape(s.base, s.bs), s.delivered \o Pending) \o s.buf = SubSeq(s.target, 1, s.pos)
\* ... the buffer never overflows and the loop's own sanity check never fires, ...
InvBuffer == Len(s.buf) <= EffMax(s.md) + s.sig.bs /\ s.pc # "panic"
\* ... and the signature has the shape the definition of blocks prescribes.
InvSigShape == [bs |-> s.sig.bs, lbs |-> s.sig.lbs, n |-> s.sig.n] = SigShape(s.base, s.bs)
\* an error is returned only when a transmit call failed (the in-memory target cannot fail to read)
InvErrOnlyOnFailure == (Done /\ s.err # "") => s.nfailed > 0
====
