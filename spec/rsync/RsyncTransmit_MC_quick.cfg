CONSTANTS Alphabet = {97, 98} MaxLen = 3 MaxDatas = {1} WeakM = 65536
          SwallowSendBlockError = FALSE Faults = TRUE OpReset = "whole" MaxLenT = 3 NFiles = 1 MissingFiles = TRUE TmReset = "whole"
SPECIFICATION TSpecT
INVARIANTS InvC20Transmit InvCleanDelivers InvNoCallAfterFailure InvStreamValid
CHECK_DEADLOCK FALSE
