CONSTANTS Alphabet = {97, 98} MaxLen = 3 MaxDatas = {1} WeakM = 65536
          SwallowSendBlockError = FALSE Faults = TRUE MaxLenT = 3 NFiles = 1
SPECIFICATION TSpecT
INVARIANTS InvC20Transmit InvCleanDelivers InvNoCallAfterFailure
CHECK_DEADLOCK FALSE
