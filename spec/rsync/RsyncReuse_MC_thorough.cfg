CONSTANTS Alphabet = {97, 98} MaxLen = 2 MaxDatas = {1} WeakM = 65536
          SwallowSendBlockError = FALSE Faults = TRUE OpReset = "whole" MaxLenR = 2 MdsR = {1, 2} MaxCalls = 3
SPECIFICATION RSpec
VIEW rview
INVARIANTS InvReuseC19 InvReuseC20 InvReuseIndependent
CHECK_DEADLOCK FALSE
