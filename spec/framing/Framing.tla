---- MODULE Framing ----
(***************************************************************************)
(* The control stream of a remote endpoint, as client.go / server.go        *)
(* assemble it:                                                             *)
(*                                                                          *)
(*   ProtobufEncoder -> outbound (bufio.Writer) -> compressor ->            *)
(*     compressedOutbound (bufio.Writer) -> stream ... stream ->            *)
(*     compressedInbound (bufio.Reader) -> decompressor ->                  *)
(*     inbound (bufio.Reader) -> ProtobufDecoder                            *)
(*                                                                          *)
(* Data are abstract units.  Message i is written as ONE Write of its frame *)
(* (ProtobufEncoder.Encode marshals the varint length prefix and the body   *)
(* into one buffer): unit <<i,0>> is the prefix, <<i,1>> .. <<i,n-1>> the   *)
(* body.  Layer 1 and layer 3 are bufio.Writers (BufWrite transcribes       *)
(* bufio.Writer.Write: fits -> buffered; buffer empty and too large ->      *)
(* passed through; otherwise fill, flush, continue).  Layer 2 is the        *)
(* compressor: "none" hands every Write straight to layer 3; "deflate"      *)
(* keeps input pending (l2) and emits a block either on its own initiative  *)
(* (CompressorEmit) or when flushed (sync flush).  A block travels as one   *)
(* wire unit per payload unit; the decompressor can release a block's       *)
(* payload only when the whole block has arrived.  The stream delivers any  *)
(* prefix of what is in flight at any time (Deliver(n): any fragmentation). *)
(* The inbound layers are demand driven and hold nothing back except an     *)
(* incomplete block, so the receiver's side is `rcv` (units delivered).     *)
(*                                                                          *)
(* encodeAndFlush = Encode; then the multi-flusher: FlushLayer(FlushOrder[1]),*)
(* FlushLayer(FlushOrder[2]), FlushLayer(FlushOrder[3]).  The code uses     *)
(* <<1,2,3>> (outbound, compressor, compressedOutbound).                    *)
(***************************************************************************)
EXTENDS FramingProps, FiniteSets, TLC, Json

CONSTANTS Cap1, Cap3,        \* capacities of the two bufio.Writers, in units
          FrameSizes,        \* frame lengths (prefix + body) a message may have
          AllowOversize,     \* may a frame declaring a length above the limit be written?
          MaxMsgs, MaxFlushes,
          Algos,             \* compression algorithms explored: subset of {"none", "deflate"}
          FlushOrder,        \* sequence of layers the multi-flusher flushes
          Export             \* print complete behaviours (scripts for the driver)

VARIABLES algo,       \* the algorithm negotiated for this stream (never changes)
          S,          \* sender: [l1, l2, l3, wire, nblk]
          msgs,       \* frames written so far: [len, over]
          rcv,        \* wire units delivered to the receiver
          dec,        \* frames decoded so far (as parsed from the payload)
          derr,       \* the decoder returned an error (oversize): it is dead from then on
          fl,         \* 0 = no flush in progress, k = next position in FlushOrder
          nfl,        \* flushes started
          clean,      \* a flush has completed and nothing was encoded since
          lastFlush,  \* observation taken when the last flush completed
          hist        \* script of the behaviour (hidden by the VIEW of the MC configurations)
vars == <<algo, S, msgs, rcv, dec, derr, fl, nfl, clean, lastFlush, hist>>
view == <<algo, S, msgs, rcv, dec, derr, fl, nfl, clean, lastFlush>>

\* values for FlushOrder (configuration files cannot hold tuples)
OrderCode == <<1, 2, 3>>          \* NewMultiFlusher(outbound, compressor, compressedOutbound)
OrderReversed == <<3, 2, 1>>
OrderNoCompressorFlush == <<1, 3>>
OrderCompressorLast == <<1, 3, 2>>

Frame(i, m) == [j \in 1..m.len |-> <<i, j - 1>>]
RECURSIVE AllBytesFrom(_, _)
AllBytesFrom(ms, i) == IF i > Len(ms) THEN <<>> ELSE Frame(i, ms[i]) \o AllBytesFrom(ms, i + 1)
AllBytes(ms) == AllBytesFrom(ms, 1)

(***************************************************************************)
(* bufio.Writer.Write                                                       *)
(***************************************************************************)
BufWrite(buf, cap, p) ==
  IF Len(p) <= cap - Len(buf) THEN [buf |-> buf \o p, out |-> <<>>]
  ELSE IF Len(buf) = 0 THEN [buf |-> <<>>, out |-> p]
  ELSE LET k == cap - Len(buf)   rest == SubSeq(p, k + 1, Len(p)) IN
       IF Len(rest) > cap THEN [buf |-> <<>>, out |-> buf \o p]
       ELSE [buf |-> rest, out |-> buf \o SubSeq(p, 1, k)]

(***************************************************************************)
(* The sender's layers (synchronous call cascade).                          *)
(***************************************************************************)
W3(s, units) ==                        \* compressedOutbound.Write
  IF units = <<>> THEN s
  ELSE LET r == BufWrite(s.l3, Cap3, units) IN [s EXCEPT !.l3 = r.buf, !.wire = @ \o r.out]
BlockOf(s, bytes) == [k \in 1..Len(bytes) |-> [b |-> s.nblk, n |-> Len(bytes), p |-> bytes[k]]]
Emit2(s, k) ==                         \* the compressor emits one block holding its first k pending units
  LET blk == SubSeq(s.l2, 1, k) IN
  W3([s EXCEPT !.l2 = SubSeq(@, k + 1, Len(@)), !.nblk = @ + 1], BlockOf(s, blk))
W2(s, bytes) ==                        \* compressor.Write
  IF bytes = <<>> THEN s
  ELSE IF algo = "none"
  THEN W3([s EXCEPT !.nblk = @ + Len(bytes)],
          [k \in 1..Len(bytes) |-> [b |-> s.nblk + k - 1, n |-> 1, p |-> bytes[k]]])
  ELSE [s EXCEPT !.l2 = @ \o bytes]
W1(s, bytes) ==                        \* outbound.Write
  LET r == BufWrite(s.l1, Cap1, bytes) IN W2([s EXCEPT !.l1 = r.buf], r.out)
FlushLayer(s, k) ==
  CASE k = 1 -> W2([s EXCEPT !.l1 = <<>>], s.l1)                                  \* outbound.Flush
    [] k = 2 -> (IF algo = "none" \/ s.l2 = <<>> THEN s ELSE Emit2(s, Len(s.l2)))  \* compressor.Flush
    [] k = 3 -> [s EXCEPT !.l3 = <<>>, !.wire = @ \o s.l3]                         \* compressedOutbound.Flush

(***************************************************************************)
(* The receiver: payload released by the decompressor, frames parsed by     *)
(* ProtobufDecoder.Decode (prefix, limit check, body).                      *)
(***************************************************************************)
Payload(units) ==
  LET complete(u) == Cardinality({q \in DOMAIN units : units[q].b = u.b}) = u.n
      sel == SelectSeq(units, complete) IN
  [q \in DOMAIN sel |-> sel[q].p]
Declared(m) == IF m.over THEN <<0, 6, 4194305>> ELSE <<0, 0, m.len - 1>>
RECURSIVE Consumed(_, _)
Consumed(ms, k) == IF k = 0 THEN 0 ELSE ms[k].len + Consumed(ms, k - 1)
\* number of messages decodable from a payload, starting after `from` decoded ones
RECURSIVE CountFrom(_, _, _)
CountFrom(ms, pay, k) ==     \* a frame the decoder must reject counts once its prefix is there; nothing follows it
  IF k >= Len(ms) THEN k
  ELSE IF ms[k + 1].over THEN (IF Len(pay) > Consumed(ms, k) THEN k + 1 ELSE k)
  ELSE IF Len(pay) < Consumed(ms, k + 1) THEN k ELSE CountFrom(ms, pay, k + 1)
Decodable(units) == CountFrom(msgs, Payload(units), 0)

Init == /\ algo \in Algos
        /\ S = [l1 |-> <<>>, l2 |-> <<>>, l3 |-> <<>>, wire |-> <<>>, nblk |-> 1]
        /\ msgs = <<>> /\ rcv = <<>> /\ dec = <<>> /\ derr = FALSE /\ fl = 0 /\ nfl = 0
        /\ clean = TRUE /\ lastFlush = [written |-> 0, decoded |-> 0, starved |-> FALSE] /\ hist = <<>>

\* can ProtobufDecoder.Decode return (a message or the oversize error) with what has been delivered?
CanDecode ==
  /\ ~derr
  /\ LET pay == Payload(rcv)   c == Consumed(msgs, Len(dec)) IN
     /\ Len(pay) > c
     /\ LET m == msgs[pay[c + 1][1]] IN LimbGT(Declared(m), Limit) \/ Len(pay) >= c + m.len

\* When behaviours are exported as scripts for the driver, only canonical schedules are generated: the
\* receiver catches up (everything in flight delivered at once and decoded) before the sender's next
\* top-level operation.  All other interleavings and fragmentations are explored with Export = FALSE.
Quiet == Export => S.wire = <<>> /\ ~CanDecode

\* ProtobufEncoder.Encode: one Write of prefix + body
Encode(m) ==
  /\ fl = 0 /\ Len(msgs) < MaxMsgs /\ Quiet
  /\ (Len(msgs) > 0 => ~msgs[Len(msgs)].over)        \* nothing is sent after a frame the peer must reject
  /\ msgs' = Append(msgs, m)
  /\ S' = W1(S, Frame(Len(msgs) + 1, m))
  /\ clean' = FALSE
  /\ hist' = Append(hist, [a |-> "enc", n |-> m.len, over |-> m.over])
  /\ UNCHANGED <<algo, rcv, dec, derr, fl, nfl, lastFlush>>

BeginFlush ==
  /\ fl = 0 /\ nfl < MaxFlushes /\ ~clean /\ Quiet
  /\ fl' = 1 /\ nfl' = nfl + 1
  /\ hist' = Append(hist, [a |-> "flush", n |-> 0, over |-> FALSE])
  /\ UNCHANGED <<algo, S, msgs, rcv, dec, derr, clean, lastFlush>>

\* multiFlusher.Flush: one underlying flusher per step, in FlushOrder
FlushStep ==
  /\ fl >= 1
  /\ LET s2 == FlushLayer(S, FlushOrder[fl]) IN
     /\ S' = s2
     /\ IF fl = Len(FlushOrder)
        THEN /\ fl' = 0 /\ clean' = TRUE
             /\ LET d == Decodable(rcv \o s2.wire) IN
                lastFlush' = [written |-> Len(msgs), decoded |-> d, starved |-> d < Len(msgs)]
        ELSE /\ fl' = fl + 1 /\ UNCHANGED <<algo, clean, lastFlush>>
  /\ UNCHANGED <<algo, msgs, rcv, dec, derr, nfl, hist>>

\* the deflate compressor may emit a block whenever it has pending input
CompressorEmit ==
  /\ algo = "deflate" /\ S.l2 # <<>>
  /\ \E k \in {1, Len(S.l2)} : S' = Emit2(S, k)
  /\ UNCHANGED <<algo, msgs, rcv, dec, derr, fl, nfl, clean, lastFlush, hist>>

\* the stream hands the receiver the next n units in flight
Deliver(n) ==
  /\ n \in 1..Len(S.wire)
  /\ Export => fl = 0 /\ n = Len(S.wire)          \* exporting scripts: canonical schedules only (see Quiet)
  /\ rcv' = rcv \o SubSeq(S.wire, 1, n)
  /\ S' = [S EXCEPT !.wire = SubSeq(@, n + 1, Len(@))]
  /\ hist' = Append(hist, [a |-> "deliver", n |-> n, over |-> FALSE])
  /\ UNCHANGED <<algo, msgs, dec, derr, fl, nfl, clean, lastFlush>>

\* ProtobufDecoder.Decode
Decode ==
  /\ ~derr
  /\ Export => fl = 0
  /\ LET pay == Payload(rcv)   c == Consumed(msgs, Len(dec)) IN
     /\ Len(pay) > c                                   \* the prefix is there
     /\ LET i == pay[c + 1][1]   m == msgs[i] IN          \* what the prefix declares
        IF LimbGT(Declared(m), Limit)
        THEN derr' = TRUE /\ UNCHANGED dec                \* "message size too large"
        ELSE /\ Len(pay) >= c + m.len                     \* io.ReadFull of the body
             /\ dec' = Append(dec, SubSeq(pay, c + 1, c + m.len))
             /\ UNCHANGED derr
  /\ UNCHANGED <<algo, S, msgs, rcv, fl, nfl, clean, lastFlush, hist>>

Msgs == {[len |-> n, over |-> FALSE] : n \in FrameSizes} \cup
        (IF AllowOversize THEN {[len |-> 1, over |-> TRUE]} ELSE {})
Next == \/ \E m \in Msgs : Encode(m)
        \/ BeginFlush \/ FlushStep \/ CompressorEmit
        \/ \E n \in 1..Len(S.wire) : Deliver(n)
        \/ Decode
Spec == Init /\ [][Next]_vars

(***************************************************************************)
(* Invariants                                                               *)
(***************************************************************************)
Written == [i \in DOMAIN msgs |-> Frame(i, msgs[i])]
InvFlushedDecodable == clean => C22_FlushedDecodable(lastFlush)
InvInOrderIntact == C22_InOrderIntact(dec, Written)
InvOversize == /\ \A k \in DOMAIN dec : ~msgs[k].over
               /\ \A k \in DOMAIN msgs : C22_Oversize(Declared(msgs[k]), Len(dec) < k)
\* how the chain achieves it: every layer is a FIFO, and after a flush in the right order nothing is
\* left in the sender's three layers, so what is in flight or delivered is everything, in whole blocks
InvFifo == IsPrefixSeq(Payload(rcv \o S.wire), AllBytes(msgs))
InvFlushedEmpty == (clean /\ FlushOrder = OrderCode) => S.l1 = <<>> /\ S.l2 = <<>> /\ S.l3 = <<>>
\* after a completed flush, once the wire has drained, decoding cannot be stuck before the last message
InvQuiescentDecoded ==
  (clean /\ S.wire = <<>> /\ ~CanDecode /\ ~derr) => Len(dec) = Len(msgs)

\* behaviours for the driver: complete runs (everything flushed, delivered and decoded)
Complete == Len(msgs) = MaxMsgs /\ clean /\ fl = 0 /\ S.wire = <<>> /\ (derr \/ Len(dec) = Len(msgs))
InvExport == (Export /\ Complete) => PrintT(<<"BEHAVIOUR", ToJson(hist)>>)
====
