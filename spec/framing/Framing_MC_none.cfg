CONSTANTS Cap1 = 3 Cap3 = 3 FrameSizes = {1, 2, 3, 4, 7} AllowOversize = TRUE MaxMsgs = 3 MaxFlushes = 3
          Algos = {"none"} Export = FALSE
CONSTANT FlushOrder <- OrderCode
SPECIFICATION Spec
VIEW view
INVARIANTS InvFlushedDecodable InvInOrderIntact InvOversize InvFifo InvFlushedEmpty InvQuiescentDecoded
CHECK_DEADLOCK FALSE
