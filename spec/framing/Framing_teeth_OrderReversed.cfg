\* NOT registered: a wrong multi-flusher order. TLC must report InvFlushedDecodable violated.
CONSTANTS Cap1 = 3 Cap3 = 3 FrameSizes = {1, 2, 4} AllowOversize = FALSE MaxMsgs = 2 MaxFlushes = 2
          Algos = {"deflate"} Export = FALSE
CONSTANT FlushOrder <- OrderReversed
SPECIFICATION Spec
VIEW view
INVARIANTS InvFlushedDecodable
CHECK_DEADLOCK FALSE
