\* complete behaviours (encode / flush / deliver scripts) for the driver; hist is part of the state here
CONSTANTS Cap1 = 3 Cap3 = 3 FrameSizes = {1, 2, 3, 4, 7} AllowOversize = FALSE MaxMsgs = 4 MaxFlushes = 4
          Algos = {"none"} Export = TRUE
CONSTANT FlushOrder <- OrderCode
SPECIFICATION Spec
INVARIANTS InvFlushedDecodable InvInOrderIntact InvExport
CHECK_DEADLOCK FALSE
