CONSTANT Want = {"C22_FlushedDecodable", "C22_InOrderIntact", "C22_Oversize", "C22_OversizeNoAllocation", "C22_AssemblyFlushed"}
SPECIFICATION TSpec
CHECK_DEADLOCK FALSE
