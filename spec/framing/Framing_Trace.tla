---- MODULE Framing_Trace ----
(***************************************************************************)
(* Trace validation for the control-stream framing.  Every record is one    *)
(* independent case run on the real code:                                   *)
(*                                                                          *)
(*  Frame     in = {algo, b1, b3, script, frags, seed}: the real            *)
(*            ProtobufEncoder -> bufio -> Compress -> bufio -> fragmenting  *)
(*            pipe -> bufio -> Decompress -> bufio -> ProtobufDecoder       *)
(*            chain.  written / decoded = [length, checksum] of every body  *)
(*            handed to Encode / returned by Decode, in order; flushes =    *)
(*            one observation per completed MultiFlusher.Flush: messages    *)
(*            written so far, messages the peer had decoded once it could   *)
(*            not go on, whether it was then blocked on an empty pipe.      *)
(*  Oversize  in = {algo, declared (three 24-bit limbs), trailing}: a raw   *)
(*            length prefix sent through the same chain (in a child         *)
(*            process); what Decode returned, whether it panicked, whether  *)
(*            the process died, megabytes allocated meanwhile.              *)
(*  Assembly  in = {side, algo, frags}: the real remote.NewEndpoint /       *)
(*            remote.ServeEndpoint against a scripted peer; did the peer    *)
(*            decode the message the real side flushed (initialize request  *)
(*            / response), or was it starved while the real side waited.    *)
(*                                                                          *)
(* The property operators are those of FramingProps, the ones Framing.tla   *)
(* is model-checked against.                                                *)
(***************************************************************************)
EXTENDS FramingProps, TraceKit

CONSTANT Want

VARIABLES l, fails, nframes, nflushes, done
tvars == <<l, fails, nframes, nflushes, done>>

FrameFails(i, r) ==
       Chk(Want, i, "C22_FlushedDecodable",
           /\ ~r.hung /\ r.encErr = ""
           /\ \A k \in DOMAIN r.flushes : r.flushes[k].err = "" /\ C22_FlushedDecodable(r.flushes[k]))
    \o Chk(Want, i, "C22_InOrderIntact", C22_InOrderIntact(r.decoded, r.written))
OversizeFails(i, r) ==
       Chk(Want, i, "C22_Oversize", C22_Oversize(r.in.declared, r.err # "" /\ ~r.panicked /\ ~r.crashed))
    \o Chk(Want, i, "C22_OversizeNoAllocation", LimbGT(r.in.declared, Limit) => r.alloc_mb < 64)
AssemblyFails(i, r) ==
       Chk(Want, i, "C22_AssemblyFlushed", r.got /\ ~r.starved /\ ~r.hung)

RecFails(i, r) ==
  CASE r.ev = "Frame" -> FrameFails(i, r)
    [] r.ev = "Oversize" -> OversizeFails(i, r)
    [] r.ev = "Assembly" -> AssemblyFails(i, r)
    [] OTHER -> <<Fail(i, "TraceAccepted")>>

TInit == l = 1 /\ fails = <<>> /\ nframes = 0 /\ nflushes = 0 /\ done = FALSE
Step == /\ l <= NRec
        /\ LET r == Trace[l] IN
           /\ fails' = Cap(fails \o RecFails(l, r))
           /\ nframes' = nframes + (IF r.ev = "Frame" THEN 1 ELSE 0)
           /\ nflushes' = nflushes + (IF r.ev = "Frame" THEN Len(r.flushes) ELSE 0)
        /\ l' = l + 1 /\ UNCHANGED done
Finish == /\ l = NRec + 1 /\ ~done
          /\ WriteResult(l - 1, fails, [stat_frames |-> nframes, stat_flush_observations |-> nflushes])
          /\ done' = TRUE /\ UNCHANGED <<l, fails, nframes, nflushes>>
TNext == Step \/ Finish
TSpec == TInit /\ [][TNext]_tvars
====
