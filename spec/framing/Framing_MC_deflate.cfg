CONSTANTS Cap1 = 3 Cap3 = 3 FrameSizes = {1, 2, 4} AllowOversize = TRUE MaxMsgs = 3 MaxFlushes = 3
          Algos = {"deflate"} Export = FALSE
CONSTANT FlushOrder <- OrderCode
SPECIFICATION Spec
VIEW view
INVARIANTS InvFlushedDecodable InvInOrderIntact InvOversize InvFifo InvFlushedEmpty InvQuiescentDecoded
CHECK_DEADLOCK FALSE
