---- MODULE FramingProps ----
(***************************************************************************)
(* What C22 means, on observations that exist both in the model             *)
(* (Framing.tla) and in runs of the real encoder -> bufio -> compressor ->  *)
(* bufio -> wire -> bufio -> decompressor -> bufio -> decoder chain         *)
(* (Framing_Trace.tla).                                                     *)
(***************************************************************************)
EXTENDS Integers, Sequences

IsPrefixSeq(a, b) == Len(a) <= Len(b) /\ \A i \in 1..Len(a) : a[i] = b[i]

(***************************************************************************)
(* Observation taken when a flush of the outbound pipeline has completed:   *)
(*   written = number of messages encoded so far,                           *)
(*   decoded = number of messages the peer's decoder gets through (decodes, *)
(*             or rejects as oversize) from what is on the wire, without    *)
(*             any further sender action,                                   *)
(*   starved = the peer's decoder asked for bytes that were never sent.     *)
(***************************************************************************)
C22_FlushedDecodable(f) == f.decoded = f.written /\ ~f.starved

(***************************************************************************)
(* The peer decodes the same messages in the same order: at any moment the  *)
(* decoded sequence is a prefix of the written one (messages are compared   *)
(* by whatever identifies their content).                                   *)
(***************************************************************************)
C22_InOrderIntact(decoded, written) == IsPrefixSeq(decoded, written)

(***************************************************************************)
(* Declared sizes.  TLC integers are 32-bit, a declared length is any       *)
(* 64-bit value: sizes are triples of 24-bit limbs, most significant first. *)
(***************************************************************************)
Limit == <<0, 6, 4194304>>          \* 100 * 1024 * 1024 = 6 * 2^24 + 4194304
LimbGT(a, b) == \/ a[1] > b[1]
                \/ a[1] = b[1] /\ a[2] > b[2]
                \/ a[1] = b[1] /\ a[2] = b[2] /\ a[3] > b[3]
\* rejected = Decode returned an error instead of a message (and did not crash)
C22_Oversize(declared, rejected) == LimbGT(declared, Limit) => rejected
====
