CONSTANTS
  MaxId = 16
  ZeroIncBug = FALSE
  OpenCleanupBug = FALSE
  DeadlineBug = "none"
  Want = {"C25_BlockReturns", "C25_NoHeadOfLine", "C25_BacklogRejects", "C25_NoHang"}
SPECIFICATION TSpec
CHECK_DEADLOCK FALSE
