CONSTANTS
  Msgs = 3
  Reads = 4
  LeakBug = TRUE
SPECIFICATION Spec
INVARIANT NoOrphanLock TokenSound
PROPERTY ReadReturns
CHECK_DEADLOCK FALSE
