---- MODULE MuxLock ----
(***************************************************************************)
(* The stream-data branch of Multiplexer.read against Stream.Read, at the   *)
(* level of receiveBufferLock:                                              *)
(*   reader goroutine:  header read -> Lock -> ReadNFrom(carrier, length)   *)
(*                      (copy; may fail half-way when the carrier fails or  *)
(*                      the multiplexer is closed) -> signal token if the   *)
(*                      buffer was empty -> Unlock; on a copy error: Unlock *)
(*                      and return the error (run() then closes)            *)
(*   Stream.Read:       take the readiness token -> Lock -> copy out ->     *)
(*                      re-arm token if data is left -> Unlock -> return;   *)
(*                      without a token it waits for token / close / mux    *)
(*                      close                                               *)
(* LeakBug = TRUE is the slip the properties exclude: the error return      *)
(* after ReadNFrom forgets the Unlock.                                      *)
(* Properties: NoOrphanLock (a terminated reader holds no lock),            *)
(* ReadReturns (a Read in progress returns once the multiplexer is closed). *)
(***************************************************************************)
EXTENDS Integers, TLC

CONSTANTS Msgs,     \* data messages the peer sends (each of 2 bytes)
          Reads,    \* application Read calls (1 byte each)
          LeakBug

VARIABLES reader,   \* "idle" | "copying" (lock held, payload partly copied) | "dead"
          lock,     \* "none" | "reader" | "app"
          buf,      \* bytes buffered
          token,    \* receiveBufferReady holds a token
          app,      \* "idle" | "wait" (waiting for token/close) | "locking" (token taken) | "reading"
          sent, reads, muxClosed, failed
vars == <<reader, lock, buf, token, app, sent, reads, muxClosed, failed>>

Init == /\ reader = "idle" /\ lock = "none" /\ buf = 0 /\ token = FALSE /\ app = "idle"
        /\ sent = 0 /\ reads = 0 /\ muxClosed = FALSE /\ failed = FALSE

\* reader goroutine
RecvLock == /\ reader = "idle" /\ ~failed /\ sent < Msgs /\ lock = "none"
            /\ reader' = "copying" /\ lock' = "reader" /\ sent' = sent + 1
            /\ UNCHANGED <<buf, token, app, reads, muxClosed, failed>>
RecvCopyDone == /\ reader = "copying" /\ ~failed
                /\ buf' = buf + 2 /\ token' = (token \/ buf = 0)
                /\ lock' = "none" /\ reader' = "idle"
                /\ UNCHANGED <<app, sent, reads, muxClosed, failed>>
\* the carrier fails (or the multiplexer is closed locally, which closes the carrier)
CarrierFail == /\ ~failed /\ failed' = TRUE
               /\ UNCHANGED <<reader, lock, buf, token, app, sent, reads, muxClosed>>
\* ReadNFrom / ReadByte returns the error: the reader goroutine terminates
RecvFail == /\ failed /\ reader # "dead"
            /\ reader' = "dead"
            /\ lock' = IF reader = "copying" /\ ~LeakBug THEN "none" ELSE lock
            /\ UNCHANGED <<buf, token, app, sent, reads, muxClosed, failed>>
\* run(): read error -> closeWithError
MuxClose == /\ reader = "dead" /\ ~muxClosed /\ muxClosed' = TRUE
            /\ UNCHANGED <<reader, lock, buf, token, app, sent, reads, failed>>

\* Stream.Read
ReadStart == /\ app = "idle" /\ reads < Reads /\ ~muxClosed       \* entry check
             /\ app' = "wait" /\ UNCHANGED <<reader, lock, buf, token, sent, reads, muxClosed, failed>>
ReadToken == /\ app = "wait" /\ token /\ token' = FALSE /\ app' = "locking"
             /\ UNCHANGED <<reader, lock, buf, sent, reads, muxClosed, failed>>
ReadAbort == /\ app = "wait" /\ ~token /\ muxClosed                 \* `case <-s.multiplexer.closed`
             /\ app' = "idle" /\ reads' = reads + 1
             /\ UNCHANGED <<reader, lock, buf, token, sent, muxClosed, failed>>
ReadLock == /\ app = "locking" /\ lock = "none" /\ lock' = "app" /\ app' = "reading"
            /\ UNCHANGED <<reader, buf, token, sent, reads, muxClosed, failed>>
ReadDone == /\ app = "reading"
            /\ buf' = IF buf > 0 THEN buf - 1 ELSE 0
            /\ token' = (buf > 1) /\ lock' = "none" /\ app' = "idle" /\ reads' = reads + 1
            /\ UNCHANGED <<reader, sent, muxClosed, failed>>

Next == RecvLock \/ RecvCopyDone \/ CarrierFail \/ RecvFail \/ MuxClose
        \/ ReadStart \/ ReadToken \/ ReadAbort \/ ReadLock \/ ReadDone
Spec == /\ Init /\ [][Next]_vars
        /\ WF_vars(RecvCopyDone) /\ WF_vars(RecvFail) /\ WF_vars(MuxClose)
        /\ WF_vars(ReadToken) /\ WF_vars(ReadAbort) /\ WF_vars(ReadLock) /\ WF_vars(ReadDone)

NoOrphanLock == reader = "dead" => lock # "reader"
TokenSound == token => buf > 0
ReadReturns == (app # "idle" /\ muxClosed) ~> (app = "idle")
====
