---- MODULE Mux ----
(***************************************************************************)
(* Message-level specification of pkg/multiplexing (Multiplexer, Stream).   *)
(*                                                                         *)
(* Two endpoints E = {0,1} (endpoint 0 was created with even = FALSE and    *)
(* opens the odd stream identifiers, endpoint 1 the even ones).  The whole  *)
(* protocol state is one record S; every critical section of the code is an *)
(* operator  Do<Name>(S, ...)  that returns the successor state, so that    *)
(* the model checker (Mux_MC) and the trace validator (Mux_Trace) execute   *)
(* literally the same transitions.                                          *)
(*                                                                         *)
(*   ss[e][s]   flags of endpoint e's Stream object for identifier s:       *)
(*              reg  in m.streams        est  established closed            *)
(*              cw   closedWrite closed  cl   closed closed                 *)
(*              rcw  remoteClosedWrite   rcl  remoteClosed                  *)
(*              api  handed to the application (OpenStream/AcceptStream     *)
(*                   returned it)                                           *)
(*   win[e][s]  sendWindow              rbuf[e][s]  receiveBuffer (bytes)   *)
(*   pinc/pcw/pcl  the three maps of Multiplexer.enqueue (pinc = -1: no     *)
(*              entry for the stream in windowIncrements)                   *)
(*   wire[e]    messages written by e and not yet parsed by Peer(e).read    *)
(*   backlog[e] pendingInboundStreamIdentifiers                             *)
(*   nextOut[e] nextOutboundStreamIdentifier (0 once exhausted)              *)
(*   idmax      the largest identifier (math.MaxUint64 in the code)          *)
(*   maxIn[e]   largestOpenedInboundStreamIdentifier (local to read())      *)
(*   unsent[e]  identifiers allocated by OpenStream whose open message is   *)
(*              not queued yet (only non-empty in the pre-repair variant in *)
(*              which allocation and queuing were not atomic)               *)
(*   perr[e]    e's reader returned a protocol-violation error (which makes *)
(*              run() call closeWithError)                                  *)
(*   written/readOut/eof  observation history used by the properties        *)
(*                                                                         *)
(* Deadline and readiness signalling of Stream (per endpoint and stream):   *)
(*   swr / rbr  a token is in sendWindowReady / receiveBufferReady          *)
(*   wx / rx    writeDeadlineExpired / readDeadlineExpired                  *)
(*   wt / rt    the deadline timer: "off", "armed", "fired" (value in C)    *)
(*   wb / rb    a Write / Read call in progress: on = inside its wait loop, *)
(*              fin = returned in its goroutine with result (cnt/n, res),   *)
(*              have = haveNonZeroSendWindow (token taken, no buffer yet)   *)
(*   stuck[e]   e's reader goroutine blocked forever sending a readiness    *)
(*              token into a channel that already holds one                 *)
(*   cap        messages in flight per direction before a sender finds no   *)
(*              write buffer (0: never)                                     *)
(***************************************************************************)
EXTENDS Integers, Sequences, FiniteSets, TLC

CONSTANTS MaxId,       \* stream identifiers range over 1..MaxId
          ZeroIncBug,  \* TRUE: Stream.Read as it was before the repair (enqueues an increment of 0)
          OpenCleanupBug, \* TRUE: OpenStream's deferred cleanup queues a close message even if the open message was never sent
          DeadlineBug  \* "none" | "wresignal" | "rresignal" | "wlose": slips in the deadline branches (design errors the properties exclude)

E == {0, 1}
Peer(e) == 1 - e
Ids == 1..MaxId
IsOut(e, s) == (s % 2 = 0) = (e = 1)       \* identifier s is an outbound identifier of endpoint e
FirstOut(e) == IF e = 1 THEN 2 ELSE 1
Min(a, b) == IF a < b THEN a ELSE b
Range(q) == {q[i] : i \in DOMAIN q}
Drop(q, n) == SubSeq(q, n + 1, Len(q))
Take(q, n) == SubSeq(q, 1, n)

FreshW == [on |-> FALSE, fin |-> FALSE, data |-> <<>>, cnt |-> 0, have |-> FALSE, res |-> ""]
FreshR == [on |-> FALSE, fin |-> FALSE, k |-> 0, n |-> 0, data |-> <<>>, res |-> ""]
Fresh == [reg |-> FALSE, est |-> FALSE, cw |-> FALSE, cl |-> FALSE, rcw |-> FALSE, rcl |-> FALSE, api |-> FALSE]

\* Configuration.normalize: a negative window means no inbound data at all (0), a backlog below 1 means 1
\* (WriteBufferCount below 1 means 1 as well; the pool size only matters through cap)
NormW(w) == IF w < 0 THEN 0 ELSE w
NormB(b) == IF b <= 0 THEN 1 ELSE b
\* w = StreamReceiveWindow, b = AcceptBacklog as configured (the same configuration on both sides)
InitS(w, b) ==
  [w |-> NormW(w), b |-> NormB(b),
   ss |-> [e \in E |-> [s \in Ids |-> Fresh]],
   win |-> [e \in E |-> [s \in Ids |-> 0]],
   rbuf |-> [e \in E |-> [s \in Ids |-> <<>>]],
   pinc |-> [e \in E |-> [s \in Ids |-> -1]],
   pcw |-> [e \in E |-> {}],
   pcl |-> [e \in E |-> {}],
   wire |-> [e \in E |-> <<>>],
   backlog |-> [e \in E |-> <<>>],
   nextOut |-> [e \in E |-> FirstOut(e)],
   idmax |-> MaxId,
   maxIn |-> [e \in E |-> 0],
   perr |-> [e \in E |-> FALSE],
   xclose |-> FALSE,
   unsent |-> [e \in E |-> {}],
   cap |-> 0,
   stuck |-> [e \in E |-> FALSE],
   swr |-> [e \in E |-> [s \in Ids |-> FALSE]],
   rbr |-> [e \in E |-> [s \in Ids |-> FALSE]],
   wx |-> [e \in E |-> [s \in Ids |-> FALSE]],
   rx |-> [e \in E |-> [s \in Ids |-> FALSE]],
   wt |-> [e \in E |-> [s \in Ids |-> "off"]],
   rt |-> [e \in E |-> [s \in Ids |-> "off"]],
   wb |-> [e \in E |-> [s \in Ids |-> FreshW]],
   rb |-> [e \in E |-> [s \in Ids |-> FreshR]],
   written |-> [e \in E |-> [s \in Ids |-> <<>>]],
   readOut |-> [e \in E |-> [s \in Ids |-> <<>>]],
   eof |-> [e \in E |-> [s \in Ids |-> FALSE]]]

Msg(k, s, a, d) == [k |-> k, s |-> s, a |-> a, d |-> d]
Send(S, e, msgs) == [S EXCEPT !.wire[e] = @ \o msgs]
Alive(S) == ~S.perr[0] /\ ~S.perr[1] /\ ~S.xclose

(***************************************************************************)
(* Application-side critical sections                                       *)
(***************************************************************************)
\* `case stream := <-m.enqueueClose` in Multiplexer.enqueue
EnqClose(S, e, s) == [S EXCEPT !.pinc[e][s] = -1, !.pcw[e] = @ \ {s}, !.pcl[e] = @ \cup {s}]
\* `case stream := <-m.enqueueCloseWrite`
EnqCloseWrite(S, e, s) == [S EXCEPT !.pcw[e] = @ \cup {s}]
\* `case increment := <-m.enqueueWindowIncrement`
EnqInc(S, e, s, c) == [S EXCEPT !.pinc[e][s] = (IF @ = -1 THEN 0 ELSE @) + c]

(***************************************************************************)
(* Stream.Write as the code runs it: entry checks, then per pass wait for   *)
(* a readiness token (sendWindowReady), then for a write buffer, send       *)
(* min(window, len) bytes, re-arm the token if window is left.  WRun        *)
(* advances a call in progress as far as it can go without waiting.         *)
(***************************************************************************)
WriteErr(S, e, s) ==      \* the entry checks, in the order of the code
  IF S.ss[e][s].cl THEN "closed" ELSE IF S.ss[e][s].cw THEN "wclosed"
  ELSE IF ~Alive(S) THEN "muxclosed" ELSE IF S.ss[e][s].rcl THEN "rclosed" ELSE ""
RoomFor(S, e) == S.cap = 0 \/ Len(S.wire[e]) < S.cap        \* a write buffer is available
WFin(S, e, s, res) ==
  [S EXCEPT !.wb[e][s].on = FALSE, !.wb[e][s].fin = TRUE, !.wb[e][s].have = FALSE, !.wb[e][s].res = res]

RECURSIVE WRun(_, _, _)
WRun(S, e, s) ==
  LET b == S.wb[e][s]  X == S.ss[e][s] IN
  IF ~b.on THEN S
  ELSE IF b.data = <<>> THEN WFin(S, e, s, "")
  ELSE IF X.cl THEN WFin(S, e, s, "closed")
  ELSE IF X.cw THEN WFin(S, e, s, "wclosed")
  ELSE IF ~Alive(S) THEN WFin(S, e, s, "muxclosed")
  ELSE IF X.rcl THEN WFin(S, e, s, "rclosed")
  ELSE IF ~b.have THEN                                   \* `case <-s.sendWindowReady`
       (IF S.swr[e][s] THEN WRun([S EXCEPT !.swr[e][s] = FALSE, !.wb[e][s].have = TRUE], e, s) ELSE S)
  ELSE IF ~RoomFor(S, e) THEN S                          \* `case writeBuffer = <-writeBufferAvailable`
  ELSE LET w == Min(S.win[e][s], Len(b.data))            \* may be 0 if the token was spurious
           left == S.win[e][s] - w
           T == [S EXCEPT !.win[e][s] = left, !.swr[e][s] = (left > 0),
                          !.written[e][s] = @ \o Take(b.data, w),
                          !.wb[e][s].data = Drop(@, w), !.wb[e][s].cnt = @ + w, !.wb[e][s].have = FALSE]
       IN WRun(Send(T, e, <<Msg("data", s, w, Take(b.data, w))>>), e, s)

\* exit through `case <-writeDeadlineTimer.C` or through the expired check of `case deadline := <-s.writeDeadlineSet`:
\* the token is handed back exactly when it was taken (haveNonZeroSendWindow)
WTimeoutExit(S, e, s) ==
  LET resignal == IF DeadlineBug = "wresignal" THEN TRUE
                  ELSE IF DeadlineBug = "wlose" THEN FALSE ELSE S.wb[e][s].have
      T == IF resignal THEN [S EXCEPT !.swr[e][s] = TRUE] ELSE S
  IN WFin([T EXCEPT !.wx[e][s] = TRUE, !.wt[e][s] = "off"], e, s, "timeout")

WriteBusy(S, e, s) == S.wb[e][s].on \/ S.wb[e][s].fin
DoWStart(S, e, s, data) ==
  LET B == [FreshW EXCEPT !.data = data]
      Done(T, res) == [T EXCEPT !.wb[e][s] = [B EXCEPT !.fin = TRUE, !.res = res]]
      err == WriteErr(S, e, s)
  IN IF err # "" THEN Done(S, err)
     ELSE IF S.wx[e][s] THEN Done(S, "timeout")
     ELSE IF S.wt[e][s] = "fired" THEN Done([S EXCEPT !.wx[e][s] = TRUE, !.wt[e][s] = "off"], "timeout")
     ELSE WRun([S EXCEPT !.wb[e][s] = [B EXCEPT !.on = TRUE]], e, s)
DoWEnd(S, e, s) == [S EXCEPT !.wb[e][s] = FreshW]       \* the caller collects the result

\* SetWriteDeadline: setStreamDeadline by the timer's holder (the caller itself, or the blocked Write through
\* writeDeadlineSet).  mode: "clear" zero time, "past", "far" (future, never reached), "soon" (future, then reached)
SetWDErr(S, e, s) == IF S.ss[e][s].cw THEN "wclosed" ELSE ""
DoSetWD(S, e, s, mode) ==
  IF S.ss[e][s].cw THEN S                                \* timer out of circulation: ErrWriteClosed
  ELSE LET blocked == S.wb[e][s].on
           T0 == [S EXCEPT !.wt[e][s] = "off"]           \* timer.Stop() and drain
           T == IF mode = "clear" THEN [T0 EXCEPT !.wx[e][s] = FALSE]
                ELSE IF mode = "past" THEN [T0 EXCEPT !.wx[e][s] = TRUE]
                ELSE IF mode = "far" THEN [T0 EXCEPT !.wt[e][s] = "armed"]
                ELSE [T0 EXCEPT !.wt[e][s] = IF blocked THEN "armed" ELSE "fired"]
       IN IF ~blocked THEN T
          ELSE IF T.wx[e][s] THEN WTimeoutExit(T, e, s)      \* `if s.writeDeadlineExpired` in the set branch
          ELSE IF mode = "soon" THEN WTimeoutExit(T, e, s)   \* the timer branch, after Reset
          ELSE T

(***************************************************************************)
(* Stream.Read                                                             *)
(***************************************************************************)
RFin(S, e, s, n, d, res) ==
  [S EXCEPT !.rb[e][s].on = FALSE, !.rb[e][s].fin = TRUE, !.rb[e][s].n = n, !.rb[e][s].data = d, !.rb[e][s].res = res]
RRun(S, e, s) ==
  LET b == S.rb[e][s]  X == S.ss[e][s] IN
  IF ~b.on THEN S
  ELSE IF S.rbr[e][s] THEN                               \* `case <-s.receiveBufferReady`
       LET c == Min(b.k, Len(S.rbuf[e][s]))
           d == Take(S.rbuf[e][s], c)
           T == [S EXCEPT !.rbr[e][s] = (Len(S.rbuf[e][s]) - c > 0),
                          !.readOut[e][s] = @ \o d, !.rbuf[e][s] = Drop(@, c)]
           U == IF c = 0 /\ ~ZeroIncBug THEN T ELSE EnqInc(T, e, s, c)
       IN RFin(U, e, s, c, d, "")
  ELSE IF X.rcw \/ X.rcl THEN RFin([S EXCEPT !.eof[e][s] = TRUE], e, s, 0, <<>>, "EOF")
  ELSE IF X.cl THEN RFin(S, e, s, 0, <<>>, "closed")
  ELSE IF ~Alive(S) THEN RFin(S, e, s, 0, <<>>, "muxclosed")
  ELSE S
RTimeoutExit(S, e, s) ==
  LET T == IF DeadlineBug = "rresignal" THEN [S EXCEPT !.rbr[e][s] = TRUE] ELSE S IN
  RFin([T EXCEPT !.rx[e][s] = TRUE, !.rt[e][s] = "off"], e, s, 0, <<>>, "timeout")
ReadBusy(S, e, s) == S.rb[e][s].on \/ S.rb[e][s].fin
DoRStart(S, e, s, k) ==
  LET B == [FreshR EXCEPT !.k = k]
      Done(T, res) == [T EXCEPT !.rb[e][s] = [B EXCEPT !.fin = TRUE, !.res = res]]
  IN IF S.ss[e][s].cl THEN Done(S, "closed")
     ELSE IF ~Alive(S) THEN Done(S, "muxclosed")
     ELSE IF S.rx[e][s] THEN Done(S, "timeout")
     ELSE IF S.rt[e][s] = "fired" THEN Done([S EXCEPT !.rx[e][s] = TRUE, !.rt[e][s] = "off"], "timeout")
     ELSE RRun([S EXCEPT !.rb[e][s] = [B EXCEPT !.on = TRUE]], e, s)
DoREnd(S, e, s) == [S EXCEPT !.rb[e][s] = FreshR]
SetRDErr(S, e, s) == IF S.ss[e][s].cl THEN "closed" ELSE ""
DoSetRD(S, e, s, mode) ==
  IF S.ss[e][s].cl THEN S
  ELSE LET blocked == S.rb[e][s].on
           T0 == [S EXCEPT !.rt[e][s] = "off"]
           T == IF mode = "clear" THEN [T0 EXCEPT !.rx[e][s] = FALSE]
                ELSE IF mode = "past" THEN [T0 EXCEPT !.rx[e][s] = TRUE]
                ELSE IF mode = "far" THEN [T0 EXCEPT !.rt[e][s] = "armed"]
                ELSE [T0 EXCEPT !.rt[e][s] = IF blocked THEN "armed" ELSE "fired"]
       IN IF ~blocked THEN T
          ELSE IF T.rx[e][s] THEN RTimeoutExit(T, e, s)
          ELSE IF mode = "soon" THEN RTimeoutExit(T, e, s)
          ELSE T

\* The deadline-bounded calls the driver issues for an ordinary script step:
\* SetXDeadline(future); X; SetXDeadline(zero) -- the deadline passes if the call blocks.
DoWriteBounded(S, e, s, data) ==
  LET A == DoWStart(DoSetWD(S, e, s, "far"), e, s, data)
      B == IF A.wb[e][s].on THEN WTimeoutExit(A, e, s) ELSE A
  IN DoSetWD(B, e, s, "clear")
DoReadBounded(S, e, s, k) ==
  LET A == DoRStart(DoSetRD(S, e, s, "far"), e, s, k)
      B == IF A.rb[e][s].on THEN RTimeoutExit(A, e, s) ELSE A
  IN DoSetRD(B, e, s, "clear")

\* blocked calls of one stream / of all streams proceed after an event
Settle1(S, e, s) == RRun(WRun(S, e, s), e, s)
RECURSIVE SettleSet(_, _)
SettleSet(S, P) ==
  IF P = {} THEN S ELSE LET p == CHOOSE q \in P : TRUE IN SettleSet(Settle1(S, p[1], p[2]), P \ {p})
SettleAll(S) == SettleSet(S, {p \in E \X Ids : S.wb[p[1]][p[2]].on \/ S.rb[p[1]][p[2]].on})

\* Stream.close(true): closeWrite(false), close(closed), enqueue close, deregister; blocked calls return
\* (closeWrite runs first and waits for the writer, so a blocked Write returns ErrWriteClosed; a blocked Read
\* then returns net.ErrClosed)
LocalClose(S, e, s) ==
  IF S.ss[e][s].cl THEN S
  ELSE LET A == WRun([S EXCEPT !.ss[e][s].cw = TRUE], e, s)
           B == EnqClose([A EXCEPT !.ss[e][s].cl = TRUE, !.ss[e][s].reg = FALSE], e, s)
       IN RRun(B, e, s)

\* OpenStream, first half: register, take a write buffer, encode the open message
\* identifiers are handed out in steps of 2; once `MaxUint64 - next < 2` the counter is set to 0 and every later
\* OpenStream fails with "local stream identifiers exhausted"
Exhausted(S, e) == S.nextOut[e] = 0
CanOpen(S, e) == S.nextOut[e] # 0 /\ S.nextOut[e] <= MaxId
NextAfter(S, s) == IF S.idmax - s < 2 THEN 0 ELSE s + 2
DoOpen(S, e) ==
  LET s == S.nextOut[e] IN
  Send([S EXCEPT !.ss[e][s].reg = TRUE, !.nextOut[e] = NextAfter(S, s)], e, <<Msg("open", s, S.w, <<>>)>>)

\* The same in two steps: allocate (under the openOrder semaphore), then -- once a write buffer is available --
\* queue the open message.  Between the two the call can be cancelled (DoOpenCleanup).  Before the repair the
\* semaphore did not exist and concurrent opens could queue their messages in any order (OpenRaceBug).
DoOpenAlloc(S, e) ==
  LET s == S.nextOut[e] IN [S EXCEPT !.ss[e][s].reg = TRUE, !.nextOut[e] = NextAfter(S, s), !.unsent[e] = @ \cup {s}]
DoOpenSend(S, e, s) == Send([S EXCEPT !.unsent[e] = @ \ {s}], e, <<Msg("open", s, S.w, <<>>)>>)

\* Stream.close(false): as LocalClose, but no close message is queued
LocalCloseSilent(S, e, s) ==
  IF S.ss[e][s].cl THEN S
  ELSE LET A == WRun([S EXCEPT !.ss[e][s].cw = TRUE], e, s)
       IN RRun([A EXCEPT !.ss[e][s].cl = TRUE, !.ss[e][s].reg = FALSE], e, s)
\* OpenStream's deferred cleanup when the stream was not established: `stream.close(sentOpenMessage)` --
\* a close message only if the open message was sent (the peer rejects messages for identifiers it never saw opened)
DoOpenCleanup(S, e, s) ==
  IF s \in S.unsent[e]
  THEN LET T == [S EXCEPT !.unsent[e] = @ \ {s}] IN
       IF OpenCleanupBug THEN LocalClose(T, e, s) ELSE LocalCloseSilent(T, e, s)
  ELSE LocalClose(S, e, s)
\* a later identifier than expected was observed: the identifiers in between were consumed by opens that
\* failed before their open message was sent
SyncNext(S, e, s) ==
  IF S.nextOut[e] # 0 /\ s > S.nextOut[e] /\ IsOut(e, s) THEN [S EXCEPT !.nextOut[e] = s] ELSE S

\* OpenStream, second half: which case of the final select is ready
Allocated(S, e, s) == IsOut(e, s) /\ (S.nextOut[e] = 0 \/ s < S.nextOut[e])
OpenPending(S, e, s) == Allocated(S, e, s) /\ s \notin S.unsent[e] /\ S.ss[e][s].reg /\ ~S.ss[e][s].api /\ ~S.ss[e][s].cl
OpenOutcome(S, e, s) == IF S.ss[e][s].est THEN "ok" ELSE IF S.ss[e][s].rcl THEN "rejected" ELSE "pending"
DoOpenReturn(S, e, s) ==   \* established: hand the stream out; rejected: the deferred cleanup
  IF S.ss[e][s].est THEN [S EXCEPT !.ss[e][s].api = TRUE] ELSE DoOpenCleanup(S, e, s)
DoCancelOpen(S, e, s) == DoOpenCleanup(S, e, s)   \* ctx.Done() while waiting for a write buffer or for the accept
OpenWaitsForBuffer(S, e, s) == s \in S.unsent[e]
\* OpenStream called with a context that is already cancelled: the select statements pick at random, so the call
\* gives up (a) before allocating, (b) after allocating but before the open message, (c) after the open message
DoOpenCancelledB(S, e) == LET s == S.nextOut[e] IN DoOpenCleanup(DoOpenAlloc(S, e), e, s)
DoOpenCancelledC(S, e) == LET s == S.nextOut[e] IN DoOpenCleanup(DoOpen(S, e), e, s)

\* acceptOneStream
CanAccept(S, e) == S.backlog[e] # <<>>
AcceptHead(S, e) == Head(S.backlog[e])
DoAcceptOK(S, e) ==        \* write buffer case: close(established), encode accept
  LET s == AcceptHead(S, e) IN
  Send([S EXCEPT !.backlog[e] = Tail(@), !.ss[e][s].est = TRUE, !.ss[e][s].api = TRUE], e,
       <<Msg("accept", s, S.w, <<>>)>>)
DoAcceptStale(S, e) ==     \* remoteClosed case: errStaleInboundStream, deferred stream.Close()
  LET s == AcceptHead(S, e) IN LocalClose([S EXCEPT !.backlog[e] = Tail(@)], e, s)

\* Stream.CloseWrite / Stream.Close (both idempotent)
DoCloseWrite(S, e, s) ==
  IF S.ss[e][s].cw THEN S ELSE WRun(EnqCloseWrite([S EXCEPT !.ss[e][s].cw = TRUE], e, s), e, s)
DoClose(S, e, s) == LocalClose(S, e, s)

\* Multiplexer.Close
DoCloseMux(S, e) == [S EXCEPT !.xclose = TRUE]

(***************************************************************************)
(* Multiplexer.enqueue obtains a write buffer and drains the three maps:    *)
(* increments, then close-writes, then closes.                              *)
(***************************************************************************)
RECURSIVE SetSeq(_)
SetSeq(T) == IF T = {} THEN <<>> ELSE LET x == CHOOSE y \in T : \A z \in T : y <= z IN <<x>> \o SetSeq(T \ {x})
IncSet(S, e) == {s \in Ids : S.pinc[e][s] # -1}
CanFlush(S, e) == IncSet(S, e) # {} \/ S.pcw[e] # {} \/ S.pcl[e] # {}
FlushMsgs(S, e) ==
  LET qi == SetSeq(IncSet(S, e))  qw == SetSeq(S.pcw[e])  qc == SetSeq(S.pcl[e]) IN
     [i \in 1..Len(qi) |-> Msg("inc", qi[i], S.pinc[e][qi[i]], <<>>)]
  \o [i \in 1..Len(qw) |-> Msg("cw", qw[i], 0, <<>>)]
  \o [i \in 1..Len(qc) |-> Msg("close", qc[i], 0, <<>>)]
DoFlush(S, e) ==
  Send([S EXCEPT !.pinc[e] = [s \in Ids |-> -1], !.pcw[e] = {}, !.pcl[e] = {}], e, FlushMsgs(S, e))

(***************************************************************************)
(* Multiplexer.read: one message, with exactly the validation rules of the  *)
(* code.  RecvVerdict names the error (or "" / "discard").                  *)
(***************************************************************************)
RecvVerdict(S, e, m) ==
  LET s == m.s
      outb == IsOut(e, s)
      X == S.ss[e][s]
      \* as coded: once the local identifiers are exhausted (counter 0) no outbound identifier is out of range any more
      rangeBad == IF outb THEN (S.nextOut[e] # 0 /\ s >= S.nextOut[e]) ELSE s > S.maxIn[e]
  IN
  IF m.k = "hb" THEN "discard"                 \* heartbeat: strobes the heartbeats channel (MuxHeart), no stream state
  ELSE IF s < 1 \/ s > MaxId THEN "bad stream identifier"
  ELSE IF m.k = "open" THEN
       (IF outb THEN "outbound stream identifier used by remote to open stream"
        ELSE IF s <= S.maxIn[e] THEN "remote stream identifiers not monotonically increasing"
        ELSE "")
  ELSE IF m.k = "accept" THEN
       (IF ~outb THEN "inbound stream identifier used by remote to accept stream"
        ELSE IF rangeBad THEN "message received for unused outbound stream identifier"
        ELSE IF ~X.reg THEN "discard"
        ELSE IF X.est THEN "remote accepted the same stream twice"
        ELSE IF X.rcl THEN "remote accepted stream after closing it"
        ELSE "")
  ELSE IF rangeBad THEN "message received for unopened or unused stream identifier"
  ELSE IF m.k = "data" THEN
       (IF m.a = 0 THEN "zero-length data received"
        ELSE IF ~X.reg THEN "discard"
        ELSE IF ~X.est THEN "data received for partially established stream"
        ELSE IF X.rcw THEN "data received for write-closed stream"
        ELSE IF X.rcl THEN "data received for closed stream"
        ELSE IF Len(S.rbuf[e][s]) + m.a > S.w THEN "remote violated stream receive window"
        ELSE "")
  ELSE IF m.k = "inc" THEN
       (IF m.a = 0 THEN "zero-valued window increment received"
        ELSE IF ~X.reg THEN "discard"
        ELSE IF outb /\ ~X.est THEN "window increment received for partially established outbound stream"
        ELSE IF X.rcl THEN "window increment received for closed stream"
        ELSE "")
  ELSE IF m.k = "cw" THEN
       (IF ~X.reg THEN "discard"
        ELSE IF outb /\ ~X.est THEN "close write received for partially established outbound stream"
        ELSE IF X.rcl THEN "close write received for closed stream"
        ELSE IF X.rcw THEN "close write received for the same stream twice"
        ELSE "")
  ELSE IF m.k = "close" THEN
       (IF ~X.reg THEN "discard"
        ELSE IF X.rcl THEN "close received the same stream twice"
        ELSE "")
  ELSE "received unknown message kind"

\* effect of an accepted message on the receiver e (tokens as the reader goroutine signals them; sending a
\* token into a channel that already holds one blocks the reader goroutine for good)
RecvApply(S, e, m) ==
  LET s == m.s IN
  IF m.k = "open" THEN
       (IF Len(S.backlog[e]) = S.b                        \* backlog full: reject with a close message
        THEN EnqClose([S EXCEPT !.maxIn[e] = s], e, s)
        ELSE [S EXCEPT !.maxIn[e] = s, !.ss[e][s].reg = TRUE, !.win[e][s] = m.a, !.swr[e][s] = (m.a > 0),
                       !.backlog[e] = Append(@, s)])
  ELSE IF m.k = "accept" THEN [S EXCEPT !.ss[e][s].est = TRUE, !.win[e][s] = m.a, !.swr[e][s] = (m.a > 0)]
  ELSE IF m.k = "data" THEN
       (IF S.rbuf[e][s] # <<>> THEN [S EXCEPT !.rbuf[e][s] = @ \o m.d]
        ELSE IF S.rbr[e][s] THEN [S EXCEPT !.rbuf[e][s] = @ \o m.d, !.stuck[e] = TRUE]
        ELSE [S EXCEPT !.rbuf[e][s] = @ \o m.d, !.rbr[e][s] = TRUE])
  ELSE IF m.k = "inc" THEN
       (IF S.win[e][s] # 0 THEN [S EXCEPT !.win[e][s] = @ + m.a]
        ELSE IF S.swr[e][s] THEN [S EXCEPT !.win[e][s] = m.a, !.stuck[e] = TRUE]
        ELSE [S EXCEPT !.win[e][s] = m.a, !.swr[e][s] = TRUE])
  ELSE IF m.k = "cw" THEN [S EXCEPT !.ss[e][s].rcw = TRUE]
  ELSE [S EXCEPT !.ss[e][s].rcl = TRUE]

\* the receiver e processes message m (already removed from the wire); blocked calls then proceed
RecvMsg(S, e, m) ==
  LET v == RecvVerdict(S, e, m) IN
  IF v = "" THEN Settle1(RecvApply(S, e, m), e, m.s)
  ELSE IF v = "discard" THEN S
  ELSE SettleAll([S EXCEPT !.perr[e] = TRUE])

CanRecv(S, e) == S.wire[Peer(e)] # <<>> /\ ~S.stuck[e]
DoRecv(S, e) == RecvMsg([S EXCEPT !.wire[Peer(e)] = Tail(@)], e, Head(S.wire[Peer(e)]))

(***************************************************************************)
(* Sender-side wire rules (what a conforming sender may put on the wire).   *)
(* Used as a model invariant and, on tapped real traffic, as conformance    *)
(* information only: the verdict of C24 is the real receiver's.             *)
(***************************************************************************)
SenderRule(S, e, m) ==
  LET s == m.s IN
  /\ (m.k = "hb" \/ (s >= 1 /\ s <= MaxId))
  /\ CASE m.k = "open"   -> IsOut(e, s)
       [] m.k = "accept" -> ~IsOut(e, s)
       [] m.k = "data"   -> m.a > 0 /\ (m.d # <<>> => m.a = Len(m.d))   \* the tap may omit the payload
       [] m.k = "inc"    -> m.a > 0
       [] OTHER          -> TRUE

(***************************************************************************)
(* Properties.  They read only the observation part of S (bytes written,    *)
(* bytes read, end-of-stream seen, local close flags, receiver verdicts),   *)
(* so the same operators are evaluated on model states and on states        *)
(* reconstructed from recorded calls of the real code.                      *)
(***************************************************************************)
IsPrefixSeq(a, b) == Len(a) <= Len(b) /\ \A i \in 1..Len(a) : a[i] = b[i]

\* C23: bytes read are a prefix of the bytes the peer wrote on the same stream
C23_InOrderAt(S, e, s) == IsPrefixSeq(S.readOut[e][s], S.written[Peer(e)][s])
C23_InOrder(S) == \A e \in E, s \in Ids : C23_InOrderAt(S, e, s)
\* C23: end-of-stream only after the peer (half-)closed, and after all its data
C23_EOFAt(S, e, s) ==
  S.eof[e][s] => /\ S.ss[Peer(e)][s].cw \/ S.ss[Peer(e)][s].cl
                 /\ S.readOut[e][s] = S.written[Peer(e)][s]
C23_EOFComplete(S) == \A e \in E, s \in Ids : C23_EOFAt(S, e, s)
\* C23: every byte read on a stream was written on that stream
C23_NoCrossTalkAt(S, e, s) == Range(S.readOut[e][s]) \subseteq Range(S.written[Peer(e)][s])
C23_NoCrossTalk(S) == \A e \in E, s \in Ids : C23_NoCrossTalkAt(S, e, s)
\* C24: no reader declared a protocol violation
C24_NoViolation(S) == ~S.perr[0] /\ ~S.perr[1]
\* flow control: the receive buffer never exceeds the advertised window
WindowRespected(S) == \A e \in E, s \in Ids : Len(S.rbuf[e][s]) <= S.w
\* readiness tokens: present exactly when there is window / buffered data (unless a writer holds the token),
\* and no reader goroutine is stuck on a full token channel
TokensOK(S) ==
  /\ ~S.stuck[0] /\ ~S.stuck[1]
  /\ \A e \in E, s \in Ids :
       /\ S.swr[e][s] => S.win[e][s] > 0
       /\ S.rbr[e][s] <=> S.rbuf[e][s] # <<>>
       /\ (S.win[e][s] > 0 /\ ~S.wb[e][s].have) => S.swr[e][s]
\* everything on the wire obeys the sender rules
WireConforms(S) == \A e \in E : \A i \in DOMAIN S.wire[e] : SenderRule(S, e, S.wire[e][i])
====
