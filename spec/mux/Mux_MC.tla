---- MODULE Mux_MC ----
(***************************************************************************)
(* Model-checking wrapper of Mux: the application may issue at most Budget  *)
(* API calls (open, cancel, accept, write, read, close-write, close) in any *)
(* interleaving with the background goroutines (enqueue/flush, reader).     *)
(* hist records the script (API calls and message deliveries); it is hidden *)
(* by the VIEW and printed once per terminal state as a BEHAVIOUR line that *)
(* the driver replays on two real multiplexers.                             *)
(***************************************************************************)
EXTENDS Mux, Json

CONSTANTS W, B,        \* receive window, accept backlog
          Openers,     \* endpoints whose application opens streams
          MaxWrite,    \* largest Write argument
          MaxRead,     \* largest Read buffer
          Budget,      \* number of API calls per behaviour
          WireCap,     \* messages in flight per direction (write buffers + carrier)
          DoExport,    \* TRUE: print a BEHAVIOUR line at every terminal state
          OpenRaceBug, \* TRUE: OpenStream as it was before the repair (allocation and queuing not atomic)
          Acts,        \* API calls the application may issue: subset of {"open","accept","cancel","write","read","cw","close",
                       \*   "wstart","rstart","setwd","setrd"}  (write/read are deadline-bounded, wstart/rstart may stay blocked)
          Modes,       \* deadline modes for setwd/setrd: subset of {"clear","past","far","soon"}
          DlEnds,      \* endpoints that may issue wstart / rstart / setwd / setrd
          PreEst,      \* TRUE: start with stream 1 opened by endpoint 0 and accepted by endpoint 1
          BlockOnRoom, \* TRUE: a Write that finds no write buffer blocks (cap = WireCap) instead of not being issued
          IdTop,       \* TRUE: MaxId stands for the end of the identifier space (the driver positions the real
                       \*   multiplexers there); FALSE: MaxId merely bounds the number of streams
          TrackKinds   \* kinds of state-preserving calls remembered in the view (so that exported behaviours contain them)

VARIABLES st, ops, hist, kinds
vars == <<st, ops, hist, kinds>>
view == <<st, ops, kinds>>

MinusOne == -1      \* cfg files cannot write negative numbers: `W <- MinusOne` configures a negative window
Byte(e, s, i) == 100 * s + 10 * e + i
Step(op, e, s, n) == [op |-> op, e |-> e, s |-> s, n |-> n]
KE(name, e) == IF e = 0 THEN name \o "0" ELSE name \o "1"
Room(e) == Len(st.wire[e]) < WireCap
\* kinds: calls that leave the protocol state unchanged would otherwise never appear in an exported behaviour
\*   "zr" zero-length read with data buffered   "zw" zero-length write on a writable stream
\*   "rt" read that blocks until its deadline   "wt" write that blocks until its deadline (window exhausted)
ApiK(S, h, k) == /\ st' = S /\ ops' = ops + 1 /\ hist' = Append(hist, h) /\ kinds' = kinds \cup (k \cap TrackKinds)
Api(S, h) == ApiK(S, h, {})
Bg(S, h) == /\ st' = S /\ ops' = ops /\ hist' = Append(hist, h) /\ UNCHANGED kinds
Quiet(S) == /\ st' = S /\ UNCHANGED <<ops, hist, kinds>>

ModeNo(m) == CASE m = "clear" -> 0 [] m = "past" -> 1 [] m = "far" -> 2 [] OTHER -> 3
Base == [InitS(W, B) EXCEPT !.cap = IF BlockOnRoom THEN WireCap ELSE 0]
Established == DoOpenReturn(DoRecv(DoAcceptOK(DoRecv(DoOpen(Base, 0), 1), 1), 0), 0, 1)
EstablishedHist == <<Step("open", 0, 1, 0), Step("recv", 1, 0, 0), Step("accept", 1, 0, 0),
                     Step("recv", 0, 0, 0), Step("openret", 0, 1, 0)>>
Init == /\ st = (IF PreEst THEN Established ELSE Base)
        /\ hist = (IF PreEst THEN EstablishedHist ELSE <<>>)
        /\ ops = 0 /\ kinds = {}

\* OpenStream after exhaustion fails at once ("openx" in Acts; kind "xo<e>" keeps it in the export)
OpenExhausted(e) == /\ "openx" \in Acts /\ e \in Openers /\ Exhausted(st, e)
                    /\ ApiK(st, Step("open", e, 0, 0), {KE("xo", e)})
Open(e) == /\ "open" \in Acts /\ e \in Openers /\ CanOpen(st, e)
           /\ IF OpenRaceBug THEN Api(DoOpenAlloc(st, e), Step("open", e, st.nextOut[e], 0))
              ELSE Room(e) /\ Api(DoOpen(st, e), Step("open", e, st.nextOut[e], 0))
OpenSend(e, s) == /\ s \in st.unsent[e] /\ Room(e) /\ Quiet(DoOpenSend(st, e, s))
OpenReturn(e, s) == /\ OpenPending(st, e, s) /\ OpenOutcome(st, e, s) # "pending"
                    /\ Bg(DoOpenReturn(st, e, s), Step("openret", e, s, 0))
CancelOpen(e, s) == /\ "cancel" \in Acts
                    /\ \/ OpenPending(st, e, s) /\ OpenOutcome(st, e, s) = "pending"
                       \/ OpenWaitsForBuffer(st, e, s)
                    /\ Api(DoCancelOpen(st, e, s), Step("cancel", e, s, 0))
\* OpenStream while every write buffer is in flight: the call holds the openOrder semaphore and waits ("openb")
OpenBlocked(e) == /\ "openb" \in Acts /\ e \in Openers /\ CanOpen(st, e) /\ ~Room(e) /\ st.unsent[e] = {}
                  /\ Api(DoOpenAlloc(st, e), Step("open", e, st.nextOut[e], 0))
\* OpenStream with an already cancelled context ("openc"); kind "oc<e>" keeps the state-preserving outcome in the export
OpenCancelled(e) ==
  /\ "openc" \in Acts /\ e \in Openers /\ st.unsent[e] = {}
  /\ \/ ApiK(st, Step("openc", e, 0, 0), {KE("oc", e)})
     \/ CanOpen(st, e) /\ ApiK(DoOpenCancelledB(st, e), Step("openc", e, 0, 0), {KE("oc", e)})
     \/ CanOpen(st, e) /\ Room(e) /\ ApiK(DoOpenCancelledC(st, e), Step("openc", e, 0, 0), {KE("oc", e)})

\* AcceptStream loops over stale entries; when the backlog runs empty it blocks (the driver's context then expires)
RECURSIVE AcceptSet(_, _)
AcceptSet(S, e) ==
  IF ~CanAccept(S, e) THEN {S}
  ELSE {DoAcceptOK(S, e)} \cup (IF S.ss[e][AcceptHead(S, e)].rcl THEN AcceptSet(DoAcceptStale(S, e), e) ELSE {})
Accept(e) == /\ "accept" \in Acts /\ CanAccept(st, e) /\ Room(e)
             /\ \E T \in AcceptSet(st, e) : Api(T, Step("accept", e, 0, 0))

Payload(e, s, n) == LET base == Len(st.written[e][s]) + Len(st.wb[e][s].data) IN [i \in 1..n |-> Byte(e, s, base + i)]
\* would the call take a write buffer right away?
WouldSend(e, s, n) == n > 0 /\ WriteErr(st, e, s) = "" /\ ~st.wx[e][s] /\ st.wt[e][s] # "fired" /\ st.swr[e][s]

\* kinds "wfollow"/"rfollow": the stream is used again after a blocked call was ended by a deadline and the
\* deadline was cleared (a state-preserving continuation on a conforming implementation)
\* (kinds carry the endpoint: "wsp0", "wfollow1", ...)
WFollow(e, s) == IF kinds \cap {KE("wsp", e), KE("wss", e)} # {} /\ ~st.wx[e][s] THEN {KE("wfollow", e)} ELSE {}
RFollow(e, s) == IF kinds \cap {KE("rsp", e), KE("rss", e)} # {} /\ ~st.rx[e][s] THEN {KE("rfollow", e)} ELSE {}

\* deadline-bounded Write: SetWriteDeadline(future); Write; SetWriteDeadline(zero)
Write(e, s, n) ==
  /\ "write" \in Acts /\ st.ss[e][s].api /\ ~WriteBusy(st, e, s)
  /\ (WouldSend(e, s, n) /\ ~BlockOnRoom) => Room(e)
  /\ LET A == DoWriteBounded(st, e, s, Payload(e, s, n)) IN
     ApiK(DoWEnd(A, e, s), Step("write", e, s, n),
          (IF n = 0 /\ A.wb[e][s].res = "" THEN {"zw"} ELSE IF A.wb[e][s].res = "timeout" THEN {"wt"} ELSE {})
          \cup WFollow(e, s))

\* deadline-bounded Read
Read(e, s, k) ==
  /\ "read" \in Acts /\ st.ss[e][s].api /\ ~ReadBusy(st, e, s)
  /\ LET A == DoReadBounded(st, e, s, k) IN
     ApiK(DoREnd(A, e, s), Step("read", e, s, k),
          (IF k = 0 /\ A.rb[e][s].res = "" THEN {"zr"} ELSE IF A.rb[e][s].res = "timeout" THEN {"rt"} ELSE {})
          \cup RFollow(e, s))

\* Write / Read without a deadline: the call may stay blocked; its return is collected by wend / rend
WStart(e, s, n) ==
  /\ "wstart" \in Acts /\ e \in DlEnds /\ st.ss[e][s].api /\ ~WriteBusy(st, e, s)
  /\ (WouldSend(e, s, n) /\ ~BlockOnRoom) => Room(e)
  /\ ApiK(DoWStart(st, e, s, Payload(e, s, n)), Step("wstart", e, s, n), WFollow(e, s))
WEnd(e, s) == st.wb[e][s].fin /\ Bg(DoWEnd(st, e, s), Step("wend", e, s, 0))
RStart(e, s, k) ==
  /\ "rstart" \in Acts /\ e \in DlEnds /\ st.ss[e][s].api /\ ~ReadBusy(st, e, s)
  /\ ApiK(DoRStart(st, e, s, k), Step("rstart", e, s, k), RFollow(e, s))
REnd(e, s) == st.rb[e][s].fin /\ Bg(DoREnd(st, e, s), Step("rend", e, s, 0))

\* SetWriteDeadline / SetReadDeadline at any time, in particular while a call is blocked
\* kinds "wsp"/"wss"/"rsp"/"rss": a blocked Write/Read was ended by a deadline in the past / by one that passed;
\* afterwards the protocol state equals states reachable without it, so the kind keeps these paths in the export
SetWD(e, s, m) ==
  /\ "setwd" \in Acts /\ e \in DlEnds /\ st.ss[e][s].api
  /\ LET T == DoSetWD(st, e, s, m) IN
     ApiK(T, Step("setwd", e, s, ModeNo(m)),
          IF st.wb[e][s].on /\ T.wb[e][s].fin THEN (IF m = "past" THEN {KE("wsp", e)} ELSE {KE("wss", e)}) ELSE {})
SetRD(e, s, m) ==
  /\ "setrd" \in Acts /\ e \in DlEnds /\ st.ss[e][s].api
  /\ LET T == DoSetRD(st, e, s, m) IN
     ApiK(T, Step("setrd", e, s, ModeNo(m)),
          IF st.rb[e][s].on /\ T.rb[e][s].fin THEN (IF m = "past" THEN {KE("rsp", e)} ELSE {KE("rss", e)}) ELSE {})

CloseWrite(e, s) == /\ "cw" \in Acts /\ st.ss[e][s].api /\ ~st.ss[e][s].cw
                    /\ Api(DoCloseWrite(st, e, s), Step("cw", e, s, 0))
Close(e, s) == /\ "close" \in Acts /\ st.ss[e][s].api /\ ~st.ss[e][s].cl
               /\ Api(DoClose(st, e, s), Step("close", e, s, 0))

Flush(e) == /\ CanFlush(st, e) /\ Room(e) /\ Quiet(DoFlush(st, e))
Recv(e) == /\ CanRecv(st, e) /\ Bg(DoRecv(st, e), Step("recv", e, 0, 0))

\* one top-level disjunct per action so that TLC reports coverage per action
Can == Alive(st)
More == Alive(st) /\ ops < Budget
NRecv == Can /\ \E e \in E : Recv(e)
NFlush == Can /\ \E e \in E : Flush(e)
NOpenReturn == Can /\ \E e \in E, s \in Ids : OpenReturn(e, s)
NOpenSend == Can /\ \E e \in E, s \in Ids : OpenSend(e, s)
NOpen == More /\ \E e \in E : Open(e)
NOpenExhausted == More /\ \E e \in E : OpenExhausted(e)
NOpenBlocked == More /\ \E e \in E : OpenBlocked(e)
NOpenCancelled == More /\ \E e \in E : OpenCancelled(e)
NAccept == More /\ \E e \in E : Accept(e)
NCancelOpen == More /\ \E e \in E, s \in Ids : CancelOpen(e, s)
NCloseWrite == More /\ \E e \in E, s \in Ids : CloseWrite(e, s)
NClose == More /\ \E e \in E, s \in Ids : Close(e, s)
NWrite == More /\ \E e \in E, s \in Ids, n \in 0..MaxWrite : Write(e, s, n)
NRead == More /\ \E e \in E, s \in Ids, k \in 0..MaxRead : Read(e, s, k)
NWStart == More /\ \E e \in E, s \in Ids, n \in 1..MaxWrite : WStart(e, s, n)
NRStart == More /\ \E e \in E, s \in Ids, k \in 1..MaxRead : RStart(e, s, k)
NWEnd == Can /\ \E e \in E, s \in Ids : WEnd(e, s)
NREnd == Can /\ \E e \in E, s \in Ids : REnd(e, s)
NSetWD == More /\ \E e \in E, s \in Ids, m \in Modes : SetWD(e, s, m)
NSetRD == More /\ \E e \in E, s \in Ids, m \in Modes : SetRD(e, s, m)
Next == \/ NRecv \/ NFlush \/ NOpenReturn \/ NOpenSend \/ NOpen \/ NAccept \/ NCancelOpen
        \/ NCloseWrite \/ NClose \/ NWrite \/ NRead
        \/ NOpenExhausted \/ NOpenBlocked \/ NOpenCancelled \/ NWStart \/ NRStart \/ NWEnd \/ NREnd \/ NSetWD \/ NSetRD

Spec == Init /\ [][Next]_vars

\* ---- invariants of the design (must hold on the model: leg D) ----
InvInOrder == C23_InOrder(st)
InvEOFComplete == C23_EOFComplete(st)
InvNoCrossTalk == C23_NoCrossTalk(st)
InvNoViolation == C24_NoViolation(st)
InvWindow == WindowRespected(st)
InvWire == WireConforms(st)
InvTokens == TokensOK(st)

\* ---- behaviour export ----
RECURSIVE SetSeqS(_)
SetSeqS(T) == IF T = {} THEN <<>> ELSE LET x == CHOOSE y \in T : TRUE IN <<x>> \o SetSeqS(T \ {x})
Terminal ==
  /\ ops = Budget
  /\ \A e \in E : ~CanRecv(st, e) /\ ~CanFlush(st, e) /\ st.unsent[e] = {}
  /\ \A e \in E, s \in Ids : ~(OpenPending(st, e, s) /\ OpenOutcome(st, e, s) # "pending")
  /\ \A e \in E, s \in Ids : ~st.wb[e][s].fin /\ ~st.rb[e][s].fin
Export == (DoExport /\ Terminal) =>
  PrintT(<<"BEHAVIOUR", ToJson([w |-> W, b |-> B, steps |-> hist, kinds |-> SetSeqS(kinds), idtop |-> IF IdTop THEN MaxId ELSE 0])>>)
====
