---- MODULE Mux_MC ----
(***************************************************************************)
(* Model-checking wrapper of Mux: the application may issue at most Budget  *)
(* API calls (open, cancel, accept, write, read, close-write, close) in any *)
(* interleaving with the background goroutines (enqueue/flush, reader).     *)
(* hist records the script (API calls and message deliveries); it is hidden *)
(* by the VIEW and printed once per terminal state as a BEHAVIOUR line that *)
(* the driver replays on two real multiplexers.                             *)
(***************************************************************************)
EXTENDS Mux, Json

CONSTANTS W, B,        \* receive window, accept backlog
          Openers,     \* endpoints whose application opens streams
          MaxWrite,    \* largest Write argument
          MaxRead,     \* largest Read buffer
          Budget,      \* number of API calls per behaviour
          WireCap,     \* messages in flight per direction (write buffers + carrier)
          DoExport,    \* TRUE: print a BEHAVIOUR line at every terminal state
          OpenRaceBug, \* TRUE: OpenStream as it was before the repair (allocation and queuing not atomic)
          TrackKinds   \* kinds of state-preserving calls remembered in the view (so that exported behaviours contain them)

VARIABLES st, ops, hist, kinds
vars == <<st, ops, hist, kinds>>
view == <<st, ops, kinds>>

Byte(e, s, i) == 100 * s + 10 * e + i
Step(op, e, s, n) == [op |-> op, e |-> e, s |-> s, n |-> n]
Room(e) == Len(st.wire[e]) < WireCap
\* kinds: calls that leave the protocol state unchanged would otherwise never appear in an exported behaviour
\*   "zr" zero-length read with data buffered   "zw" zero-length write on a writable stream
\*   "rt" read that blocks until its deadline   "wt" write that blocks until its deadline (window exhausted)
ApiK(S, h, k) == /\ st' = S /\ ops' = ops + 1 /\ hist' = Append(hist, h) /\ kinds' = kinds \cup (k \cap TrackKinds)
Api(S, h) == ApiK(S, h, {})
Bg(S, h) == /\ st' = S /\ ops' = ops /\ hist' = Append(hist, h) /\ UNCHANGED kinds
Quiet(S) == /\ st' = S /\ UNCHANGED <<ops, hist, kinds>>

Init == st = InitS(W, B) /\ ops = 0 /\ hist = <<>> /\ kinds = {}

Open(e) == /\ e \in Openers /\ CanOpen(st, e)
           /\ IF OpenRaceBug THEN Api(DoOpenAlloc(st, e), Step("open", e, st.nextOut[e], 0))
              ELSE Room(e) /\ Api(DoOpen(st, e), Step("open", e, st.nextOut[e], 0))
OpenSend(e, s) == /\ s \in st.unsent[e] /\ Room(e) /\ Quiet(DoOpenSend(st, e, s))
OpenReturn(e, s) == /\ OpenPending(st, e, s) /\ OpenOutcome(st, e, s) # "pending"
                    /\ Bg(DoOpenReturn(st, e, s), Step("openret", e, s, 0))
CancelOpen(e, s) == /\ OpenPending(st, e, s) /\ OpenOutcome(st, e, s) = "pending"
                    /\ Api(DoCancelOpen(st, e, s), Step("cancel", e, s, 0))

\* AcceptStream loops over stale entries; when the backlog runs empty it blocks (the driver's context then expires)
RECURSIVE AcceptSet(_, _)
AcceptSet(S, e) ==
  IF ~CanAccept(S, e) THEN {S}
  ELSE {DoAcceptOK(S, e)} \cup (IF S.ss[e][AcceptHead(S, e)].rcl THEN AcceptSet(DoAcceptStale(S, e), e) ELSE {})
Accept(e) == /\ CanAccept(st, e) /\ Room(e)
             /\ \E T \in AcceptSet(st, e) : Api(T, Step("accept", e, 0, 0))

Write(e, s, n) ==
  /\ st.ss[e][s].api
  /\ IF WriteErr(st, e, s) # "" THEN Api(st, Step("write", e, s, n))
     ELSE LET k == WriteAmount(st, e, s, n)
              base == Len(st.written[e][s])
              data == [i \in 1..k |-> Byte(e, s, base + i)] IN
          /\ k > 0 => Room(e)
          /\ ApiK(DoWrite(st, e, s, data), Step("write", e, s, n),
                  IF n = 0 THEN {"zw"} ELSE IF k < n THEN {"wt"} ELSE {})

Read(e, s, k) ==
  /\ st.ss[e][s].api
  /\ LET o == ReadOutcome(st, e, s) IN
     ApiK(IF o = "data" THEN DoReadData(st, e, s, ReadAmount(st, e, s, k))
          ELSE IF o = "EOF" THEN DoReadEOF(st, e, s) ELSE st, Step("read", e, s, k),
          IF o = "data" /\ k = 0 THEN {"zr"} ELSE IF o = "timeout" THEN {"rt"} ELSE {})

CloseWrite(e, s) == /\ st.ss[e][s].api /\ ~st.ss[e][s].cw
                    /\ Api(DoCloseWrite(st, e, s), Step("cw", e, s, 0))
Close(e, s) == /\ st.ss[e][s].api /\ ~st.ss[e][s].cl
               /\ Api(DoClose(st, e, s), Step("close", e, s, 0))

Flush(e) == /\ CanFlush(st, e) /\ Room(e) /\ Quiet(DoFlush(st, e))
Recv(e) == /\ CanRecv(st, e) /\ Bg(DoRecv(st, e), Step("recv", e, 0, 0))

\* one top-level disjunct per action so that TLC reports coverage per action
Can == Alive(st)
More == Alive(st) /\ ops < Budget
NRecv == Can /\ \E e \in E : Recv(e)
NFlush == Can /\ \E e \in E : Flush(e)
NOpenReturn == Can /\ \E e \in E, s \in Ids : OpenReturn(e, s)
NOpenSend == Can /\ \E e \in E, s \in Ids : OpenSend(e, s)
NOpen == More /\ \E e \in E : Open(e)
NAccept == More /\ \E e \in E : Accept(e)
NCancelOpen == More /\ \E e \in E, s \in Ids : CancelOpen(e, s)
NCloseWrite == More /\ \E e \in E, s \in Ids : CloseWrite(e, s)
NClose == More /\ \E e \in E, s \in Ids : Close(e, s)
NWrite == More /\ \E e \in E, s \in Ids, n \in 0..MaxWrite : Write(e, s, n)
NRead == More /\ \E e \in E, s \in Ids, k \in 0..MaxRead : Read(e, s, k)
Next == \/ NRecv \/ NFlush \/ NOpenReturn \/ NOpenSend \/ NOpen \/ NAccept \/ NCancelOpen
        \/ NCloseWrite \/ NClose \/ NWrite \/ NRead

Spec == Init /\ [][Next]_vars

\* ---- invariants of the design (must hold on the model: leg D) ----
InvInOrder == C23_InOrder(st)
InvEOFComplete == C23_EOFComplete(st)
InvNoCrossTalk == C23_NoCrossTalk(st)
InvNoViolation == C24_NoViolation(st)
InvWindow == WindowRespected(st)
InvWire == WireConforms(st)

\* ---- behaviour export ----
Terminal ==
  /\ ops = Budget
  /\ \A e \in E : ~CanRecv(st, e) /\ ~CanFlush(st, e) /\ st.unsent[e] = {}
  /\ \A e \in E, s \in Ids : ~(OpenPending(st, e, s) /\ OpenOutcome(st, e, s) # "pending")
Export == (DoExport /\ Terminal) =>
  PrintT(<<"BEHAVIOUR", ToJson([w |-> W, b |-> B, steps |-> hist])>>)
====
