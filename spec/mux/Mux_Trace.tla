---- MODULE Mux_Trace ----
(***************************************************************************)
(* Trace validation for the multiplexer family.                             *)
(*                                                                         *)
(* trace.ndjson holds, per case (records sharing "cid", first one has       *)
(* "begin": true), what the driver observed on two real multiplexers:       *)
(*   Call/Ret  an API call was started / returned (arguments, results)      *)
(*   Wire      (free mode) a message written by endpoint e (tap, wire order) *)
(*   Dlv       (script mode) a message written by the peer was handed to    *)
(*             e's reader and the reader finished processing it             *)
(*   End       Closed()/InternalError() of both multiplexers at the end     *)
(*   Block/Hol/Backlog  timed scenarios of C25 (judged by MuxTime)          *)
(*   Heart     heartbeat scenario (flow, then stalled carrier): counters    *)
(*                                                                         *)
(* Ret records of op setwd / setrd are SetWriteDeadline / SetReadDeadline   *)
(* calls (k = 0 clear, 1 past, 2 far future, 3 near future that then        *)
(* passes); Call records with blk = TRUE start a Read / Write that may stay *)
(* blocked and whose Ret follows later.                                     *)
(*                                                                         *)
(* The recorded events drive the state S of the Mux specification through   *)
(* the specification's own operators (DoOpen, DoAccept*, DoReadData,        *)
(* DoClose*, RecvMsg ...).  The property operators of Mux are evaluated on  *)
(* that state; its observation part (written, readOut, eof, local close     *)
(* flags) consists of recorded values only.  In script mode deliveries are  *)
(* recorded, so the receiver side of S is exact and the specification also  *)
(* predicts every result; a disagreement is counted as drift (it is not a   *)
(* verdict: C23/C24 are not exactness statements).                          *)
(***************************************************************************)
EXTENDS Mux, MuxTime, TraceKit

CONSTANT Want

VARIABLES l, fails, st, ax, stats, done
tvars == <<l, fails, st, ax, stats, done>>

Zero == [e \in E |-> [s \in Ids |-> 0]]
EmptySeqs == [e \in E |-> [s \in Ids |-> <<>>]]
NoWire(S) == [S EXCEPT !.wire = [e \in E |-> <<>>]]
\* ax: case mode, pending write lengths, and the OBSERVED histories (ow: bytes offered to / accepted by Write,
\* or: bytes returned by Read, oe: end-of-stream returned).  S.written/readOut/eof are the model's own prediction.
InitAx == [mode |-> "none", corrupt |-> FALSE, pw |-> Zero, ow |-> EmptySeqs, or |-> EmptySeqs, oe |-> [e \in E |-> [s \in Ids |-> FALSE]]]
InitStats == [drift |-> 0, wirebad |-> 0, pred |-> 0, cases |-> 0, dlv |-> 0, hb |-> 0, hbspur |-> 0, hbundet |-> 0]
\* the state the properties judge: protocol flags driven by the recorded calls, histories as observed
Judged(S, a) == [S EXCEPT !.written = a.ow, !.readOut = a.or, !.eof = a.oe]

Script == ax.mode = "script"
DriftNote(i) == IF "PrintDrift" \in Want THEN PrintT(<<"DRIFT", i>>) ELSE TRUE
B2N(b) == IF b THEN 1 ELSE 0
Blk(r) == Has(r, "blk") /\ r.blk
ModeOf(n) == CASE n = 0 -> "clear" [] n = 1 -> "past" [] n = 2 -> "far" [] OTHER -> "soon"

(***************************************************************************)
(* Call records                                                            *)
(***************************************************************************)
CallState(S, r) ==
  LET e == r.e  s == r.s IN
  IF r.op = "open" THEN      \* recorded once the open message was seen on the wire (s = its identifier, 0 = none)
       (IF Script /\ s > 0
        THEN (LET T == SyncNext(S, e, s) IN IF CanOpen(T, e) /\ T.nextOut[e] = s THEN NoWire(DoOpen(T, e)) ELSE S)
        ELSE S)
  ELSE IF s = 0 THEN S
  ELSE IF r.op = "write" THEN
       (IF ~Script \/ WriteBusy(S, e, s) THEN S
        ELSE IF Blk(r) THEN NoWire(DoWStart(S, e, s, r.d)) ELSE NoWire(DoWriteBounded(S, e, s, r.d)))
  ELSE IF r.op = "read" THEN
       (IF Script /\ Blk(r) /\ ~ReadBusy(S, e, s) THEN NoWire(DoRStart(S, e, s, r.k)) ELSE S)
  ELSE IF r.op = "cw" THEN NoWire(DoCloseWrite(S, e, s))
  ELSE IF r.op = "close" THEN NoWire(DoClose(S, e, s))
  ELSE S
CallAx(r) ==
  IF r.op = "write" /\ r.s > 0
  THEN [ax EXCEPT !.pw[r.e][r.s] = Len(r.d), !.ow[r.e][r.s] = @ \o r.d] ELSE ax

(***************************************************************************)
(* Ret records: result = [S, ok]  (ok = FALSE: the specification did not    *)
(* predict the observed result; counted as drift)                           *)
(***************************************************************************)
RECURSIVE AcceptTo(_, _, _)
AcceptTo(S, e, sid) ==
  IF ~CanAccept(S, e) THEN [S |-> S, ok |-> FALSE]
  ELSE IF AcceptHead(S, e) = sid THEN [S |-> NoWire(DoAcceptOK(S, e)), ok |-> TRUE]
  ELSE IF S.ss[e][AcceptHead(S, e)].rcl THEN AcceptTo(DoAcceptStale(S, e), e, sid)
  ELSE [S |-> S, ok |-> FALSE]
RECURSIVE PopStale(_, _)
PopStale(S, e) ==
  IF CanAccept(S, e) /\ S.ss[e][AcceptHead(S, e)].rcl THEN PopStale(DoAcceptStale(S, e), e) ELSE S
Force(S, e, s) == [S EXCEPT !.ss[e][s].reg = TRUE, !.ss[e][s].est = TRUE, !.ss[e][s].api = TRUE]

RetOpen(S, r) ==
  LET e == r.e IN
  IF Has(r, "pre") /\ r.pre THEN     \* OpenStream with an already cancelled context: only outcome (c) leaves a trace on the wire
       (IF Script /\ r.s > 0
        THEN (LET T == SyncNext(S, e, r.s) IN
              IF CanOpen(T, e) /\ T.nextOut[e] = r.s
              THEN [S |-> NoWire(DoOpenCleanup(DoOpen(T, e), e, r.s)), ok |-> r.err = "canceled"]
              ELSE [S |-> S, ok |-> FALSE])
        ELSE [S |-> S, ok |-> TRUE])
  ELSE IF r.err = "" THEN
       [S |-> Force(S, e, r.sid), ok |-> ~Script \/ (r.sid = r.s /\ OpenPending(S, e, r.sid) /\ OpenOutcome(S, e, r.sid) = "ok")]
  ELSE IF Script /\ r.s > 0 THEN
       [S |-> LocalClose(S, e, r.s),
        ok |-> /\ OpenPending(S, e, r.s)
               /\ CASE r.err = "rejected" -> OpenOutcome(S, e, r.s) = "rejected"
                    [] r.err = "canceled" -> OpenOutcome(S, e, r.s) = "pending"
                    [] r.err = "muxclosed" -> ~Alive(S)
                    [] OTHER -> FALSE]
  ELSE IF Script /\ r.err = "exhausted"      \* opens cancelled before their open message may have used up identifiers unseen
       THEN [S |-> [S EXCEPT !.nextOut[e] = 0], ok |-> Exhausted(S, e) \/ S.idmax <= MaxId]
  ELSE [S |-> S, ok |-> TRUE]

RetAccept(S, r) ==
  LET e == r.e IN
  IF r.err = "" THEN
       (IF Script THEN (LET a == AcceptTo(S, e, r.sid) IN IF a.ok THEN a ELSE [S |-> Force(S, e, r.sid), ok |-> FALSE])
        ELSE [S |-> Force(S, e, r.sid), ok |-> TRUE])
  ELSE IF Script THEN (LET T == PopStale(S, e) IN [S |-> T, ok |-> ~CanAccept(T, e) \/ ~Alive(S)])
  ELSE [S |-> S, ok |-> TRUE]

\* the Write returned: the specification's call must have finished with the same count and error
RetWrite(S, r) ==
  LET e == r.e  s == r.s  b == S.wb[e][s] IN
  IF ~Script THEN [S |-> S, ok |-> TRUE]
  ELSE [S |-> NoWire(DoWEnd(S, e, s)), ok |-> b.fin /\ b.cnt = r.n /\ b.res = r.err]

\* the Read returned: for a bounded Read the whole call is run here, a blocking one was started at its Call
RetRead(S, r) ==
  LET e == r.e  s == r.s
      A == IF Blk(r) \/ ReadBusy(S, e, s) THEN S ELSE DoReadBounded(S, e, s, r.k)
      b == A.rb[e][s]
  IN IF ~Script THEN [S |-> S, ok |-> TRUE]
     ELSE [S |-> NoWire(DoREnd(A, e, s)), ok |-> b.fin /\ b.res = r.err /\ b.data = r.d]

RetSetDeadline(S, r) ==
  LET e == r.e  s == r.s  m == ModeOf(r.k) IN
  IF ~Script THEN [S |-> S, ok |-> TRUE]
  ELSE IF r.op = "setwd" THEN [S |-> NoWire(DoSetWD(S, e, s, m)), ok |-> r.err = SetWDErr(S, e, s)]
  ELSE [S |-> NoWire(DoSetRD(S, e, s, m)), ok |-> r.err = SetRDErr(S, e, s)]

RetResult(S, r) ==
  IF r.op = "open" THEN RetOpen(S, r)
  ELSE IF r.op = "accept" THEN RetAccept(S, r)
  ELSE IF r.s = 0 THEN [S |-> S, ok |-> TRUE]
  ELSE IF r.op = "write" THEN RetWrite(S, r)
  ELSE IF r.op = "read" THEN RetRead(S, r)
  ELSE IF r.op \in {"setwd", "setrd"} THEN RetSetDeadline(S, r)
  ELSE [S |-> S, ok |-> ~Script \/ r.err = "" \/ ~Alive(S)]

\* observed histories
RetAx(r) ==
  IF r.s = 0 THEN ax
  ELSE IF r.op = "write" THEN
       LET pend == ax.pw[r.e][r.s]  keep == Len(ax.ow[r.e][r.s]) - (pend - r.n) IN
       IF r.n > pend \/ keep < 0 THEN ax
       ELSE [ax EXCEPT !.ow[r.e][r.s] = Take(@, keep), !.pw[r.e][r.s] = 0]
  ELSE IF r.op = "read" THEN
       [ax EXCEPT !.or[r.e][r.s] = @ \o r.d, !.oe[r.e][r.s] = @ \/ r.err = "EOF"]
  ELSE ax
RetWellObserved(r) == (r.op = "write" /\ r.s > 0) => r.n <= ax.pw[r.e][r.s]

\* properties judged at a read return (state before the record)
ChunkInOrder(e, s, d) ==
  LET pos == Len(ax.or[e][s])  wr == ax.ow[Peer(e)][s] IN
  pos + Len(d) <= Len(wr) /\ \A i \in 1..Len(d) : d[i] = wr[pos + i]
ReadFails(i, S, r) ==
  IF r.op # "read" \/ r.s = 0 \/ ax.corrupt THEN <<>>
  ELSE LET e == r.e  s == r.s IN
       Chk(Want, i, "C23_InOrder", ChunkInOrder(e, s, r.d))
    \o Chk(Want, i, "C23_NoCrossTalk", Range(r.d) \subseteq Range(ax.ow[Peer(e)][s]))
    \o Chk(Want, i, "C23_EOFComplete", r.err = "EOF" => S.ss[Peer(e)][s].cw \/ S.ss[Peer(e)][s].cl)
    \o Chk(Want, i, "C25_NoHang", r.err # "watchdog")

(***************************************************************************)
(* End record                                                              *)
(***************************************************************************)
Observed(S, r) == [S EXCEPT !.perr = [e \in E |-> r.closed[e + 1] /\ r.ierr[e + 1] # ""]]
C24_StaysUp(r) == ~r.explicit => (~r.closed[1] /\ ~r.closed[2])
\* every stream an application still held open was read to its end
C23_Complete(S) == \A e \in E, s \in Ids : (S.ss[e][s].api /\ ~S.ss[e][s].cl) => S.eof[e][s]
Streamy == ax.mode \in {"script", "free"}
EndFails(i, S0, r) ==
  LET S == Judged(S0, ax) IN
  IF ax.corrupt THEN <<>>       \* crafted messages were injected: the receiver model is compared (drift), nothing is judged
  ELSE
     Chk(Want, i, "C24_StaysUp", C24_StaysUp(r))
  \o Chk(Want, i, "C24_NoViolation", C24_NoViolation(Observed(S, r)))
  \o Chk(Want, i, "C23_InOrder", C23_InOrder(S))
  \o Chk(Want, i, "C23_NoCrossTalk", C23_NoCrossTalk(S))
  \o Chk(Want, i, "C23_EOFComplete", C23_EOFComplete(S))
  \o Chk(Want, i, "C23_Complete", Streamy => C23_Complete(S))
  \o Chk(Want, i, "C25_NoHang", Has(r, "hung") => ~r.hung)

(***************************************************************************)
(* One record                                                               *)
(***************************************************************************)
MsgOf(r) == Msg(r.k, r.s, r.a, r.d)
TimeFails(i, r) ==
  IF r.ev = "Block" THEN Chk(Want, i, "C25_BlockReturns", C25_BlockReturns(r))
  ELSE IF r.ev = "Hol" THEN Chk(Want, i, "C25_NoHeadOfLine", C25_NoHeadOfLine(r))
  ELSE Chk(Want, i, "C25_BacklogRejects", C25_BacklogRejects(r))
WellFormed(r) ==
  /\ Has(r, "ev") /\ Has(r, "cid")
  /\ r.ev \in {"Call", "Ret"} => (Has(r, "e") /\ r.e \in E /\ Has(r, "op") /\ Has(r, "s") /\ r.s >= 0 /\ r.s <= MaxId /\ Has(r, "d"))
  /\ r.ev = "Ret" => (Has(r, "err") /\ Has(r, "n") /\ Has(r, "k") /\ Has(r, "sid") /\ r.sid >= 0 /\ r.sid <= MaxId
                      /\ (r.err = "" /\ r.op \in {"open", "accept"} => r.sid >= 1))
  /\ r.ev \in {"Wire", "Dlv"} => (Has(r, "e") /\ r.e \in E /\ Has(r, "k") /\ Has(r, "s") /\ Has(r, "a") /\ Has(r, "d"))
  /\ r.ev = "End" => (Has(r, "closed") /\ Has(r, "ierr") /\ Has(r, "explicit"))
  /\ r.ev = "Begin" => (Has(r, "mode") /\ Has(r, "w") /\ Has(r, "b"))

Next3(i, r) ==   \* <<new st, new ax, new stats, failures>>
  IF ~WellFormed(r) THEN <<st, ax, stats, <<Fail(i, "TraceAccepted")>>>>
  ELSE IF r.ev = "Begin" THEN
       <<[InitS(r.w, r.b) EXCEPT !.idmax = IF Has(r, "idmax") THEN r.idmax ELSE MaxId + 1000],
         [InitAx EXCEPT !.mode = r.mode, !.corrupt = Has(r, "corrupt") /\ r.corrupt], [stats EXCEPT !.cases = @ + 1], <<>>>>
  ELSE IF r.ev = "Call" THEN <<CallState(st, r), CallAx(r), stats, <<>>>>
  ELSE IF r.ev = "Ret" THEN
       LET res == RetResult(st, r) IN
       <<res.S, RetAx(r), [stats EXCEPT !.pred = @ + B2N(Script), !.drift = @ + B2N((~res.ok \/ ~RetWellObserved(r)) /\ DriftNote(i))],
         ReadFails(i, st, r)>>
  ELSE IF r.ev = "Wire" THEN
       <<st, ax, [stats EXCEPT !.wirebad = @ + B2N(r.s < 1 \/ r.s > MaxId \/ ~SenderRule(st, r.e, MsgOf(r)))], <<>>>>
  ELSE IF r.ev = "Dlv" THEN
       (IF r.s < 1 \/ r.s > MaxId THEN <<st, ax, [stats EXCEPT !.drift = @ + B2N(DriftNote(i))], <<>>>>
        ELSE <<NoWire(RecvMsg(st, r.e, MsgOf(r))), ax,
               [stats EXCEPT !.dlv = @ + 1, !.wirebad = @ + B2N(~SenderRule(st, Peer(r.e), MsgOf(r)))], <<>>>>)
  ELSE IF r.ev = "End" THEN
       <<st, ax,
         [stats EXCEPT !.drift = @ + B2N((Script /\ ((\E e \in E : st.perr[e]) # (\E e \in E : Observed(st, r).perr[e]))) /\ DriftNote(i))],
         EndFails(i, st, r)>>
  ELSE IF r.ev \in {"Block", "Hol", "Backlog"} THEN <<st, ax, stats, TimeFails(i, r)>>
  ELSE IF r.ev = "Heart" THEN      \* heartbeat scenario: conformance counters only (MuxHeart states the design)
       <<st, ax, [stats EXCEPT !.hb = @ + 1,
                               !.hbspur = @ + B2N(r.flowClosed[1] \/ r.flowClosed[2]),
                               !.hbundet = @ + B2N(~(r.detected[1] /\ r.detected[2]))], <<>>>>
  ELSE IF r.ev \in {"Skip", "Final", "Storm", "OpenCancel"} THEN <<st, ax, stats, <<>>>>
  ELSE <<st, ax, stats, <<Fail(i, "TraceAccepted")>>>>

TInit == l = 1 /\ fails = <<>> /\ st = InitS(1, 1) /\ ax = InitAx /\ stats = InitStats /\ done = FALSE
Step == /\ l <= NRec
        /\ \E n \in {Next3(l, Trace[l])} :
           /\ st' = n[1] /\ ax' = n[2] /\ stats' = n[3]
           /\ fails' = Cap(fails \o n[4])
        /\ l' = l + 1 /\ UNCHANGED done
Finish == /\ l = NRec + 1 /\ ~done
          /\ WriteResult(l - 1, fails, [stat_drift |-> stats.drift, stat_wire_bad |-> stats.wirebad,
                                        stat_predictions |-> stats.pred, stat_cases |-> stats.cases,
                                        stat_deliveries |-> stats.dlv, stat_hb_cases |-> stats.hb,
                                        stat_hb_spurious_timeouts |-> stats.hbspur,
                                        stat_hb_stall_undetected |-> stats.hbundet])
          /\ done' = TRUE /\ UNCHANGED <<l, fails, st, ax, stats>>
TNext == Step \/ Finish
TSpec == TInit /\ [][TNext]_tvars
====
