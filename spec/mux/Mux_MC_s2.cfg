CONSTANTS
  MaxId = 3
  ZeroIncBug = FALSE
  OpenCleanupBug = FALSE
  OpenRaceBug = FALSE
  W = 1
  B = 1
  Openers = {0}
  MaxWrite = 1
  MaxRead = 1
  Budget = 5
  WireCap = 3
  DoExport = TRUE
  DeadlineBug = "none"
  Acts = {"open","accept","cancel","write","read","cw","close"}
  Modes = {}
  DlEnds = {0, 1}
  PreEst = FALSE
  BlockOnRoom = FALSE
  IdTop = FALSE
  TrackKinds = {"zr","rt"}
SPECIFICATION Spec
VIEW view
INVARIANT InvTokens InvInOrder InvEOFComplete InvNoCrossTalk InvNoViolation InvWindow InvWire Export
CHECK_DEADLOCK FALSE
