---- MODULE MuxHeart ----
(***************************************************************************)
(* Heartbeats of Multiplexer (multiplexer.go: write() ticker, read()        *)
(* strobing the heartbeats channel, run() resetting / observing the         *)
(* heartbeatTimeout timer), in discrete time.                               *)
(*                                                                         *)
(*   TI   HeartbeatTransmitInterval            (ticks)                      *)
(*   RI   MaximumHeartbeatReceiveInterval      (ticks)                      *)
(*   D    longest delay of the carrier + goroutine scheduling               *)
(* now advances by Tick only when nothing is due (a heartbeat to send, a    *)
(* message at its latest delivery time, an expired receive timer), which    *)
(* makes the timing assumptions explicit.  Environment: Stall partitions    *)
(* the carrier (nothing is delivered any more; writes are swallowed).       *)
(* Properties: NoSpuriousTimeout (while heartbeats flow nobody closes, needs *)
(* TI + D < RI), StallDetected (after a stall both sides close),            *)
(* TimeoutError (the side that timed out reports "heartbeat timeout",       *)
(* the other one a read error, as run() / closeWithError do).               *)
(***************************************************************************)
EXTENDS Integers, Sequences, TLC

CONSTANTS TI, RI, D, Horizon, CanStall

E == {0, 1}
Peer(e) == 1 - e

VARIABLES now, nextSend, lastHb, wire, stalled, closed, why
vars == <<now, nextSend, lastHb, wire, stalled, closed, why>>

Init ==
  /\ now = 0
  /\ nextSend = [e \in E |-> TI]          \* time.NewTicker(HeartbeatTransmitInterval)
  /\ lastHb = [e \in E |-> 0]             \* time.NewTimer(MaximumHeartbeatReceiveInterval) at start
  /\ wire = [e \in E |-> <<>>]            \* send times of the heartbeats in flight from e
  /\ stalled = FALSE
  /\ closed = [e \in E |-> FALSE]
  /\ why = [e \in E |-> ""]

Open(e) == ~closed[e]
SendDue(e) == Open(e) /\ nextSend[e] <= now
DeliveryDue(e) == ~stalled /\ Open(e) /\ wire[Peer(e)] # <<>> /\ now - Head(wire[Peer(e)]) >= D
TimeoutDue(e) == Open(e) /\ now - lastHb[e] >= RI
PeerGone(e) == Open(e) /\ closed[Peer(e)]

\* write(): `case <-writeHeartbeat` writes one byte
HeartbeatTick(e) ==
  /\ SendDue(e)
  /\ nextSend' = [nextSend EXCEPT ![e] = now + TI]
  /\ wire' = IF stalled THEN wire ELSE [wire EXCEPT ![e] = Append(@, now)]
  /\ UNCHANGED <<now, lastHb, stalled, closed, why>>

\* read(): messageKindMultiplexerHeartbeat -> heartbeats channel; run(): timer reset
RecvHeartbeat(e) ==
  /\ ~stalled /\ Open(e) /\ wire[Peer(e)] # <<>>
  /\ wire' = [wire EXCEPT ![Peer(e)] = Tail(@)]
  /\ lastHb' = [lastHb EXCEPT ![e] = now]
  /\ UNCHANGED <<now, nextSend, stalled, closed, why>>

\* run(): `case <-heartbeatTimeout.C` -> closeWithError(errors.New("heartbeat timeout"))
HeartbeatTimeout(e) ==
  /\ TimeoutDue(e)
  /\ closed' = [closed EXCEPT ![e] = TRUE] /\ why' = [why EXCEPT ![e] = "heartbeat timeout"]
  /\ UNCHANGED <<now, nextSend, lastHb, wire, stalled>>

\* the closed side closed the carrier: the peer's reader fails, run() closes with a read error
PeerClosed(e) ==
  /\ PeerGone(e)
  /\ closed' = [closed EXCEPT ![e] = TRUE] /\ why' = [why EXCEPT ![e] = "read error"]
  /\ UNCHANGED <<now, nextSend, lastHb, wire, stalled>>

Stall ==
  /\ CanStall /\ ~stalled /\ now + RI + D + 1 <= Horizon
  /\ stalled' = TRUE
  /\ UNCHANGED <<now, nextSend, lastHb, wire, closed, why>>

Tick ==
  /\ now < Horizon
  /\ \A e \in E : ~SendDue(e) /\ ~DeliveryDue(e) /\ ~TimeoutDue(e) /\ ~PeerGone(e)
  /\ now' = now + 1
  /\ UNCHANGED <<nextSend, lastHb, wire, stalled, closed, why>>

Next == Tick \/ Stall \/ \E e \in E : HeartbeatTick(e) \/ RecvHeartbeat(e) \/ HeartbeatTimeout(e) \/ PeerClosed(e)
Spec == /\ Init /\ [][Next]_vars /\ WF_vars(Tick)
        /\ \A e \in E : WF_vars(HeartbeatTick(e)) /\ WF_vars(RecvHeartbeat(e))
                        /\ WF_vars(HeartbeatTimeout(e)) /\ WF_vars(PeerClosed(e))

NoSpuriousTimeout == ~stalled => (~closed[0] /\ ~closed[1])
TimeoutError == \A e \in E : closed[e] => why[e] \in {"heartbeat timeout", "read error"}
SomeoneTimedOut == (closed[0] /\ closed[1]) => (why[0] = "heartbeat timeout" \/ why[1] = "heartbeat timeout")
StallDetected == stalled ~> (closed[0] /\ closed[1])
====
