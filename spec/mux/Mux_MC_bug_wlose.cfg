CONSTANTS
  MaxId = 1
  ZeroIncBug = FALSE
  OpenCleanupBug = FALSE
  OpenRaceBug = FALSE
  W = 2
  B = 1
  Openers = {}
  MaxWrite = 2
  MaxRead = 1
  Budget = 5
  WireCap = 1
  DoExport = FALSE
  DeadlineBug = "wlose"
  Acts = {"wstart","rstart","setwd","setrd","write","read"}
  Modes = {"clear","past","far","soon"}
  DlEnds = {0, 1}
  PreEst = TRUE
  BlockOnRoom = TRUE
  IdTop = FALSE
  TrackKinds = {}
SPECIFICATION Spec
VIEW view
INVARIANT InvTokens InvInOrder InvEOFComplete InvNoCrossTalk InvNoViolation InvWindow InvWire Export
CHECK_DEADLOCK FALSE
