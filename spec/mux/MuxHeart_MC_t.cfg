CONSTANTS
  TI = 3
  RI = 8
  D = 3
  Horizon = 30
  CanStall = TRUE
SPECIFICATION Spec
INVARIANT NoSpuriousTimeout TimeoutError SomeoneTimedOut
PROPERTY StallDetected
CHECK_DEADLOCK FALSE
