CONSTANTS
  TI = 2
  RI = 4
  D = 2
  Horizon = 14
  CanStall = FALSE
SPECIFICATION Spec
INVARIANT NoSpuriousTimeout TimeoutError SomeoneTimedOut
PROPERTY StallDetected
CHECK_DEADLOCK FALSE
