CONSTANTS
  Streams = {1, 2}
  Stalled = {1}
  Total = 4
  W = 1
  Bufs = 1
  Cap = 1
  Backlog = 1
  Opens = 3
  ReaderBlocks = FALSE
SPECIFICATION Spec
INVARIANT WindowOK
PROPERTY NoHeadOfLine BacklogReject PendingStay
CHECK_DEADLOCK FALSE
