---- MODULE MuxLive ----
(***************************************************************************)
(* Goroutine-level model of one multiplexer pair for C25: the goroutines    *)
(* and the bounded channels between them.                                   *)
(*                                                                         *)
(*   endpoint A: application writers (Stream.Write), OpenStream callers,    *)
(*               writer goroutine (Multiplexer.write), reader goroutine     *)
(*   endpoint B: reader goroutine (Multiplexer.read), application readers   *)
(*               (Stream.Read), enqueue goroutine, writer goroutine         *)
(*   channels:   writeBufferAvailable (count bufs), writeBufferPending      *)
(*               (FIFO of filled buffers), the carrier in both directions   *)
(*               (capacity Cap messages), per-stream send window and        *)
(*               receive buffer (window W), accept backlog (Backlog)        *)
(*                                                                         *)
(* The applications of the streams in Stalled never read; B never accepts.  *)
(* Properties (under weak fairness of every goroutine):                     *)
(*   NoHeadOfLine   every other stream eventually delivers all its bytes    *)
(*   BacklogReject  every open beyond the backlog is eventually rejected    *)
(*   WindowOK       the receive buffer never exceeds the window             *)
(* ReaderBlocks = TRUE is the design error the property excludes: a reader  *)
(* goroutine that waits for backlog room instead of rejecting.              *)
(***************************************************************************)
EXTENDS Integers, Sequences, FiniteSets, TLC

CONSTANTS Streams, Stalled, Total, W, Bufs, Cap, Backlog, Opens, ReaderBlocks

VARIABLES toWrite, win, rbuf, got, pinc, pcl,
          bufsA, pendA, wireAB, bufsB, pendB, wireBA,
          opened, backlog, ostate
vars == <<toWrite, win, rbuf, got, pinc, pcl, bufsA, pendA, wireAB, bufsB, pendB, wireBA, opened, backlog, ostate>>

Active == Streams \ Stalled
Min(a, b) == IF a < b THEN a ELSE b
OpenIds == 1..Opens

Init ==
  /\ toWrite = [s \in Streams |-> Total] /\ win = [s \in Streams |-> W]
  /\ rbuf = [s \in Streams |-> 0] /\ got = [s \in Streams |-> 0]
  /\ pinc = [s \in Streams |-> 0] /\ pcl = {}
  /\ bufsA = Bufs /\ pendA = <<>> /\ wireAB = <<>>
  /\ bufsB = Bufs /\ pendB = <<>> /\ wireBA = <<>>
  /\ opened = 0 /\ backlog = 0 /\ ostate = [i \in OpenIds |-> "none"]

\* Stream.Write: needs window, then a write buffer; one block per pass
AWrite(s) ==
  /\ toWrite[s] > 0 /\ win[s] > 0 /\ bufsA > 0
  /\ LET k == Min(win[s], toWrite[s]) IN
     /\ bufsA' = bufsA - 1 /\ pendA' = Append(pendA, [k |-> "data", s |-> s, n |-> k])
     /\ win' = [win EXCEPT ![s] = @ - k] /\ toWrite' = [toWrite EXCEPT ![s] = @ - k]
  /\ UNCHANGED <<rbuf, got, pinc, pcl, wireAB, bufsB, pendB, wireBA, opened, backlog, ostate>>

\* OpenStream: takes a write buffer for the open message, then waits for accept / reject
AOpen ==
  /\ opened < Opens /\ bufsA > 0
  /\ opened' = opened + 1 /\ bufsA' = bufsA - 1
  /\ pendA' = Append(pendA, [k |-> "open", s |-> opened + 1, n |-> 0])
  /\ ostate' = [ostate EXCEPT ![opened + 1] = "sent"]
  /\ UNCHANGED <<toWrite, win, rbuf, got, pinc, pcl, wireAB, bufsB, pendB, wireBA, backlog>>

\* Multiplexer.write: WriteTo(carrier) blocks while the carrier is full; then the buffer is returned
AWriter ==
  /\ pendA # <<>> /\ Len(wireAB) < Cap
  /\ wireAB' = Append(wireAB, Head(pendA)) /\ pendA' = Tail(pendA) /\ bufsA' = bufsA + 1
  /\ UNCHANGED <<toWrite, win, rbuf, got, pinc, pcl, bufsB, pendB, wireBA, opened, backlog, ostate>>

\* Multiplexer.read on B: never waits for an application
BReader ==
  /\ wireAB # <<>>
  /\ LET m == Head(wireAB) IN
     IF m.k = "data" THEN
        /\ rbuf' = [rbuf EXCEPT ![m.s] = @ + m.n]
        /\ wireAB' = Tail(wireAB)
        /\ UNCHANGED <<pcl, backlog, ostate>>
     ELSE IF backlog = Backlog THEN
        /\ ~ReaderBlocks                    \* the code rejects: m.enqueueClose <- id
        /\ pcl' = pcl \cup {m.s} /\ wireAB' = Tail(wireAB)
        /\ UNCHANGED <<rbuf, backlog, ostate>>
     ELSE
        /\ backlog' = backlog + 1 /\ ostate' = [ostate EXCEPT ![m.s] = "pending"]
        /\ wireAB' = Tail(wireAB)
        /\ UNCHANGED <<rbuf, pcl>>
  /\ UNCHANGED <<toWrite, win, got, pinc, bufsA, pendA, bufsB, pendB, wireBA, opened>>

\* Stream.Read on B (active streams only) + enqueueWindowIncrement
BRead(s) ==
  /\ s \in Active /\ rbuf[s] > 0
  /\ \E c \in 1..rbuf[s] :
       /\ rbuf' = [rbuf EXCEPT ![s] = @ - c] /\ got' = [got EXCEPT ![s] = @ + c]
       /\ pinc' = [pinc EXCEPT ![s] = @ + c]
  /\ UNCHANGED <<toWrite, win, pcl, bufsA, pendA, wireAB, bufsB, pendB, wireBA, opened, backlog, ostate>>

\* Multiplexer.enqueue on B: polls for a write buffer only when something is pending
BEnqueue ==
  /\ bufsB > 0 /\ ((\E s \in Streams : pinc[s] > 0) \/ pcl # {})
  /\ bufsB' = bufsB - 1
  /\ pendB' = Append(pendB, [inc |-> pinc, cl |-> pcl])
  /\ pinc' = [s \in Streams |-> 0] /\ pcl' = {}
  /\ UNCHANGED <<toWrite, win, rbuf, got, bufsA, pendA, wireAB, wireBA, opened, backlog, ostate>>

BWriter ==
  /\ pendB # <<>> /\ Len(wireBA) < Cap
  /\ wireBA' = Append(wireBA, Head(pendB)) /\ pendB' = Tail(pendB) /\ bufsB' = bufsB + 1
  /\ UNCHANGED <<toWrite, win, rbuf, got, pinc, pcl, bufsA, pendA, wireAB, opened, backlog, ostate>>

\* Multiplexer.read on A: window increments and rejections
AReader ==
  /\ wireBA # <<>>
  /\ LET m == Head(wireBA) IN
     /\ win' = [s \in Streams |-> win[s] + m.inc[s]]
     /\ ostate' = [i \in OpenIds |-> IF i \in m.cl THEN "rejected" ELSE ostate[i]]
  /\ wireBA' = Tail(wireBA)
  /\ UNCHANGED <<toWrite, rbuf, got, pinc, pcl, bufsA, pendA, wireAB, bufsB, pendB, opened, backlog>>

Next == \/ \E s \in Streams : AWrite(s) \/ BRead(s)
        \/ AOpen \/ AWriter \/ BReader \/ BEnqueue \/ BWriter \/ AReader

Spec == /\ Init /\ [][Next]_vars
        /\ \A s \in Streams : WF_vars(AWrite(s)) /\ WF_vars(BRead(s))
        /\ WF_vars(AOpen) /\ WF_vars(AWriter) /\ WF_vars(BReader)
        /\ WF_vars(BEnqueue) /\ WF_vars(BWriter) /\ WF_vars(AReader)

WindowOK == \A s \in Streams : rbuf[s] <= W
NoHeadOfLine == <>[](\A s \in Active : got[s] = Total)
BacklogReject == <>[](\A i \in OpenIds : i > Backlog => ostate[i] = "rejected")
PendingStay == [](\A i \in OpenIds : i <= Backlog => ostate[i] # "rejected")
====
