CONSTANTS
  MaxId = 1
  ZeroIncBug = FALSE
  OpenCleanupBug = FALSE
  OpenRaceBug = FALSE
  W = 2
  B = 1
  Openers = {}
  MaxWrite = 2
  MaxRead = 2
  Budget = 5
  WireCap = 3
  DoExport = TRUE
  DeadlineBug = "none"
  Acts = {"write","read","cw","close"}
  Modes = {}
  DlEnds = {0}
  PreEst = TRUE
  BlockOnRoom = FALSE
  IdTop = FALSE
  TrackKinds = {}
SPECIFICATION Spec
VIEW view
INVARIANT InvTokens InvInOrder InvEOFComplete InvNoCrossTalk InvNoViolation InvWindow InvWire Export
CHECK_DEADLOCK FALSE
