CONSTANTS
  MaxId = 8
  ZeroIncBug = FALSE
  DeadlineBug = "none"
  Want = {"C24_StaysUp", "C24_NoViolation"}
SPECIFICATION TSpec
CHECK_DEADLOCK FALSE
