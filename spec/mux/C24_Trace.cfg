CONSTANTS
  MaxId = 16
  ZeroIncBug = FALSE
  OpenCleanupBug = FALSE
  DeadlineBug = "none"
  Want = {"C24_StaysUp", "C24_NoViolation"}
SPECIFICATION TSpec
CHECK_DEADLOCK FALSE
