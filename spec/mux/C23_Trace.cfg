CONSTANTS
  MaxId = 16
  ZeroIncBug = FALSE
  OpenCleanupBug = FALSE
  DeadlineBug = "none"
  Want = {"C23_InOrder", "C23_NoCrossTalk", "C23_EOFComplete", "C23_Complete"}
SPECIFICATION TSpec
CHECK_DEADLOCK FALSE
