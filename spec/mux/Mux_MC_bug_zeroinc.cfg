CONSTANTS
  MaxId = 1
  ZeroIncBug = TRUE
  OpenCleanupBug = FALSE
  OpenRaceBug = FALSE
  W = 2
  B = 1
  Openers = {0}
  MaxWrite = 2
  MaxRead = 2
  Budget = 6
  WireCap = 3
  DoExport = FALSE
  DeadlineBug = "none"
  Acts = {"open","accept","cancel","write","read","cw","close"}
  Modes = {}
  DlEnds = {0, 1}
  PreEst = FALSE
  BlockOnRoom = FALSE
  IdTop = FALSE
  TrackKinds = {"zr","zw","rt","wt"}
SPECIFICATION Spec
VIEW view
INVARIANT InvTokens InvInOrder InvEOFComplete InvNoCrossTalk InvNoViolation InvWindow InvWire Export
CHECK_DEADLOCK FALSE
