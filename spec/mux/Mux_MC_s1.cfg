CONSTANTS
  MaxId = 1
  ZeroIncBug = FALSE
  OpenRaceBug = FALSE
  W = 2
  B = 1
  Openers = {0}
  MaxWrite = 2
  MaxRead = 2
  Budget = 6
  WireCap = 3
  DoExport = TRUE
  TrackKinds = {"zr","zw","rt","wt"}
SPECIFICATION Spec
VIEW view
INVARIANT InvInOrder InvEOFComplete InvNoCrossTalk InvNoViolation InvWindow InvWire Export
CHECK_DEADLOCK FALSE
