CONSTANTS
  MaxId = 2
  ZeroIncBug = FALSE
  OpenCleanupBug = FALSE
  OpenRaceBug = FALSE
  W = 2
  B = 1
  Openers = {0,1}
  MaxWrite = 2
  MaxRead = 2
  Budget = 6
  WireCap = 3
  DoExport = TRUE
  DeadlineBug = "none"
  Acts = {"open","accept","cancel","write","read","cw","close"}
  Modes = {}
  DlEnds = {0, 1}
  PreEst = FALSE
  BlockOnRoom = FALSE
  IdTop = FALSE
  TrackKinds = {"zr"}
SPECIFICATION Spec
VIEW view
INVARIANT InvTokens InvInOrder InvEOFComplete InvNoCrossTalk InvNoViolation InvWindow InvWire Export
CHECK_DEADLOCK FALSE
