CONSTANTS
  MaxId = 3
  ZeroIncBug = FALSE
  OpenRaceBug = FALSE
  W = 1
  B = 1
  Openers = {0}
  MaxWrite = 1
  MaxRead = 1
  Budget = 7
  WireCap = 3
  DoExport = TRUE
  TrackKinds = {"zr","rt"}
SPECIFICATION Spec
VIEW view
INVARIANT InvInOrder InvEOFComplete InvNoCrossTalk InvNoViolation InvWindow InvWire Export
CHECK_DEADLOCK FALSE
