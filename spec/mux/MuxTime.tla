---- MODULE MuxTime ----
(***************************************************************************)
(* C25: operators over timed observations of the real multiplexers.         *)
(*                                                                         *)
(* Every scenario is executed up to three times by the driver (attempts);   *)
(* times are monotonic milliseconds measured by the driver.  Only an        *)
(* unambiguous, repeated, multi-second overrun is a violation: a scenario   *)
(* passes as soon as one attempt behaves.                                   *)
(*                                                                         *)
(* Block:   a call (read, write, open, accept) was observed blocked, then   *)
(*          its releasing event (deadline passed, stream / multiplexer      *)
(*          closed locally, peer closed, carrier failed, context cancelled) *)
(*          was produced at time rel; the call returned lat ms after rel    *)
(*          (returned = FALSE: not within the driver's watchdog).  A Write  *)
(*          blocked for want of a write buffer (window token held) is then  *)
(*          followed by one more Write that must go through.  A Read in     *)
(*          progress while the carrier fails (or the multiplexer is closed)  *)
(*          in the middle of a data payload is followed by another Read,    *)
(*          SetReadDeadline(past) and Close, which must all return.          *)
(* Hol:     one stream's reader is stalled with its writer blocked on the   *)
(*          exhausted window; the other streams must move want[j] bytes.    *)
(* Backlog: the peer never accepts; the opens beyond its accept backlog.    *)
(***************************************************************************)
EXTENDS Integers, Sequences

\* follow (optional): after the blocked call returned, its deadline was cleared and the stream used again
FollowOK(a, limit) == ("follow" \in DOMAIN a) => (a.follow.returned /\ a.follow.lat <= limit /\ a.follow.err = "")
\* follows (optional): further calls on the same stream after the blocked call was released; each must return
FollowsOK(a, limit) == ("follows" \in DOMAIN a) =>
  \A j \in DOMAIN a.follows : a.follows[j].returned /\ a.follows[j].lat <= limit
AttemptOK_Block(a, limit) == a.blocked /\ a.returned /\ a.lat <= limit /\ FollowOK(a, limit) /\ FollowsOK(a, limit)
C25_BlockReturns(r) ==
  (\E i \in DOMAIN r.attempts : r.attempts[i].blocked)
    => \E i \in DOMAIN r.attempts : AttemptOK_Block(r.attempts[i], r.limit)

AttemptOK_Hol(a, limit) ==
  /\ a.finished /\ a.ms <= limit
  /\ Len(a.moved) = Len(a.want)
  /\ \A j \in DOMAIN a.want : a.moved[j] = a.want[j]
C25_NoHeadOfLine(r) ==
  (\E i \in DOMAIN r.attempts : r.attempts[i].stalled)
    => \E i \in DOMAIN r.attempts : r.attempts[i].stalled /\ AttemptOK_Hol(r.attempts[i], r.limit)

AttemptOK_Backlog(a, limit) ==
  \A j \in DOMAIN a.extra : a.extra[j].returned /\ a.extra[j].lat <= limit /\ a.extra[j].err = "rejected"
C25_BacklogRejects(r) ==
  (\E i \in DOMAIN r.attempts : r.attempts[i].filled)
    => \E i \in DOMAIN r.attempts : r.attempts[i].filled /\ AttemptOK_Backlog(r.attempts[i], r.limit)
====
