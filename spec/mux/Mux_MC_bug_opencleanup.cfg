CONSTANTS
  MaxId = 3
  ZeroIncBug = FALSE
  OpenCleanupBug = TRUE
  OpenRaceBug = FALSE
  W = 1
  B = 1
  Openers = {0}
  MaxWrite = 1
  MaxRead = 1
  Budget = 5
  WireCap = 1
  DoExport = FALSE
  DeadlineBug = "none"
  Acts = {"open","openb","openc","cancel","accept","write","read","close"}
  Modes = {}
  DlEnds = {}
  PreEst = FALSE
  BlockOnRoom = FALSE
  IdTop = FALSE
  TrackKinds = {}
SPECIFICATION Spec
VIEW view
INVARIANT InvTokens InvInOrder InvEOFComplete InvNoCrossTalk InvNoViolation InvWindow InvWire Export
CHECK_DEADLOCK FALSE
