CONSTANTS
  MaxId = 1
  ZeroIncBug = FALSE
  OpenCleanupBug = FALSE
  OpenRaceBug = FALSE
  W = 1
  B = 1
  Openers = {}
  MaxWrite = 2
  MaxRead = 1
  Budget = 6
  WireCap = 3
  DoExport = TRUE
  DeadlineBug = "none"
  Acts = {"wstart","rstart","setwd","setrd","write","read"}
  Modes = {"clear","past","far","soon"}
  DlEnds = {0}
  PreEst = TRUE
  BlockOnRoom = FALSE
  IdTop = FALSE
  TrackKinds = {"wsp0","wss0","rsp0","rss0","wfollow0","rfollow0"}
SPECIFICATION Spec
VIEW view
INVARIANT InvTokens InvInOrder InvEOFComplete InvNoCrossTalk InvNoViolation InvWindow InvWire Export
CHECK_DEADLOCK FALSE
