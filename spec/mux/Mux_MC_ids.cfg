CONSTANTS
  MaxId = 3
  ZeroIncBug = FALSE
  OpenCleanupBug = FALSE
  OpenRaceBug = FALSE
  W = 1
  B = 1
  Openers = {0, 1}
  MaxWrite = 1
  MaxRead = 1
  Budget = 6
  WireCap = 3
  DoExport = TRUE
  DeadlineBug = "none"
  Acts = {"open","openx","accept","cancel","close","write","read"}
  Modes = {}
  DlEnds = {}
  PreEst = FALSE
  BlockOnRoom = FALSE
  IdTop = TRUE
  TrackKinds = {"xo0","xo1"}
SPECIFICATION Spec
VIEW view
INVARIANT InvTokens InvInOrder InvEOFComplete InvNoCrossTalk InvNoViolation InvWindow InvWire Export
CHECK_DEADLOCK FALSE
