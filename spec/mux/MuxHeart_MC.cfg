CONSTANTS
  TI = 2
  RI = 5
  D = 2
  Horizon = 14
  CanStall = TRUE
SPECIFICATION Spec
INVARIANT NoSpuriousTimeout TimeoutError SomeoneTimedOut
PROPERTY StallDetected
CHECK_DEADLOCK FALSE
