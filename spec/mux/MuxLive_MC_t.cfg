CONSTANTS
  Streams = {1, 2, 3}
  Stalled = {1}
  Total = 4
  W = 2
  Bufs = 2
  Cap = 2
  Backlog = 2
  Opens = 4
  ReaderBlocks = FALSE
SPECIFICATION Spec
INVARIANT WindowOK
PROPERTY NoHeadOfLine BacklogReject PendingStay
CHECK_DEADLOCK FALSE
