CONSTANTS
  MaxId = 1
  ZeroIncBug = FALSE
  OpenCleanupBug = FALSE
  OpenRaceBug = FALSE
  W = 1
  B = 1
  Openers = {}
  MaxWrite = 4
  MaxRead = 2
  Budget = 5
  WireCap = 3
  DoExport = TRUE
  DeadlineBug = "none"
  Acts = {"wstart","write","read","cw"}
  Modes = {}
  DlEnds = {0}
  PreEst = TRUE
  BlockOnRoom = FALSE
  IdTop = FALSE
  TrackKinds = {"wt","rt"}
SPECIFICATION Spec
VIEW view
INVARIANT InvTokens InvInOrder InvEOFComplete InvNoCrossTalk InvNoViolation InvWindow InvWire Export
CHECK_DEADLOCK FALSE
