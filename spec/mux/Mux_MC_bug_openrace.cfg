CONSTANTS
  MaxId = 3
  ZeroIncBug = FALSE
  OpenCleanupBug = FALSE
  OpenRaceBug = TRUE
  W = 1
  B = 2
  Openers = {0}
  MaxWrite = 1
  MaxRead = 1
  Budget = 4
  WireCap = 3
  DoExport = FALSE
  DeadlineBug = "none"
  Acts = {"open","accept","cancel","write","read","cw","close"}
  Modes = {}
  DlEnds = {0, 1}
  PreEst = FALSE
  BlockOnRoom = FALSE
  IdTop = FALSE
  TrackKinds = {}
SPECIFICATION Spec
VIEW view
INVARIANT InvTokens InvInOrder InvEOFComplete InvNoCrossTalk InvNoViolation InvWindow InvWire Export
CHECK_DEADLOCK FALSE
