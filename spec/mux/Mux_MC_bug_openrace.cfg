CONSTANTS
  MaxId = 3
  ZeroIncBug = FALSE
  OpenRaceBug = TRUE
  W = 1
  B = 2
  Openers = {0}
  MaxWrite = 1
  MaxRead = 1
  Budget = 4
  WireCap = 3
  DoExport = FALSE
  TrackKinds = {}
SPECIFICATION Spec
VIEW view
INVARIANT InvInOrder InvEOFComplete InvNoCrossTalk InvNoViolation InvWindow InvWire Export
CHECK_DEADLOCK FALSE
