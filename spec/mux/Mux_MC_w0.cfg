CONSTANTS
  MaxId = 3
  ZeroIncBug = FALSE
  OpenCleanupBug = FALSE
  OpenRaceBug = FALSE
  W <- MinusOne
  B = 0
  Openers = {0}
  MaxWrite = 1
  MaxRead = 1
  Budget = 5
  WireCap = 3
  DoExport = TRUE
  DeadlineBug = "none"
  Acts = {"open","accept","cancel","write","read","cw","close","wstart","setwd"}
  Modes = {"past","clear"}
  DlEnds = {0, 1}
  PreEst = FALSE
  BlockOnRoom = FALSE
  IdTop = FALSE
  TrackKinds = {"wt","rt","wsp0","wsp1"}
SPECIFICATION Spec
VIEW view
INVARIANT InvTokens InvInOrder InvEOFComplete InvNoCrossTalk InvNoViolation InvWindow InvWire Export
CHECK_DEADLOCK FALSE
