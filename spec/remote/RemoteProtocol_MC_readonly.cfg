\* thorough tier: a read-only endpoint (Stage and Transition are refused; the
\* server terminates after a refused Stage)
CONSTANTS
  MaxOps = 3
  MaxEdits = 1
  OpKinds = {"Poll", "Scan", "Stage", "Supply", "Trans"}
  Cancellation = TRUE
  Limit = 2
  ReadOnly = TRUE
  Watch = "none"
  AncVals = {"nil", "B"}
  Fulls = {FALSE}
  InitDisks = {"A"}
  Variant = "code"
SPECIFICATION Spec
INVARIANTS
  C21_ResponseMatchesRequest
  C21_SameAsLocal
  C21_SnapshotExact
  C21_EndpointsAgree
  C21_NoResidue
  C21_BaselineChain
  C21_BaselineConsistent
CHECK_DEADLOCK TRUE
