\* thorough tier: poll-based watching (accelerated scans return the poller's snapshot; full scans do not)
CONSTANTS
  MaxOps = 3
  MaxEdits = 1
  OpKinds = {"Poll", "Scan", "Stage", "Trans"}
  Cancellation = TRUE
  Limit = 1
  ReadOnly = FALSE
  Watch = "poll"
  AncVals = {"nil", "B"}
  Fulls = {FALSE, TRUE}
  InitDisks = {"A"}
  Variant = "code"
SPECIFICATION Spec
INVARIANTS
  C21_ResponseMatchesRequest
  C21_SameAsLocal
  C21_SnapshotExact
  C21_EndpointsAgree
  C21_NoResidue
  C21_BaselineChain
  C21_BaselineConsistent
CHECK_DEADLOCK TRUE
