\* thorough tier: every (abstract state, operation) edge within five operations and two edits, no watcher
CONSTANTS
  MaxOps = 5
  MaxEdits = 2
  Limit = 1
  ReadOnly = FALSE
  InitDisks = {"A", "E"}
  Watch = "none"
SPECIFICATION Spec
VIEW View
ACTION_CONSTRAINT ExportEdge
INVARIANT TypeOK
CHECK_DEADLOCK FALSE
