\* thorough tier, liveness: under fairness every started operation finishes
CONSTANTS
  MaxOps = 2
  MaxEdits = 0
  OpKinds = {"Poll", "Scan", "Stage", "Supply", "Trans"}
  Cancellation = TRUE
  Limit = 1
  ReadOnly = FALSE
  Watch = "none"
  AncVals = {"nil"}
  Fulls = {FALSE}
  InitDisks = {"A"}
  Variant = "code"
SPECIFICATION FairSpec
PROPERTY C21_OperationsFinish
CHECK_DEADLOCK TRUE
