\* quick tier: every interleaving of two operations (all five kinds, caller
\* cancellation at every point, any ancestor on any scan) with one external edit,
\* starting without a root (the first scans return no content); the caller's history of
\* every finished operation is exported for the conformance driver
CONSTANTS
  MaxOps = 2
  MaxEdits = 1
  OpKinds = {"Poll", "Scan", "Stage", "Supply", "Trans"}
  Cancellation = TRUE
  Limit = 1
  ReadOnly = FALSE
  Watch = "none"
  AncVals = {"nil", "A", "B"}
  Fulls = {FALSE}
  InitDisks = {"E"}
  Variant = "code"
SPECIFICATION Spec
VIEW View
ACTION_CONSTRAINT ExportFinished
INVARIANTS
  C21_ResponseMatchesRequest
  C21_SameAsLocal
  C21_SnapshotExact
  C21_EndpointsAgree
  C21_NoResidue
  C21_BaselineChain
  C21_BaselineConsistent
CHECK_DEADLOCK TRUE
