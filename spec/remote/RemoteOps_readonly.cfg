\* thorough tier: every (abstract state, operation) edge within five operations and two edits, read-only endpoint
CONSTANTS
  MaxOps = 3
  MaxEdits = 2
  Limit = 1
  ReadOnly = TRUE
  InitDisks = {"A"}
  Watch = "none"
SPECIFICATION Spec
VIEW View
ACTION_CONSTRAINT ExportEdge
INVARIANT TypeOK
CHECK_DEADLOCK FALSE
