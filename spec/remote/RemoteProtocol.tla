---- MODULE RemoteProtocol ----
(***************************************************************************)
(* The agent protocol between an endpoint client (client.go) and an         *)
(* endpoint server (server.go) that wraps a local endpoint - C21.           *)
(*                                                                         *)
(* Two processes, two FIFO message queues (the control stream; framing and  *)
(* compression are C22's subject and are abstracted to "messages arrive in  *)
(* order").  One action per message sent / received and per place where one *)
(* of the two Goroutines of a cancellable operation makes progress:         *)
(*                                                                         *)
(*   client  Poll/Scan/Transition:  CStart  (send request)                  *)
(*                                  CCancel (the caller cancels its ctx)     *)
(*                                  CSendCompl (completion Goroutine)        *)
(*                                  CRecvResp  (response Goroutine)          *)
(*                                  CFinish (both done: patch, unmarshal,    *)
(*                                           remember lastSnapshotBytes)     *)
(*           Stage:   CStart, CStageResp (undo the compaction), CFeed (the   *)
(*                    caller transmits one file to the encoding receiver)    *)
(*           Supply:  CStart, CSupplyRecv (DecodeToReceiver)                 *)
(*   server  SRecvReq (serve loop), SRecvCompl / SRespond (the two          *)
(*           Goroutines of servePoll/serveScan/serveTransition), SDone,      *)
(*           SStage (filter, compact, respond), SRecvTx (DecodeToReceiver),  *)
(*           SSupply / SSendTx (rsync.Transmit into the encoding receiver)   *)
(*                                                                         *)
(* The wrapped endpoint is the small abstract machine LScan / LStage /       *)
(* LReceive / LTrans / LSupply below (what of local/endpoint.go decides      *)
(* results: scannedSince* flags, read-only mode, entry limit with TryAgain,  *)
(* the staging store, the disk).  The same machine, driven directly and      *)
(* never cancelled, is the reference "same endpoint used locally" (epL);     *)
(* external edits hit both disks identically.                                *)
(*                                                                         *)
(* Snapshots travel as rsync deltas of their serialisation against a         *)
(* baseline only the client knows: bytes are sequences of blocks, Sig /      *)
(* Deltify / Patch are the block-level rsync operations, the server is       *)
(* stateless w.r.t. baselines (it only sees the signature in the request).   *)
(***************************************************************************)
EXTENDS RemoteProps, RemoteEndpoint, TLC, Json

CONSTANTS
  MaxOps,        \* operations per behaviour
  MaxEdits,      \* external edits per behaviour
  OpKinds,       \* subset of {"Poll", "Scan", "Stage", "Supply", "Trans"}
  Cancellation,  \* BOOLEAN: callers may cancel Scan and Transition
  Limit,         \* configured maximum entry count
  ReadOnly,      \* BOOLEAN: the endpoint is the source of a unidirectional session
  Watch,         \* "none": no watcher; "poll": poll-based watching whose baseline scan is done
                 \* (accelerated scans return the poller's snapshot until a transition changes the disk)
  AncVals,       \* ancestors a caller may pass to Scan: subset of {"nil", "A", "B"}
  Fulls,         \* values of Scan's full flag: subset of BOOLEAN
  InitDisks,     \* disks a behaviour may start from: subset of {"A", "E"} ("E": the root does not exist yet,
                 \* so the first scans return no content and lastSnapshotBytes stays nil)
  Variant        \* "code", or the name of a what-if (see the teeth configurations)

Cfg == [limit |-> Limit, readonly |-> ReadOnly, watch |-> Watch]

VARIABLES cl, sv, c2s, s2c, epL, epR, mis, done, nops, nedits,
          trail      \* history: what the caller did so far, in the driver's vocabulary (hidden by VIEW)
vars == <<cl, sv, c2s, s2c, epL, epR, mis, done, nops, nedits, trail>>
View == <<cl, sv, c2s, s2c, epL, epR, mis, done, nops, nedits>>

(***************************************************************************)
(* Values                                                                   *)
(***************************************************************************)
\* serialised snapshots as block sequences ("h": flags and counters of a real
\* scan, "g": the flags of the ancestor-derived pseudo snapshot)
Content(v) == CASE v \in {"E", "nil"} -> <<>> [] v = "A" -> <<"x", "a">> [] v = "B" -> <<"x", "b">>
SnapBytes(v) == <<"h">> \o Content(v)
AncBytes(a) == <<"g">> \o Content(a)
Decode(b) == IF \E v \in Vals : SnapBytes(v) = b THEN CHOOSE v \in Vals : SnapBytes(v) = b ELSE "garbage"

\* rsync at block level (engine.go BytesSignature / DeltifyBytes / PatchBytes)
Sig(b) == b
Deltify(t, sig) ==
  [i \in DOMAIN t |->
     IF \E j \in DOMAIN sig : sig[j] = t[i]
     THEN [ref |-> CHOOSE j \in DOMAIN sig : sig[j] = t[i] /\ \A k \in DOMAIN sig : sig[k] = t[i] => j <= k]
     ELSE [data |-> t[i]]]
Patch(base, d) ==
  [i \in DOMAIN d |->
     IF "ref" \in DOMAIN d[i] THEN (IF d[i].ref \in DOMAIN base THEN base[d[i].ref] ELSE "?") ELSE d[i].data]

(***************************************************************************)
(* Operations a caller may issue                                            *)
(***************************************************************************)
PathSeqs == {<<>>, <<"p">>, <<"p", "q">>}
Ops ==
  (IF "Poll" \in OpKinds THEN {[k |-> "Poll"]} ELSE {})
  \cup (IF "Scan" \in OpKinds THEN {[k |-> "Scan", full |-> f, anc |-> a] : f \in Fulls, a \in AncVals} ELSE {})
  \* bad: the files of the batch that the SOURCE of the staging can no longer open when it transmits
  \cup (IF "Stage" \in OpKinds
        THEN {[k |-> "Stage", paths |-> ps, bad |-> {}] : ps \in PathSeqs}
             \cup {[k |-> "Stage", paths |-> <<"p", "q">>, bad |-> {"p"}]}
        ELSE {})
  \cup (IF "Supply" \in OpKinds THEN {[k |-> "Supply", paths |-> ps] : ps \in PathSeqs} ELSE {})
  \cup (IF "Trans" \in OpKinds THEN {[k |-> "Trans", to |-> v] : v \in Vals} ELSE {})

Cancellable(k) == k \in {"Poll", "Scan", "Trans"}

\* a transmission stream as it goes onto the wire
Wire(msgs) ==
  LET ms == IF Variant = "staleError" THEN StaleErrors(msgs, "") ELSE msgs
  IN [i \in DOMAIN ms |-> [t |-> "Tx", p |-> ms[i].p, done |-> ms[i].done, err |-> ms[i].err, c |-> ms[i].c]]
Unwire(m) == [p |-> m.p, done |-> m.done, err |-> m.err, c |-> m.c]

\* the same operations and edits in the vocabulary of the conformance driver
DriverOp(op) ==
  CASE op.k = "Poll" -> [op |-> "Poll"]
    [] op.k = "Scan" -> [op |-> "Scan", full |-> op.full, cancel |-> FALSE,
                         anc |-> CASE op.anc = "nil" -> "nil" [] op.anc = "A" -> "src" [] OTHER -> "srcmid"]
    [] op.k = "Stage" -> [op |-> "Stage", empty |-> op.paths = <<>>, bad |-> op.bad # {}]
    [] op.k = "Supply" -> [op |-> "Supply", empty |-> op.paths = <<>>]
    [] op.k = "Trans" -> [op |-> "Trans", cancel |-> FALSE]
EditKind(from, to) ==
  CASE to = "E" -> "rm"
    [] to = "B" -> "grow"
    [] to = "A" /\ from = "B" -> "shrink"
    [] OTHER -> "mk"

\* what the same endpoint returns when used locally (never cancelled)
Reference(e, op) ==
  CASE op.k = "Poll" -> [st |-> e, res |-> [err |-> "", early |-> FALSE]]
    [] op.k = "Scan" -> LScan(Cfg, e, op.full, FALSE)
    [] op.k = "Stage" -> (LET o == LStage(Cfg, e, op.paths) IN
                          [st |-> LReceiveStream(o.st, TxStream(o.st.pend, op.bad, "src")), res |-> o.res])
    [] op.k = "Supply" -> [st |-> e, res |-> LSupply(e, op.paths)]
    [] op.k = "Trans" -> LTrans(Cfg, e, op.to, FALSE)

(***************************************************************************)
(* Initial state                                                            *)
(***************************************************************************)
NoOp == [k |-> "none"]
\* base: the bytes the delta will be patched against (baselineBytes); sigof: the bytes whose
\* signature went into the request; csig: only in the "cacheSig" what-if - a signature kept
\* across calls and dropped only when lastSnapshotBytes is replaced
ClIdle0(last, dead, csig) ==
  [pc |-> "idle", op |-> NoOp, lres |-> NoOp, base |-> <<>>, sigof |-> <<>>, csig |-> csig, last |-> last,
   cancelled |-> FALSE, user |-> FALSE,
   complSent |-> FALSE, respGot |-> FALSE, resp |-> NoOp, rem |-> <<>>, acc |-> NoOp, dead |-> dead]
ClIdle(last, dead) == ClIdle0(last, dead, IF last = cl.last THEN cl.csig ELSE <<>>)
SvIdle(dead) == [pc |-> "idle", req |-> NoOp, complGot |-> FALSE, respSent |-> FALSE, rem |-> <<>>, dead |-> dead]
NoLast == <<>>                 \* lastSnapshotBytes = nil

Init ==
  /\ cl = ClIdle0(NoLast, FALSE, <<>>) /\ sv = SvIdle(FALSE)
  /\ c2s = <<>> /\ s2c = <<>>
  /\ \E d \in InitDisks :
       /\ epL = [EpInit(Cfg) EXCEPT !.disk = d, !.snap = d] /\ epR = epL
       /\ trail = IF d = "E" THEN <<[op |-> "Edit", kind |-> "rm"]>> ELSE <<>>
  /\ mis = FALSE /\ done = NoOp /\ nops = 0 /\ nedits = 0

Finished(op, l, r, user) == [op |-> op, l |-> l, r |-> r, cancelled |-> user]
\* the caller must not use an endpoint after an error (unless a scan says TryAgain),
\* and after a cancellation that took effect the two endpoints are no longer comparable
DeadAfter(op, l, r, user) ==
  \/ r.err # "" /\ ~(op.k = "Scan" /\ r.again)
  \/ user /\ r # l

(***************************************************************************)
(* Client                                                                   *)
(***************************************************************************)
CStart(op) ==
  /\ cl.pc = "idle" /\ ~cl.dead /\ nops < MaxOps
  /\ nops' = nops + 1
  /\ trail' = Append(trail, DriverOp(op))
  /\ LET ref == Reference(epL, op) IN
     /\ epL' = ref.st
     /\ IF op.k = "Stage" /\ op.paths = <<>>
        THEN \* client.go: "bail if there's nothing to stage" - no message is sent
             /\ done' = Finished(op, ref.res, StageRes("", <<>>, <<>>), FALSE)
             /\ cl' = [cl EXCEPT !.dead = ref.res.err # ""]
             /\ UNCHANGED <<c2s>>
        ELSE LET \* the baseline: the last snapshot's bytes, else the serialised ancestor OF THIS CALL
                 base == IF cl.last # NoLast THEN cl.last ELSE AncBytes(op.anc)
                 sigbytes == IF Variant = "cacheSig" /\ cl.csig # <<>> THEN cl.csig ELSE base
                 msg == CASE op.k = "Scan" -> [t |-> "Req", k |-> "Scan", sig |-> Sig(sigbytes), full |-> op.full]
                          [] op.k = "Stage" -> [t |-> "Req", k |-> "Stage", paths |-> op.paths]
                          [] op.k = "Supply" -> [t |-> "Req", k |-> "Supply", paths |-> op.paths]
                          [] op.k = "Trans" -> [t |-> "Req", k |-> "Trans", to |-> op.to]
                          [] op.k = "Poll" -> [t |-> "Req", k |-> "Poll"]
                 pc == CASE op.k = "Stage" -> "stagewait" [] op.k = "Supply" -> "supplyrecv" [] OTHER -> "wait"
             IN
             /\ c2s' = Append(c2s, msg)
             /\ cl' = [ClIdle(cl.last, FALSE) EXCEPT
                         !.pc = pc, !.op = op, !.lres = ref.res,
                         !.base = IF op.k = "Scan"
                                  THEN (IF Variant = "patchAncestor" THEN AncBytes(op.anc) ELSE base)
                                  ELSE <<>>,
                         !.sigof = IF op.k = "Scan" THEN sigbytes ELSE <<>>,
                         !.csig = IF op.k = "Scan" /\ Variant = "cacheSig" THEN sigbytes ELSE cl.csig,
                         !.rem = IF op.k = "Supply" THEN op.paths ELSE <<>>,
                         !.acc = IF op.k = "Supply" THEN [err |-> "", tx |-> <<>>] ELSE NoOp]
             /\ UNCHANGED done
  /\ UNCHANGED <<sv, s2c, epR, mis, nedits>>

\* the caller cancels the context of a Poll (the only way a poll without a
\* watcher returns), a Scan or a Transition
CCancel ==
  /\ cl.pc = "wait" /\ ~cl.cancelled /\ ~cl.respGot
  /\ cl.op.k = "Poll" \/ Cancellation
  /\ cl' = [cl EXCEPT !.cancelled = TRUE, !.user = TRUE]
  /\ trail' = IF cl.op.k = "Poll" THEN trail ELSE [trail EXCEPT ![Len(trail)].cancel = TRUE]
  /\ UNCHANGED <<sv, c2s, s2c, epL, epR, mis, done, nops, nedits>>

\* the completion Goroutine: fires when the sub-context is cancelled - by the
\* caller, or by the operation itself once the response has arrived
CSendCompl ==
  /\ cl.pc = "wait" /\ ~cl.complSent
  /\ cl.cancelled \/ (cl.respGot /\ Variant # "noComplAfterResp")
  /\ c2s' = Append(c2s, [t |-> "Compl", k |-> cl.op.k])
  /\ cl' = [cl EXCEPT !.complSent = TRUE]
  /\ UNCHANGED <<sv, s2c, epL, epR, mis, done, nops, nedits, trail>>

\* the response Goroutine: decodes the next message as the response type of
\* this operation
CRecvResp ==
  /\ cl.pc = "wait" /\ ~cl.respGot /\ s2c # <<>>
  /\ LET m == Head(s2c) IN
     /\ s2c' = Tail(s2c)
     /\ mis' = (mis \/ ~(m.t = "Resp" /\ m.k = cl.op.k))
     /\ cl' = [cl EXCEPT !.respGot = TRUE, !.resp = m]
  /\ UNCHANGED <<sv, c2s, epL, epR, done, nops, nedits, trail>>

ScanResult(resp, base) ==
  IF resp.err # ""
  THEN [res |-> ScanErr(RemotePrefix \o resp.err, IF Variant = "dropAgain" THEN FALSE ELSE resp.again), bytes |-> <<>>]
  ELSE LET b == Patch(base, resp.delta) v == Decode(b) IN
       IF v = "garbage" THEN [res |-> ScanErr("unable to unmarshal snapshot", FALSE), bytes |-> <<>>]
       ELSE [res |-> [err |-> "", again |-> FALSE, snap |-> v], bytes |-> b]

CFinish ==
  /\ cl.pc = "wait" /\ cl.complSent
  /\ cl.respGot \/ (Variant = "noWaitResp" /\ cl.user /\ cl.op.k = "Scan")
  /\ LET op == cl.op
         m == cl.resp
         sr == ScanResult(m, cl.base)
         r == IF ~cl.respGot THEN ScanErr(RemotePrefix \o "scan cancelled", FALSE)
              ELSE IF m.t # "Resp" \/ m.k # op.k THEN [err |-> "unable to receive response"]
              ELSE CASE op.k = "Poll" -> [err |-> IF m.err = "" THEN "" ELSE RemotePrefix \o m.err, early |-> ~cl.user]
                     [] op.k = "Scan" -> sr.res
                     [] op.k = "Trans" -> IF m.err # "" THEN TransRes(RemotePrefix \o m.err, <<>>, <<>>, FALSE)
                                          ELSE TransRes("", m.results, m.problems, m.missing)
         \* lastSnapshotBytes: only a snapshot with content replaces the baseline
         last == IF cl.respGot /\ op.k = "Scan" /\ m.t = "Resp" /\ m.k = "Scan" /\ sr.res.err = ""
                    /\ (sr.res.snap # "E" \/ Variant = "storeAlways")
                 THEN sr.bytes ELSE cl.last
     IN
     /\ done' = Finished(op, cl.lres, r, cl.user)
     /\ cl' = ClIdle(last, DeadAfter(op, cl.lres, r, cl.user))
  /\ UNCHANGED <<sv, c2s, s2c, epL, epR, mis, nops, nedits, trail>>

CStageResp ==
  /\ cl.pc = "stagewait" /\ s2c # <<>>
  /\ LET m == Head(s2c)
         bad == ~(m.t = "Resp" /\ m.k = "Stage")
     IN
     /\ s2c' = Tail(s2c)
     /\ mis' = (mis \/ bad)
     /\ IF bad
        THEN /\ done' = Finished(cl.op, cl.lres, StageRes("unable to receive stage response", <<>>, <<>>), FALSE)
             /\ cl' = ClIdle(cl.last, TRUE)
        ELSE IF m.err # ""
        THEN /\ done' = Finished(cl.op, cl.lres, StageRes(RemotePrefix \o m.err, <<>>, <<>>), FALSE)
             /\ cl' = ClIdle(cl.last, TRUE)
        ELSE LET \* the shorthand: no paths but signatures = all paths are required
                 required == IF m.paths = <<>> /\ m.sigs # <<>> /\ Variant # "ignoreCompaction"
                             THEN cl.op.paths ELSE m.paths
             IN
             IF required = <<>>
             THEN /\ done' = Finished(cl.op, cl.lres, StageRes("", <<>>, <<>>), FALSE)
                  /\ cl' = ClIdle(cl.last, DeadAfter(cl.op, cl.lres, StageRes("", <<>>, <<>>), FALSE))
             ELSE /\ cl' = [cl EXCEPT !.pc = "feed", !.rem = Wire(TxStream(required, cl.op.bad, "src")),
                                      !.acc = StageRes("", required, m.sigs)]
                  /\ UNCHANGED done
  /\ UNCHANGED <<sv, c2s, epL, epR, nops, nedits, trail>>

\* the caller transmits the files to the encoding receiver it was handed
CFeed ==
  /\ cl.pc = "feed"
  /\ IF cl.rem = <<>>
     THEN /\ done' = Finished(cl.op, cl.lres, cl.acc, FALSE)
          /\ cl' = ClIdle(cl.last, DeadAfter(cl.op, cl.lres, cl.acc, FALSE))
          /\ UNCHANGED c2s
     ELSE /\ c2s' = Append(c2s, Head(cl.rem))
          /\ cl' = [cl EXCEPT !.rem = Tail(@)]
          /\ UNCHANGED done
  /\ UNCHANGED <<sv, s2c, epL, epR, mis, nops, nedits, trail>>

\* DecodeToReceiver(len(paths)) on the client
CSupplyRecv ==
  /\ cl.pc = "supplyrecv"
  /\ IF cl.rem = <<>>
     THEN /\ done' = Finished(cl.op, cl.lres, cl.acc, FALSE)
          /\ cl' = ClIdle(cl.last, DeadAfter(cl.op, cl.lres, cl.acc, FALSE))
          /\ UNCHANGED <<s2c, mis>>
     ELSE /\ s2c # <<>>
          /\ LET m == Head(s2c)
                 bad == m.t # "Tx" \/ ~TxValid(m)      \* "invalid transmission received"
                 failed == [err |-> "unable to decode and forward rsync operations", tx |-> cl.acc.tx]
             IN
             /\ s2c' = Tail(s2c)
             /\ mis' = (mis \/ m.t # "Tx")
             /\ IF bad
                THEN /\ done' = Finished(cl.op, cl.lres, failed, FALSE)
                     /\ cl' = ClIdle(cl.last, TRUE)
                ELSE /\ cl' = [cl EXCEPT !.rem = IF m.done THEN Tail(@) ELSE @,
                                         !.acc = [@ EXCEPT !.tx = Append(@, Unwire(m))]]
                     /\ UNCHANGED done
  /\ UNCHANGED <<sv, c2s, epL, epR, nops, nedits, trail>>

(***************************************************************************)
(* Server                                                                   *)
(***************************************************************************)
SRecvReq ==
  /\ sv.pc = "idle" /\ ~sv.dead /\ c2s # <<>>
  /\ LET m == Head(c2s) IN
     /\ c2s' = Tail(c2s)
     /\ IF m.t # "Req"
        THEN /\ mis' = TRUE /\ sv' = SvIdle(TRUE)            \* "invalid endpoint request": serve returns
        ELSE /\ sv' = [SvIdle(FALSE) EXCEPT !.pc = "serve", !.req = m] /\ UNCHANGED mis
  /\ UNCHANGED <<cl, s2c, epL, epR, done, nops, nedits, trail>>

\* the Goroutine that waits for the completion request
SRecvCompl ==
  /\ sv.pc = "serve" /\ Cancellable(sv.req.k) /\ ~sv.complGot /\ c2s # <<>>
  /\ LET m == Head(c2s) IN
     /\ c2s' = Tail(c2s)
     /\ mis' = (mis \/ ~(m.t = "Compl" /\ m.k = sv.req.k))
     /\ sv' = [sv EXCEPT !.complGot = TRUE]
  /\ UNCHANGED <<cl, s2c, epL, epR, done, nops, nedits, trail>>

\* the Goroutine that runs the endpoint operation and sends the response; its
\* context is cancelled once the completion request has been received, which
\* the operation may or may not notice in time
SRespond ==
  /\ sv.pc = "serve" /\ Cancellable(sv.req.k) /\ ~sv.respSent
  /\ \/ /\ sv.req.k = "Poll"
        /\ sv.complGot                       \* no watcher: Poll returns on cancellation only
        /\ s2c' = Append(s2c, [t |-> "Resp", k |-> "Poll", err |-> ""])
        /\ UNCHANGED epR
     \/ /\ sv.req.k = "Scan"
        /\ \E c \in (IF sv.complGot THEN BOOLEAN ELSE {FALSE}) :
             LET o == LScan(Cfg, epR, sv.req.full, c) IN
             /\ epR' = o.st
             /\ s2c' = Append(s2c,
                  IF o.res.err # ""
                  THEN [t |-> "Resp", k |-> "Scan", err |-> o.res.err, again |-> o.res.again, delta |-> <<>>]
                  ELSE [t |-> "Resp", k |-> "Scan", err |-> "", again |-> FALSE,
                        delta |-> Deltify(SnapBytes(o.res.snap), sv.req.sig)])
     \/ /\ sv.req.k = "Trans"
        /\ \E c \in (IF sv.complGot THEN BOOLEAN ELSE {FALSE}) :
             LET o == LTrans(Cfg, epR, sv.req.to, c) IN
             /\ epR' = o.st
             /\ s2c' = Append(s2c, [t |-> "Resp", k |-> "Trans", err |-> o.res.err, results |-> o.res.results,
                                    problems |-> o.res.problems, missing |-> o.res.missing])
  /\ sv' = [sv EXCEPT !.respSent = TRUE]
  /\ UNCHANGED <<cl, c2s, epL, mis, done, nops, nedits, trail>>

SDone ==
  /\ sv.pc = "serve" /\ Cancellable(sv.req.k) /\ sv.complGot /\ sv.respSent
  /\ sv' = SvIdle(FALSE)
  /\ UNCHANGED <<cl, c2s, s2c, epL, epR, mis, done, nops, nedits, trail>>

SStage ==
  /\ sv.pc = "serve" /\ sv.req.k = "Stage"
  /\ LET o == LStage(Cfg, epR, sv.req.paths)
         f == o.res.paths
     IN
     /\ epR' = o.st
     /\ IF o.res.err # ""
        THEN \* the error is sent, then serveStage fails and the server terminates
             /\ s2c' = Append(s2c, [t |-> "Resp", k |-> "Stage", err |-> o.res.err, paths |-> <<>>, sigs |-> <<>>])
             /\ sv' = SvIdle(TRUE)
        ELSE \* compaction: an empty path list stands for "all of them"
             /\ s2c' = Append(s2c, [t |-> "Resp", k |-> "Stage", err |-> "",
                                    paths |-> IF Len(f) = Len(sv.req.paths) THEN <<>> ELSE f,
                                    sigs |-> o.res.sigs])
             /\ sv' = IF f = <<>> THEN SvIdle(FALSE) ELSE [sv EXCEPT !.pc = "recvtx", !.rem = f]
  /\ UNCHANGED <<cl, c2s, epL, mis, done, nops, nedits, trail>>

SRecvTx ==
  /\ sv.pc = "recvtx" /\ c2s # <<>>
  /\ LET m == Head(c2s) IN
     /\ c2s' = Tail(c2s)
     /\ mis' = (mis \/ m.t # "Tx")
     /\ IF m.t # "Tx" \/ ~TxValid(m)
        THEN \* DecodeToReceiver fails ("invalid transmission received"): serveStage, and with it the server, ends
             /\ epR' = epR /\ sv' = SvIdle(TRUE)
        ELSE /\ epR' = LReceiveMsg(epR, Unwire(m))
             /\ sv' = IF epR'.pend = <<>> THEN SvIdle(FALSE) ELSE sv
  /\ UNCHANGED <<cl, s2c, epL, done, nops, nedits, trail>>

SSupply ==
  /\ sv.pc = "serve" /\ sv.req.k = "Supply"
  /\ sv' = IF sv.req.paths = <<>> THEN SvIdle(FALSE)
           ELSE [sv EXCEPT !.pc = "sendtx", !.rem = Wire(LSupply(epR, sv.req.paths).tx)]
  /\ UNCHANGED <<cl, c2s, s2c, epL, epR, mis, done, nops, nedits, trail>>

SSendTx ==
  /\ sv.pc = "sendtx"
  /\ s2c' = Append(s2c, Head(sv.rem))
  /\ sv' = IF Len(sv.rem) = 1 THEN SvIdle(FALSE) ELSE [sv EXCEPT !.rem = Tail(@)]
  /\ UNCHANGED <<cl, c2s, epL, epR, mis, done, nops, nedits, trail>>

(***************************************************************************)
(* Environment                                                              *)
(***************************************************************************)
BothIdle == cl.pc = "idle" /\ sv.pc = "idle"

\* identical external edits hit both mirrored roots between operations
Edit(v) ==
  /\ BothIdle /\ ~cl.dead /\ nedits < MaxEdits /\ nops < MaxOps /\ v # epL.disk
  /\ epL' = [epL EXCEPT !.disk = v] /\ epR' = [epR EXCEPT !.disk = v]
  /\ nedits' = nedits + 1
  /\ trail' = Append(trail, [op |-> "Edit", kind |-> EditKind(epL.disk, v)])
  /\ UNCHANGED <<cl, sv, c2s, s2c, mis, done, nops>>

\* a file of the (mirrored) roots can no longer be opened: deleted, or replaced by a directory
Vanish(p) ==
  /\ BothIdle /\ ~cl.dead /\ nedits < MaxEdits /\ nops < MaxOps /\ p \notin epL.gone /\ "Supply" \in OpKinds
  /\ epL' = [epL EXCEPT !.gone = @ \cup {p}] /\ epR' = [epR EXCEPT !.gone = @ \cup {p}]
  /\ nedits' = nedits + 1
  /\ trail' = Append(trail, [op |-> "Edit", kind |-> "vanish"])
  /\ UNCHANGED <<cl, sv, c2s, s2c, mis, done, nops>>

\* the server is gone (its serve loop returned and closed the stream): whatever the
\* client is waiting for ends with a transport error
EOFRes(op) ==
  CASE op.k = "Scan" -> ScanErr("unable to receive scan response", FALSE)
    [] op.k = "Trans" -> TransRes("unable to receive transition response", <<>>, <<>>, FALSE)
    [] op.k = "Poll" -> [err |-> "unable to receive poll response", early |-> FALSE]
    [] op.k = "Stage" -> StageRes("unable to receive stage response", <<>>, <<>>)
    [] op.k = "Supply" -> [err |-> "unable to decode and forward rsync operations", tx |-> cl.acc.tx]
CRecvEOF ==
  /\ sv.dead /\ s2c = <<>>
  /\ \/ cl.pc = "wait" /\ ~cl.respGot
     \/ cl.pc = "stagewait"
     \/ cl.pc = "supplyrecv" /\ cl.rem # <<>>
  /\ done' = Finished(cl.op, cl.lres, EOFRes(cl.op), cl.user)
  /\ cl' = ClIdle(cl.last, TRUE)
  /\ UNCHANGED <<sv, c2s, s2c, epL, epR, mis, nops, nedits, trail>>

\* a finished behaviour (explicit, so that TLC's deadlock check flags every
\* other state without a successor)
Terminated ==
  /\ cl.pc = "idle" /\ (nops = MaxOps \/ cl.dead)
  /\ sv.dead \/ (sv.pc = "idle" /\ c2s = <<>>)
  /\ UNCHANGED vars

Next ==
  \/ \E op \in Ops : CStart(op)
  \/ CCancel \/ CSendCompl \/ CRecvResp \/ CFinish \/ CStageResp \/ CFeed \/ CSupplyRecv
  \/ SRecvReq \/ SRecvCompl \/ SRespond \/ SDone \/ SStage \/ SRecvTx \/ SSupply \/ SSendTx
  \/ \E v \in Vals : Edit(v)
  \/ Vanish("p")
  \/ CRecvEOF
  \/ Terminated

Spec == Init /\ [][Next]_vars
FairSpec == Spec /\ WF_vars(CCancel) /\ WF_vars(CSendCompl) /\ WF_vars(CRecvResp) /\ WF_vars(CFinish)
            /\ WF_vars(CStageResp) /\ WF_vars(CFeed) /\ WF_vars(CSupplyRecv)
            /\ WF_vars(SRecvReq) /\ WF_vars(SRecvCompl) /\ WF_vars(SRespond) /\ WF_vars(SDone)
            /\ WF_vars(SStage) /\ WF_vars(SRecvTx) /\ WF_vars(SSupply) /\ WF_vars(SSendTx)

(***************************************************************************)
(* Properties                                                               *)
(***************************************************************************)
\* a response / completion / transmission is never consumed by a reader that
\* expects something else
C21_ResponseMatchesRequest == ~mis

OpOK(d) ==
  CASE d.op.k = "Poll" -> PollSame(FALSE, d.l, d.r)
    [] d.op.k = "Scan" -> (IF d.cancelled THEN ScanCancelledOK(d.l, d.r) ELSE ScanSame(d.l, d.r))
    [] d.op.k = "Stage" -> StageSame(d.op.paths, d.l, d.r)
    [] d.op.k = "Supply" -> SupplySame(d.l, d.r)
    [] d.op.k = "Trans" -> (IF d.cancelled THEN TransCancelledOK(<<"">>, d.l, d.r) ELSE TransSame(d.l, d.r))

\* every finished operation returned what the local endpoint returned
C21_SameAsLocal == done # NoOp => OpOK(done)

\* the reconstructed snapshot is the server-side snapshot, whatever the history
\* of scans, ancestors, empty snapshots and cancellations before it
C21_SnapshotExact == (done # NoOp /\ done.op.k = "Scan") => SnapshotExact(done.l, done.r)

\* StageEquivalent / TransitionEquivalent at state level: whenever nothing is in
\* flight, the wrapped endpoint is in the state the local one is in (disk,
\* staging store, scanned-since flags)
C21_EndpointsAgree == (BothIdle /\ c2s = <<>> /\ ~cl.dead /\ ~sv.dead) => epR = epL

\* nothing is left in the stream when both sides are between operations
\* (a request the server has not yet picked up may be waiting: the client returns
\* from an empty Supply without hearing from the server)
C21_NoResidue == (BothIdle /\ ~sv.dead) => (s2c = <<>> /\ \A i \in DOMAIN c2s : c2s[i].t = "Req")

\* export (ACTION_CONSTRAINT of the exporting configurations): one line per edge
\* of the state graph on which an operation finishes - the caller's history so far
ExportFinished ==
  (done' # done) =>
    PrintT(<<"BEHAVIOUR", ToJson([steps |-> trail',
                                   cfg |-> [watch |-> IF Watch = "poll" THEN "poll" ELSE "nowatch",
                                            readonly |-> ReadOnly, limit |-> TRUE]])>>)

\* every started operation finishes (liveness; checked with FairSpec)
C21_OperationsFinish == [](cl.pc # "idle" => <>(cl.pc = "idle"))

\* the signature in a scan request is the signature of exactly the bytes the delta
\* will be patched against - whatever ancestors earlier calls were given
C21_BaselineConsistent == (cl.pc = "wait" /\ cl.op.k = "Scan") => cl.base = cl.sigof

\* the client's baseline is always the serialisation of a snapshot with content
C21_BaselineChain == cl.last = NoLast \/ (Decode(cl.last) \in Vals /\ (Decode(cl.last) # "E" \/ Variant = "storeAlways"))
====
