\* thorough tier: five operations without caller cancellation of Scan/Transition
\* (the baseline chain and the endpoint state over longer histories)
CONSTANTS
  MaxOps = 5
  MaxEdits = 2
  OpKinds = {"Scan", "Stage", "Trans"}
  Cancellation = FALSE
  Limit = 1
  ReadOnly = FALSE
  Watch = "none"
  AncVals = {"nil", "B"}
  Fulls = {FALSE}
  InitDisks = {"A", "E"}
  Variant = "code"
SPECIFICATION Spec
INVARIANTS
  C21_ResponseMatchesRequest
  C21_SameAsLocal
  C21_SnapshotExact
  C21_EndpointsAgree
  C21_NoResidue
  C21_BaselineChain
  C21_BaselineConsistent
CHECK_DEADLOCK TRUE
