---- MODULE RemoteEndpoint ----
(***************************************************************************)
(* The endpoint that server.go wraps (endpoint/local/endpoint.go), reduced  *)
(* to what decides the results of its operations:                           *)
(*   scannedSinceLastStageCall / scannedSinceLastTransitionCall,            *)
(*   read-only mode, the entry limit (Scan refuses with TryAgain),          *)
(*   the staging store (Stage filters what is already there, Transition     *)
(*   consumes it and wipes it), the disk, and - in poll mode - accelerate   *)
(*   and the poller's snapshot.                                             *)
(* cfg = [limit, readonly, watch].  Every operation is a function from the  *)
(* endpoint state to [st |-> next state, res |-> result record]; the result *)
(* records are the ones RemoteProps.tla talks about.                        *)
(* Used by RemoteProtocol.tla (the wrapped endpoint and the local           *)
(* reference), RemoteOps.tla (sequence generator) and Remote_Trace.tla.     *)
(***************************************************************************)
EXTENDS Naturals, Sequences, FiniteSets

Vals == {"E", "A", "B"}                    \* disk: no root at all / two populated states
Paths == {"p", "q"}
Count(v) == CASE v = "E" -> 0 [] v = "A" -> 1 [] v = "B" -> 2
Need(v) == CASE v = "E" -> {} [] v = "A" -> {"p"} [] v = "B" -> {"p", "q"}   \* files a transition to v consumes


(***************************************************************************)
(* The wrapped local endpoint (endpoint/local/endpoint.go), abstractly      *)
(***************************************************************************)
\* acc / snap: accelerate and snapshot of endpoint.go (the poller's last scan)
EpInit(cfg) == [disk |-> "A", scS |-> FALSE, scT |-> FALSE, staged |-> {}, pend |-> <<>>,
           acc |-> cfg.watch = "poll", snap |-> "A",
           gone |-> {}]                 \* files of the root that can no longer be opened
NoSnap == "none"
ScanErr(e, a) == [err |-> e, again |-> a, snap |-> NoSnap]

LScan(cfg, e, full, cancelled) ==
  IF cancelled THEN [st |-> e, res |-> ScanErr("scan cancelled", FALSE)]
  ELSE LET s == IF e.acc /\ ~full THEN e.snap ELSE e.disk      \* accelerated: the existing snapshot
           e1 == [e EXCEPT !.snap = s]
       IN
       IF Count(s) > cfg.limit THEN [st |-> e1, res |-> ScanErr("exceeded allowed entry count", TRUE)]
       ELSE [st |-> [e1 EXCEPT !.scS = TRUE, !.scT = TRUE], res |-> [err |-> "", again |-> FALSE, snap |-> s]]

StageRes(e, ps, sg) == [err |-> e, paths |-> ps, sigs |-> sg, recv |-> ps # <<>>, feed |-> ""]
SigOf(p) == "sig-" \o p
LStage(cfg, e, paths) ==
  IF cfg.readonly THEN [st |-> e, res |-> StageRes("endpoint is in read-only mode", <<>>, <<>>)]
  ELSE IF paths = <<>> THEN [st |-> e, res |-> StageRes("", <<>>, <<>>)]
  ELSE IF ~e.scS THEN [st |-> e, res |-> StageRes("multiple staging operations performed without scan", <<>>, <<>>)]
  ELSE LET f == SelectSeq(paths, LAMBDA p : p \notin e.staged) IN
       [st |-> [e EXCEPT !.scS = FALSE, !.pend = f],
        res |-> StageRes("", f, [i \in DOMAIN f |-> SigOf(f[i])])]
LReceive(e, p) == [e EXCEPT !.staged = @ \cup {p}, !.pend = Tail(@)]
RECURSIVE LReceiveAll(_, _)
LReceiveAll(e, ps) == IF ps = <<>> THEN e ELSE LReceiveAll(LReceive(e, Head(ps)), Tail(ps))

TransRes(e, rs, ps, m) == [err |-> e, results |-> rs, problems |-> ps, missing |-> m]
LTrans(cfg, e, to, cancelled) ==
  IF cfg.readonly THEN [st |-> e, res |-> TransRes("endpoint is in read-only mode", <<>>, <<>>, FALSE)]
  ELSE IF ~e.scT THEN [st |-> e, res |-> TransRes("multiple transition operations performed without scan", <<>>, <<>>, FALSE)]
  ELSE LET e1 == [e EXCEPT !.scT = FALSE, !.staged = {}] IN     \* Finalize wipes the store
       IF cancelled THEN [st |-> e1, res |-> TransRes("", <<e.disk>>, <<[path |-> "", err |-> "transition cancelled"]>>, FALSE)]
       ELSE IF Need(to) \subseteq e.staged
       THEN \* a transition that changed the disk switches acceleration off (poll mode)
            [st |-> [e1 EXCEPT !.disk = to, !.acc = @ /\ to = e.disk], res |-> TransRes("", <<to>>, <<>>, FALSE)]
       ELSE [st |-> e1, res |-> TransRes("", <<e.disk>>, <<[path |-> "", err |-> "unable to provide staged file"]>>, TRUE)]

(***************************************************************************)
(* rsync.Transmit / rsync.DecodeToReceiver: the transmission stream of a     *)
(* batch of files.  A file that can be opened travels as an operation        *)
(* message and a final message; a file that cannot be opened as one final    *)
(* message that carries the error - and the batch goes on with the next      *)
(* file.  An error is only legal on a file's final message                   *)
(* (Transmission.EnsureValid).                                               *)
(***************************************************************************)
OpenErr == "unable to open file"
TxOp(p, c) == [p |-> p, done |-> FALSE, err |-> "", c |-> c]
TxDone(p, err) == [p |-> p, done |-> TRUE, err |-> err, c |-> ""]
RECURSIVE TxStream(_, _, _)
TxStream(paths, unopenable, c) ==
  IF paths = <<>> THEN <<>>
  ELSE (IF Head(paths) \in unopenable THEN <<TxDone(Head(paths), OpenErr)>>
        ELSE <<TxOp(Head(paths), c), TxDone(Head(paths), "")>>)
       \o TxStream(Tail(paths), unopenable, c)
TxValid(m) == m.done \/ m.err = ""

\* what-if "staleError": one Transmission object is reused and its Error field is
\* not cleared when the operations of the next file are filled in
RECURSIVE StaleErrors(_, _)
StaleErrors(msgs, carry) ==
  IF msgs = <<>> THEN <<>>
  ELSE LET m == Head(msgs) IN
       IF m.done THEN <<m>> \o StaleErrors(Tail(msgs), m.err)
       ELSE <<[m EXCEPT !.err = carry]>> \o StaleErrors(Tail(msgs), carry)

\* the receiver of a staging operation: a file is staged by its error-free final message
LReceiveMsg(e, m) ==
  IF ~m.done THEN e ELSE IF m.err = "" THEN LReceive(e, m.p) ELSE [e EXCEPT !.pend = Tail(@)]
RECURSIVE LReceiveStream(_, _)
LReceiveStream(e, msgs) == IF msgs = <<>> THEN e ELSE LReceiveStream(LReceiveMsg(e, Head(msgs)), Tail(msgs))

LSupply(e, paths) == [err |-> "", tx |-> TxStream(paths, e.gone, e.disk)]

====
