---- MODULE RemoteOps ----
(***************************************************************************)
(* Sequence generator for the C21 conformance driver (thorough tier).       *)
(*                                                                         *)
(* The caller's view of one endpoint: operations are atomic here (the       *)
(* message-level protocol is RemoteProtocol.tla's subject), the state is    *)
(* the abstract endpoint of RemoteEndpoint.tla plus the one thing the       *)
(* client remembers between operations - whether it holds the bytes of a    *)
(* snapshot with content (lastSnapshotBytes) - plus "the caller must stop"  *)
(* (an error, or a cancellation that may have taken effect).                *)
(*                                                                         *)
(* TLC explores the state graph (trail hidden by the VIEW) and prints, for  *)
(* every edge on which an operation is issued, the history that leads       *)
(* through that edge: one executable case per (abstract state, operation).  *)
(* Histories are in the driver's vocabulary.                                *)
(***************************************************************************)
EXTENDS RemoteEndpoint, TLC, Json

CONSTANTS MaxOps, MaxEdits, Limit, ReadOnly, Watch, InitDisks
Cfg == [limit |-> Limit, readonly |-> ReadOnly, watch |-> Watch]

VARIABLES ep, last, dead, n, ne, trail
vars == <<ep, last, dead, n, ne, trail>>
View == <<ep, last, dead, n, ne>>

Init ==
  /\ \E d \in InitDisks :
       /\ ep = [EpInit(Cfg) EXCEPT !.disk = d, !.snap = d]
       /\ trail = IF d = "E" THEN <<[op |-> "Edit", kind |-> "rm"]>> ELSE <<>>      \* no root yet
  /\ last = FALSE /\ dead = FALSE /\ n = 0 /\ ne = 0

Issue(step) == /\ ~dead /\ n < MaxOps /\ n' = n + 1 /\ ne' = ne /\ trail' = Append(trail, step)

Fulls == IF Watch = "poll" THEN BOOLEAN ELSE {FALSE}
\* The ancestor is the baseline as long as the client holds no bytes of a populated
\* snapshot, and it may be a different one on every call: nothing, the previous
\* snapshot, the (large, similar) source tree, the source tree altered in the
\* middle, a small or a large unrelated tree.
Ancs == IF last THEN {"nil", "src"} ELSE {"nil", "prev", "src", "srcmid", "junk", "big"}

Scan(full, anc, cancel) ==
  /\ Issue([op |-> "Scan", full |-> full, anc |-> anc, cancel |-> cancel])
  /\ LET o == LScan(Cfg, ep, full, FALSE) IN
     \/ /\ ep' = o.st
        /\ dead' = (o.res.err # "" /\ ~o.res.again)
        /\ last' = (last \/ (o.res.err = "" /\ o.res.snap # "E"))
     \/ /\ cancel                      \* the cancellation took effect
        /\ ep' = ep /\ dead' = TRUE /\ last' = last

\* bad: some files of the batch cannot be opened any more when they are transmitted
\* (by the source of the staging resp. by the endpoint that supplies)
Stage(empty, bad) ==
  /\ ~(empty /\ bad)
  /\ Issue([op |-> "Stage", empty |-> empty, bad |-> bad])
  /\ LET o == LStage(Cfg, ep, IF empty THEN <<>> ELSE <<"p">>) IN
     /\ ep' = LReceiveAll(o.st, o.st.pend)
     /\ dead' = (o.res.err # "")
  /\ UNCHANGED last

Supply(empty, bad) ==
  /\ ~(empty /\ bad)
  /\ Issue([op |-> "Supply", empty |-> empty, bad |-> bad])
  /\ UNCHANGED <<ep, last, dead>>

\* the driver's transitions turn the root into (a copy of) the populated source
Trans(cancel) ==
  /\ Issue([op |-> "Trans", cancel |-> cancel])
  /\ LET o == LTrans(Cfg, ep, "A", FALSE) IN
     /\ ep' = o.st
     /\ dead' = (o.res.err # "" \/ cancel)
  /\ UNCHANGED last

Poll ==
  /\ Issue([op |-> "Poll"])
  /\ UNCHANGED <<ep, last, dead>>

EditKind(from, to) ==
  CASE to = "E" -> "rm" [] to = "B" -> "grow" [] to = "A" /\ from = "B" -> "shrink" [] OTHER -> "mk"
Edit(v) ==
  /\ ~dead /\ n < MaxOps /\ ne < MaxEdits /\ v # ep.disk
  /\ ep' = [ep EXCEPT !.disk = v]
  /\ ne' = ne + 1
  /\ trail' = Append(trail, [op |-> "Edit", kind |-> EditKind(ep.disk, v)])
  /\ UNCHANGED <<last, dead, n>>

Next ==
  \/ \E f \in Fulls, a \in Ancs, c \in BOOLEAN : Scan(f, a, c)
  \/ \E e \in BOOLEAN, b \in BOOLEAN : Stage(e, b) \/ Supply(e, b)
  \/ \E c \in BOOLEAN : Trans(c)
  \/ Poll
  \/ \E v \in Vals : Edit(v)

Spec == Init /\ [][Next]_vars

\* ACTION_CONSTRAINT: print the history of every operation edge
ExportEdge ==
  (n' # n) =>
    PrintT(<<"BEHAVIOUR", ToJson([steps |-> trail',
                                   cfg |-> [watch |-> IF Watch = "poll" THEN "poll" ELSE "nowatch",
                                            readonly |-> ReadOnly, limit |-> TRUE]])>>)

\* sanity of the generator itself
TypeOK == n \in 0..MaxOps /\ ne \in 0..MaxEdits /\ ep.disk \in Vals /\ Len(trail) \in {n + ne, n + ne + 1}
====
