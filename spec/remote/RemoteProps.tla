---- MODULE RemoteProps ----
(***************************************************************************)
(* C21: what "a remote endpoint behaves exactly like a local endpoint"      *)
(* means, as operators over ONE operation's pair of results: l = what the   *)
(* endpoint returned when used locally, r = what it returned when reached   *)
(* through the agent protocol (client.go <-> server.go).                    *)
(*                                                                         *)
(* The same operators are evaluated                                         *)
(*   - by RemoteProtocol.tla on the results its model of client and server  *)
(*     produces (leg D), and                                                *)
(*   - by Remote_Trace.tla on the results recorded from the real            *)
(*     local.NewEndpoint and remote.NewEndpoint <-> remote.ServeEndpoint    *)
(*     pair (leg B).                                                        *)
(* Result records carry the same field names in both worlds; the values of  *)
(* snapshots / entries / signatures are opaque here (compared by equality). *)
(***************************************************************************)
EXTENDS Naturals, Sequences, FiniteSets

HasPrefix(s, p) == Len(s) >= Len(p) /\ SubSeq(s, 1, Len(p)) = p
Contains(s, t) == \E i \in 1..(Len(s) + 1 - Len(t)) : SubSeq(s, i, i + Len(t) - 1) = t

\* client.go reports an error that the server-side endpoint returned as
\* "remote error: <text>" (Poll, Scan, Stage, Transition alike).
RemotePrefix == "remote error: "
ErrEquiv(l, r) == IF l = "" THEN r = "" ELSE r = RemotePrefix \o l

\* Errors that do not come from the endpoint but from the protocol machinery
\* itself: a message could not be received/decoded as what the reader expected,
\* or failed the validation of the message type the reader expected.
IsProtocolErr(e) ==
  /\ e # ""
  /\ ~HasPrefix(e, RemotePrefix)
  /\ \/ Contains(e, "unable to receive")
     \/ Contains(e, "unable to send")
     \/ Contains(e, "invalid poll response")
     \/ Contains(e, "invalid scan response")
     \/ Contains(e, "invalid stage response")
     \/ Contains(e, "invalid transition response")
     \/ Contains(e, "unable to decode and forward")
     \/ Contains(e, "message transmission failed")

\* Errors of the client-side snapshot reconstruction (client.go Scan, after the
\* response has been received).
IsReconstructErr(e) ==
  \/ Contains(e, "unable to patch base snapshot")
  \/ Contains(e, "unable to unmarshal snapshot")
  \/ Contains(e, "invalid snapshot received")

IsCancelErr(e) == Contains(e, "cancelled")

Rng(q) == {q[i] : i \in DOMAIN q}
Occ(q, x) == Cardinality({i \in DOMAIN q : q[i] = x})
SameBag(a, b) == Len(a) = Len(b) /\ \A x \in Rng(a) \cup Rng(b) : Occ(a, x) = Occ(b, x)

(***************************************************************************)
(* Scan.  l, r: [err, again, snap].                                         *)
(***************************************************************************)
\* SnapshotExact: whenever the endpoint produced a snapshot, the snapshot the
\* client reconstructed from the delta is that snapshot (content, flags and
\* counters) - for any baseline history.
SnapshotExact(l, r) ==
  /\ ~IsReconstructErr(r.err)
  /\ (l.err = "" /\ r.err = "") => r.snap = l.snap

ScanSame(l, r) ==
  /\ ErrEquiv(l.err, r.err)
  /\ r.again = l.again            \* TryAgain travels with the error
  /\ SnapshotExact(l, r)

\* The caller of the remote Scan cancelled its context (the completion request
\* is sent early).  The cancellation races with the scan on the server, so the
\* call either still yields the (exact) result or reports the cancellation.
ScanCancelledOK(l, r) == ScanSame(l, r) \/ (IsCancelErr(r.err) /\ HasPrefix(r.err, RemotePrefix))

(***************************************************************************)
(* Stage.  req: the requested paths; l, r: [err, paths, sigs, recv, feed]   *)
(* (+ store when the staging stores were looked at afterwards).             *)
(***************************************************************************)
\* client.go answers an empty request itself: "nothing to stage".
StageEmptyShortcut(r) == r.err = "" /\ r.paths = <<>> /\ r.sigs = <<>> /\ ~r.recv

StageSame(req, l, r) ==
  IF req = <<>> THEN StageEmptyShortcut(r)
  ELSE /\ ErrEquiv(l.err, r.err)
       /\ r.paths = l.paths          \* the filtered paths, in order (compaction undone)
       /\ r.sigs = l.sigs            \* their base signatures
       /\ r.recv = l.recv            \* a receiver exactly when something is required
       /\ (r.feed = "") = (l.feed = "")
       /\ ("store" \in DOMAIN l /\ "store" \in DOMAIN r) => r.store = l.store

(***************************************************************************)
(* Supply.  l, r: [err, tx] with tx the transmissions handed to the         *)
(* receiver.                                                                *)
(***************************************************************************)
SupplySame(l, r) == ErrEquiv(l.err, r.err) /\ r.tx = l.tx

(***************************************************************************)
(* Transition.  l, r: [err, results, problems, missing].                    *)
(***************************************************************************)
TransSame(l, r) ==
  /\ ErrEquiv(l.err, r.err)
  /\ r.results = l.results
  /\ SameBag(l.problems, r.problems)   \* the order follows map iteration in transition.go
  /\ r.missing = l.missing

\* The caller cancelled the remote Transition: every change either has the
\* uncancelled outcome or is covered by a cancellation problem at or below its
\* path.  paths[i] is the root-relative path of change i.
TransCancelledOK(paths, l, r) ==
  /\ r.err = "" \/ ErrEquiv(l.err, r.err)
  /\ r.err = "" =>
       /\ Len(r.results) = Len(paths)
       /\ l.err = "" => \A i \in DOMAIN paths :
            \/ r.results[i] = l.results[i]
            \/ \E j \in DOMAIN r.problems :
                 /\ IsCancelErr(r.problems[j].err)
                 /\ (paths[i] = "" \/ r.problems[j].path = paths[i]
                     \/ HasPrefix(r.problems[j].path, paths[i] \o "/"))

(***************************************************************************)
(* Poll.  l, r: [err, early]; early = the call returned although its caller *)
(* had not cancelled it.  Without a watcher nothing can signal.             *)
(***************************************************************************)
PollSame(watching, l, r) ==
  /\ ErrEquiv(l.err, r.err)
  /\ ~watching => ~r.early
====
