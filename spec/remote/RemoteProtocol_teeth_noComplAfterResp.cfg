\* what-if "noComplAfterResp": expected to FAIL (deadlock: the server waits for a completion request that is never sent). Not part of any check; see docs/remote.md.
CONSTANTS
  MaxOps = 3
  MaxEdits = 1
  OpKinds = {"Poll", "Scan", "Stage", "Supply", "Trans"}
  Cancellation = TRUE
  Limit = 1
  ReadOnly = FALSE
  Watch = "none"
  AncVals = {"nil", "A", "B"}
  Fulls = {FALSE}
  InitDisks = {"A", "E"}
  Variant = "noComplAfterResp"
SPECIFICATION Spec
INVARIANTS
  C21_ResponseMatchesRequest
  C21_SameAsLocal
  C21_SnapshotExact
  C21_EndpointsAgree
  C21_NoResidue
  C21_BaselineChain
  C21_BaselineConsistent
CHECK_DEADLOCK TRUE
