\* what-if "staleError": expected to FAIL (C21_SameAsLocal: the Error of a file that could not be opened stays in the reused Transmission; the next file's operation is rejected by the decoder - the server dies in the middle of a staging, a remote Supply fails). Not part of any check; see docs/remote.md.
CONSTANTS
  MaxOps = 3
  MaxEdits = 1
  OpKinds = {"Poll", "Scan", "Stage", "Supply", "Trans"}
  Cancellation = TRUE
  Limit = 1
  ReadOnly = FALSE
  Watch = "none"
  AncVals = {"nil", "A", "B"}
  Fulls = {FALSE}
  InitDisks = {"A", "E"}
  Variant = "staleError"
SPECIFICATION Spec
INVARIANTS
  C21_ResponseMatchesRequest
  C21_SameAsLocal
  C21_SnapshotExact
  C21_EndpointsAgree
  C21_NoResidue
  C21_BaselineChain
  C21_BaselineConsistent
CHECK_DEADLOCK TRUE
