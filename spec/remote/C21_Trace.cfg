CONSTANT Want = {"C21_SameAsLocal", "C21_SnapshotExact", "C21_ResponseMatchesRequest", "C21_TraceAccepted"}
SPECIFICATION TSpec
CHECK_DEADLOCK FALSE
