\* what-if "patchAncestor": expected to FAIL (C21_SnapshotExact: signature from lastSnapshotBytes, patch against the ancestor-derived bytes). Not part of any check; see docs/remote.md.
CONSTANTS
  MaxOps = 3
  MaxEdits = 1
  OpKinds = {"Poll", "Scan", "Stage", "Supply", "Trans"}
  Cancellation = TRUE
  Limit = 1
  ReadOnly = FALSE
  Watch = "none"
  AncVals = {"nil", "A", "B"}
  Fulls = {FALSE}
  InitDisks = {"A", "E"}
  Variant = "patchAncestor"
SPECIFICATION Spec
INVARIANTS
  C21_ResponseMatchesRequest
  C21_SameAsLocal
  C21_SnapshotExact
  C21_EndpointsAgree
  C21_NoResidue
  C21_BaselineChain
  C21_BaselineConsistent
CHECK_DEADLOCK TRUE
