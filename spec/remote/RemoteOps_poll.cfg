\* thorough tier: every (abstract state, operation) edge within five operations and two edits, poll-based watching (accelerated scans)
CONSTANTS
  MaxOps = 4
  MaxEdits = 2
  Limit = 1
  ReadOnly = FALSE
  InitDisks = {"A"}
  Watch = "poll"
SPECIFICATION Spec
VIEW View
ACTION_CONSTRAINT ExportEdge
INVARIANT TypeOK
CHECK_DEADLOCK FALSE
