---- MODULE Remote_Trace ----
(***************************************************************************)
(* Leg B of C21: validation of what the real endpoints returned.            *)
(*                                                                         *)
(* trace.ndjson holds cases; a case starts with a Begin record and then has *)
(* one record per step: external edits and endpoint operations.  An         *)
(* operation record carries the arguments and, side by side, the result of  *)
(* the endpoint used locally (l: local.NewEndpoint on root L) and of the    *)
(* same endpoint reached through the agent protocol (r: remote.NewEndpoint  *)
(* <-> remote.ServeEndpoint over an in-memory pipe, on the mirrored root R).*)
(*                                                                         *)
(* Verdicts are the operators of RemoteProps.tla - the ones RemoteProtocol  *)
(* proves about the model - evaluated on these recorded pairs.  The module  *)
(* also drives the abstract endpoint of RemoteEndpoint.tla and the client's *)
(* baseline chain along the case; where the abstract endpoint predicts      *)
(* another error class than the local endpoint showed, that is counted as   *)
(* drift (the abstraction is coarse), never as a failure.                   *)
(***************************************************************************)
EXTENDS RemoteProps, RemoteEndpoint, TraceKit

CONSTANT Want
VARIABLES l, fails, st, stats, done

Kinds == {"Begin", "Edit", "Scan", "Stage", "Supply", "Trans", "Poll", "End"}
OpKinds == {"Scan", "Stage", "Supply", "Trans", "Poll"}

StatNames == {"scans", "scans_baseline_last", "scans_baseline_ancestor", "scans_baseline_ancestor_nil",
              "scans_after_empty_snapshot", "empty_snapshots", "scan_tryagain", "scan_errors",
              "cancel_took_effect", "cancel_no_effect", "stages", "stages_empty_request", "stages_compactable",
              "stages_filtered", "stages_nothing_required", "stage_errors", "stores_compared", "supplies",
              "supply_transmissions", "transitions", "transition_problem_runs", "transition_missing",
              "transition_errors", "polls", "drift", "cases", "edits", "ops_accelerated_mode",
              "scans_ancestor_switched", "scans_populated_after_big_ancestor_switch",
              "stage_batches_with_unopenable_files", "supply_batches_with_unopenable_files", "followup_scans"}
ZeroStats == [n \in StatNames |-> 0]
Bump(s, names) == [n \in StatNames |-> IF n \in names THEN s[n] + 1 ELSE s[n]]

NoState == [on |-> FALSE]

CfgOf(r) == [limit |-> IF r.max > 0 THEN 1 ELSE 1000, readonly |-> r.readonly,
             watch |-> IF r.watch = "poll" THEN "poll" ELSE "none"]
\* panc / pbig: kind of the ancestor of the previous scan and whether its serialisation
\* spans more than one rsync block - while the client holds no snapshot bytes the
\* ancestor IS the baseline, and it may change from call to call
Begun(r) == [on |-> TRUE, cfg |-> CfgOf(r), ep |-> EpInit(CfgOf(r)), last |-> "none", dead |-> FALSE,
             emptied |-> FALSE, panc |-> "", pbig |-> FALSE]

HasAll(r, fs) == \A f \in fs : f \in DOMAIN r
ResFields(ev) ==
  CASE ev = "Scan" -> {"hang", "err", "again", "snap"}
    [] ev = "Stage" -> {"hang", "err", "paths", "sigs", "recv", "feed"}
    [] ev = "Supply" -> {"hang", "err", "tx"}
    [] ev = "Trans" -> {"hang", "err", "results", "problems", "missing"}
    [] ev = "Poll" -> {"hang", "err", "early"}
ArgFields(ev) ==
  CASE ev = "Scan" -> {"full", "anc", "ancnil", "cancel"}
    [] ev = "Stage" -> {"req", "observed"}
    [] ev = "Supply" -> {"paths", "sigs"}
    [] ev = "Trans" -> {"chg", "paths", "cancel"}
    [] ev = "Poll" -> {}

\* a record this module can explain
WellFormed(s, r) ==
  /\ HasAll(r, {"ev", "cid"}) /\ r.ev \in Kinds
  /\ r.ev = "Begin" => HasAll(r, {"in", "watch", "readonly", "max", "algo"})
  /\ r.ev # "Begin" => s.on
  /\ r.ev = "Edit" => HasAll(r, {"kind"})
  /\ r.ev \in OpKinds =>
       /\ ~s.dead                                   \* the caller stops using a failed endpoint
       /\ HasAll(r, {"l", "r"} \cup ArgFields(r.ev))
       /\ HasAll(r.l, ResFields(r.ev)) /\ HasAll(r.r, ResFields(r.ev))
       /\ ~r.l.hang                                 \* the local endpoint answered

ReqPaths(r) == [i \in DOMAIN r.req |-> r.req[i].path]
Watching(s) == s.cfg.watch = "poll"

(***************************************************************************)
(* The verdicts                                                             *)
(***************************************************************************)
SameAsLocal(s, r) ==
  CASE r.ev = "Scan" -> (IF r.cancel THEN ScanCancelledOK(r.l, r.r) ELSE ScanSame(r.l, r.r))
    [] r.ev = "Stage" -> /\ StageSame(ReqPaths(r), r.l, r.r)
                         /\ (r.observed => r.syncerr = "" /\ ~r.synchang)
    [] r.ev = "Supply" -> SupplySame(r.l, r.r)
    [] r.ev = "Trans" -> (IF r.cancel THEN TransCancelledOK(r.paths, r.l, r.r) ELSE TransSame(r.l, r.r))
    [] r.ev = "Poll" -> PollSame(Watching(s), r.l, r.r)

ExactSnapshot(r) == r.ev = "Scan" => SnapshotExact(r.l, r.r)

\* no call hung and no call failed inside the protocol machinery (a reader that
\* consumes a message meant for another reader either blocks for ever or fails
\* to decode / validate what it got)
InStep(r) ==
  /\ ~r.r.hang
  /\ ~IsProtocolErr(r.r.err)
  /\ (r.ev = "Trans" /\ "post" \in DOMAIN r) =>
        ~r.post.hang /\ ~IsProtocolErr(r.post.err) /\ ~IsReconstructErr(r.post.err)
  /\ (r.ev = "Stage" /\ r.observed) => ~r.synchang /\ ~IsProtocolErr(r.syncerr)

(***************************************************************************)
(* Driving the abstract endpoint and the baseline chain                     *)
(***************************************************************************)
EditDisk(kind, cur) ==
  CASE kind = "rm" -> "E" [] kind = "mk" -> "A" [] kind = "grow" -> "B" [] kind = "shrink" -> "A" [] OTHER -> cur

ObservedClass(res, cur) ==          \* what the local scan showed of the disk
  IF res.err = "" THEN (IF res.snap.content.k = "nil" THEN "E" ELSE "A")
  ELSE IF res.err = "exceeded allowed entry count" THEN "B" ELSE cur

\* predicted error text of the local endpoint for this operation
Predicted(s, r) ==
  CASE r.ev = "Scan" -> LScan(s.cfg, s.ep, r.full, FALSE)
    [] r.ev = "Stage" -> LStage(s.cfg, s.ep, IF r.req = <<>> THEN <<>> ELSE <<"p">>)
    [] r.ev = "Trans" -> LTrans(s.cfg, s.ep, "A", FALSE)
    [] OTHER -> [st |-> s.ep, res |-> [err |-> r.l.err]]

Drift(s, r) ==
  IF r.ev = "Scan" THEN (Predicted(s, r).res.err = "") # (r.l.err = "")
  ELSE Predicted(s, r).res.err # r.l.err

Failed(r) ==      \* the caller must stop using the pair after this record
  \/ r.l.err # "" /\ ~(r.ev = "Scan" /\ r.l.again)
  \/ r.r.err # "" /\ ~(r.ev = "Scan" /\ r.r.again)
  \/ r.r.hang
  \/ (r.ev \in {"Scan", "Trans"} /\ r.cancel /\ (r.ev = "Trans" \/ r.r.err # ""))
  \/ (r.ev = "Stage" /\ (r.l.feed # "" \/ r.r.feed # ""))
  \/ (r.ev = "Stage" /\ r.observed /\ r.syncerr # "")

Apply(s, r) ==
  CASE r.ev = "Begin" -> Begun(r)
    [] r.ev = "End" -> NoState
    [] ~s.on -> s
    [] r.ev = "Edit" -> [s EXCEPT !.ep = [@ EXCEPT !.disk = EditDisk(r.kind, @)],
                                  !.dead = @ \/ ("settle" \in DOMAIN r /\ (r.settle.hang \/ r.settle.err # ""))]
    [] r.ev = "Scan" ->
         (LET o == Predicted(s, r)
              cls == ObservedClass(r.l, s.ep.disk)
              ep1 == [o.st EXCEPT !.disk = IF s.ep.acc /\ ~r.full THEN @ ELSE cls,
                                  !.snap = cls,
                                  !.scS = IF r.l.err = "" THEN TRUE ELSE @,
                                  !.scT = IF r.l.err = "" THEN TRUE ELSE @]
              got == r.r.err = "" /\ r.r.snap.content.k # "nil"
          IN [s EXCEPT !.ep = ep1, !.dead = Failed(r),
                       !.last = IF got THEN "set" ELSE @,
                       !.panc = r.anc, !.pbig = ("ancbytes" \in DOMAIN r /\ r.ancbytes > 1024),
                       !.emptied = IF r.r.err = "" THEN r.r.snap.content.k = "nil" ELSE @])
    [] r.ev = "Stage" ->
         (LET o == Predicted(s, r) IN [s EXCEPT !.ep = LReceiveAll(o.st, o.st.pend), !.dead = Failed(r)])
    [] r.ev = "Trans" -> [s EXCEPT !.ep = Predicted(s, r).st, !.dead = Failed(r)]
    [] OTHER -> [s EXCEPT !.dead = Failed(r)]

Len0(q) == Len(q) = 0
Counters(s, r) ==
  IF r.ev = "Begin" THEN {"cases"}
  ELSE IF r.ev = "Edit" THEN {"edits"}
  ELSE IF r.ev \notin OpKinds \/ ~s.on THEN {}
  ELSE (IF Drift(s, r) THEN {"drift"} ELSE {})
    \cup (IF Watching(s) /\ s.ep.acc THEN {"ops_accelerated_mode"} ELSE {})
    \cup (CASE r.ev = "Scan" ->
                 {"scans"}
                 \cup (IF "followup" \in DOMAIN r THEN {"followup_scans"} ELSE {})
                 \cup (IF s.last = "set" THEN {"scans_baseline_last"}
                       ELSE IF r.ancnil THEN {"scans_baseline_ancestor_nil"} ELSE {"scans_baseline_ancestor"})
                 \cup (IF s.emptied THEN {"scans_after_empty_snapshot"} ELSE {})
                 \cup (IF s.last = "none" /\ s.panc # "" /\ s.panc # r.anc THEN {"scans_ancestor_switched"} ELSE {})
                 \cup (IF s.last = "none" /\ s.panc # "" /\ s.panc # r.anc /\ s.pbig
                          /\ r.r.err = "" /\ r.r.snap.content.k # "nil"
                       THEN {"scans_populated_after_big_ancestor_switch"} ELSE {})
                 \cup (IF r.r.err = "" /\ r.r.snap.content.k = "nil" THEN {"empty_snapshots"} ELSE {})
                 \cup (IF r.l.err # "" /\ r.l.again THEN {"scan_tryagain"} ELSE {})
                 \cup (IF r.l.err # "" THEN {"scan_errors"} ELSE {})
                 \cup (IF r.cancel THEN (IF IsCancelErr(r.r.err) THEN {"cancel_took_effect"} ELSE {"cancel_no_effect"}) ELSE {})
            [] r.ev = "Stage" ->
                 {"stages"}
                 \cup (IF Len0(r.req) THEN {"stages_empty_request"} ELSE {})
                 \cup (IF r.l.err # "" THEN {"stage_errors"} ELSE {})
                 \cup (IF r.l.err = "" /\ ~Len0(r.req) /\ Len(r.l.paths) = Len(r.req) THEN {"stages_compactable"} ELSE {})
                 \cup (IF r.l.err = "" /\ ~Len0(r.l.paths) /\ Len(r.l.paths) < Len(r.req) THEN {"stages_filtered"} ELSE {})
                 \cup (IF r.l.err = "" /\ ~Len0(r.req) /\ Len0(r.l.paths) THEN {"stages_nothing_required"} ELSE {})
                 \cup (IF "store" \in DOMAIN r.l THEN {"stores_compared"} ELSE {})
                 \cup (IF "broken" \in DOMAIN r /\ ~Len0(r.broken) THEN {"stage_batches_with_unopenable_files"} ELSE {})
            [] r.ev = "Supply" -> {"supplies"} \cup (IF ~Len0(r.l.tx) THEN {"supply_transmissions"} ELSE {})
                 \cup (IF "broken" \in DOMAIN r /\ ~Len0(r.broken) THEN {"supply_batches_with_unopenable_files"} ELSE {})
            [] r.ev = "Trans" ->
                 {"transitions"}
                 \cup (IF r.l.err # "" THEN {"transition_errors"} ELSE {})
                 \cup (IF ~Len0(r.l.problems) THEN {"transition_problem_runs"} ELSE {})
                 \cup (IF r.l.missing THEN {"transition_missing"} ELSE {})
                 \cup (IF r.cancel THEN (IF r.r # r.l THEN {"cancel_took_effect"} ELSE {"cancel_no_effect"}) ELSE {})
            [] r.ev = "Poll" -> {"polls"})

(***************************************************************************)
(* The trace automaton                                                      *)
(***************************************************************************)
TInit == l = 1 /\ fails = <<>> /\ st = NoState /\ stats = ZeroStats /\ done = FALSE

Step ==
  /\ l <= NRec
  /\ LET r == Trace[l]
         wf == WellFormed(st, r)
         op == wf /\ r.ev \in OpKinds
     IN
     /\ fails' = Cap(fails
                     \o Chk(Want, l, "C21_TraceAccepted", wf)
                     \o (IF wf /\ "settle" \in DOMAIN r
                         THEN Chk(Want, l, "C21_ResponseMatchesRequest", ~r.settle.hang /\ ~IsProtocolErr(r.settle.err))
                         ELSE <<>>)
                     \o (IF op THEN Chk(Want, l, "C21_SameAsLocal", SameAsLocal(st, r))
                                    \o Chk(Want, l, "C21_SnapshotExact", ExactSnapshot(r))
                                    \o Chk(Want, l, "C21_ResponseMatchesRequest", InStep(r))
                         ELSE <<>>))
     /\ st' = IF wf THEN Apply(st, r) ELSE NoState       \* resynchronise at the next Begin
     /\ stats' = IF wf THEN Bump(stats, Counters(st, r)) ELSE stats
  /\ l' = l + 1
  /\ UNCHANGED done

Finish ==
  /\ l = NRec + 1 /\ ~done
  /\ WriteResult(l - 1, fails, [n \in {"stat_" \o m : m \in StatNames} |-> stats[SubSeq(n, 6, Len(n))]])
  /\ done' = TRUE
  /\ UNCHANGED <<l, fails, st, stats>>

TSpec == TInit /\ [][Step \/ Finish]_<<l, fails, st, stats, done>>
====
