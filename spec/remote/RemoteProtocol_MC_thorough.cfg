\* thorough tier: every interleaving of three operations with two external edits
CONSTANTS
  MaxOps = 3
  MaxEdits = 2
  OpKinds = {"Poll", "Scan", "Stage", "Supply", "Trans"}
  Cancellation = TRUE
  Limit = 1
  ReadOnly = FALSE
  Watch = "none"
  AncVals = {"nil", "A", "B"}
  Fulls = {FALSE}
  InitDisks = {"A", "E"}
  Variant = "code"
SPECIFICATION Spec
INVARIANTS
  C21_ResponseMatchesRequest
  C21_SameAsLocal
  C21_SnapshotExact
  C21_EndpointsAgree
  C21_NoResidue
  C21_BaselineChain
  C21_BaselineConsistent
CHECK_DEADLOCK TRUE
