---- MODULE FSTransition ----
(***************************************************************************)
(* C08 / C09 - core.Transition on a real filesystem, as a machine whose     *)
(* actions are the filesystem primitives in the order                       *)
(* pkg/synchronization/core/transition.go issues them.                      *)
(*                                                                          *)
(* State (one record s):                                                    *)
(*   disk      the synchronization root as a tree; file nodes carry a       *)
(*             version stamp v standing for (mode, size, mtime, file id)    *)
(*   cache     path |-> [v, d] captured by the preceding scan               *)
(*   plan, i   the transitions and the cursor of the loop in Transition     *)
(*   pc        where the code is; w = progress of                           *)
(*             walkToParentAndComputeLeafName; lf = progress of the leaf    *)
(*             operation (removeFile, removeSymbolicLink, swapFile,         *)
(*             findAndMoveStagedFileIntoPlace, createSymbolicLink);         *)
(*             stk = explicit stack of removeDirectory / createDirectory    *)
(*             frames (the recursion of the code)                           *)
(*   results, problems (paths), missing  what Transition returns            *)
(*   ops       number of primitives issued so far                           *)
(*   budget    remaining injected events (Fault or Cancel); cancelled       *)
(*   exdev     staging directory on another device (staged renames answer   *)
(*             EXDEV); owner = a default owner is configured (SetPermissions*)
(*             issues fchownat before touching the mode: ChownFile /       *)
(*             ChownDir / ChownTemp / ChownLink); norn2 = renameat2 is      *)
(*             unavailable (ENOSYS / ENOTSUP), so non-replacing renames     *)
(*             take the fallback: probe the target, then plain renameat     *)
(*   edited    paths modified by ExternalEdit between scan and transition;  *)
(*   before    the disk when the transition starts (after the edits)        *)
(*                                                                          *)
(* Every action named after a Directory method / filesystem call is one     *)
(* primitive: it either acts, or - if an injected Fault hits it - returns   *)
(* an error without acting (Prim).  Cancel may strike between any two       *)
(* actions; the code notices it at its cancellation checks only.            *)
(* Iteration order over directory contents (readdir order when removing, Go *)
(* map order when creating) is nondeterministic.                            *)
(*                                                                          *)
(* Deliberate abstractions: file content = digest; a staged file carries    *)
(* the planned digest (C10's subject); the preemptable copy of the          *)
(* cross-device fallback checks cancellation only every 32 MiB and is not   *)
(* a cancellation point here; case/Unicode recomposition is the identity.   *)
(*                                                                          *)
(* The model describes the REPAIRED createSymbolicLink (LinkRepaired=TRUE): *)
(* if setting ownership fails after symlinkat succeeded, the link is        *)
(* removed again, so the nil result describes the disk.  With FALSE (the    *)
(* code as found) TLC reports a C09 counterexample (FSTransition_asfound).  *)
(***************************************************************************)
EXTENDS FSShapes

CONSTANTS Shape,        \* name of the tree shape (see DiskTrees / TargetTrees)
          MaxEdits,     \* external edits per run (C08); runs with edits have no faults
          Budget,       \* injected faults/cancellations per run without edits (C09)
          LinkRepaired  \* BOOLEAN, see above

VARIABLE s

\* ------------------------------------------------------------------ trees
DiskTrees == DiskTreesOf(Shape)
TargetTrees == TargetTreesOf(Shape)

CreatesKind(e, kind) == \E q \in Nodes(e) : At(e, q).k = kind
PlanCreates(plan, kind) == \E j \in 1..Len(plan) : CreatesKind(plan[j].new, kind)

\* ------------------------------------------------------------- the state
NoWalk == [phase |-> "none"]
NoLeaf == [phase |-> "none"]

\* miss: which staged files do not exist - [any |-> TRUE] leaves it to the
\* environment at each use (model checking), [any |-> FALSE, set |-> paths] fixes it
AnyMissing == [any |-> TRUE, set |-> {}]
Start(disk, plan, exdev, owner, miss) ==
  [disk |-> disk, miss |-> miss, tree0 |-> disk, target |-> Nil, elog |-> <<>>, cache |-> CacheOf(disk), plan |-> plan, i |-> 1, pc |-> "start",
   w |-> NoWalk, lf |-> NoLeaf, stk |-> <<>>, ret |-> "none", held |-> Nil,
   results |-> <<>>, problems |-> {}, missing |-> FALSE, ops |-> 0,
   budget |-> Budget, cancelled |-> FALSE, exdev |-> exdev, owner |-> owner, norn2 |-> FALSE, templeft |-> 0,
   edited |-> {}, before |-> disk, fkind |-> "none"]

Init == \E disk \in DiskTrees, target \in TargetTrees :
          LET plan == PlanFor(disk, target) IN
          /\ plan # <<>>
          /\ \E exdev \in (IF PlanCreates(plan, "file") THEN BOOLEAN ELSE {FALSE}),
                owner \in BOOLEAN,
                norn2 \in (IF PlanCreates(plan, "file") THEN BOOLEAN ELSE {FALSE}) :
               s = [Start(disk, plan, exdev, owner, AnyMissing) EXCEPT !.target = target, !.norn2 = norn2]

\* ------------------------------------------------------------ primitives
Problem(t, path) == [t EXCEPT !.problems = @ \cup {path}]

\* A primitive named `kind`: the set of possible next states.  `ok` is the
\* state if the call is issued and succeeds or fails for a reason the disk
\* determines; `bad` the state if an injected fault makes it return an error.
Prim(t, kind, ok, bad) ==
  {[ok EXCEPT !.ops = t.ops + 1]} \cup
  (IF t.budget > 0 THEN {[bad EXCEPT !.ops = t.ops + 1, !.budget = t.budget - 1, !.fkind = kind]} ELSE {})

Cur == s.plan[s.i]
Child2(n, name) == IF n.k = "dir" /\ name \in DOMAIN n.c THEN n.c[name] ELSE Nil
ParentOf(p) == SubSeq(p, 1, Len(p) - 1)
Last(p) == p[Len(p)]

\* ------------------------------------------------------------ Transition loop
\* the next transition: the cancellation check of the loop, then dispatch
NextChange(t) == [t EXCEPT !.i = t.i + 1, !.pc = "loop", !.w = NoWalk, !.lf = NoLeaf, !.ret = "none", !.held = Nil]
Yield(t, e) == NextChange([t EXCEPT !.results = Append(t.results, e)])

BeginWalk(t, path, validate, cont) ==
  [t EXCEPT !.pc = "walk", !.w = [path |-> path, validate |-> validate, k |-> 0, cont |-> cont,
                                  phase |-> IF path = <<>> THEN "openrootparent" ELSE "openroot"]]

\* Transition() starts: the window for external edits closes
Begin == /\ s.pc = "start"
         /\ s' = [s EXCEPT !.pc = "loop", !.before = s.disk]

Loop ==
  /\ s.pc = "loop"
  /\ IF s.i > Len(s.plan) THEN s' = [s EXCEPT !.pc = "done"]
     ELSE IF s.cancelled THEN s' = Yield(Problem(s, Cur.path), Cur.old)      \* "transition cancelled"
     ELSE IF Cur.old.k = "file" /\ Cur.new.k = "file" THEN s' = BeginWalk(s, Cur.path, TRUE, "swap")
     ELSE IF Cur.old = Nil THEN s' = [s EXCEPT !.pc = "create"]               \* remove(path, nil) is a no-op
     ELSE s' = BeginWalk(s, Cur.path, TRUE, "remove")

\* ------------------------------------------- walkToParentAndComputeLeafName
\* the directory the walk has reached so far
WalkDirPath(t) == SubSeq(t.w.path, 1, t.w.k)
WalkFail(t) ==   \* the caller records the problem and yields
  LET cont == t.w.cont IN
  IF cont = "create" THEN Yield(Problem(t, t.w.path), Nil)
  ELSE Yield(Problem(t, t.w.path), t.plan[t.i].old)
WalkDone(t) == [t EXCEPT !.pc = t.w.cont, !.w = [@ EXCEPT !.phase = "done"]]
WalkAfterOpen(t) ==   \* parent components left?  else leaf validation?
  IF t.w.k < Len(t.w.path) - 1 THEN [t EXCEPT !.w.phase = "listnames"]
  ELSE IF t.w.validate THEN [t EXCEPT !.w.phase = "listleaf"]
  ELSE WalkDone(t)

OpenRootParent ==   \* filesystem.OpenDirectory(rootParentPath, true)
  /\ s.pc = "walk" /\ s.w.phase = "openrootparent"
  /\ s' \in Prim(s, "openrootparent",
                 IF s.w.validate THEN [s EXCEPT !.w.phase = "listrootparent"] ELSE WalkDone(s),
                 WalkFail(s))
ListRootParent ==   \* nameExistsInDirectoryWithProperCase(rootName, rootParent)
  /\ s.pc = "walk" /\ s.w.phase = "listrootparent"
  /\ s' \in Prim(s, "listnames", IF s.disk # Nil THEN WalkDone(s) ELSE WalkFail(s), WalkFail(s))
OpenRoot ==         \* filesystem.OpenDirectory(t.root, false)
  /\ s.pc = "walk" /\ s.w.phase = "openroot"
  /\ s' \in Prim(s, "openroot", IF s.disk.k = "dir" THEN WalkAfterOpen(s) ELSE WalkFail(s), WalkFail(s))
ListNames ==        \* nameExistsInDirectoryWithProperCase(component, parent)
  /\ s.pc = "walk" /\ s.w.phase = "listnames"
  /\ LET here == At(s.disk, WalkDirPath(s))  name == s.w.path[s.w.k + 1] IN
     s' \in Prim(s, "listnames",
                 IF Child2(here, name) # Nil THEN [s EXCEPT !.w.phase = "openchild"] ELSE WalkFail(s),
                 WalkFail(s))
OpenChild ==        \* parent.OpenDirectory(component)
  /\ s.pc = "walk" /\ s.w.phase = "openchild"
  /\ LET here == At(s.disk, WalkDirPath(s))  name == s.w.path[s.w.k + 1] IN
     s' \in Prim(s, "opendir",
                 IF Child2(here, name).k = "dir" THEN WalkAfterOpen([s EXCEPT !.w.k = @ + 1]) ELSE WalkFail(s),
                 WalkFail(s))
ListLeaf ==         \* nameExistsInDirectoryWithProperCase(leafName, parent)
  /\ s.pc = "walk" /\ s.w.phase = "listleaf"
  /\ s' \in Prim(s, "listnames",
                 IF At(s.disk, s.w.path) # Nil THEN WalkDone(s) ELSE WalkFail(s),
                 WalkFail(s))

\* ----------------------------------------------------------- leaf operations
\* lf = [op, path, exp (entry expected / wanted), ctx, phase]
\*   op  "rmfile" | "rmlink" | "swap" | "mkfile" | "mklink"
\*   ctx "top" (called by remove / create / swapFile) | "frame" (by the directory loops)
BeginLeaf(t, op, path, exp, ctx, phase) ==
  [t EXCEPT !.pc = "leaf", !.lf = [op |-> op, path |-> path, exp |-> exp, ctx |-> ctx, phase |-> phase, tx |-> FALSE]]

\* the leaf operation returned (err = TRUE: with an error): continue in the caller
RECURSIVE FrameLeafReturn(_, _)
LeafReturn(t, err) ==
  IF t.lf.ctx = "frame" THEN FrameLeafReturn(t, err)
  ELSE LET c == t.plan[t.i] IN
       CASE t.lf.op \in {"rmfile", "rmlink"} ->
              IF err THEN Yield(Problem(t, c.path), c.old)
              ELSE [t EXCEPT !.pc = "create", !.lf = NoLeaf]
         [] t.lf.op = "swap" ->
              IF err THEN Yield(Problem(t, c.path), c.old) ELSE Yield(t, c.new)
         [] OTHER ->   \* mkfile / mklink from create
              IF err THEN Yield(Problem(t, c.path), Nil) ELSE Yield(t, c.new)

DiskSet(t, path, n) == [t EXCEPT !.disk = SetAt(t.disk, path, n)]
OnDisk(t) == At(t.disk, t.lf.path)

\* ensureExpectedFile: ReadContentMetadata, then compare with the cache
FileAsExpected(t, path, exp) ==
  LET n == At(t.disk, path) IN
  /\ n.k = "file" /\ path \in DOMAIN t.cache
  /\ n.v.md = t.cache[path].v.md      \* metadata.Mode == cached.Mode
  /\ n.v.ms = t.cache[path].v.ms      \* metadata.ModificationTime.Equal(cached.ModificationTime):
  /\ n.v.mn = t.cache[path].v.mn      \*   seconds and nanoseconds
  /\ n.v.sz = t.cache[path].v.sz      \* metadata.Size == cached.Size
  /\ n.v.id = t.cache[path].v.id      \* metadata.FileID == cached.FileID
  /\ t.cache[path].d = exp.d          \* cached digest = expected digest
StatLeaf ==
  /\ s.pc = "leaf" /\ s.lf.phase = "stat"
  /\ LET ok == /\ s.lf.path \in DOMAIN s.cache     \* checked before the stat; no primitive if absent
               /\ FileAsExpected(s, s.lf.path, IF s.lf.op = "swap" THEN s.plan[s.i].old ELSE s.lf.exp)
         next == IF s.lf.op = "rmfile" THEN [s EXCEPT !.lf.phase = "unlink"]
                 ELSE IF s.plan[s.i].old.d = s.plan[s.i].new.d THEN [s EXCEPT !.lf.phase = IF s.owner THEN "chownfile" ELSE "chmod"]
                 ELSE [s EXCEPT !.lf.phase = "chmodstaged"]
     IN IF s.lf.path \notin DOMAIN s.cache THEN s' = LeafReturn(s, TRUE)
        ELSE s' \in Prim(s, "stat", IF ok THEN next ELSE LeafReturn(s, TRUE), LeafReturn(s, TRUE))
\* ensureExpectedSymbolicLink: ReadSymbolicLink, compare targets
ReadLink ==
  /\ s.pc = "leaf" /\ s.lf.phase = "readlink"
  /\ s' \in Prim(s, "readlink",
                 IF OnDisk(s).k = "link" /\ OnDisk(s).t = s.lf.exp.t THEN [s EXCEPT !.lf.phase = "unlink"]
                 ELSE LeafReturn(s, TRUE),
                 LeafReturn(s, TRUE))
\* parent.RemoveFile / RemoveSymbolicLink
Unlink ==
  /\ s.pc = "leaf" /\ s.lf.phase = "unlink"
  /\ s' \in Prim(s, "unlink",
                 IF OnDisk(s).k \in {"file", "link", "untracked"} THEN LeafReturn(DiskSet(s, s.lf.path, Nil), FALSE)
                 ELSE LeafReturn(s, TRUE),
                 LeafReturn(s, TRUE))
\* swapFile with equal digests: parent.SetPermissions(name, ownership, mode) =
\* fchownat (if an owner is configured), then the mode bits
ChownFile ==
  /\ s.pc = "leaf" /\ s.lf.phase = "chownfile"
  /\ s' \in Prim(s, "chownfile", [s EXCEPT !.lf.phase = "chmod"], LeafReturn(s, TRUE))
ChmodLeaf ==
  /\ s.pc = "leaf" /\ s.lf.phase = "chmod"
  /\ LET n == OnDisk(s) IN
     s' \in Prim(s, "setpermissions",
                 IF n.k = "file" THEN LeafReturn(DiskSet(s, s.lf.path, DF(n.d, s.plan[s.i].new.x, [n.v EXCEPT !.md = 10])), FALSE)
                 ELSE LeafReturn(s, TRUE),
                 LeafReturn(s, TRUE))

\* findAndMoveStagedFileIntoPlace.  The staged file may be missing (the
\* provider does not guarantee existence): an environment choice per file.
Replace(t) == t.lf.op = "swap"
Fallback(t) == t.norn2 /\ ~Replace(t)
MissingReturn(t) == LeafReturn([t EXCEPT !.missing = TRUE], TRUE)
Wanted(t) == DF(t.lf.exp.d, t.lf.exp.x, VNew)
MayExist(t) == t.miss.any \/ t.lf.path \notin t.miss.set
MayBeMissing(t) == t.miss.any \/ t.lf.path \in t.miss.set
ChmodStaged ==      \* provider.Provide + filesystem.SetPermissionsByPath(stagedPath, ...)
  /\ s.pc = "leaf" /\ s.lf.phase = "chmodstaged"
  /\ s' \in (IF MayExist(s) THEN Prim(s, "chmodstaged", [s EXCEPT !.lf.phase = "renamestaged"], LeafReturn(s, TRUE)) ELSE {})
            \cup (IF MayBeMissing(s) THEN {[MissingReturn(s) EXCEPT !.ops = s.ops + 1]} ELSE {})
RenameStaged ==     \* filesystem.Rename(nil, stagedPath, parent, name, replace)
  /\ s.pc = "leaf" /\ s.lf.phase = "renamestaged"
  /\ LET there == OnDisk(s)
         fits == IF Replace(s) THEN there.k # "dir" ELSE there = Nil    \* EISDIR / EEXIST otherwise
     IN s' \in Prim(s, "renamestaged",
                    IF Fallback(s) THEN [s EXCEPT !.lf.phase = "probestaged"]       \* renameat2 answered ENOSYS / ENOTSUP
                    ELSE IF s.exdev THEN [s EXCEPT !.lf.phase = "openstaged"]
                    ELSE IF fits THEN LeafReturn(DiskSet(s, s.lf.path, Wanted(s)), FALSE)
                    ELSE LeafReturn(s, TRUE),
                    LeafReturn(s, TRUE))
               \cup (IF s.exdev \/ ~s.miss.any THEN {} ELSE {[MissingReturn(s) EXCEPT !.ops = s.ops + 1]})   \* vanished meanwhile
\* the non-replacing fallback of filesystem.Rename: targetDirectory.ReadContentMetadata(target) ...
ProbeStaged ==
  /\ s.pc = "leaf" /\ s.lf.phase = "probestaged"
  /\ s' \in Prim(s, "probe",
                 IF OnDisk(s) = Nil THEN [s EXCEPT !.lf.phase = "renameatstaged"] ELSE LeafReturn(s, TRUE),   \* os.ErrExist
                 LeafReturn(s, TRUE))
\* ... then plain renameat, which would replace whatever non-directory is there
RenameAtStaged ==
  /\ s.pc = "leaf" /\ s.lf.phase = "renameatstaged"
  /\ s' \in Prim(s, "renameat",
                 IF s.exdev THEN [s EXCEPT !.lf.phase = "openstaged"]
                 ELSE IF OnDisk(s).k # "dir" THEN LeafReturn(DiskSet(s, s.lf.path, Wanted(s)), FALSE)
                 ELSE LeafReturn(s, TRUE),
                 LeafReturn(s, TRUE))
OpenStaged ==       \* os.Open(stagedPath): the staged file may have vanished
  /\ s.pc = "leaf" /\ s.lf.phase = "openstaged"
  /\ s' \in {[s EXCEPT !.lf.phase = "createtemp"]} \cup (IF s.miss.any THEN {MissingReturn(s)} ELSE {})
\* The cross-device branch: an intermediate temporary file in the target
\* directory (created 0600, hence not executable), the staged bytes copied into
\* it, ownership and the computed mode (incl. the executable bits of the planned
\* entry) set on it, then renamed onto the target; on every failure after its
\* creation the temporary is removed again (RemoveTemp), the target untouched.
FailTemp(t) == [t EXCEPT !.lf.phase = "removetemp"]
\* the temporary becomes the file at the target path
Landed(t) == DF(t.lf.exp.d, t.lf.tx, VNew)
CreateTemp ==       \* parent.CreateTemporaryFile
  /\ s.pc = "leaf" /\ s.lf.phase = "createtemp"
  /\ s' \in Prim(s, "createtemp", [s EXCEPT !.lf.phase = "copytemp", !.lf.tx = FALSE], LeafReturn(s, TRUE))
CopyTemp ==         \* io.CopyBuffer through the two file handles (no injectable primitive; the
  /\ s.pc = "leaf" /\ s.lf.phase = "copytemp"      \* preemption check every 32 MiB is out of reach)
  /\ s' = [s EXCEPT !.lf.phase = IF s.owner THEN "chowntemp" ELSE "chmodtemp"]
ChownTemp ==        \* parent.SetPermissions(temporaryName, ownership, mode): fchownat first ...
  /\ s.pc = "leaf" /\ s.lf.phase = "chowntemp"
  /\ s' \in Prim(s, "chowntemp", [s EXCEPT !.lf.phase = "chmodtemp"], FailTemp(s))
ChmodTemp ==        \* ... then the mode bits: the temporary gets the planned executability
  /\ s.pc = "leaf" /\ s.lf.phase = "chmodtemp"
  /\ s' \in Prim(s, "setpermissions", [s EXCEPT !.lf.phase = "renametemp", !.lf.tx = s.lf.exp.x], FailTemp(s))
RenameTemp ==       \* filesystem.Rename(parent, temporaryName, parent, name, replace)
  /\ s.pc = "leaf" /\ s.lf.phase = "renametemp"
  /\ LET there == OnDisk(s)
         fits == IF Replace(s) THEN there.k # "dir" ELSE there = Nil      \* EISDIR / EEXIST otherwise
     IN s' \in Prim(s, "renametemp",
                    IF Fallback(s) THEN [s EXCEPT !.lf.phase = "probetemp"]
                    ELSE IF fits THEN LeafReturn(DiskSet(s, s.lf.path, Landed(s)), FALSE)    \* os.Remove(stagedPath): result ignored
                    ELSE FailTemp(s),
                    FailTemp(s))
ProbeTemp ==
  /\ s.pc = "leaf" /\ s.lf.phase = "probetemp"
  /\ s' \in Prim(s, "probe",
                 IF OnDisk(s) = Nil THEN [s EXCEPT !.lf.phase = "renameattemp"] ELSE FailTemp(s),
                 FailTemp(s))
RenameAtTemp ==
  /\ s.pc = "leaf" /\ s.lf.phase = "renameattemp"
  /\ s' \in Prim(s, "renameat",
                 IF OnDisk(s).k # "dir" THEN LeafReturn(DiskSet(s, s.lf.path, Landed(s)), FALSE) ELSE FailTemp(s),
                 FailTemp(s))
RemoveTemp ==       \* parent.RemoveFile(temporaryName): the clean-up names the temporary, never the target;
  /\ s.pc = "leaf" /\ s.lf.phase = "removetemp"      \* if it fails too, the temporary stays (scans skip such names)
  /\ s' \in Prim(s, "removetemp", LeafReturn(s, TRUE), LeafReturn([s EXCEPT !.templeft = @ + 1], TRUE))

\* createSymbolicLink (portable mode accepted the target: C16's subject)
Symlink ==          \* parent.CreateSymbolicLink
  /\ s.pc = "leaf" /\ s.lf.phase = "symlink"
  /\ s' \in Prim(s, "symlink",
                 IF OnDisk(s) = Nil
                 THEN (IF s.owner THEN [DiskSet(s, s.lf.path, s.lf.exp) EXCEPT !.lf.phase = "chownlink"]
                       ELSE LeafReturn(DiskSet(s, s.lf.path, s.lf.exp), FALSE))
                 ELSE LeafReturn(s, TRUE),
                 LeafReturn(s, TRUE))
ChownLink ==        \* parent.SetPermissions(name, ownership, 0) = fchownat
  /\ s.pc = "leaf" /\ s.lf.phase = "chownlink"
  /\ s' \in Prim(s, "chownlink",
                 LeafReturn(s, FALSE),
                 IF LinkRepaired THEN LeafReturn(DiskSet(s, s.lf.path, Nil), TRUE)   \* the link is removed again
                 ELSE LeafReturn(s, TRUE))

\* -------------------------------------------------------------- remove
RemoveDispatch ==   \* remove(): by kind of the expected entry
  /\ s.pc = "remove"
  /\ LET c == Cur IN
     s' = CASE c.old.k = "file" -> BeginLeaf(s, "rmfile", c.path, c.old, "top", "stat")
            [] c.old.k = "link" -> BeginLeaf(s, "rmlink", c.path, c.old, "top", "readlink")
            [] OTHER -> [s EXCEPT !.pc = "dir",    \* entry.Copy(), removeDirectory(parent, name, path, entryCopy)
                                  !.stk = <<[f |-> "rm", path |-> c.path, exp |-> c.old, phase |-> "open",
                                            todo |-> {}, cur |-> "", cancelled |-> FALSE, unknown |-> FALSE, failed |-> FALSE]>>]

Top(t) == t.stk[Len(t.stk)]
SetTop(t, fr) == [t EXCEPT !.stk[Len(t.stk)] = fr]
Pop(t) == [t EXCEPT !.stk = SubSeq(@, 1, Len(@) - 1)]

\* a removeDirectory frame returns (removed = TRUE: the directory is gone)
RmReturn(t, removed) ==
  LET fr == Top(t)  u == Pop(t) IN
  IF u.stk = <<>> THEN
     IF removed THEN [u EXCEPT !.pc = "create"] ELSE Yield(u, fr.exp)       \* remove(): return entryCopy
  ELSE LET pf == Top(u) IN
       IF removed THEN SetTop(u, [pf EXCEPT !.phase = "iter", !.exp.c = [m \in DOMAIN @ \ {pf.cur} |-> @[m]]])
       ELSE SetTop(u, [pf EXCEPT !.phase = "iter", !.failed = TRUE, !.exp.c[pf.cur] = fr.exp])

RmOpen ==           \* parent.OpenDirectory(name)
  /\ s.pc = "dir" /\ Top(s).f = "rm" /\ Top(s).phase = "open"
  /\ LET fr == Top(s) IN
     s' \in Prim(s, "opendir",
                 IF At(s.disk, fr.path).k = "dir" THEN SetTop(s, [fr EXCEPT !.phase = "list"])
                 ELSE RmReturn(Problem(s, fr.path), FALSE),
                 RmReturn(Problem(s, fr.path), FALSE))
RmList ==           \* directory.ReadContents()
  /\ s.pc = "dir" /\ Top(s).f = "rm" /\ Top(s).phase = "list"
  /\ LET fr == Top(s) IN
     s' \in Prim(s, "readcontents",
                 SetTop(s, [fr EXCEPT !.phase = "iter", !.todo = DOMAIN At(s.disk, fr.path).c]),
                 RmReturn(Problem(s, fr.path), FALSE))
RmIter ==           \* one round of ContentLoop: cancellation check, then the next on-disk name
  /\ s.pc = "dir" /\ Top(s).f = "rm" /\ Top(s).phase = "iter"
  /\ LET fr == Top(s) IN
     IF fr.todo = {} THEN s' = SetTop(s, [fr EXCEPT !.phase = "finish"])
     ELSE IF s.cancelled THEN s' = SetTop(Problem(s, fr.path), [fr EXCEPT !.phase = "finish", !.cancelled = TRUE])
     ELSE \E name \in fr.todo :
            LET cp == Append(fr.path, name)
                fr2 == [fr EXCEPT !.todo = @ \ {name}, !.cur = name]
                t2 == SetTop(s, [fr2 EXCEPT !.phase = "wait"]) IN
            IF name \notin DOMAIN fr.exp.c
            THEN s' = SetTop(Problem(s, cp), [fr2 EXCEPT !.unknown = TRUE])      \* unknown content encountered on disk
            ELSE LET e == fr.exp.c[name] IN
                 s' = CASE e.k = "dir" -> [t2 EXCEPT !.stk = Append(@, [f |-> "rm", path |-> cp, exp |-> e, phase |-> "open",
                                                                       todo |-> {}, cur |-> "", cancelled |-> FALSE, unknown |-> FALSE, failed |-> FALSE])]
                        [] e.k = "file" -> BeginLeaf(t2, "rmfile", cp, e, "frame", "stat")
                        [] OTHER -> BeginLeaf(t2, "rmlink", cp, e, "frame", "readlink")
RmFinish ==         \* after the loop: clear what is known removed, close, RemoveDirectory
  /\ s.pc = "dir" /\ Top(s).f = "rm" /\ Top(s).phase = "finish"
  /\ LET fr0 == Top(s)
         fr == IF ~fr0.cancelled /\ ~fr0.failed THEN [fr0 EXCEPT !.exp.c = <<>>] ELSE fr0
         t == SetTop(s, fr) IN
     IF ~fr.cancelled /\ ~fr.unknown /\ ~fr.failed
     THEN s' \in Prim(t, "rmdir",
                      IF At(s.disk, fr.path).k = "dir" /\ DOMAIN At(s.disk, fr.path).c = {}
                      THEN RmReturn(DiskSet(t, fr.path, Nil), TRUE)
                      ELSE RmReturn(Problem(t, fr.path), FALSE),
                      RmReturn(Problem(t, fr.path), FALSE))
     ELSE s' = RmReturn(t, FALSE)

\* -------------------------------------------------------------- create
CreateDispatch ==   \* create(): walk to the parent (no leaf validation), then by kind
  /\ s.pc = "create"
  /\ LET c == Cur IN
     IF c.new = Nil THEN s' = Yield(s, Nil)
     ELSE IF s.w.phase # "done" \/ s.w.cont # "create" THEN s' = BeginWalk(s, c.path, FALSE, "create")
     ELSE s' = CASE c.new.k = "file" -> BeginLeaf(s, "mkfile", c.path, c.new, "top", "chmodstaged")
              [] c.new.k = "link" -> BeginLeaf(s, "mklink", c.path, c.new, "top", "symlink")
              [] OTHER -> [s EXCEPT !.pc = "dir",
                                    !.stk = <<[f |-> "mk", path |-> c.path, target |-> c.new, phase |-> "mkdir",
                                              todo |-> {}, cur |-> "", made |-> <<>>]>>]

\* a createDirectory frame returns what it created (Nil: nothing)
MkReturn(t, created) ==
  LET fr == Top(t)  u == Pop(t) IN
  IF u.stk = <<>> THEN Yield(u, created)
  ELSE LET pf == Top(u) IN
       IF created = Nil THEN SetTop(u, [pf EXCEPT !.phase = "iter"])
       ELSE SetTop(u, [pf EXCEPT !.phase = "iter", !.made = [m \in DOMAIN @ \cup {pf.cur} |-> IF m = pf.cur THEN created ELSE @[m]]])

MkDir ==            \* parent.CreateDirectory(name)
  /\ s.pc = "dir" /\ Top(s).f = "mk" /\ Top(s).phase = "mkdir"
  /\ LET fr == Top(s) IN
     s' \in Prim(s, "mkdir",
                 IF At(s.disk, fr.path) = Nil THEN SetTop(DiskSet(s, fr.path, D(<<>>)), [fr EXCEPT !.phase = IF s.owner THEN "chown" ELSE "chmod"])
                 ELSE MkReturn(Problem(s, fr.path), Nil),
                 MkReturn(Problem(s, fr.path), Nil))
MkChown ==          \* parent.SetPermissions(name, ownership, directoryMode): fchownat first ...
  /\ s.pc = "dir" /\ Top(s).f = "mk" /\ Top(s).phase = "chown"
  /\ LET fr == Top(s) IN
     s' \in Prim(s, "chowndir", SetTop(s, [fr EXCEPT !.phase = "chmod"]), MkReturn(Problem(s, fr.path), D(<<>>)))
MkChmod ==          \* ... then the mode bits
  /\ s.pc = "dir" /\ Top(s).f = "mk" /\ Top(s).phase = "chmod"
  /\ LET fr == Top(s) IN
     s' \in Prim(s, "setpermissions",
                 IF DOMAIN fr.target.c = {} THEN MkReturn(s, D(<<>>)) ELSE SetTop(s, [fr EXCEPT !.phase = "open"]),
                 MkReturn(Problem(s, fr.path), D(<<>>)))
MkOpen ==           \* parent.OpenDirectory(name) (only if the target has contents)
  /\ s.pc = "dir" /\ Top(s).f = "mk" /\ Top(s).phase = "open"
  /\ LET fr == Top(s) IN
     s' \in Prim(s, "opendir",
                 SetTop(s, [fr EXCEPT !.phase = "iter", !.todo = DOMAIN fr.target.c]),
                 MkReturn(Problem(s, fr.path), D(<<>>)))
MkIter ==           \* one round of ContentLoop over target.Contents (map order)
  /\ s.pc = "dir" /\ Top(s).f = "mk" /\ Top(s).phase = "iter"
  /\ LET fr == Top(s) IN
     IF fr.todo = {} THEN s' = MkReturn(s, D(fr.made))
     ELSE IF s.cancelled THEN s' = MkReturn(Problem(s, fr.path), D(fr.made))
     ELSE \E name \in fr.todo :
            LET cp == Append(fr.path, name)
                e == fr.target.c[name]
                t2 == SetTop(s, [fr EXCEPT !.todo = @ \ {name}, !.cur = name, !.phase = "wait"]) IN
            s' = CASE e.k = "dir" -> [t2 EXCEPT !.stk = Append(@, [f |-> "mk", path |-> cp, target |-> e, phase |-> "mkdir",
                                                                  todo |-> {}, cur |-> "", made |-> <<>>])]
                   [] e.k = "file" -> BeginLeaf(t2, "mkfile", cp, e, "frame", "chmodstaged")
                   [] OTHER -> BeginLeaf(t2, "mklink", cp, e, "frame", "symlink")

\* a leaf operation started by a directory loop returned
FrameLeafReturn(t, err) ==
  LET fr == Top(t)
      u == [t EXCEPT !.pc = "dir", !.lf = NoLeaf] IN
  IF fr.f = "rm" THEN
     IF err THEN SetTop(Problem(u, t.lf.path), [fr EXCEPT !.phase = "iter", !.failed = TRUE])
     ELSE SetTop(u, [fr EXCEPT !.phase = "iter", !.exp.c = [m \in DOMAIN @ \ {fr.cur} |-> @[m]]])
  ELSE
     IF err THEN SetTop(Problem(u, t.lf.path), [fr EXCEPT !.phase = "iter"])
     ELSE SetTop(u, [fr EXCEPT !.phase = "iter", !.made = [m \in DOMAIN @ \cup {fr.cur} |-> IF m = fr.cur THEN t.lf.exp ELSE @[m]]])

\* swapFile after the walk
SwapDispatch == /\ s.pc = "swap"
                /\ s' = BeginLeaf(s, "swap", Cur.path, Cur.new, "top", "stat")

\* --------------------------------------------------------- injected events
\* the context is cancelled (noticed only at the code's cancellation checks)
Cancel == /\ s.pc \notin {"done"} /\ s.budget > 0 /\ ~s.cancelled /\ s.edited = {}
          /\ s' = [s EXCEPT !.cancelled = TRUE, !.budget = @ - 1, !.fkind = "cancel"]

\* a modification between the scan and the transition
EditOps(n) == CASE n.k = "file" -> FileOps [] n.k = "link" -> LinkOps [] n.k = "dir" -> DirOps [] OTHER -> {}
Logged(t, op, p) == [t EXCEPT !.edited = @ \cup {p}, !.elog = Append(@, [op |-> op, path |-> p]), !.budget = 0]
ExternalEdit ==
  /\ s.pc = "start" /\ Cardinality(s.edited) < MaxEdits
  /\ \E p \in Nodes(s.disk) \ {<<>>} :
       /\ \A q \in s.edited : ~Comparable(p, q)
       /\ \/ \E op \in EditOps(At(s.disk, p)) :
               s' = Logged([s EXCEPT !.disk = SetAt(s.disk, p, EditEffect(op, At(s.disk, p)))], op, p)
          \/ /\ At(s.disk, p).k = "dir" /\ "z" \notin DOMAIN At(s.disk, p).c        \* a new child inside a directory
             /\ s' = Logged([s EXCEPT !.disk = SetAt(s.disk, Append(p, "z"), EditEffect("newchild", Nil))], "newchild", Append(p, "z"))
\* something appears where the plan is going to create content
CreateEdit ==
  /\ s.pc = "start" /\ Cardinality(s.edited) < MaxEdits
  /\ \E j \in 1..Len(s.plan) :
       LET p == s.plan[j].path IN
       /\ p # <<>> /\ s.plan[j].old = Nil /\ At(s.disk, p) = Nil /\ At(s.disk, ParentOf(p)).k = "dir"
       /\ \A q \in s.edited : ~Comparable(p, q)
       /\ \E op \in {"createfile", "createlink", "createdir", "createfifo"} :
            s' = Logged([s EXCEPT !.disk = SetAt(s.disk, p, EditEffect(op, Nil))], op, p)
\* the plan was computed from an older snapshot: disk and cache hold other content than the plan expects
StaleEdit ==
  /\ s.pc = "start" /\ Cardinality(s.edited) < MaxEdits
  /\ \E p \in FilePaths(s.disk) :
       /\ \A q \in s.edited : ~Comparable(p, q)
       /\ At(s.disk, p).v = V0
       /\ s' = Logged([s EXCEPT !.disk = SetAt(s.disk, p, DF("d8", At(s.disk, p).x, V0)),
                                !.cache[p] = [v |-> V0, d |-> "d8"]], "stale", p)

\* content inside a directory that the plan removes disappears between scan and
\* transition.  A removal whose own loop meets no failure treats it as already
\* removed, so results stay exact: the one external change admitted in C09 runs
\* (then without injected event).  (If a sibling's removal fails, the code keeps
\* the vanished entry in the reduced result - external edits are outside C09.)
DeleteInside ==
  /\ s.pc = "start" /\ Budget > 0 /\ s.budget = Budget /\ s.edited = {}
  /\ \E j \in 1..Len(s.plan) :
       /\ s.plan[j].old.k = "dir"
       /\ \E q \in Nodes(s.plan[j].old) \ {<<>>} :
            LET p == s.plan[j].path \o q
                dir == At(s.disk, ParentOf(p)) IN
            /\ At(s.disk, p) # Nil
            \* no sibling removal fails on its own (unknown content below a sibling
            \* directory): otherwise the code keeps the vanished entry in its result
            /\ \A m \in DOMAIN dir.c \ {Last(p)} : \A r \in Nodes(dir.c[m]) : r # <<>> => At(dir.c[m], r).k # "untracked"
            /\ s' = [s EXCEPT !.disk = SetAt(s.disk, p, Nil), !.budget = 0, !.fkind = "deleted"]

Done == s.pc = "done" /\ UNCHANGED s

\* the code's own steps (no injected event, no external edit)
Steps == \/ Begin \/ Loop \/ OpenRootParent \/ ListRootParent \/ OpenRoot \/ ListNames \/ OpenChild \/ ListLeaf
         \/ StatLeaf \/ ReadLink \/ Unlink \/ ChownFile \/ ChmodLeaf
         \/ ChmodStaged \/ RenameStaged \/ ProbeStaged \/ RenameAtStaged \/ OpenStaged \/ CreateTemp
         \/ CopyTemp \/ ChownTemp \/ ChmodTemp \/ RenameTemp \/ ProbeTemp \/ RenameAtTemp \/ RemoveTemp
         \/ Symlink \/ ChownLink
         \/ RemoveDispatch \/ RmOpen \/ RmList \/ RmIter \/ RmFinish
         \/ CreateDispatch \/ MkDir \/ MkChown \/ MkChmod \/ MkOpen \/ MkIter
         \/ SwapDispatch
Next == Steps \/ Cancel \/ ExternalEdit \/ CreateEdit \/ StaleEdit \/ DeleteInside \/ Done
Spec == Init /\ [][Next]_s

\* ------------------------------------------------------------- invariants
\* C09: when Transition returns, every result equals what a scan finds at its
\* path (no external edits: they are C08's subject)
InvC09 == (s.pc = "done" /\ s.edited = {}) => C09_ResultsExact(s.plan, s.results, Obs(s.disk))
\* C08: edited content is still there unchanged, and reported if the plan covered it
InvC08Survives == s.pc = "done" => C08_ModifiedSurvives(s.edited, s.before, s.disk)
InvC08Reported == s.pc = "done" => C08_ModifiedReported(s.edited, s.plan, s.problems, s.before)
InvC08Outside == s.pc = "done" => C08_OutsidePlanUntouched(s.plan, s.before, s.disk)
\* C03 on the filesystem: what was on disk and is not described by the plan's Old trees
\* (newcomers, FIFOs, unknown children) is still there
InvC03 == s.pc = "done" => C03_UntrackedOnDiskUntouched(s.plan, s.before, s.disk)
\* C18 on the filesystem: executable bits of files survive a transition under any fault
InvC18 == s.pc = "done" => /\ C18_ExecBitOnDiskSurvives(s.plan, s.before, s.disk, s.results)
                           /\ (s.edited = {} => C18_ReportedExecMatchesDisk(s.plan, s.results, s.disk))
\* sanity of the machine itself
InvShape == /\ s.i \in 1..(Len(s.plan) + 1) /\ Len(s.results) = s.i - 1
            /\ (s.pc = "done" => s.stk = <<>> /\ s.i = Len(s.plan) + 1)
\* the missing-files flag is raised only with a problem
InvMissing == s.missing => s.problems # {}
\* every run terminates: no state other than "done" lacks a successor (checked by deadlock detection)
====
