CONSTANT Want = {"C09_Returns", "C09_ResultsMatchScan", "C09_ResultsMatchWalker", "Conforms"}
CONSTANTS Shape = "small" MaxEdits = 0 Budget = 0 LinkRepaired = TRUE
SPECIFICATION TSpec
CHECK_DEADLOCK FALSE
