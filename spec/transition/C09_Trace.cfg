CONSTANT Want = {"C09_Returns", "C09_ResultsMatchScan", "C09_ResultsMatchWalker"}
SPECIFICATION TSpec
CHECK_DEADLOCK FALSE
