CONSTANTS TokSet = {"name", "dot", "up", "empty"} MaxLen = 8 MaxDepth = 4 Repaired = TRUE
SPECIFICATION Spec
INVARIANTS InvStaysInside InvRejects InvMachineIsAccept InvDepthAgrees
CHECK_DEADLOCK FALSE
