---- MODULE PortableLink_Trace ----
(***************************************************************************)
(* Trace validation for C16.  Every record of trace.ndjson is one link      *)
(* target driven through the real code on three channels:                   *)
(*   fn    core.VerifNormalizePortableLink(path, target)  (the function)    *)
(*   scan  a real symbolic link on disk + core.Scan in portable mode        *)
(*   trans core.Transition asked to create the link in portable mode        *)
(* r.in = [depth, tokens (component classes), len (bytes of the target)];   *)
(* r.fn = [accepted, same]; r.scan = [made, k]; r.trans = [result, disk].   *)
(* The step relation is permissive; C16_StaysInside / C16_Rejects of        *)
(* PortableLinkProps judge the observations.  Agreement of the function's   *)
(* verdict with the transcription (AcceptWith(.., TRUE)) is counted as      *)
(* drift only.                                                              *)
(***************************************************************************)
EXTENDS PortableLinkProps, TraceKit

CONSTANT Want

VARIABLES l, fails, drift, accepted, done
tvars == <<l, fails, drift, accepted, done>>

\* channels on which the real code accepted the target
FnAccepted(r) == r.fn.accepted
ScanAccepted(r) == r.scan.made /\ r.scan.k = "link"
TransAccepted(r) == r.trans.result.k = "link" \/ r.trans.disk.k = "link"
AnyAccepted(r) == FnAccepted(r) \/ ScanAccepted(r) \/ TransAccepted(r)

WellFormed(r) == /\ r.ev = "Link"
                 /\ r.in.depth \in Nat /\ r.in.len \in Nat
                 /\ Len(r.in.tokens) >= 1
                 /\ \A i \in DOMAIN r.in.tokens : r.in.tokens[i] \in AllClasses
                 \* the driver builds over-long targets only through the "long" class
                 /\ (r.in.len > 247 <=> HasClass(r.in.tokens, "long"))

RecFails(i, r) ==
  IF ~WellFormed(r) THEN <<Fail(i, "TraceAccepted")>>
  ELSE LET d == r.in.depth  t == r.in.tokens IN
       Chk(Want, i, "C16_StaysInside_fn", C16_StaysInside(d, t, FnAccepted(r)))
    \o Chk(Want, i, "C16_StaysInside_scan", C16_StaysInside(d, t, ScanAccepted(r)))
    \o Chk(Want, i, "C16_StaysInside_transition", C16_StaysInside(d, t, TransAccepted(r)))
    \o Chk(Want, i, "C16_Rejects", C16_Rejects(t, AnyAccepted(r)))
    \* an accepted target is passed on unchanged on POSIX (normalisation is the identity there)
    \o Chk(Want, i, "C16_NormalizedSame", FnAccepted(r) => r.fn.same)

Drifts(r) == IF WellFormed(r) /\ (FnAccepted(r) # AcceptWith(r.in.depth, r.in.tokens, TRUE)) THEN 1 ELSE 0

TInit == l = 1 /\ fails = <<>> /\ drift = 0 /\ accepted = 0 /\ done = FALSE
Step == /\ l <= NRec
        /\ LET r == Trace[l] IN
           /\ fails' = Cap(fails \o RecFails(l, r))
           /\ drift' = drift + Drifts(r)
           /\ accepted' = accepted + (IF WellFormed(r) /\ AnyAccepted(r) THEN 1 ELSE 0)
        /\ l' = l + 1 /\ UNCHANGED done
Finish == /\ l = NRec + 1 /\ ~done
          /\ WriteResult(l - 1, fails, [stat_drift |-> drift, stat_accepted |-> accepted])
          /\ done' = TRUE /\ UNCHANGED <<l, fails, drift, accepted>>
TNext == Step \/ Finish
TSpec == TInit /\ [][TNext]_tvars
====
