\* createSymbolicLink as found at the pinned commit: TLC reports the C09 counterexample (not part of any check).
CONSTANTS Shape = "small" MaxEdits = 0 Budget = 1 LinkRepaired = FALSE
SPECIFICATION Spec
INVARIANTS InvC09
CHECK_DEADLOCK TRUE
