\* extra run of C03 on the real filesystem: newcomer / unknown-content scenarios of the transition driver (--prop C03)
CONSTANT Want = {"C03_UntrackedOnDiskUntouched", "Conforms"}
CONSTANTS Shape = "small" MaxEdits = 0 Budget = 0 LinkRepaired = TRUE
SPECIFICATION TSpec
CHECK_DEADLOCK FALSE
