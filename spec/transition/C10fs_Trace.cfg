\* extra run of C10 on the real filesystem: fault scenarios of the transition driver (--prop C10), incl. a copy that
\* fails inside the cross-device fallback; what Transition reports must be exactly what is on disk (no truncated file)
CONSTANT Want = {"C09_ResultsMatchScan", "C09_ResultsMatchWalker", "Conforms"}
CONSTANTS Shape = "small" MaxEdits = 0 Budget = 0 LinkRepaired = TRUE
SPECIFICATION TSpec
CHECK_DEADLOCK FALSE
