CONSTANTS Shape = "nest" MaxEdits = 0 Budget = 1 LinkRepaired = TRUE
SPECIFICATION Spec
INVARIANTS InvC09 InvShape InvMissing InvC08Outside
CHECK_DEADLOCK TRUE
