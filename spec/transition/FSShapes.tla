---- MODULE FSShapes ----
(***************************************************************************)
(* Disk trees, target trees and plans of the bounded shapes explored by     *)
(* FSTransition.tla and enumerated on the real filesystem by the driver     *)
(* (harness/cmd/transition: shapeTrees mirrors these definitions; the trace *)
(* module checks every recorded case for membership).                       *)
(***************************************************************************)
EXTENDS FSProps

\* A file's version stamp has one component per comparison of ensureExpectedFile:
\* modification time (seconds, nanoseconds), size, mode (permission bits), file id.
V0 == [ms |-> 0, mn |-> 0, sz |-> 0, md |-> 0, id |-> 0]        \* as scanned
VNew == [ms |-> 9, mn |-> 9, sz |-> 9, md |-> 0, id |-> 9]      \* a file the transition put there
DF(d, x, v) == [k |-> "file", d |-> d, x |-> x, v |-> v]

\* what a scan reports for a disk (the stamp is invisible)
RECURSIVE Obs(_)
Obs(n) == CASE n.k = "file" -> F(n.d, n.x)
            [] n.k = "dir" -> D([m \in DOMAIN n.c |-> Obs(n.c[m])])
            [] OTHER -> n
SyncObs(n) == Sync(Obs(n))

FilePaths(n) == {p \in Nodes(n) : At(n, p).k = "file"}
CacheOf(n) == [p \in FilePaths(n) |-> [v |-> At(n, p).v, d |-> At(n, p).d]]

DirsOver(names, kids) == {D(c) : c \in PartialFns(names, kids)}

DF1 == DF("d1", FALSE, V0)
DiskLeaves == {DF1, L("t1"), U}
NewLeaves == {F("d1", FALSE), F("d2", FALSE), F("d1", TRUE), L("t1"), L("t2")}
F2 == F("d2", FALSE)
L2 == L("t2")

\* "wide": one name at the root, two below
Disk_wide == {Nil, DF1} \cup DirsOver({"a"}, DiskLeaves \cup DirsOver({"c", "d"}, DiskLeaves))
Target_wide == {Nil, F2} \cup DirsOver({"a"}, NewLeaves \cup DirsOver({"c", "d"}, {F("d1", FALSE), F2, L2}))
\* "small": the quick-tier cut of "wide"
Disk_small == {Nil, DF1} \cup DirsOver({"a"}, {DF1, L("t1")} \cup DirsOver({"c", "d"}, {DF1, U}))
Target_small == {Nil, F2} \cup DirsOver({"a"}, {F("d1", TRUE), F2, L2} \cup DirsOver({"c", "d"}, {F2, L2}))
\* "two": two names at the root, one below
Disk_two == DirsOver({"a", "b"}, DiskLeaves \cup DirsOver({"c"}, DiskLeaves))
Target_two == DirsOver({"a", "b"}, {F("d1", FALSE), F2, L2} \cup DirsOver({"c"}, {F2, L("t1")}))
\* "spine": three levels, one name each
Disk_spine == DirsOver({"a"}, DiskLeaves \cup DirsOver({"b"}, DiskLeaves \cup DirsOver({"c"}, DiskLeaves)))
Target_spine == DirsOver({"a"}, {F2, L2} \cup DirsOver({"b"}, {F2, L2} \cup DirsOver({"c"}, {F2, L2})))
\* "edit": content worth protecting at two levels (C08)
Disk_edit == DirsOver({"a"}, {DF1, L("t1")} \cup DirsOver({"c"}, {DF1, L("t1")}))
Target_edit == {Nil} \cup DirsOver({"a"}, {F2, F("d1", TRUE), L2} \cup DirsOver({"c"}, {F2, L2}))

\* "nest": siblings next to a nested directory (partial removal below a sibling)
Disk_nest == DirsOver({"a"}, DirsOver({"c", "d"}, {DF1, L("t1")} \cup DirsOver({"e"}, {DF1, U})))
Target_nest == DirsOver({"a"}, {F2, D(<<>>)})

\* "exec": executable and plain files at two levels, content / executability changes (C18 on the filesystem)
DF1x == DF("d1", TRUE, V0)
Disk_exec == DirsOver({"a"}, {DF1x, DF1} \cup DirsOver({"c"}, {DF1x, DF1}))
Target_exec == DirsOver({"a"}, {F("d2", TRUE), F2, F("d1", TRUE), F("d1", FALSE)} \cup DirsOver({"c"}, {F("d2", TRUE), F2}))

ShapeNames == {"wide", "small", "two", "spine", "edit", "nest", "exec"}
DiskTreesOf(shape) == CASE shape = "wide" -> Disk_wide [] shape = "small" -> Disk_small [] shape = "two" -> Disk_two
                        [] shape = "spine" -> Disk_spine [] shape = "edit" -> Disk_edit [] shape = "nest" -> Disk_nest [] shape = "exec" -> Disk_exec
TargetTreesOf(shape) == CASE shape = "wide" -> Target_wide [] shape = "small" -> Target_small [] shape = "two" -> Target_two
                          [] shape = "spine" -> Target_spine [] shape = "edit" -> Target_edit [] shape = "nest" -> Target_nest [] shape = "exec" -> Target_exec

\* ------------------------------------------------------------ external edits
\* Single-component edits of a file ("differs from what the scan recorded", each
\* comparison in isolation and at its finest granularity), by name; the driver
\* performs the edit of the same name with os calls.
ModeOps == {"mode1", "mode2", "mode3", "mode4", "mode5", "mode6", "mode7", "mode8", "mode9"}   \* one permission bit: 0400 ... 0001
ModeBit(op) == CASE op = "mode1" -> 1 [] op = "mode2" -> 2 [] op = "mode3" -> 3 [] op = "mode4" -> 4 [] op = "mode5" -> 5
                 [] op = "mode6" -> 6 [] op = "mode7" -> 7 [] op = "mode8" -> 8 [] op = "mode9" -> 9
StampOps == {"mtime+1ns", "mtime+999us", "mtime+1s", "mtime-1ns", "size+1", "size-1", "id"} \cup ModeOps
FileOps == StampOps \cup {"content", "tolink", "todir", "delete"}
LinkOps == {"retarget", "tofile", "todir", "delete"}
DirOps == {"tofile"}
\* the node an edit leaves at the edited path
EditEffect(op, n) ==
  CASE op = "content" -> DF("d9", n.x, [n.v EXCEPT !.ms = @ + 2, !.sz = @ + 5])     \* other bytes, other size, two seconds later
    [] op = "mtime+1ns" -> DF("d9", n.x, [n.v EXCEPT !.mn = @ + 1])                 \* rewritten in place, same length
    [] op = "mtime+999us" -> DF("d9", n.x, [n.v EXCEPT !.mn = @ + 2])
    [] op = "mtime-1ns" -> DF("d9", n.x, [n.v EXCEPT !.mn = @ - 1])
    [] op = "mtime+1s" -> DF("d9", n.x, [n.v EXCEPT !.ms = @ + 1])
    [] op = "size+1" -> DF("d9", n.x, [n.v EXCEPT !.sz = @ + 1])                    \* modification time restored
    [] op = "size-1" -> DF("d9", n.x, [n.v EXCEPT !.sz = @ - 1])
    [] op \in ModeOps -> DF(n.d, n.x \/ ModeBit(op) \in {3, 6, 9}, [n.v EXCEPT !.md = ModeBit(op)])   \* one permission bit flipped
    [] op = "id" -> DF(n.d, n.x, [n.v EXCEPT !.id = 1])                             \* replaced by an identical file (rename)
    [] op \in {"retarget", "tolink", "createlink"} -> L("t9")
    [] op \in {"newchild", "tofile", "createfile"} -> DF("d9", FALSE, VNew)
    [] op \in {"todir", "createdir"} -> D(<<>>)
    [] op = "createfifo" -> U
    [] OTHER -> Nil    \* delete

\* the plan a reconciliation towards `target` yields for the scanned disk
PlanSet(disk, target) == Diff(<<>>, SyncObs(disk), target)
PlanFor(disk, target) == SetToSeq(PlanSet(disk, target))
\* the (disk, target) pairs of a shape that need a transition at all
PairsOf(shape) == {pr \in DiskTreesOf(shape) \X TargetTreesOf(shape) : PlanSet(pr[1], pr[2]) # {}}
====
