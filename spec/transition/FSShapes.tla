---- MODULE FSShapes ----
(***************************************************************************)
(* Disk trees, target trees and plans of the bounded shapes explored by     *)
(* FSTransition.tla and enumerated on the real filesystem by the driver     *)
(* (harness/cmd/transition: shapeTrees mirrors these definitions; the trace *)
(* module checks every recorded case for membership).                       *)
(***************************************************************************)
EXTENDS FSProps

DF(d, x, v) == [k |-> "file", d |-> d, x |-> x, v |-> v]

\* what a scan reports for a disk (the stamp is invisible)
RECURSIVE Obs(_)
Obs(n) == CASE n.k = "file" -> F(n.d, n.x)
            [] n.k = "dir" -> D([m \in DOMAIN n.c |-> Obs(n.c[m])])
            [] OTHER -> n
SyncObs(n) == Sync(Obs(n))

FilePaths(n) == {p \in Nodes(n) : At(n, p).k = "file"}
CacheOf(n) == [p \in FilePaths(n) |-> [v |-> At(n, p).v, d |-> At(n, p).d]]

DirsOver(names, kids) == {D(c) : c \in PartialFns(names, kids)}

DF1 == DF("d1", FALSE, 0)
DiskLeaves == {DF1, L("t1"), U}
NewLeaves == {F("d1", FALSE), F("d2", FALSE), F("d1", TRUE), L("t1"), L("t2")}
F2 == F("d2", FALSE)
L2 == L("t2")

\* "wide": one name at the root, two below
Disk_wide == {Nil, DF1} \cup DirsOver({"a"}, DiskLeaves \cup DirsOver({"c", "d"}, DiskLeaves))
Target_wide == {Nil, F2} \cup DirsOver({"a"}, NewLeaves \cup DirsOver({"c", "d"}, {F("d1", FALSE), F2, L2}))
\* "small": the quick-tier cut of "wide"
Disk_small == {Nil, DF1} \cup DirsOver({"a"}, {DF1, L("t1")} \cup DirsOver({"c", "d"}, {DF1, U}))
Target_small == {Nil, F2} \cup DirsOver({"a"}, {F("d1", TRUE), F2, L2} \cup DirsOver({"c", "d"}, {F2, L2}))
\* "two": two names at the root, one below
Disk_two == DirsOver({"a", "b"}, DiskLeaves \cup DirsOver({"c"}, DiskLeaves))
Target_two == DirsOver({"a", "b"}, {F("d1", FALSE), F2, L2} \cup DirsOver({"c"}, {F2, L("t1")}))
\* "spine": three levels, one name each
Disk_spine == DirsOver({"a"}, DiskLeaves \cup DirsOver({"b"}, DiskLeaves \cup DirsOver({"c"}, DiskLeaves)))
Target_spine == DirsOver({"a"}, {F2, L2} \cup DirsOver({"b"}, {F2, L2} \cup DirsOver({"c"}, {F2, L2})))
\* "edit": content worth protecting at two levels (C08)
Disk_edit == DirsOver({"a"}, {DF1, L("t1")} \cup DirsOver({"c"}, {DF1, L("t1")}))
Target_edit == {Nil} \cup DirsOver({"a"}, {F2, F("d1", TRUE), L2} \cup DirsOver({"c"}, {F2, L2}))

\* "nest": siblings next to a nested directory (partial removal below a sibling)
Disk_nest == DirsOver({"a"}, DirsOver({"c", "d"}, {DF1, L("t1")} \cup DirsOver({"e"}, {DF1, U})))
Target_nest == DirsOver({"a"}, {F2, D(<<>>)})

ShapeNames == {"wide", "small", "two", "spine", "edit", "nest"}
DiskTreesOf(shape) == CASE shape = "wide" -> Disk_wide [] shape = "small" -> Disk_small [] shape = "two" -> Disk_two
                        [] shape = "spine" -> Disk_spine [] shape = "edit" -> Disk_edit [] shape = "nest" -> Disk_nest
TargetTreesOf(shape) == CASE shape = "wide" -> Target_wide [] shape = "small" -> Target_small [] shape = "two" -> Target_two
                          [] shape = "spine" -> Target_spine [] shape = "edit" -> Target_edit [] shape = "nest" -> Target_nest

\* the plan a reconciliation towards `target` yields for the scanned disk
PlanSet(disk, target) == Diff(<<>>, SyncObs(disk), target)
PlanFor(disk, target) == SetToSeq(PlanSet(disk, target))
\* the (disk, target) pairs of a shape that need a transition at all
PairsOf(shape) == {pr \in DiskTreesOf(shape) \X TargetTreesOf(shape) : PlanSet(pr[1], pr[2]) # {}}
====
