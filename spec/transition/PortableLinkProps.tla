---- MODULE PortableLinkProps ----
(* Operators of C16 shared by the model (PortableLink) and the trace module
   (PortableLink_Trace): component classes, POSIX lexical resolution, the
   transcription of normalizeSymbolicLinkAndEnsurePortable as one operator,
   and the property operators C16_*.  See PortableLink.tla. *)
EXTENDS Integers, Sequences, FiniteSets, TLC

AllClasses == {"name", "dot", "up", "empty", "colon", "bslash", "long"}

\* ---------------------------------------------------------------- POSIX side
\* lexical resolution: how one component moves the current location
Move(tok) == CASE tok = "up" -> -1
               [] tok \in {"dot", "empty"} -> 0
               [] OTHER -> 1
RECURSIVE DepthAfter(_, _, _)
DepthAfter(d, toks, i) == IF i = 0 THEN d ELSE DepthAfter(d, toks, i - 1) + Move(toks[i])
\* the location reached after every prefix of the target is inside the root
Inside(d, toks) == \A i \in 0..Len(toks) : DepthAfter(d, toks, i) >= 0

\* facts about the target string that follow from the component classes
IsEmptyTarget(toks) == toks = <<"empty">>                       \* target = ""
IsAbsolute(toks) == Len(toks) >= 2 /\ toks[1] = "empty"         \* target[0] = '/'
HasClass(toks, c) == \E i \in DOMAIN toks : toks[i] = c
\* targets the statement says must be rejected
MustReject(toks) == \/ IsEmptyTarget(toks) \/ IsAbsolute(toks)
                    \/ HasClass(toks, "long") \/ HasClass(toks, "colon") \/ HasClass(toks, "bslash")

\* ----------------------------------------------------------------- code side
\* the depth update of the component loop
CodeMove(tok, repaired) ==
  IF tok = "dot" THEN 0
  ELSE IF tok = "up" THEN -1
  ELSE IF repaired /\ tok = "empty" THEN 0
  ELSE 1
RECURSIVE CodeDepthAfter(_, _, _, _)
CodeDepthAfter(d, toks, i, repaired) ==
  IF i = 0 THEN d ELSE CodeDepthAfter(d, toks, i - 1, repaired) + CodeMove(toks[i], repaired)
\* the whole function as one operator (used by the trace module for conformance)
AcceptWith(d, toks, repaired) ==
  /\ ~IsEmptyTarget(toks)
  /\ ~HasClass(toks, "long")
  /\ ~HasClass(toks, "colon")
  /\ ~HasClass(toks, "bslash")
  /\ ~IsAbsolute(toks)
  /\ \A i \in 1..Len(toks) : CodeDepthAfter(d, toks, i, repaired) >= 0

\* the property, as an operator over (depth, components, verdict of the code)
C16_StaysInside(d, toks, accepted) == accepted => Inside(d, toks)
C16_Rejects(toks, accepted) == MustReject(toks) => ~accepted

====
