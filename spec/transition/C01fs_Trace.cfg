\* extra run of C01 on the real filesystem: content modified between the real core.Scan and the real core.Transition
\* (external-edit scenarios of the transition driver, --prop C01) must survive and be reported
CONSTANT Want = {"C08_ModifiedSurvives", "C08_ModifiedReported", "Conforms"}
CONSTANTS Shape = "small" MaxEdits = 0 Budget = 0 LinkRepaired = TRUE
SPECIFICATION TSpec
CHECK_DEADLOCK FALSE
