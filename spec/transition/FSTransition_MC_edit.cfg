CONSTANTS Shape = "edit" MaxEdits = 2 Budget = 0 LinkRepaired = TRUE
SPECIFICATION Spec
INVARIANTS InvC08Survives InvC08Reported InvC08Outside InvC03 InvShape
CHECK_DEADLOCK TRUE
