\* every single external edit of the "edit" shape, exported as behaviours for the driver
CONSTANTS Shape = "edit" MaxEdits = 1 Budget = 0 LinkRepaired = TRUE
SPECIFICATION Spec
INVARIANTS InvC08Survives InvC08Reported InvC08Outside InvC03 InvShape ExportEdits
CHECK_DEADLOCK TRUE
