\* extra run of C18 on the real filesystem: executable files on the preserving endpoint under a fault at every primitive of the swap (--prop C18)
CONSTANT Want = {"C18_ExecBitOnDiskSurvives", "C18_ReportedExecMatchesDisk", "Conforms"}
CONSTANTS Shape = "small" MaxEdits = 0 Budget = 0 LinkRepaired = TRUE
SPECIFICATION TSpec
CHECK_DEADLOCK FALSE
