CONSTANTS Shape = "spine" MaxEdits = 0 Budget = 1 LinkRepaired = TRUE
SPECIFICATION Spec
INVARIANTS InvC18 InvC09 InvShape InvMissing InvC08Outside InvC03
CHECK_DEADLOCK TRUE
