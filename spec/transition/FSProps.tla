---- MODULE FSProps ----
(***************************************************************************)
(* Property operators of C08 and C09, written over values that exist both   *)
(* in the model (FSTransition) and in records of the real code              *)
(* (FSTransition_Trace): a plan (sequence of changes [path, old, new]), the *)
(* results / problem paths a transition returned, and views of the disk.    *)
(*                                                                          *)
(* A *detailed* disk view is an Entries tree whose file and link nodes may  *)
(* carry an identity stamp (model: version v; real: "id" = dev:inode:mode:  *)
(* size:mtime from lstat) and whose non-synchronizable content appears as   *)
(* "untracked" (fifo, device ...) or "temp" (mutagen's own temporary files, *)
(* which scans skip).  Plain(view) is what a scan is contracted to report   *)
(* for it (the scan contract of C12 at the level of this encoding).         *)
(***************************************************************************)
EXTENDS Entries, Integers

RECURSIVE Plain(_)
Plain(n) ==
  CASE n.k = "file" -> F(n.d, n.x)
    [] n.k = "link" -> L(n.t)
    [] n.k = "dir" -> LET keep == {m \in DOMAIN n.c : n.c[m].k # "temp"} IN D([m \in keep |-> Plain(n.c[m])])
    [] OTHER -> n

Comparable(p, q) == IsPrefix(p, q) \/ IsPrefix(q, p)

\* --------------------------------------------------------------------- C09
\* every returned entry equals what is found at its path afterwards
\* (`observed` is a plain view: a scan result, or Plain of the walker's view);
\* observation is restricted to synchronizable content, as results are
C09_ResultsExact(plan, results, observed) ==
  /\ Len(results) = Len(plan)
  /\ \A j \in 1..Len(plan) : results[j] = At(Sync(observed), plan[j].path)

\* which entries are wrong (for diagnostics / statistics)
C09_WrongAt(plan, results, observed) ==
  {j \in 1..Len(plan) : j > Len(results) \/ results[j] # At(Sync(observed), plan[j].path)}

\* --------------------------------------------------------------------- C08
\* edits: set of paths modified between the scan and the transition;
\* before / after: detailed views taken after the edits / after the transition
C08_ModifiedSurvives(edits, before, after) ==
  \A p \in edits : At(after, p) = At(before, p)

\* a planned change whose path is at, above or below the edited path
Covered(plan, p) == \E j \in 1..Len(plan) : Comparable(plan[j].path, p)
\* (content that was deleted externally needs no protection: a removal simply
\* treats it as already removed)
C08_ModifiedReported(edits, plan, problemPaths, before) ==
  \A p \in edits : (At(before, p) # Nil /\ Covered(plan, p)) => \E q \in problemPaths : Comparable(q, p)

\* ----------------------------------------------------- C03 on the filesystem
\* A node that is on disk when the transition starts and that the plan's Old
\* trees do not describe - a newcomer at a path the plan creates, a FIFO or other
\* untracked entry, an unknown child of a directory being removed, anything
\* outside the plan - is still there afterwards: same kind and, for
\* non-directories, the very same node (content / target / identity).
DescribedByPlan(plan, p) ==
  \/ \E j \in 1..Len(plan) : IsPrefix(plan[j].path, p)
                               /\ At(plan[j].old, SubSeq(p, Len(plan[j].path) + 1, Len(p))) # Nil
  \/ \E j \in 1..Len(plan) : IsPrefix(p, plan[j].path) /\ p # plan[j].path      \* a directory leading to a change
SameNode(x, y) == IF x.k = "dir" THEN y.k = "dir" ELSE x = y
C03_UntrackedOnDiskUntouched(plan, before, after) ==
  \A p \in Nodes(before) : ~DescribedByPlan(plan, p) => SameNode(At(before, p), At(after, p))

\* ----------------------------------------------------- C18 on the filesystem
\* (the endpoint that preserves executable bits).  The planned new entry at p, if
\* some change covers p; Nil if the plan removes it; "untouched" if no change does.
PlannedAt(plan, p) ==
  IF \E j \in 1..Len(plan) : IsPrefix(plan[j].path, p)
  THEN LET j == CHOOSE i \in 1..Len(plan) : IsPrefix(plan[i].path, p)
       IN At(plan[j].new, SubSeq(p, Len(plan[j].path) + 1, Len(p)))
  ELSE [k |-> "untouched"]
\* A path that held an executable regular file before the transition and holds a
\* regular file afterwards, and whose planned entry is an executable file (or that
\* no change touches), still has an executable bit on disk - whatever went wrong
\* during the transition and whatever was reported.
C18_ExecBitOnDiskSurvives(plan, before, after, results) ==
  \A p \in Nodes(before) :
     LET b == At(before, p)  a == At(after, p)  n == PlannedAt(plan, p) IN
     (b.k = "file" /\ b.x /\ a.k = "file" /\ (n.k = "untouched" \/ (n.k = "file" /\ n.x))) => a.x
\* the executability reported for a file equals the one found on disk
C18_ReportedExecMatchesDisk(plan, results, after) ==
  \A j \in 1..Len(plan) : j <= Len(results) =>
     \A q \in Nodes(results[j]) :
        LET e == At(results[j], q)  a == At(after, plan[j].path \o q) IN
        (e.k = "file" /\ a.k = "file") => a.x = e.x

\* a transition never changes anything outside the subtrees its plan names
C08_OutsidePlanUntouched(plan, before, after) ==
  \A p \in Nodes(before) : (\A j \in 1..Len(plan) : ~IsPrefix(plan[j].path, p) /\ ~IsPrefix(p, plan[j].path))
                            => Slim(At(after, p)) = Slim(At(before, p))
====
