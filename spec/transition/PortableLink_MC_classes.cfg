CONSTANTS TokSet = {"name", "dot", "up", "empty", "colon", "bslash", "long"} MaxLen = 4 MaxDepth = 2 Repaired = TRUE
SPECIFICATION Spec
INVARIANTS InvStaysInside InvRejects InvMachineIsAccept InvDepthAgrees
CHECK_DEADLOCK FALSE
