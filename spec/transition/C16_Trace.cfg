CONSTANT Want = {"C16_StaysInside_fn", "C16_StaysInside_scan", "C16_StaysInside_transition", "C16_Rejects", "C16_NormalizedSame"}
SPECIFICATION TSpec
CHECK_DEADLOCK FALSE
