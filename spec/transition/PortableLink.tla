---- MODULE PortableLink ----
(***************************************************************************)
(* C16 - portable symbolic links stay inside the synchronization root.      *)
(*                                                                          *)
(* A link lives at a root-relative path with `depth` slashes (so its        *)
(* containing directory is `depth` levels below the root).  Its target is   *)
(* the '/'-join of a sequence of components; components are modelled by     *)
(* their class:                                                             *)
(*   "name"  an ordinary portable name          "dot"  "."                  *)
(*   "up"    ".."                               "empty" "" (adjacent or     *)
(*           leading/trailing slashes)                                      *)
(*   "colon" a name containing ':'   "bslash" a name containing '\'         *)
(*   "long"  a name longer than the 247-byte limit                          *)
(*                                                                          *)
(* Check* / Component are a transcription, statement by statement, of       *)
(* pkg/synchronization/core/symbolic_link.go                                *)
(* normalizeSymbolicLinkAndEnsurePortable.  Resolve is POSIX lexical        *)
(* resolution.  StaysInside is the property.                                *)
(*                                                                          *)
(* Repaired = FALSE is the code as found at the pinned commit: an empty     *)
(* component fell into the final `else` and counted as depth + 1, although  *)
(* POSIX ignores it; TLC then finds  n//../..  at depth 0 (accepted,        *)
(* resolves to the parent of the root).  Repaired = TRUE treats an empty    *)
(* component like "." (the fix: commit in /repo).                           *)
(***************************************************************************)
EXTENDS PortableLinkProps

CONSTANTS TokSet,     \* component classes explored
          MaxLen,     \* maximal number of components
          MaxDepth,   \* maximal link depth
          Repaired    \* BOOLEAN, see above

Accept(d, toks) == AcceptWith(d, toks, Repaired)

\* ------------------------------------------------- the function as a machine
VARIABLES depth, toks, pc, i, pathDepth, verdict
vars == <<depth, toks, pc, i, pathDepth, verdict>>

Targets == UNION {[1..n -> TokSet] : n \in 1..MaxLen}

Init == /\ depth \in 0..MaxDepth /\ toks \in Targets
        /\ pc = "empty" /\ i = 0 /\ pathDepth = 0 /\ verdict = "running"

Reject(why) == pc' = "done" /\ verdict' = why /\ UNCHANGED <<depth, toks, i, pathDepth>>
Goto(l) == pc' = l /\ UNCHANGED <<depth, toks, i, pathDepth, verdict>>

CheckEmpty == pc = "empty" /\ IF IsEmptyTarget(toks) THEN Reject("target empty") ELSE Goto("length")
CheckLength == pc = "length" /\ IF HasClass(toks, "long") THEN Reject("target too long") ELSE Goto("colon")
CheckColon == pc = "colon" /\ IF HasClass(toks, "colon") THEN Reject("colon in target") ELSE Goto("bslash")
CheckBackslash == pc = "bslash" /\ IF HasClass(toks, "bslash") THEN Reject("backslash in target") ELSE Goto("absolute")
CheckAbsolute == /\ pc = "absolute"
                 /\ IF IsAbsolute(toks) THEN Reject("target is absolute")
                    ELSE /\ pc' = "loop" /\ pathDepth' = depth /\ i' = 1
                         /\ UNCHANGED <<depth, toks, verdict>>
\* one iteration of `for _, component := range strings.Split(target, "/")`
Component == /\ pc = "loop" /\ i <= Len(toks)
             /\ LET nd == pathDepth + CodeMove(toks[i], Repaired) IN
                IF nd < 0 THEN /\ pc' = "done" /\ verdict' = "outside root" /\ pathDepth' = nd
                               /\ UNCHANGED <<depth, toks, i>>
                ELSE /\ pathDepth' = nd /\ i' = i + 1 /\ UNCHANGED <<depth, toks, pc, verdict>>
Return == /\ pc = "loop" /\ i > Len(toks)
          /\ pc' = "done" /\ verdict' = "accepted" /\ UNCHANGED <<depth, toks, i, pathDepth>>

Next == CheckEmpty \/ CheckLength \/ CheckColon \/ CheckBackslash \/ CheckAbsolute \/ Component \/ Return
Spec == Init /\ [][Next]_vars

\* ------------------------------------------------------------- invariants
InvStaysInside == pc = "done" => C16_StaysInside(depth, toks, verdict = "accepted")
InvRejects == pc = "done" => C16_Rejects(toks, verdict = "accepted")
\* the machine and the one-operator transcription agree
InvMachineIsAccept == pc = "done" => ((verdict = "accepted") <=> Accept(depth, toks))
\* inside the loop the code's depth equals the POSIX depth (what the repair restores)
InvDepthAgrees == (Repaired /\ pc = "loop") => pathDepth = DepthAfter(depth, toks, i - 1)
====
