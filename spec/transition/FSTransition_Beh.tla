---- MODULE FSTransition_Beh ----
(* Exports, as one BEHAVIOUR line per terminal state, every case of the model in
   which an external edit happened between scan and transition: the initial
   disk tree, the target tree and the edits by name and path.  The driver replays
   each of them on the real filesystem (spec -> code leg of C08). *)
EXTENDS FSTransition, Json
ExportEdits == (s.pc = "done" /\ s.elog # <<>>) =>
                 PrintT(<<"BEHAVIOUR", ToJson([tree0 |-> s.tree0, target |-> s.target, edits |-> s.elog])>>)
====
