CONSTANTS TokSet = {"name", "dot", "up", "empty"} MaxLen = 6 MaxDepth = 3 Repaired = TRUE
SPECIFICATION Spec
INVARIANTS InvStaysInside InvRejects InvMachineIsAccept InvDepthAgrees
CHECK_DEADLOCK FALSE
