\* The code as found at the pinned commit: TLC reports the n//../.. counterexample (not part of any check).
CONSTANTS TokSet = {"name", "dot", "up", "empty"} MaxLen = 4 MaxDepth = 1 Repaired = FALSE
SPECIFICATION Spec
INVARIANTS InvStaysInside
CHECK_DEADLOCK FALSE
