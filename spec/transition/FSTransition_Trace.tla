---- MODULE FSTransition_Trace ----
(***************************************************************************)
(* Trace validation for C08 and C09.  Every record of trace.ndjson is one   *)
(* real run: a tree materialised on disk, a real core.Scan, optional        *)
(* external edits, a real core.Transition (with a fault, a cancellation or  *)
(* vanishing staged files injected through the verif hook of                *)
(* pkg/filesystem), then the disk as seen by an independent walker and by a *)
(* second real core.Scan.                                                   *)
(*                                                                          *)
(*   r.in      the case: shape, tree0, target, mode, edits, fault           *)
(*   r.scan0   snapshot of the scan preceding the transition                *)
(*   r.plan    the transitions passed ([path, old, new])                    *)
(*   r.pre     walker's detailed view after the edits, before Transition    *)
(*   r.results r.problems r.missing   what Transition returned              *)
(*   r.post    walker's view afterwards;  r.scan1 second scan               *)
(*   r.nops r.ops r.fired r.hit r.hung   what the hook observed             *)
(*                                                                          *)
(* Verdicts: the operators C08_* / C09_* of FSProps - the same ones TLC     *)
(* checks on FSTransition - evaluated on the observations; the step         *)
(* relation admits any outcome.                                             *)
(*                                                                          *)
(* Conformance (statistics only, never a verdict): for every run without an *)
(* injected event the machine of FSTransition.tla is started from the       *)
(* recorded case (same disk, cache, plan, edits, mode) and stepped with its *)
(* own actions (Steps) to "done"; its results, problem paths, missing flag  *)
(* and final disk are compared with what the real code did (stat_drift_...). *)
(***************************************************************************)
EXTENDS FSTransition, TraceKit

CONSTANT Want

VARIABLES l, fails, seen, cnt, done
tvars == <<l, fails, seen, cnt, done, s>>
Idle == [pc |-> "idle"]

\* the case description in the model's vocabulary
RECURSIVE ToDiskBy(_, _)
ToDiskBy(n, real) == CASE n.k = "file" -> DF(IF real THEN n.d ELSE n.s, n.x, V0)
                       [] n.k = "fifo" -> U
                       [] n.k = "dir" -> D([m \in DOMAIN n.c |-> ToDiskBy(n.c[m], real)])
                       [] OTHER -> n
ToDisk(n) == ToDiskBy(n, FALSE)        \* file content name as digest name: the shapes' vocabulary
ToDiskReal(n) == ToDiskBy(n, TRUE)     \* real SHA-1 digests: comparable with the recorded plan and results
ToTarget(n) == Obs(ToDisk(n))

EditPaths(r) == {e.path : e \in Rng(r.in.edits)}
ProblemPaths(r) == {p.path : p \in Rng(r.problems)}
Stale(r) == \E e \in Rng(r.in.edits) : e.op = "stale"

\* the case is one the specification speaks about
WellFormed(r) ==
  /\ r.ev = "Transition"
  /\ r.in.shape \in ShapeNames \cup {"rand"}
  /\ r.in.shape \in ShapeNames => /\ ToDisk(r.in.tree0) \in DiskTreesOf(r.in.shape)
                                  /\ ToTarget(r.in.target) \in TargetTreesOf(r.in.shape)
  \* the plan expects what the scan saw (unless the case makes it older than the scan on purpose)
  /\ ~Stale(r) => \A j \in 1..Len(r.plan) : r.plan[j].old = At(Sync(r.scan0), r.plan[j].path)
  /\ r.in.mode.rn2 \in {"", "enosys", "enotsup"}
  /\ Len(r.plan) >= 1
  \* edits are on pairwise incomparable paths
  /\ \A e1, e2 \in Rng(r.in.edits) : e1 # e2 => ~Comparable(e1.path, e2.path)
  /\ \A e \in Rng(r.in.edits) : e.op \in FileOps \cup LinkOps \cup DirOps \cup {"stale", "newchild", "createfile", "createlink", "createdir", "createfifo"}
  /\ r.pre.k # "walkerr" /\ r.post.k # "walkerr"

RecFails(i, r) ==
  IF ~WellFormed(r) THEN <<Fail(i, "TraceAccepted")>>
  ELSE
       Chk(Want, i, "C09_Returns", ~r.hung)
    \o Chk(Want, i, "C09_ResultsMatchScan", r.scan1.k # "scanerr" /\ C09_ResultsExact(r.plan, r.results, r.scan1))
    \o Chk(Want, i, "C09_ResultsMatchWalker", C09_ResultsExact(r.plan, r.results, Plain(r.post)))
    \o Chk(Want, i, "C08_ModifiedSurvives", C08_ModifiedSurvives(EditPaths(r), r.pre, r.post))
    \o Chk(Want, i, "C08_ModifiedReported", C08_ModifiedReported(EditPaths(r), r.plan, ProblemPaths(r), r.pre))
    \o Chk(Want, i, "C03_UntrackedOnDiskUntouched", r.pre.k # "notrecorded" => C03_UntrackedOnDiskUntouched(r.plan, r.pre, r.post))
    \o Chk(Want, i, "C18_ExecBitOnDiskSurvives", r.pre.k # "notrecorded" /\ C18_ExecBitOnDiskSurvives(r.plan, r.pre, r.post, r.results))
    \o Chk(Want, i, "C18_ReportedExecMatchesDisk", C18_ReportedExecMatchesDisk(r.plan, r.results, r.post))
    \o Chk(Want, i, "C08_OutsidePlanUntouched", r.pre.k # "notrecorded" => C08_OutsidePlanUntouched(r.plan, r.pre, r.post))

\* ---------------------------------------------------------- conformance
\* an external edit of the driver in the model's terms
ApplyEdit(t, e) ==
  IF e.op = "stale"
  THEN [t EXCEPT !.disk = SetAt(t.disk, e.path, DF("stale", At(t.disk, e.path).x, V0)),
                 !.edited = @ \cup {e.path}, !.cache = [@ EXCEPT ![e.path] = [v |-> V0, d |-> "stale"]]]
  ELSE [t EXCEPT !.disk = SetAt(t.disk, e.path, EditEffect(e.op, At(t.disk, e.path))), !.edited = @ \cup {e.path}]
RECURSIVE ApplyEdits(_, _)
ApplyEdits(t, es) == IF es = <<>> THEN t ELSE ApplyEdits(ApplyEdit(t, Head(es)), Tail(es))

FromRecord(r) ==
  ApplyEdits([Start(ToDiskReal(r.in.tree0), r.plan, r.in.mode.exdev, r.in.mode.owner,
                    [any |-> FALSE, set |-> Rng(r.in.mode.missing)]) EXCEPT !.norn2 = r.in.mode.rn2 # ""],
             r.in.edits)

RECURSIVE NoDigest(_)
NoDigest(e) == CASE e.k = "file" -> [k |-> "file", x |-> e.x]
                 [] e.k = "dir" -> [k |-> "dir", c |-> [m \in DOMAIN e.c |-> NoDigest(e.c[m])]]
                 [] OTHER -> [k |-> e.k]

Replayable(r) == "Conforms" \in Want /\ WellFormed(r) /\ r.in.fault.kind = "none" /\ ~r.hung

Zero == [fired |-> 0, partial |-> 0, missing |-> 0, problems |-> 0, temps |-> 0,
         runs |-> 0, dres |-> 0, dprob |-> 0, dmiss |-> 0, ddisk |-> 0, stuck |-> 0]
\* statistics: how the run ended
Bump(c, r) ==
  [c EXCEPT !.fired = @ + (IF r.fired THEN 1 ELSE 0),
            !.partial = @ + (IF \E j \in 1..Len(r.plan) : j <= Len(r.results) /\ r.results[j] # r.plan[j].new /\ r.results[j] # r.plan[j].old THEN 1 ELSE 0),
            !.missing = @ + (IF r.missing THEN 1 ELSE 0),
            !.problems = @ + (IF Len(r.problems) > 0 THEN 1 ELSE 0),
            !.temps = @ + (IF \E p \in Nodes(r.post) : At(r.post, p).k = "temp" THEN 1 ELSE 0)]
Compare(c, r, m) ==
  [c EXCEPT !.runs = @ + 1,
            !.dres = @ + (IF m.results = r.results THEN 0 ELSE 1),
            !.dprob = @ + (IF m.problems = ProblemPaths(r) THEN 0 ELSE 1),
            !.dmiss = @ + (IF m.missing = r.missing THEN 0 ELSE 1),
            !.ddisk = @ + (IF NoDigest(Obs(m.disk)) = NoDigest(Plain(r.post)) THEN 0 ELSE 1)]

Consume(r, c2) ==
  /\ fails' = Cap(fails \o RecFails(l, r))
  /\ seen' = IF WellFormed(r) /\ r.in.shape \in ShapeNames
             THEN seen \cup {<<r.in.shape, ToDisk(r.in.tree0), ToTarget(r.in.target)>>} ELSE seen
  /\ cnt' = IF WellFormed(r) THEN Bump(c2, r) ELSE c2
  /\ l' = l + 1 /\ UNCHANGED done

TInit == /\ l = 1 /\ fails = <<>> /\ seen = {} /\ done = FALSE /\ cnt = Zero /\ s = Idle
\* a record that is judged only
StepPlain == /\ l <= NRec /\ s = Idle /\ ~Replayable(Trace[l])
             /\ Consume(Trace[l], cnt) /\ UNCHANGED s
\* a record whose case the machine re-runs: load it, ...
Load == /\ l <= NRec /\ s = Idle /\ Replayable(Trace[l])
        /\ s' = FromRecord(Trace[l]) /\ UNCHANGED <<l, fails, seen, cnt, done>>
\* ... step the specification's own actions, ...
Run == /\ s # Idle /\ s.pc # "done" /\ Steps /\ UNCHANGED <<l, fails, seen, cnt, done>>
\* ... and compare when Transition returns
Judge == /\ s # Idle /\ s.pc = "done"
         /\ Consume(Trace[l], Compare(cnt, Trace[l], s)) /\ s' = Idle
\* the machine cannot continue on this case: counted, never a verdict
GiveUp == /\ s # Idle /\ s.pc # "done" /\ ~ENABLED Steps
          /\ Consume(Trace[l], [cnt EXCEPT !.stuck = @ + 1]) /\ s' = Idle
Finish == /\ l = NRec + 1 /\ ~done /\ s = Idle
          /\ WriteResult(l - 1, fails,
                         [stat_shape_pairs_seen |-> Cardinality(seen),
                          stat_fired |-> cnt.fired, stat_partial_results |-> cnt.partial, stat_missing_flag |-> cnt.missing,
                          stat_with_problems |-> cnt.problems, stat_temp_left |-> cnt.temps,
                          stat_model_runs |-> cnt.runs, stat_drift_results |-> cnt.dres, stat_drift_problems |-> cnt.dprob,
                          stat_drift_missing |-> cnt.dmiss, stat_drift_disk |-> cnt.ddisk, stat_model_stuck |-> cnt.stuck])
          /\ done' = TRUE /\ UNCHANGED <<l, fails, seen, cnt, s>>
TNext == StepPlain \/ Load \/ Run \/ Judge \/ GiveUp \/ Finish
TSpec == TInit /\ [][TNext]_tvars
====
