---- MODULE FSTransition_Trace ----
(***************************************************************************)
(* Trace validation for C08 and C09.  Every record of trace.ndjson is one   *)
(* real run: a tree materialised on disk, a real core.Scan, optional        *)
(* external edits, a real core.Transition (with a fault, a cancellation or  *)
(* vanishing staged files injected through the verif hook of                *)
(* pkg/filesystem), then the disk as seen by an independent walker and by a *)
(* second real core.Scan.                                                   *)
(*                                                                          *)
(*   r.in      the case: shape, tree0, target, mode, edits, fault           *)
(*   r.scan0   snapshot of the scan preceding the transition                *)
(*   r.plan    the transitions passed ([path, old, new])                    *)
(*   r.pre     walker's detailed view after the edits, before Transition    *)
(*   r.results r.problems r.missing   what Transition returned              *)
(*   r.post    walker's detailed view afterwards;  r.scan1 second scan      *)
(*   r.nops r.ops r.fired r.hit r.hung   what the hook observed             *)
(*                                                                          *)
(* The step relation is permissive (any outcome is consumed); the operators *)
(* C08_* / C09_* of FSProps - the same ones TLC checks on FSTransition -     *)
(* judge the observations.                                                  *)
(***************************************************************************)
EXTENDS FSShapes, TraceKit

CONSTANT Want

VARIABLES l, fails, seen, cnt, done
tvars == <<l, fails, seen, cnt, done>>

\* the case description in the model's vocabulary (file content name = digest name)
RECURSIVE ToDisk(_)
ToDisk(n) == CASE n.k = "file" -> DF(n.s, n.x, 0)
               [] n.k = "fifo" -> U
               [] n.k = "dir" -> D([m \in DOMAIN n.c |-> ToDisk(n.c[m])])
               [] OTHER -> n
ToTarget(n) == Obs(ToDisk(n))

EditPaths(r) == {e.path : e \in Rng(r.in.edits)}
ProblemPaths(r) == {p.path : p \in Rng(r.problems)}
Stale(r) == \E e \in Rng(r.in.edits) : e.op = "stale"

\* the case is one the specification speaks about
WellFormed(r) ==
  /\ r.ev = "Transition"
  /\ r.in.shape \in ShapeNames \cup {"rand"}
  /\ r.in.shape \in ShapeNames => /\ ToDisk(r.in.tree0) \in DiskTreesOf(r.in.shape)
                                  /\ ToTarget(r.in.target) \in TargetTreesOf(r.in.shape)
  \* the plan expects what the scan saw (unless the case makes it older than the scan on purpose)
  /\ ~Stale(r) => \A j \in 1..Len(r.plan) : r.plan[j].old = At(Sync(r.scan0), r.plan[j].path)
  /\ Len(r.plan) >= 1
  \* edits are on pairwise incomparable paths
  /\ \A e1, e2 \in Rng(r.in.edits) : e1 # e2 => ~Comparable(e1.path, e2.path)
  /\ r.pre.k # "walkerr" /\ r.post.k # "walkerr"

RecFails(i, r) ==
  IF ~WellFormed(r) THEN <<Fail(i, "TraceAccepted")>>
  ELSE
       Chk(Want, i, "C09_Returns", ~r.hung)
    \o Chk(Want, i, "C09_ResultsMatchScan", r.scan1.k # "scanerr" /\ C09_ResultsExact(r.plan, r.results, r.scan1))
    \o Chk(Want, i, "C09_ResultsMatchWalker", C09_ResultsExact(r.plan, r.results, Plain(r.post)))
    \o Chk(Want, i, "C08_ModifiedSurvives", C08_ModifiedSurvives(EditPaths(r), r.pre, r.post))
    \o Chk(Want, i, "C08_ModifiedReported", C08_ModifiedReported(EditPaths(r), r.plan, ProblemPaths(r), r.pre))
    \o Chk(Want, i, "C08_OutsidePlanUntouched", C08_OutsidePlanUntouched(r.plan, r.pre, r.post))

\* statistics: how the run ended
Bump(c, r) ==
  [c EXCEPT !.fired = @ + (IF r.fired THEN 1 ELSE 0),
            !.partial = @ + (IF \E j \in 1..Len(r.plan) : j <= Len(r.results) /\ r.results[j] # r.plan[j].new /\ r.results[j] # r.plan[j].old THEN 1 ELSE 0),
            !.missing = @ + (IF r.missing THEN 1 ELSE 0),
            !.problems = @ + (IF Len(r.problems) > 0 THEN 1 ELSE 0),
            !.temps = @ + (IF \E p \in Nodes(r.post) : At(r.post, p).k = "temp" THEN 1 ELSE 0)]

TInit == /\ l = 1 /\ fails = <<>> /\ seen = {} /\ done = FALSE
         /\ cnt = [fired |-> 0, partial |-> 0, missing |-> 0, problems |-> 0, temps |-> 0]
Step == /\ l <= NRec
        /\ LET r == Trace[l] IN
           /\ fails' = Cap(fails \o RecFails(l, r))
           /\ seen' = IF WellFormed(r) /\ r.in.shape \in ShapeNames
                      THEN seen \cup {<<r.in.shape, ToDisk(r.in.tree0), ToTarget(r.in.target)>>} ELSE seen
           /\ cnt' = IF WellFormed(r) THEN Bump(cnt, r) ELSE cnt
        /\ l' = l + 1 /\ UNCHANGED done
Finish == /\ l = NRec + 1 /\ ~done
          /\ WriteResult(l - 1, fails,
                         [stat_shape_pairs_seen |-> Cardinality(seen),
                          stat_fired |-> cnt.fired, stat_partial_results |-> cnt.partial, stat_missing_flag |-> cnt.missing,
                          stat_with_problems |-> cnt.problems, stat_temp_left |-> cnt.temps])
          /\ done' = TRUE /\ UNCHANGED <<l, fails, seen, cnt>>
TNext == Step \/ Finish
TSpec == TInit /\ [][TNext]_tvars
====
