CONSTANT Want = {"C08_ModifiedSurvives", "C08_ModifiedReported", "C08_OutsidePlanUntouched"}
SPECIFICATION TSpec
CHECK_DEADLOCK FALSE
