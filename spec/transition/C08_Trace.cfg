CONSTANT Want = {"C08_ModifiedSurvives", "C08_ModifiedReported", "C08_OutsidePlanUntouched", "C03_UntrackedOnDiskUntouched", "Conforms"}
CONSTANTS Shape = "small" MaxEdits = 0 Budget = 0 LinkRepaired = TRUE
SPECIFICATION TSpec
CHECK_DEADLOCK FALSE
