CONSTANTS
 Vals = {"a", "b", "c"}
 V0 = "a"
 MaxEdits = 1
 MaxTrans = 1
 AccelAllowed = TRUE
 FullScans = FALSE
 ResetInTransition = TRUE
 ResetBeforeWindow = FALSE
 StrobeInTransition = TRUE
 PartialOutcomes = TRUE
 ShallowChangeTest = FALSE
 CacheFromPoller = FALSE
 FixLevel = 2
 MaxLen = 9
 MaxP = 3
 MaxS = 3
 MaxW = 2
 Modes = {"sched"}
SPECIFICATION SSpec
INVARIANTS Export NoStaleClock NoStaleObs NoticedInv NoOverwrite
CHECK_DEADLOCK FALSE
