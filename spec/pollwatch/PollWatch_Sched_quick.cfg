CONSTANTS
 Vals = {"a", "b", "c"}
 V0 = "a"
 MaxEdits = 1
 MaxTrans = 1
 AccelAllowed = TRUE
 FullScans = TRUE
 ResetInTransition = TRUE
 ResetBeforeWindow = FALSE
 StrobeInTransition = TRUE
 PartialOutcomes = TRUE
 ShallowChangeTest = FALSE
 CacheFromPoller = FALSE
 FixLevel = 2
 MaxLen = 8
 MaxP = 2
 MaxS = 2
 MaxW = 2
 Modes = {"sched", "fine"}
SPECIFICATION SSpec
INVARIANTS Export TypeOK NoStaleClock NoStaleObs NoticedInv NoOverwrite
CHECK_DEADLOCK FALSE
