CONSTANTS
 Vals = {"a", "b", "c"}
 V0 = "a"
 MaxEdits = 1
 MaxTrans = 1
 AccelAllowed = TRUE
 FullScans = TRUE
 ResetInTransition = TRUE
 ResetBeforeWindow = FALSE
 StrobeInTransition = TRUE
 PartialOutcomes = TRUE
 ShallowChangeTest = FALSE
 CacheFromPoller = FALSE
 FixLevel = 0
INIT Init
NEXT Next
INVARIANTS TypeOK NoStaleClock NoStaleObs NoticedInv NoOverwrite
CONSTRAINT BaselineFirst
CHECK_DEADLOCK FALSE
