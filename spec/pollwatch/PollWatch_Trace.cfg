CONSTANTS
 Want = {"C42_NoStale", "C42_Noticed", "C42_Converges", "C42_TraceAccepted"}
 Vals = {"a"}
 V0 = "a"
 MaxEdits = 1000000
 MaxTrans = 1000000
 AccelAllowed = TRUE
 FullScans = TRUE
 ResetInTransition = TRUE
 ResetBeforeWindow = FALSE
 StrobeInTransition = TRUE
 PartialOutcomes = FALSE
 ShallowChangeTest = FALSE
 CacheFromPoller = FALSE
 FixLevel = 2
SPECIFICATION TSpec
CHECK_DEADLOCK FALSE
