CONSTANTS
 Vals = {"a", "b", "c"}
 V0 = "a"
 MaxEdits = 2
 MaxTrans = 2
 AccelAllowed = TRUE
 FullScans = TRUE
 ResetInTransition = TRUE
 ResetBeforeWindow = FALSE
 StrobeInTransition = TRUE
 PartialOutcomes = TRUE
 ShallowChangeTest = FALSE
 CacheFromPoller = FALSE
 FixLevel = 2
INIT Init
NEXT Next
INVARIANTS TypeOK NoStaleClock NoStaleObs NoticedInv NoOverwrite
CHECK_DEADLOCK FALSE
