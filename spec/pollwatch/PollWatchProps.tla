---- MODULE PollWatchProps ----
EXTENDS Naturals, Sequences
(***************************************************************************)
(* C42 - the two clauses, as operators over values that exist both in the  *)
(* model's state (PollWatch.tla) and in the observations recorded from the *)
(* real local endpoint (PollWatch_Trace.tla).  A "state of the disk" is an *)
(* opaque value: a model value in PollWatch, the independent walker's      *)
(* fingerprint of the root in the trace.  A snapshot is compared with a    *)
(* disk state by equality of the same fingerprint.                         *)
(***************************************************************************)

(* Clause 1.  returned = the snapshot returned by the first Scan issued     *)
(* after a Transition that changed the disk has returned; pre = the         *)
(* snapshot the controller planned that transition from (returned by the   *)
(* preceding Scan); since = every state the disk has been in since the      *)
(* transition began to work on it.  The pre-transition snapshot may only   *)
(* be returned if the disk really was in that state again.                 *)
C42_NoStale(returned, pre, since) == (returned = pre) => (returned \in since)

(* Clause 2.  stale = what the controller knows about the disk (the last    *)
(* snapshot a Scan returned; nothing once a Transition has changed the     *)
(* disk) differs from the disk; seen = a complete polling iteration (scan  *)
(* lock ... comparison) began after the last modification of the disk, i.e. *)
(* a polling interval has fully elapsed; signalled = a change notification  *)
(* is pending or has been delivered since.                                  *)
C42_Noticed(stale, seen, signalled) == (stale /\ seen) => signalled

(***************************************************************************)
(* C08, the part only an endpoint with a running poll watcher can show: a   *)
(* file (or a child of a directory) is edited after the controller's Scan,  *)
(* the endpoint's own polling scans run - and absorb the edit into the      *)
(* endpoint's snapshot and cache - before the controller's Transition over  *)
(* that path arrives.  The edit must survive and be reported.               *)
(* edited = the walker's fingerprint of the edited path right after the     *)
(* edit; after = the same after Transition returned; path = the edited path *)
(* (sequence of names); problems = the paths of the problems returned.      *)
(***************************************************************************)
IsPathPrefix(p, q) == Len(p) <= Len(q) /\ SubSeq(q, 1, Len(p)) = p
C08_EditAfterScanSurvivesPoll(edited, after, path, problems) ==
  /\ after = edited
  /\ \E i \in DOMAIN problems : IsPathPrefix(problems[i], path) \/ IsPathPrefix(path, problems[i])
====
