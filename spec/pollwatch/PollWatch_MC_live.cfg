CONSTANTS
 Vals = {"a", "b", "c"}
 V0 = "a"
 MaxEdits = 2
 MaxTrans = 1
 AccelAllowed = TRUE
 FullScans = FALSE
 ResetInTransition = TRUE
 ResetBeforeWindow = FALSE
 StrobeInTransition = TRUE
 PartialOutcomes = TRUE
 ShallowChangeTest = FALSE
 CacheFromPoller = FALSE
 FixLevel = 2
SPECIFICATION Spec
INVARIANTS NoStaleClock NoticedInv NoOverwrite
PROPERTY Converges
CHECK_DEADLOCK FALSE
