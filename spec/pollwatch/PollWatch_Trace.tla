---- MODULE PollWatch_Trace ----
(***************************************************************************)
(* C42 - validation of behaviours recorded from the real local endpoint     *)
(* (force-poll, 1 s interval, accelerated scans) by harness/cmd/pollwatch.  *)
(*                                                                         *)
(* Records of one case (in the order the events happened; poller events are *)
(* stamped by the verifGate hook, the after-scan one under the scan lock):  *)
(*  Begin          begin, in (the case), kind "gated"|"random", disk         *)
(*  Gate           point, phase "arrive"|"pass", n, snap, disk, t            *)
(*                 poll-before-lock arrive: the previous polling iteration  *)
(*                   is complete (compared, strobed, waited for the tick)   *)
(*                 poll-before-lock pass: the poller goes for the scan lock *)
(*                 poll-after-scan pass: snap = the snapshot it produced    *)
(*                 transition-after-unlock / -before-relock arrive (disk)   *)
(*  Scan           full, snap (returned), err, t0, t1                        *)
(*  PollCall, PollReturn   sig (Poll returned by itself, not abandoned)      *)
(*  TransitionCall old, new; Transition old, new, res, err, disk, t0, t1     *)
(*  Edit           op, disk (walker, after the operation), t                 *)
(*  End            disk, view;  Abort (watchdog: the case is not judged)     *)
(* snap / disk / old / new / res are fingerprints of trees; a snapshot and  *)
(* the walker's view of the root are equal strings iff they describe the    *)
(* same tree (temporaries excluded by both).                                *)
(*                                                                         *)
(* Two things happen per record.  (1) The observation state `o` is updated  *)
(* and the C42 operators of PollWatchProps are evaluated on it - these are  *)
(* the verdicts, they use nothing but recorded values.  (2) For gated cases  *)
(* the PollWatch model state `s` is driven through the stretch the record    *)
(* stands for (the same operators PollWatch_Sched composes) and what the     *)
(* model predicts (snapshots produced and returned, signals, whether the     *)
(* transition changed the disk) is compared with what was observed; a        *)
(* disagreement is counted as drift and the model is re-synchronised.        *)
(* Drift is reported, it is never a verdict.                                *)
(***************************************************************************)
EXTENDS PollWatch, Integers, Sequences, TraceKit

CONSTANT Want
VARIABLES l, fails, o, done
tvars == <<l, fails, s, o, done>>

Slack == 3000     \* ms a Poll kept waiting after the first complete polling iteration that began after the change
Long == 30000     \* ms without any notification, whatever the poller did

O0 == [kind |-> "none", skip |-> TRUE, disk |-> "", view |-> Unknown, lastScan |-> NoVal,
       pre |-> NoVal, since |-> {}, chg |-> FALSE, pb |-> FALSE, tDone |-> 0 - 1, tChange |-> 0,
       lastSig |-> FALSE, owes |-> TRUE, inWin |-> FALSE, tch |-> FALSE, dr |-> <<>>,
       nNoStale |-> 0, nNoticed |-> 0, nObl |-> 0, drift |-> 0, msteps |-> 0, cases |-> 0, aborted |-> 0]

Max(a, b) == IF a > b THEN a ELSE b
Pick(S) == CHOOSE y \in S : TRUE

(* ------------------------ well-formedness ----------------------------- *)
Fields(r, fs) == \A f \in fs : Has(r, f)
WellFormed(r) ==
  /\ Has(r, "ev") /\ Has(r, "cid")
  /\ CASE r.ev = "Begin" -> Fields(r, {"begin", "in", "kind", "disk"}) /\ r.kind \in {"gated", "random"}
       [] r.ev = "Gate" -> /\ Fields(r, {"point", "phase", "n", "snap", "disk", "t"})
                           /\ r.point \in {"poll-before-lock", "poll-after-scan", "transition-after-unlock",
                                           "transition-before-relock"}
                           /\ r.phase \in {"arrive", "pass"}
                           /\ (r.point = "poll-after-scan" => r.snap # "")
                           /\ (r.point = "transition-before-relock" => r.disk # "")
       [] r.ev = "Scan" -> Fields(r, {"full", "snap", "err", "hang", "t0", "t1"}) /\ (r.err = "" /\ ~r.hang => r.snap # "")
       [] r.ev = "PollCall" -> Fields(r, {"t"})
       [] r.ev = "PollReturn" -> Fields(r, {"sig", "t0", "t1"}) /\ r.t0 <= r.t1
       [] r.ev = "TransitionCall" -> Fields(r, {"old", "new", "t"})
       [] r.ev = "Transition" -> Fields(r, {"old", "new", "res", "err", "disk", "t0", "t1"})
       [] r.ev = "Edit" -> Fields(r, {"op", "disk", "t"})
       [] r.ev = "End" -> Fields(r, {"disk", "view"})
       [] r.ev = "Abort" -> TRUE
       [] OTHER -> FALSE

(* ------------------------ (1) observations ---------------------------- *)
\* the walker saw the disk as d: a change resets the polling-iteration bookkeeping
ChangeTo(x, d, t) == IF d # x.disk
                     THEN [x EXCEPT !.disk = d, !.pb = FALSE, !.tDone = 0 - 1, !.tChange = t]
                     ELSE x
\* ... and d is a state the disk has been in since the current transition began to write.  Recorded
\* unconditionally (a write and its reversal may both have happened since the previous observation), except for
\* edits recorded before the transition reached its relock gate: those may precede its write.
Since(x, d) == [x EXCEPT !.since = x.since \cup {d}]
TransitionChanged(r) == r.err = "" /\ r.res # "none" /\ r.res # r.old
ScanOK(r) == r.err = "" /\ ~r.hang

Obs(x, r) ==
  CASE r.ev = "Begin" ->
         [O0 EXCEPT !.kind = r.kind, !.skip = FALSE, !.disk = r.disk, !.since = {r.disk},
                    !.nNoStale = x.nNoStale, !.nNoticed = x.nNoticed, !.nObl = x.nObl, !.drift = x.drift,
                    !.msteps = x.msteps, !.cases = x.cases + 1, !.aborted = x.aborted, !.dr = x.dr]
    [] r.ev = "Gate" /\ r.point = "poll-before-lock" /\ r.phase = "pass" ->
         IF x.tDone < 0 THEN [x EXCEPT !.pb = TRUE] ELSE x
    [] r.ev = "Gate" /\ r.point = "poll-before-lock" /\ r.phase = "arrive" ->
         IF x.pb /\ x.tDone < 0 THEN [x EXCEPT !.tDone = r.t] ELSE x
    [] r.ev = "Gate" /\ r.point = "transition-before-relock" ->
         \* tch: the walker sees another disk than at the last observation before the transition's work: only
         \* the transition can have done that (every external edit is observed together with its effect)
         [Since(ChangeTo(x, r.disk, r.t), r.disk) EXCEPT !.inWin = FALSE, !.tch = (r.disk # x.disk)]
    [] r.ev = "Edit" -> IF x.inWin THEN ChangeTo(x, r.disk, r.t) ELSE Since(ChangeTo(x, r.disk, r.t), r.disk)
    \* since: the states the disk takes from here on (the walker at the relock gate, later edits, the walker at return)
    [] r.ev = "TransitionCall" -> [x EXCEPT !.pre = x.lastScan, !.since = {}, !.chg = FALSE, !.inWin = TRUE, !.tch = FALSE]
    [] r.ev = "Transition" ->
         LET y == [Since(ChangeTo(x, r.disk, r.t1), r.disk) EXCEPT !.inWin = FALSE] IN
         \* the transition changed the disk: disk before # disk after (none / partial / full outcomes alike), or
         \* the results it returned say so
         IF x.tch \/ TransitionChanged(r) THEN [y EXCEPT !.view = Unknown, !.chg = TRUE] ELSE y
    [] r.ev = "Scan" /\ ScanOK(r) ->
         [x EXCEPT !.view = r.snap, !.lastScan = r.snap, !.chg = FALSE, !.owes = FALSE,
                   !.nNoStale = x.nNoStale + (IF x.chg THEN 1 ELSE 0)]
    [] r.ev = "PollReturn" ->
         [x EXCEPT !.lastSig = r.sig, !.owes = x.owes \/ r.sig,
                   !.nNoticed = x.nNoticed + (IF r.sig /\ x.view # x.disk THEN 1 ELSE 0)]
    [] r.ev = "Abort" -> [x EXCEPT !.skip = TRUE, !.aborted = x.aborted + 1]
    [] OTHER -> x

\* a polling interval has fully elapsed for the change the controller does not know about, and the Poll itself has
\* been waiting long enough for a pending signal to be delivered (a controller that has not scanned since its
\* last notification - or never - is owed nothing)
Seen(x, r) == /\ ~x.owes
              /\ r.t1 - r.t0 >= Slack
              /\ \/ x.tDone >= 0 /\ r.t1 - x.tDone >= Slack
                 \/ r.t1 - Max(x.tChange, r.t0) >= Long

Verdicts(i, x, r) ==
     (IF r.ev = "Scan" /\ ScanOK(r) /\ x.chg
      THEN Chk(Want, i, "C42_NoStale", C42_NoStale(r.snap, x.pre, x.since)) ELSE <<>>)
  \o (IF r.ev = "PollReturn"
      THEN Chk(Want, i, "C42_Noticed", C42_Noticed(x.view # x.disk, Seen(x, r), r.sig)) ELSE <<>>)
  \o (IF r.ev = "End" /\ x.lastSig /\ ~x.owes
      THEN Chk(Want, i, "C42_Converges", x.view = r.disk) ELSE <<>>)

(* ------------------------ (2) the model, gated cases ------------------ *)
\* result: [m |-> model state, d |-> 1 if the model disagreed with the observation]
R(m, d) == [m |-> m, d |-> IF d THEN 1 ELSE 0]

MPoll(m, snap) ==
  LET a == IF m.ppc = "tick" THEN PTick(m) ELSE {m}
      b == Bind(Bind(Bind(a, PLock), PScanB), PScanE)
  IN IF b = {} THEN R(m, TRUE)
     ELSE LET y == Pick(b)
              y2 == [y EXCEPT !.snap = [v |-> snap, t |-> y.snap.t], !.ptmp = [v |-> snap, t |-> y.ptmp.t]]
          IN R(Pick(PCmp(y2)), y.snap.v # snap)

MScan(m, r) ==
  LET m1 == IF m.cpc = "slock" THEN m ELSE [m EXCEPT !.cpc = "slock"]
      a == CScanLockF(m1, r.full)
      b == {y \in a : y.cpc = "decide"} \cup Bind(Bind({y \in a : y.cpc = "sB"}, CScanB), CScanE)
  IN IF b = {} THEN R(m, TRUE)
     ELSE LET y == Pick(b) IN
          R([y EXCEPT !.ret = [v |-> r.snap, t |-> y.ret.t], !.cview = r.snap, !.snap = [v |-> r.snap, t |-> y.snap.t]],
            y.ret.v # r.snap \/ m.cpc # "slock")

MPollReturn(m, r) ==
  IF r.sig
  THEN LET m1 == IF m.sig THEN m ELSE [m EXCEPT !.sig = TRUE]
           m2 == IF m1.cpc = "decide" THEN Pick(CNoTransition(m1)) ELSE m1
           b == CPoll(m2)
       IN IF b = {} THEN R(m, TRUE) ELSE R(Pick(b), ~m.sig)
  ELSE R(IF m.cpc = "decide" THEN Pick(CNoTransition(m)) ELSE m, m.sig /\ m.cpc \in {"poll", "decide"})

MTransitionCall(m) ==
  LET b == Bind(CPlan(m, "planned", FALSE), TLock) IN
  IF b = {} THEN R(m, TRUE) ELSE R(Pick(b), FALSE)

MWrite(m, x, r) ==
  IF m.cpc # "twrite" THEN R(m, TRUE)
  ELSE IF r.disk # x.disk
       THEN R(TWriteV(m, r.disk), FALSE)      \* full or partial: the model admits any changed outcome
       ELSE R([m EXCEPT !.cpc = "trelock"], m.content = m.texp /\ ~m.tpart)

MTransitionReturn(m, x, r) ==
  LET m1 == IF m.cpc = "twrite" THEN [m EXCEPT !.cpc = "trelock"] ELSE m
      b == TRelock(m1)
  IN IF b = {} THEN R(m, TRUE) ELSE R(Pick(b), m1.changedT # (x.tch \/ TransitionChanged(r)))

MEdit(m, x, r) ==
  IF r.disk = x.disk THEN R(m, FALSE)
  ELSE LET b == EditV(m, r.disk) IN IF b = {} THEN R(m, TRUE) ELSE R(Pick(b), FALSE)

Model(m, x, r) ==
  CASE r.ev = "Begin" -> R([Init0 EXCEPT !.content = r.disk, !.since = {r.disk}], FALSE)
    [] r.ev = "Gate" /\ r.point = "poll-after-scan" -> MPoll(m, r.snap)
    [] r.ev = "Gate" /\ r.point = "transition-before-relock" -> MWrite(m, x, r)
    [] r.ev = "Scan" /\ ScanOK(r) -> MScan(m, r)
    [] r.ev = "PollReturn" -> MPollReturn(m, r)
    [] r.ev = "TransitionCall" -> MTransitionCall(m)
    [] r.ev = "Transition" -> MTransitionReturn(m, x, r)
    [] r.ev = "Edit" -> MEdit(m, x, r)
    [] OTHER -> R(m, FALSE)

Modelled(r) == r.ev \in {"Scan", "PollReturn", "TransitionCall", "Transition", "Edit"}
               \/ (r.ev = "Gate" /\ r.point \in {"poll-after-scan", "transition-before-relock"})

(* ------------------------ the trace automaton -------------------------- *)
TInit == l = 1 /\ fails = <<>> /\ s = Init0 /\ o = O0 /\ done = FALSE

Step ==
  /\ l <= NRec
  /\ LET r == Trace[l] IN
     IF ~WellFormed(r)
     THEN /\ fails' = Cap(fails \o <<Fail(l, "C42_TraceAccepted")>>)
          /\ o' = [o EXCEPT !.skip = TRUE] /\ UNCHANGED s
     ELSE IF o.skip /\ r.ev # "Begin"
     THEN UNCHANGED <<fails, s, o>>
     ELSE LET track == (IF r.ev = "Begin" THEN r.kind ELSE o.kind) = "gated"
              mr == IF track THEN Model(s, o, r) ELSE R(s, FALSE)
              o1 == Obs(o, r)
          IN /\ fails' = Cap(fails \o Verdicts(l, o, r))
             /\ s' = mr.m
             /\ o' = [o1 EXCEPT !.drift = o1.drift + mr.d,
                                !.dr = IF mr.d = 1 /\ Len(o1.dr) < 20 THEN Append(o1.dr, l) ELSE o1.dr,
                                !.msteps = o1.msteps + (IF track /\ Modelled(r) THEN 1 ELSE 0)]
  /\ l' = l + 1 /\ UNCHANGED done

Finish == /\ l = NRec + 1 /\ ~done
          /\ WriteResult(l - 1, fails,
                         [stat_cases |-> o.cases, stat_aborted |-> o.aborted,
                          stat_nostale_evals |-> o.nNoStale, stat_noticed_evals |-> o.nNoticed,
                          stat_model_steps |-> o.msteps, stat_drift |-> o.drift, drift_at |-> o.dr])
          /\ done' = TRUE /\ UNCHANGED <<l, fails, s, o>>
TSpec == TInit /\ [][Step \/ Finish]_tvars
====
