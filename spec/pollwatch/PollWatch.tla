---- MODULE PollWatch ----
(***************************************************************************)
(* C42 - poll-based watching of the local endpoint                          *)
(* (pkg/synchronization/endpoint/local/endpoint.go: watchPoll, Scan,        *)
(* Transition, scanLock, accelerate, pollSignal).                           *)
(*                                                                         *)
(* Three processes share the endpoint:                                      *)
(*   poller      the watchPoll goroutine: [wait for tick] -> lock ->        *)
(*               accelerate := FALSE -> scan -> accelerate := allowed ->    *)
(*               unlock -> compare -> strobe                                *)
(*   controller  the (single-threaded) user of the Endpoint interface:      *)
(*               [Poll] -> Scan -> (Transition) -> Poll -> ...; it skips     *)
(*               Poll on its first cycle                                    *)
(*   environment external edits of the root (any change, in particular the  *)
(*               exact reversal of what a transition has just written)      *)
(*                                                                         *)
(* The whole state is one record `s`; every action is an operator from a    *)
(* state to the set of its successor states (empty = disabled), named after *)
(* the code section it mirrors.  The same operators are composed into       *)
(* gate-level steps by PollWatch_Sched (schedule generation) and applied to *)
(* recorded observations by PollWatch_Trace.                                *)
(*                                                                         *)
(* The disk is abstracted to one value (Vals) plus a logical clock counting *)
(* writes; a snapshot is the pair [v, t] captured by a walk.  A walk that   *)
(* overlaps a write may see the disk before or after it (ScanB/ScanE).      *)
(*                                                                         *)
(* FixLevel selects the comparison watchPoll makes after its scan:          *)
(*   0  as originally coded: against the poller's private previous scan,    *)
(*      ignored on the first iteration                                      *)
(*   1  also against the endpoint's latest snapshot as it was when the      *)
(*      poller took the lock (a Scan by the controller may have replaced    *)
(*      it), still ignored on the first iteration       (repairs finding 9) *)
(*   2  the comparison with the endpoint's latest snapshot is not ignored   *)
(*      on the first iteration                         (repairs finding 10) *)
(* The registered configurations use 2 (the repaired behaviour).            *)
(***************************************************************************)
EXTENDS Naturals, FiniteSets, TLC, PollWatchProps

CONSTANTS Vals,               \* disk states (strings)
          V0,                 \* initial disk state
          MaxEdits,           \* budget of external edits
          MaxTrans,           \* budget of transitions
          AccelAllowed,       \* scan mode "accelerated"
          FullScans,          \* the controller may also request full scans
          ResetInTransition,  \* Transition clears accelerate after changing the disk   (as coded: TRUE)
          ResetBeforeWindow,  \* ... but does so before releasing the lock (mutant)      (as coded: FALSE)
          StrobeInTransition, \* Transition strobes the poll signal after changing disk  (as coded: TRUE)
          FixLevel,
          PartialOutcomes,    \* a transition may go wrong part-way (disk neither as before nor as planned)
          ShallowChangeTest,  \* mutant: such an outcome is classified "made no changes"   (as coded: FALSE)
          CacheFromPoller     \* mutant: Transition validates the disk against the poller's latest scan instead
                              \* of the scan the controller was given                      (as coded: FALSE)

VARIABLE s

NoVal == "none"          \* no snapshot yet
Unknown == "unknown"     \* the controller knows nothing about the disk
None == [v |-> NoVal, t |-> 0]

Init0 ==
  [content |-> V0, clock |-> 0,
   lock |-> "free", accel |-> FALSE, snap |-> None, sig |-> FALSE,
   \* poller: first iteration does not wait for the tick
   ppc |-> "lock", ptmp |-> None, pprev |-> NoVal, pfirst |-> TRUE, platest |-> NoVal,
   \* controller: first cycle skips Poll
   cpc |-> "slock", ctmp |-> None, ret |-> None, cview |-> Unknown,
   texp |-> NoVal, tnew |-> NoVal, tpart |-> FALSE, changedT |-> FALSE, tW |-> 0, scanStart |-> 0,
   edits |-> 0, trans |-> 0,
   \* monitors (history only)
   pre |-> NoVal, since |-> {V0}, chg |-> FALSE, wrote |-> FALSE, lost |-> FALSE, pfresh |-> FALSE, seen |-> FALSE]

Capture(x) == [v |-> x.content, t |-> x.clock]
\* sequential composition of set-valued steps
Bind(S, F(_)) == UNION {F(x) : x \in S}

\* any write to the disk: bookkeeping shared by Edit and the transition's write
Written(x, v) == [x EXCEPT !.content = v, !.clock = x.clock + 1,
                           !.since = x.since \cup {v}, !.pfresh = FALSE, !.seen = FALSE]

(* ------------------------- watchPoll ---------------------------------- *)
\* select on ticker.C
PTick(x) == IF x.ppc = "tick" THEN {[x EXCEPT !.ppc = "lock"]} ELSE {}
\* lockScanLock; accelerate = false   (platest: the endpoint's snapshot at this moment, FixLevel >= 1)
PLock(x) == IF x.ppc = "lock" /\ x.lock = "free"
            THEN {[x EXCEPT !.lock = "poller", !.accel = FALSE, !.platest = x.snap.v,
                            !.ppc = "scanB", !.pfresh = TRUE]}
            ELSE {}
\* e.scan begins / ends
PScanB(x) == IF x.ppc = "scanB" THEN {[x EXCEPT !.ptmp = Capture(x), !.ppc = "scanE"]} ELSE {}
\* ... e.snapshot = snapshot; accelerate = accelerationAllowed; unlockScanLock
PScanE(x) == IF x.ppc = "scanE"
             THEN {[x EXCEPT !.snap = c, !.ptmp = c, !.accel = AccelAllowed, !.lock = "free", !.ppc = "cmp"]
                     : c \in {x.ptmp, Capture(x)}}
             ELSE {}
\* modified := !snapshot.Equal(previous); previous = snapshot; strobe
PStrobes(x) ==
  LET modified == x.ptmp.v # x.pprev
      stale == x.platest # NoVal /\ x.ptmp.v # x.platest
  IN CASE FixLevel = 0 -> modified /\ ~x.pfirst
       [] FixLevel = 1 -> (modified \/ stale) /\ ~x.pfirst
       [] OTHER -> (modified /\ ~x.pfirst) \/ stale
PCmp(x) == IF x.ppc = "cmp"
           THEN {[x EXCEPT !.sig = x.sig \/ PStrobes(x), !.pprev = x.ptmp.v, !.pfirst = FALSE,
                           !.ppc = "tick", !.seen = x.seen \/ x.pfresh]}
           ELSE {}
PollerSteps(x) == PTick(x) \cup PLock(x) \cup PScanB(x) \cup PScanE(x) \cup PCmp(x)

(* ------------------------- controller --------------------------------- *)
\* Poll: <-pollSignal.Signals()
CPoll(x) == IF x.cpc = "poll" /\ x.sig THEN {[x EXCEPT !.sig = FALSE, !.cpc = "slock"]} ELSE {}
\* Scan: lockScanLock; accelerated (return e.snapshot) or e.scan
CScanLockF(x, full) ==
  IF x.cpc = "slock" /\ x.lock = "free"
  THEN IF x.accel /\ ~full
       THEN {[x EXCEPT !.ret = x.snap, !.cview = x.snap.v, !.cpc = "decide", !.scanStart = x.tW]}
       ELSE {[x EXCEPT !.lock = "ctrl", !.cpc = "sB", !.scanStart = x.tW]}
  ELSE {}
CScanLock(x) == UNION {CScanLockF(x, f) : f \in (IF FullScans THEN {FALSE, TRUE} ELSE {FALSE})}
CScanB(x) == IF x.cpc = "sB" THEN {[x EXCEPT !.ctmp = Capture(x), !.cpc = "sE"]} ELSE {}
CScanE(x) == IF x.cpc = "sE"
             THEN {[x EXCEPT !.snap = c, !.ret = c, !.cview = c.v, !.lock = "free", !.cpc = "decide"]
                     : c \in {x.ctmp, Capture(x)}}
             ELSE {}
\* the controller either has nothing to apply or plans one transition from the snapshot it was given
CNoTransition(x) == IF x.cpc = "decide" THEN {[x EXCEPT !.cpc = "poll", !.chg = FALSE]} ELSE {}
\* (part: whether this transition is going to fail part-way - decided by the environment: content the scan
\* ignored inside a directory to be removed, a child edited after the scan, a staged file that is missing)
CPlan(x, new, part) ==
  IF x.cpc = "decide" /\ x.trans < MaxTrans /\ new # x.ret.v
  THEN {[x EXCEPT !.cpc = "tlock", !.trans = x.trans + 1, !.texp = x.ret.v, !.tnew = new, !.tpart = part,
                  !.pre = x.ret.v, !.chg = FALSE]}
  ELSE {}
CDecide(x) == CNoTransition(x)
              \cup UNION {CPlan(x, v, p) : v \in Vals, p \in (IF PartialOutcomes THEN {FALSE, TRUE} ELSE {FALSE})}
\* Transition: lockScanLock; checks; unlockScanLock
TLock(x) == IF x.cpc = "tlock" /\ x.lock = "free"
            THEN {[x EXCEPT !.cpc = "twrite", !.changedT = FALSE, !.wrote = FALSE,
                            !.accel = IF ResetBeforeWindow THEN FALSE ELSE x.accel]}
            ELSE {}
\* core.Transition.  The disk effect is none, partial or full:
\*  full     the planned state; only if the disk still is what the snapshot the plan was made from said
\*           (the just-in-time checks against lastReturnedScanCache), otherwise
\*  none     nothing is touched;
\*  partial  (tpart) the disk ends up in a state that is neither the previous nor the planned one (or, if it
\*           was not what the plan expected in the first place, possibly untouched).
\* classified = what `transitionMadeChanges` will say (deep comparison of results with Old: TRUE whenever the
\* disk was changed).  lost: a full write replaced a state the controller was never given.
TWritten(x, v, classified) ==
  [Written(x, v) EXCEPT !.cpc = "trelock", !.changedT = classified, !.wrote = TRUE, !.tW = x.clock + 1,
                        !.since = {v}, !.cview = Unknown]
TWriteV(x, v) == TWritten(x, v, TRUE)
TExpected(x) == IF CacheFromPoller THEN x.snap.v ELSE x.texp
TWrite(x) ==
  IF x.cpc # "twrite" THEN {}
  ELSE IF x.tpart
  THEN {TWritten(x, v, ~ShallowChangeTest) : v \in Vals \ {x.content, x.tnew}}
       \cup (IF x.content = TExpected(x) THEN {} ELSE {[x EXCEPT !.cpc = "trelock"]})
  ELSE IF x.content = TExpected(x)
  THEN {[TWriteV(x, x.tnew) EXCEPT !.lost = x.lost \/ x.content # x.ret.v]}
  ELSE {[x EXCEPT !.cpc = "trelock"]}
\* lockScanLock; if accelerate && changed: accelerate = false; if changed: strobe; (deferred) unlock
TRelock(x) == IF x.cpc = "trelock" /\ x.lock = "free"
              THEN {[x EXCEPT !.accel = IF x.accel /\ x.changedT /\ ResetInTransition /\ ~ResetBeforeWindow
                                        THEN FALSE ELSE x.accel,
                              !.sig = x.sig \/ (x.changedT /\ StrobeInTransition),
                              !.chg = x.wrote, !.cpc = "poll"]}
              ELSE {}
ControllerSteps(x) == CPoll(x) \cup CScanLock(x) \cup CScanB(x) \cup CScanE(x) \cup CDecide(x)
                      \cup TLock(x) \cup TWrite(x) \cup TRelock(x)

(* ------------------------- environment -------------------------------- *)
EditV(x, v) == IF x.edits < MaxEdits /\ v # x.content
               THEN {[Written(x, v) EXCEPT !.edits = x.edits + 1]} ELSE {}
Edit(x) == UNION {EditV(x, v) : v \in Vals}

Steps(x) == PollerSteps(x) \cup ControllerSteps(x) \cup Edit(x)

Init == s = Init0
\* one named action per code section (the names TLC's coverage reports)
APTick == s' \in PTick(s)
APLock == s' \in PLock(s)
APScanB == s' \in PScanB(s)
APScanE == s' \in PScanE(s)
APCmp == s' \in PCmp(s)
ACPoll == s' \in CPoll(s)
ACScanLock == s' \in CScanLock(s)
ACScanB == s' \in CScanB(s)
ACScanE == s' \in CScanE(s)
ACDecide == s' \in CDecide(s)
ATLock == s' \in TLock(s)
ATWrite == s' \in TWrite(s)
ATRelock == s' \in TRelock(s)
AEdit == s' \in Edit(s)
PollerAct == APTick \/ APLock \/ APScanB \/ APScanE \/ APCmp
ControllerAct == ACPoll \/ ACScanLock \/ ACScanB \/ ACScanE \/ ACDecide \/ ATLock \/ ATWrite \/ ATRelock
Next == PollerAct \/ ControllerAct \/ AEdit
Spec == /\ Init /\ [][Next]_s
        /\ WF_s(PollerAct) /\ WF_s(ControllerAct)
        /\ SF_s(APLock) /\ SF_s(ACScanLock) /\ SF_s(ATLock) /\ SF_s(ATRelock)

(* ------------------------- properties --------------------------------- *)
\* clause 1, strong (model only): a Scan issued after a disk-changing Transition returned never returns
\* a snapshot captured before that transition wrote
NoStaleClock == s.cpc = "decide" => s.ret.t >= s.scanStart
\* clause 1 in observable terms (the operator evaluated on the recorded Scan returns)
NoStaleObs == (s.cpc = "decide" /\ s.chg) => C42_NoStale(s.ret.v, s.pre, s.since)
\* clause 2 as a safety property: once a polling iteration that began after the last modification has
\* completed, a controller waiting in Poll whose knowledge differs from the disk has a signal pending
NoticedInv == s.cpc = "poll" => C42_Noticed(s.cview # s.content, s.seen, s.sig)
\* (C08, seen from here) a transition never replaces a state of the disk the controller was not given, however
\* many polling scans have absorbed it into the endpoint's own snapshot and cache in the meantime
NoOverwrite == ~s.lost
\* clause 2 as liveness: with finitely many edits and transitions the controller ends up knowing the disk
Converges == <>[](s.cview = s.content)

\* state constraint for the documentation runs of the originally coded comparison (FixLevel 0): the poller's
\* baseline scan precedes everything the controller does, which leaves finding 9 as the only counterexample
BaselineFirst == s.pfirst => s.cpc = "slock"

TypeOK == /\ s.lock \in {"free", "poller", "ctrl"}
          /\ s.content \in Vals /\ s.cview \in Vals \cup {Unknown}
          /\ (s.lock = "poller") = (s.ppc \in {"scanB", "scanE"})
          /\ (s.lock = "ctrl") = (s.cpc \in {"sB", "sE"})
====
