CONSTANT Want = {"C08_EditAfterScanSurvivesPoll"}
SPECIFICATION TSpec
CHECK_DEADLOCK FALSE
