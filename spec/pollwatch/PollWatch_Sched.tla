---- MODULE PollWatch_Sched ----
(***************************************************************************)
(* Gate-level schedules of PollWatch.  The four verifGate points and the    *)
(* Endpoint calls are the only places where the harness can order the real  *)
(* goroutines, so a realisable schedule is a sequence of *stretches*, each   *)
(* the composition of the PollWatch actions a goroutine performs between    *)
(* two such places:                                                         *)
(*   P        one polling iteration (released at poll-before-lock, runs to   *)
(*            the next poll-before-lock): PTick? PLock PScanB PScanE PCmp    *)
(*   S / SF   a Scan call (accelerated if possible / full)                   *)
(*   W        a Poll call that returns (a signal is pending)                 *)
(*   Tl(v)    a Transition call up to transition-after-unlock (Tlp: one that   *)
(*            is going to fail part-way)                                     *)
(*   Tw       ... its disk work, up to transition-before-relock              *)
(*   Tr       ... the rest, Transition returns                               *)
(*   E(v)     an external edit making the disk v                             *)
(* Between Tl, Tw and Tr the other stretches may run: the poller inside the  *)
(* unlocked window, an edit that reverts the write before the lock is       *)
(* re-taken.  TLC enumerates every schedule within the budgets; each         *)
(* distinct history of length MaxLen (or ending earlier for lack of budget) *)
(* is printed once as a BEHAVIOUR line and executed on the real endpoint.   *)
(*                                                                         *)
(* Modes: {"sched"} explores only the gate-level schedules; with "fine" in  *)
(* the set the same TLC run also explores the fine-grained PollWatch!Next   *)
(* from the same initial state (two disjoint parts of one state graph; used *)
(* by the quick tier to pay for one JVM start instead of two).              *)
(***************************************************************************)
EXTENDS PollWatch, Sequences, Json

CONSTANTS MaxLen, MaxP, MaxS, MaxW, Modes
VARIABLES hist, mode


MP(x) == IF x.ppc \in {"tick", "lock"} /\ x.lock = "free"
         THEN Bind(Bind(Bind(Bind(IF x.ppc = "tick" THEN PTick(x) ELSE {x}, PLock), PScanB), PScanE), PCmp)
         ELSE {}
MS(x, full) == LET a == CScanLockF(x, full) IN
               {y \in a : y.cpc = "decide"} \cup Bind(Bind({y \in a : y.cpc = "sB"}, CScanB), CScanE)
MW(x) == IF x.cpc = "decide" THEN Bind(CNoTransition(x), CPoll) ELSE CPoll(x)
MTl(x, v, part) == Bind(CPlan(x, v, part), TLock)
MTw(x) == TWrite(x)
MTr(x) == TRelock(x)
ME(x, v) == EditV(x, v)

Count(a) == Cardinality({i \in DOMAIN hist : hist[i].a = a})
L(a, v) == [a |-> a, v |-> v]

\* the set of <<label, successor>> pairs
Moves(x) ==
     {<<L("P", ""), y>> : y \in IF Count("P") < MaxP THEN MP(x) ELSE {}}
  \cup {<<L("S", ""), y>> : y \in IF Count("S") + Count("SF") < MaxS THEN MS(x, FALSE) ELSE {}}
  \cup {<<L("SF", ""), y>> : y \in IF FullScans /\ Count("S") + Count("SF") < MaxS /\ x.accel THEN MS(x, TRUE) ELSE {}}
  \cup {<<L("W", ""), y>> : y \in IF Count("W") < MaxW THEN MW(x) ELSE {}}
  \cup UNION {{<<L("Tl", v), y>> : y \in MTl(x, v, FALSE)} : v \in Vals}
  \cup UNION {{<<L("Tlp", v), y>> : y \in IF PartialOutcomes THEN MTl(x, v, TRUE) ELSE {}} : v \in Vals}
  \cup {<<L("Tw", ""), y>> : y \in MTw(x)}
  \cup {<<L("Tr", ""), y>> : y \in MTr(x)}
  \cup UNION {{<<L("E", v), y>> : y \in ME(x, v)} : v \in Vals}

SInit == s = Init0 /\ hist = <<>> /\ mode \in Modes
SNext == /\ mode = "sched" /\ Len(hist) < MaxLen
         /\ \E m \in Moves(s) : hist' = Append(hist, m[1]) /\ s' = m[2]
         /\ UNCHANGED mode
FNext == mode = "fine" /\ Next /\ UNCHANGED <<hist, mode>>
SSpec == SInit /\ [][SNext \/ FNext]_<<s, hist, mode>>

\* a schedule is exported when it is full or nothing more can be done within the budgets (a transition that was
\* begun but not finished is finished by the driver)
Complete == mode = "sched" /\ (Len(hist) = MaxLen \/ Moves(s) = {})
Export == Complete => PrintT(<<"BEHAVIOUR", ToJson([steps |-> hist])>>)

====
