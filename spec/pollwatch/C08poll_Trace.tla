---- MODULE C08poll_Trace ----
(***************************************************************************)
(* C08 (extra run of C08's check, driver `pollwatch --prop C08`): one       *)
(* record per scenario on a real local endpoint with force-poll watching:   *)
(*   Scan -> external edit of a path the plan will replace or delete ->     *)
(*   exactly `polls` polling scans complete (verifGate) -> Transition.      *)
(* Record: in (the scenario), path, edited, after, problems, polls          *)
(* (polling scans observed between the edit and the call), planned (the     *)
(* Transition call was made and returned), old/new/res, disk.               *)
(***************************************************************************)
EXTENDS PollWatchProps, TLC, TraceKit

CONSTANT Want
VARIABLES l, fails, judged, done
tvars == <<l, fails, judged, done>>

WellFormed(r) ==
  /\ Has(r, "ev") /\ r.ev = "EditAfterScan"
  /\ \A f \in {"in", "path", "edited", "after", "problems", "polls", "planned"} : Has(r, f)
  /\ r.planned /\ r.polls = r["in"].polls /\ r.edited # "nil"

TInit == l = 1 /\ fails = <<>> /\ judged = 0 /\ done = FALSE
Step == /\ l <= NRec
        /\ LET r == Trace[l] IN
           IF WellFormed(r)
           THEN /\ fails' = Cap(fails \o Chk(Want, l, "C08_EditAfterScanSurvivesPoll",
                                  C08_EditAfterScanSurvivesPoll(r.edited, r.after, r.path, r.problems)))
                /\ judged' = judged + 1
           ELSE \* a scenario that did not run as prescribed cannot be judged: that is a failure, not a pass
                /\ fails' = Cap(fails \o <<Fail(l, "C08_EditAfterScanSurvivesPoll")>>)
                /\ UNCHANGED judged
        /\ l' = l + 1 /\ UNCHANGED done
Finish == /\ l = NRec + 1 /\ ~done
          /\ WriteResult(l - 1, fails, [stat_judged |-> judged])
          /\ done' = TRUE /\ UNCHANGED <<l, fails, judged>>
TSpec == TInit /\ [][Step \/ Finish]_tvars
====
