---- MODULE HashAbort_MC ----
(***************************************************************************)
(* A scan that fails or is cancelled part-way, followed by a retry that     *)
(* re-uses the same hasher, baseline, caches and re-check set.  For every   *)
(* (old disk, new disk) pair of AccelScan_MC's universe, every file of the   *)
(* new disk as the place where hashing is abandoned and every kind of abort  *)
(* (cancellation, read error, size mismatch): the retried accelerated scan   *)
(* and the retried cold scan equal an undisturbed cold scan with a fresh     *)
(* hasher - a later scan's digests are independent of earlier aborted        *)
(* scans - and within a scan that goes on after a read error or size         *)
(* mismatch every other file still gets its own digest.                      *)
(* ResetBefore = TRUE is the code (Reset before the copy); FALSE is the       *)
(* control variant "Reset after Sum", which must violate the invariant.       *)
(***************************************************************************)
EXTENDS AccelScan_MC

CONSTANT ResetBefore

Kinds == {"cancel", "readerr", "mismatch"}

Inv_AbortIndependent ==
  new.t # "none" =>
  LET o == Dress(<<>>, old) n == Dress(<<>>, new)
      base == ColdScan(o, Cfg)
      cold == ColdScan(n, Cfg)
      R == RC(Changed(<<>>, o, n))
      files == {p \in Nodes(cold.content) : At(cold.content, p).k = "file"}
      Good(a) == SameSnapshot(a, cold) /\ SameDigestCache(a, cold)
  IN StampsTellContent(o, n) =>
     \A p \in files : \A kind \in Kinds :
       LET ab == [path |-> p, kind |-> kind]
           a1 == AScanH(n, Cfg, base, R, base.cache, base.icache, TRUE, <<>>, ab, ResetBefore)
           retry == AScanH(n, Cfg, base, R, base.cache, base.icache, TRUE, a1.hasher, NoAbort, ResetBefore)
           c1 == AScanH(n, Cfg, NoBaseline, {}, <<>>, <<>>, TRUE, <<>>, ab, ResetBefore)
           cretry == AScanH(n, Cfg, NoBaseline, {}, <<>>, <<>>, TRUE, c1.hasher, NoAbort, ResetBefore)
       IN /\ Good(retry) /\ Good(cretry)
          /\ (kind = "cancel" => ~c1.ok)
          \* the scan goes on after a read error / size mismatch: only the abandoned file is a problem
          /\ (kind # "cancel" => c1.ok /\ c1.content = SetAt(cold.content, p, Prob))
====
