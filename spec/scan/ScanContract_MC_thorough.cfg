CONSTANT Deep = TRUE
SPECIFICATION Spec
INVARIANT Inv_C12Design
CHECK_DEADLOCK FALSE
